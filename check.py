#!/usr/bin/env python3
"""Driver for the property checks of /verif (see DESIGN.md section 2).

  python3 check.py C06                     quick tier
  python3 check.py C06 --tier thorough
  python3 check.py C06 --replay replay/C06-....json
  python3 check.py --setup                 build every test binary once (warms the Go build cache)

Exit 0: property held on everything explored (KNOWN-FINDING lines may be printed).
Exit 1: "VIOLATION property=<id> replay=<path>" was printed.
Exit 2: infrastructure trouble / inconclusive (build failure, timeout, worker death without a case).
"""
import argparse, glob, hashlib, json, os, re, shutil, signal, struct, subprocess, sys, tempfile, time

VERIF = os.path.dirname(os.path.abspath(__file__))
HARNESS = os.path.join(VERIF, "harness")
BUILD = os.path.join(VERIF, ".build")
NCPU = os.cpu_count() or 4

# per property: package dir, race build, shards per tier, overall timeout (s) per tier
PROPS = {
    "C01": dict(pkg="c01", hang=180, quick_scale=20, thorough_scale=8, shards=(8, 16), timeout=(300, 3600)),
    "C07": dict(pkg="c07", shards=(6, 12), timeout=(600, 5400), fuzz=[("FuzzBoc", 300, 6)]),
    "C02": dict(pkg="c02", hang=180, quick_scale=24, thorough_scale=10, shards=(8, 16), timeout=(300, 3600)),
    "C03": dict(pkg="c03", hang=180, quick_scale=20, thorough_scale=5, shards=(8, 16), timeout=(600, 3600), typereg=True),
    "C09": dict(pkg="c09", shards=(2, 8), timeout=(900, 5400)),
    "C10": dict(pkg="c10", shards=(2, 8), timeout=(600, 3600)),
    "C11": dict(pkg="c11", shards=(4, 16), timeout=(600, 3600)),
    "C12": dict(pkg="c12", race=True, shards=(3, 8), timeout=(900, 5400)),
    "C13": dict(pkg="c13", race=True, shards=(4, 16), timeout=(600, 5400)),
    "C14": dict(pkg="c14", hang=180, shards=(4, 16), timeout=(600, 3600)),
    "C15": dict(pkg="c15", quick_scale=2, shards=(4, 16), timeout=(600, 3600)),
    "C16": dict(pkg="c16", hang=180, quick_scale=30, thorough_scale=8, shards=(8, 16), timeout=(600, 3600)),
    "C17": dict(pkg="c17", hang=180, quick_scale=24, thorough_scale=4, shards=(8, 16), timeout=(300, 3600)),
    "C18": dict(pkg="c18", hang=180, quick_scale=60, thorough_scale=8, shards=(8, 16), timeout=(600, 3600)),
    "C19": dict(pkg="c19", hang=180, quick_scale=2, shards=(2, 8), timeout=(600, 3600)),
    "C20": dict(pkg="c20", quick_scale=40, thorough_scale=10, shards=(8, 16), timeout=(600, 3600), typereg=True),
    "C08": dict(pkg="c08", shards=(6, 12), timeout=(900, 5400), typereg=True, fuzz=[("FuzzTL", 180, 2), ("FuzzTLB", 180, 2)]),
    "C04": dict(pkg="c04", hang=180, quick_scale=45, thorough_scale=10, shards=(8, 16), timeout=(600, 3600), typereg=True),
    "C05": dict(pkg="c05", hang=180, quick_scale=40, thorough_scale=2, shards=(8, 16), timeout=(600, 3600)),
    "C06": dict(pkg="c06", quick_scale=36, thorough_scale=5, shards=(8, 16), timeout=(300, 3600)),
}

RULES = {}


def goenv():
    env = dict(os.environ)
    env.update(GOFLAGS="-mod=mod", GOPROXY="off", GOSUMDB="off", GOTOOLCHAIN="local", CGO_ENABLED=env.get("CGO_ENABLED", "1"))
    env.setdefault("HOME", "/root")
    return env


def repo_dir():
    return os.path.abspath(os.environ.get("VERIF_REPO", "/repo"))


def modfile_args():
    """The harness module replaces tongo by a directory; VERIF_REPO selects another tree (mutants)."""
    repo = repo_dir()
    if repo == "/repo":
        return []
    tag = hashlib.sha1(repo.encode()).hexdigest()[:10]
    mod = os.path.join(HARNESS, ".alt-%s.mod" % tag)
    text = open(os.path.join(HARNESS, "go.mod")).read().replace("=> /repo", "=> " + repo)
    with open(mod, "w") as f:
        f.write(text)
    shutil.copy(os.path.join(HARNESS, "go.sum"), mod[:-4] + ".sum")
    return ["-modfile=" + mod]


def build(pid, race=False):
    cfg = PROPS[pid]
    os.makedirs(BUILD, exist_ok=True)
    tag = "" if repo_dir() == "/repo" else "-" + hashlib.sha1(repo_dir().encode()).hexdigest()[:6]
    out = os.path.join(BUILD, "%s%s%s.test" % (pid, "-race" if race else "", tag))
    if cfg.get("typereg"):
        # the list of library types is scanned from the tree under test before every build
        r = subprocess.run(["go", "run"] + modfile_args() + ["./internal/typereg/scan", "-repo", repo_dir(), "-out", "internal/typereg/registry_gen.go"],
                           cwd=HARNESS, env=goenv(), stdout=subprocess.PIPE, stderr=subprocess.STDOUT, text=True)
        if r.returncode != 0:
            print(r.stdout)
            print("INFRA: type registry scan failed")
            return None
    cmd = ["go", "test", "-c", "-tags", "verif", "-vet=off", "-o", out] + modfile_args()
    if race:
        cmd.append("-race")
    cmd.append("./" + cfg["pkg"])
    t0 = time.time()
    p = subprocess.run(cmd, cwd=HARNESS, env=goenv(), stdout=subprocess.PIPE, stderr=subprocess.STDOUT, text=True)
    if p.returncode != 0:
        print(p.stdout)
        print("INFRA: build of %s failed (not a verdict about the property)" % pid)
        return None
    return out, time.time() - t0


def load_known():
    p = os.path.join(VERIF, "known_findings.json")
    try:
        return json.load(open(p)).get("findings", [])
    except Exception:
        return []


def merge_stats(files):
    checks, hashes = {}, set()
    for f in files:
        try:
            d = json.load(open(f))
        except Exception:
            continue
        for name, s in d.get("checks", {}).items():
            m = checks.setdefault(name, dict(evaluations=0, nontrivial=0, classes={}, known={}, samples=[], exhaustive=[], extra={}))
            m["evaluations"] += s.get("evaluations", 0)
            m["nontrivial"] += s.get("nontrivial", 0)
            for k, v in (s.get("classes") or {}).items():
                m["classes"][k] = m["classes"].get(k, 0) + v
            for k, v in (s.get("known") or {}).items():
                m["known"][k] = m["known"].get(k, 0) + v
            for smp in s.get("samples") or []:
                if len(m["samples"]) < 6:
                    m["samples"].append(smp)
            for e in s.get("exhaustive") or []:
                if e not in m["exhaustive"]:
                    m["exhaustive"].append(e)
            for k, v in (s.get("extra") or {}).items():
                if isinstance(v, (int, float)) and isinstance(m["extra"].get(k), (int, float)):
                    m["extra"][k] += v
                else:
                    m["extra"].setdefault(k, v)
        try:
            raw = open(f + ".hashes", "rb").read()
            hashes.update(struct.unpack("<%dQ" % (len(raw) // 8), raw))
        except Exception:
            pass
    return checks, len(hashes)


def write_evidence(pid, tier, seed, checks, distinct, wall, violations, extra_notes):
    rule = RULES.get(pid) or ""
    try:
        rule = open(os.path.join(HARNESS, PROPS[pid]["pkg"], "RULE.txt")).read().strip()
    except Exception:
        pass
    samples = []
    names = sorted(checks)
    i = 0
    while len(samples) < 10 and any(checks[n]["samples"] for n in names):
        for n in names:
            if checks[n]["samples"] and len(samples) < 10:
                samples.append(checks[n]["samples"].pop(0))
        i += 1
    ev = {
        "property_id": pid,
        "tier": tier,
        "seed": seed,
        "level": "exploration",
        "coverage": {
            "evaluations": sum(c["evaluations"] for c in checks.values()),
            "distinct_nontrivial": distinct,
            "rule": rule,
            "samples": samples,
            "exhaustive": False,
            "enumerated_subdomains": [e for n in names for e in checks[n]["exhaustive"]],
            "per_check": {n: dict(evaluations=checks[n]["evaluations"], nontrivial_executions=checks[n]["nontrivial"],
                                  classes=checks[n]["classes"], extra=checks[n]["extra"]) for n in names},
            "known_findings_observed": {k: v for n in names for k, v in checks[n]["known"].items()},
        },
        "assumptions": extra_notes,
        "wall_s": round(wall, 2),
        "violations": violations,
    }
    evdir = os.path.join(VERIF, "evidence")
    if repo_dir() != "/repo":
        # runs against another tree (sensitivity runs on mutants) never touch the committed evidence
        evdir = os.path.join(BUILD, "evidence-other-tree")
    os.makedirs(evdir, exist_ok=True)
    path = os.path.join(evdir, pid + ".json")
    with open(path, "w") as f:
        json.dump(ev, f, indent=1, sort_keys=False)
    return ev


def run_children(cmds, timeout):
    """cmds: list of (argv, env, logfile). Runs all in parallel; returns list of (rc, timed_out)."""
    procs = []
    for argv, env, log in cmds:
        lf = open(log, "w")
        procs.append((subprocess.Popen(argv, env=env, stdout=lf, stderr=subprocess.STDOUT, cwd=env.get("VERIF_CWD", HARNESS), start_new_session=True), lf))
    deadline = time.time() + timeout
    res = []
    for p, lf in procs:
        left = max(1, deadline - time.time())
        to = False
        try:
            rc = p.wait(timeout=left)
        except subprocess.TimeoutExpired:
            to = True
            try:
                os.killpg(p.pid, signal.SIGKILL)
            except Exception:
                pass
            rc = p.wait()
        lf.close()
        res.append((rc, to))
    return res


def main():
    ap = argparse.ArgumentParser()
    ap.add_argument("pid", nargs="?")
    ap.add_argument("--tier", default=os.environ.get("VERIF_TIER", "quick"))
    ap.add_argument("--replay")
    ap.add_argument("--setup", action="store_true")
    ap.add_argument("--keep", action="store_true", help="keep the scratch directory of the run")
    a = ap.parse_args()

    if a.setup:
        ok = True
        for pid, cfg in sorted(PROPS.items()):
            r = build(pid, cfg.get("race", False))
            print("setup %s: %s" % (pid, "ok %.1fs" % r[1] if r else "FAILED"))
            ok = ok and bool(r)
        sys.exit(0 if ok else 2)

    pid = a.pid
    if pid not in PROPS:
        print("unknown property", pid)
        sys.exit(2)
    cfg = PROPS[pid]
    tier = "thorough" if a.tier == "thorough" else "quick"
    ti = 1 if tier == "thorough" else 0
    try:
        seed = int(os.environ.get("VERIF_SEED", "1"))
    except ValueError:
        seed = 1
    if seed <= 0:
        seed = 1
    t0 = time.time()
    b = build(pid, cfg.get("race", False))
    if not b:
        sys.exit(2)
    binary = b[0]
    scratch = tempfile.mkdtemp(prefix="verif-%s-" % pid, dir=BUILD)
    rdir = os.path.join(scratch, "replay")
    os.makedirs(rdir)
    base = goenv()
    base.update(VERIF_TIER=tier, VERIF_SEED=str(seed), VERIF_REPLAY_DIR=rdir, VERIF_KNOWN=os.path.join(VERIF, "known_findings.json"),
                VERIF_REPO=repo_dir(), VERIF_SCRATCH=scratch, VERIF_DIR=VERIF)
    pkgdir = os.path.join(HARNESS, cfg["pkg"])
    base["VERIF_CWD"] = pkgdir

    if a.replay:
        try:
            rdoc = json.load(open(a.replay))
        except Exception:
            rdoc = {}
        if rdoc.get("check") == "(process)":
            # a failure of the whole test process (runtime fatal error inside the library): there is no tape to
            # replay; the record holds the crash log, and the tier is simply run again on the current tree
            print("process-level failure record, not replayable from a tape; recorded:\n%s\n--- running the %s tier again ---" % (rdoc.get("error", "")[:3000], tier))
            a.replay = None
    if a.replay:
        env = dict(base, VERIF_REPLAY=os.path.abspath(a.replay))
        p = subprocess.run([binary, "-test.run", "^TestReplay$", "-test.v", "-test.timeout", "600s"], env=env, cwd=pkgdir,
                           stdout=subprocess.PIPE, stderr=subprocess.STDOUT, text=True)
        print(p.stdout[-8000:])
        shutil.rmtree(scratch, ignore_errors=True)
        if "REPLAY-FAIL" in p.stdout or p.returncode != 0:
            print("VIOLATION property=%s replay=%s" % (pid, os.path.abspath(a.replay)))
            sys.exit(1)
        print("replay passes")
        sys.exit(0)

    nsh = cfg["shards"][ti]
    timeout = cfg["timeout"][ti]
    cmds = []
    # shard 0 also runs the saved regression inputs
    regress = os.path.join(VERIF, "corpus", "regress", pid)
    for i in range(nsh):
        env = dict(base, VERIF_SHARD="%d/%d" % (i, nsh), VERIF_STATS=os.path.join(scratch, "stats-%d.json" % i),
                   VERIF_JOURNAL=os.path.join(scratch, "journal-%d.json" % i), VERIF_DEFAULT_HANG=str(cfg.get("hang", 0)))
        if i == 0 and os.path.isdir(regress):
            env["VERIF_REGRESS_DIR"] = regress
        run = cfg.get("run", "^Test")
        argv = [binary, "-test.run", run, "-test.timeout", "%ds" % (timeout + 60)]
        if tier == "thorough" and cfg.get("thorough_scale"):
            env["VERIF_COUNT_SCALE"] = str(cfg["thorough_scale"])
        if tier == "quick" and cfg.get("quick_scale"):
            env["VERIF_COUNT_SCALE"] = str(cfg["quick_scale"])
        if cfg.get("gomaxprocs"):
            env["GOMAXPROCS"] = str(cfg["gomaxprocs"])
        cmds.append((argv, env, os.path.join(scratch, "log-%d.txt" % i)))
    fuzz_specs = cfg.get("fuzz", []) if tier == "thorough" else []
    for k, (target, secs, workers) in enumerate(fuzz_specs):
        fdir = os.path.join(scratch, "fuzz-%d" % k)
        os.makedirs(fdir)
        env = dict(base, VERIF_SHARD="%d/%d" % (nsh + k, nsh + len(fuzz_specs)), VERIF_CWD=fdir)
        env.pop("VERIF_STATS", None)
        argv = [binary, "-test.run", "^$", "-test.fuzz", "^%s$" % target, "-test.fuzztime", "%ds" % secs,
                "-test.fuzzcachedir", os.path.join(fdir, "cache"), "-test.parallel", str(workers), "-test.timeout", "%ds" % (secs + 600)]
        cmds.append((argv, env, os.path.join(scratch, "log-%d.txt" % (nsh + k))))
    results = run_children(cmds, timeout)
    fuzz_execs = 0
    for k in range(len(fuzz_specs)):
        lg = open(os.path.join(scratch, "log-%d.txt" % (nsh + k)), errors="replace").read()
        m = re.findall(r"execs: (\d+)", lg)
        if m:
            fuzz_execs += int(m[-1])

    violations, infra = [], []
    for i, (rc, to) in enumerate(results):
        log = open(os.path.join(scratch, "log-%d.txt" % i), errors="replace").read()
        if rc == 0:
            continue
        reps = sorted(glob.glob(os.path.join(rdir, "*-s%d-%d.json" % (seed, i))))
        if reps:
            # failing cases that were written before the shard ended (or was stopped at the budget) are verdicts
            for r in reps:
                violations.append((r, log))
            continue
        if to:
            infra.append("shard %d exceeded the overall budget of %ds (inconclusive)" % (i, timeout))
            continue
        j = os.path.join(scratch, "journal-%d.json" % i)
        died = rc < 0 or "fatal error" in log or "goroutine stack exceeds" in log or "panic:" in log or "unexpected signal" in log
        if os.path.exists(j) and died:
            dst = os.path.join(rdir, "%s-journal-s%d-%d.json" % (pid, seed, i))
            doc = json.load(open(j))
            doc["error"] = "the test process died while executing this case:\n" + log[-3000:]
            json.dump(doc, open(dst, "w"), indent=1)
            violations.append((dst, log))
            continue
        # the Go runtime ended the process for something the library did (these cannot be recovered and leave no
        # journal when the check has no checkpoint): a verdict, with the log as the record of the failing run
        m = re.search(r"fatal error: (concurrent map[^\n]*|all goroutines are asleep - deadlock!|sync: [^\n]*)", log)
        if m and "github.com/tonkeeper/tongo" in log[m.start():]:
            dst = os.path.join(rdir, "%s-fatal-s%d-%d.json" % (pid, seed, i))
            at = m.start()
            json.dump({"property": pid, "check": "(process)", "tape": [],
                       "error": "the Go runtime stopped the test process: %s\n%s" % (m.group(0), log[at:at + 6000])}, open(dst, "w"), indent=1)
            violations.append((dst, log[at:at + 3000]))
            continue
        infra.append("shard %d exited with %d and left no replay file:\n%s" % (i, rc, log[-4000:]))

    checks, distinct = merge_stats(glob.glob(os.path.join(scratch, "stats-*.json")))
    wall = time.time() - t0
    if fuzz_specs:
        for c in checks.values():
            pass
        checks.setdefault("native-fuzz", dict(evaluations=0, nontrivial=0, classes={}, known={}, samples=[], exhaustive=[], extra={}))
        checks["native-fuzz"]["evaluations"] = fuzz_execs
        checks["native-fuzz"]["extra"] = {"targets": [f[0] for f in fuzz_specs], "seconds": [f[1] for f in fuzz_specs],
                                           "note": "coverage-guided go test -fuzz executions of the same oracle; not counted in distinct_nontrivial"}
    notes = ["reference models in harness/internal/ref are the trusted base (DESIGN.md section 3)",
             "search is sampled: rapid seed derived from VERIF_SEED=%d, %d shard(s)" % (seed, nsh)]
    if sum(c["evaluations"] for c in checks.values()) > 0:
        write_evidence(pid, tier, seed, checks, distinct, wall, len(violations), notes)

    known = {f["id"]: f for f in load_known() if f.get("status") == "finding"}
    seen = {}
    for c in checks.values():
        for k, v in c["known"].items():
            seen[k] = seen.get(k, 0) + v
    for k, v in sorted(seen.items()):
        f = known.get(k, {})
        print("KNOWN-FINDING: property=%s %s — %s (observed %d times in this run)" % (pid, k, f.get("what", ""), v))

    if violations:
        os.makedirs(os.path.join(VERIF, "replay"), exist_ok=True)
        replay_out = os.path.join(VERIF, "replay") if repo_dir() == "/repo" else os.path.join(BUILD, "replay-other-tree")
        os.makedirs(replay_out, exist_ok=True)
        shown = set()
        for r, log in violations:
            dst = os.path.join(replay_out, os.path.basename(r))
            shutil.copy(r, dst)
            try:
                err = json.load(open(dst)).get("error", "")
            except Exception:
                err = ""
            if dst not in shown:
                print("---- failing case (%s):\n%s" % (os.path.basename(dst), err[:3000]))
                print("VIOLATION property=%s replay=%s" % (pid, dst))
                shown.add(dst)
        if not a.keep:
            shutil.rmtree(scratch, ignore_errors=True)
        sys.exit(1)
    if not a.keep:
        shutil.rmtree(scratch, ignore_errors=True)
    if infra:
        for m in infra:
            print("INFRA:", m)
        sys.exit(2)
    tot = sum(c["evaluations"] for c in checks.values())
    print("OK property=%s tier=%s seed=%d evaluations=%d distinct_nontrivial=%d wall=%.1fs" % (pid, tier, seed, tot, distinct, wall))
    sys.exit(0)


if __name__ == "__main__":
    main()
