#!/usr/bin/env python3
"""Regenerates MANIFEST.json from the table below (kept as code so that the manifest is always valid)."""
import json, subprocess
CLAIMED = {
 "C11": dict(technique="property-based testing: real liteclient connections against an independent in-process ADNL server with generated keys, packet sequences, TCP segmentation plans and single transit faults; differential frame parsing; one exhaustively enumerated fault/split grid",
             text="Real liteclient.Connection objects (handshake, Send, Responses) and ParsePacket run against a reference ADNL server written from the protocol description: per connection a drawn server key, 1..40 packets in both directions with boundary sizes (thorough: the 8 MiB limit), a segmentation plan with cuts inside every frame field, and at most one fault (bit flip, byte substitution, truncation, resend) classified by frame and field. The server must receive exactly the client's payloads, the client must deliver exactly the intact frames before the first affected one and nothing else; one four-frame stream is enumerated over every split, bit flip, three substitutions per byte, truncation and resend. Sampling plus one exhaustive grid.",
             note="Trusted: harness/internal/adnlsrv (no tongo imports; crypto/ecdh + math/big key conversion; TL ids computed as CRC32 of the schema text). Faulted cases wait a 200 ms quiet period; real time with slack.",
             design="DESIGN.md section 4 C11"),
 "C12": dict(technique="property-based concurrency testing: batches of scripted client/server scenarios under the race detector with history invariants (answer routing by F(q), deadlines, self-reconnect, goroutine count), schedule perturbation by GOMAXPROCS/yields",
             text="Each case runs 4..8 scenarios in parallel: a real client with 1..4 connections and 1..64 caller goroutines against the reference server whose per-query script answers now / late / reordered / 2..6 times / never / for an unknown id, interleaves pongs, unknown constructors, tiny and truncated packets and unsolicited auth nonces, and drops connections (FIN/RST on the n-th query, while idle, during redial; failing redials). Invariants over the recorded history: a success equals F(own query) and is no phantom; an error is explained by the script; withheld answers time out by deadline + slack; all callers return (else a deadlock report with grouped stacks); the client is back with all connections within the documented time and later calls succeed; 200 further calls do not grow the goroutine count; a race report is a violation. Sampling of interleavings; schedule-dependent failures may not replay (full history is printed).",
             note="Trusted: harness/internal/adnlsrv and the scenario oracle in harness/c12; a 5 ms heartbeat measures scheduler lag and scales or suspends real-time verdicts so that a loaded machine cannot produce a false alarm.",
             design="DESIGN.md section 4 C12"),
 "C14": dict(technique="property-based testing: generated sends for every wallet version against a recording blockchain double; independent signature verification (reference hasher + crypto/ed25519), bit-flip sweeps, differential decode against a reference body layout writer/reader",
             text="For V3R1..V5R1 and HighLoadV2R2, keys, seqno/expiry over the full uint32 range, 0..limit(+1) messages of every kind and all build paths, the captured external message must verify under the wallet key only, stop verifying for flipped bits of the signed body and signature (exhaustive for small bodies), decode (by the reference and by tongo's decoders) to the requested ids, seqno, expiry, messages and modes in order, equal the cell the reference writes from the documented layout, and limit+1 messages must be refused without sending. Sampling; exhaustive bit flips for small bodies.",
             note="Trusted: harness/internal/walletref (layouts from contract documentation; code cells taken from tongo's table as data and anchored to ten published code hashes), R2 hasher, crypto/ed25519.",
             design="DESIGN.md section 4 C14"),
 "C15": dict(technique="property-based testing: address derivation against an independent state-init reference for all versions (workchains enumerated), model-based send against a scripted blockchain double with generated account states and poll histories",
             text="Addresses for all twelve constructible versions, keys, sub-wallet/network ids and every workchain -128..127 must equal the reference hash of the reference state-init through every API and differ when exactly one input differs; sends against generated account states must take the on-chain seqno / attach the init exactly as the property says and propagate errors; confirmation is judged from the recorded poll history with real-time slack; seed phrases are compared with an independent derivation. Sampling; workchains enumerated.",
             note="Trusted: harness/internal/walletref, harness/internal/wtest (blockchain double). Real-time waits of 100-300 ms with a 2 s slack.",
             design="DESIGN.md section 4 C15"),
 "C13": dict(technique="exhaustive enumeration of the selection grid plus property-based concurrency testing (rapid-drawn real-time schedules under the race detector) through the verif hook",
             text="updateBest is enumerated over all pools of 1..3 (quick) / 1..4 (thorough, ~2x10^8 configurations) members x 56 member states x both strategies x previous choice x two id assignments against an oracle written from the property text; drawn real-time schedules of head bursts, steady sub-target traffic, waiters with timeouts and cancels, best-connection switches and BestMasterchainClient callers run under -race with GOMAXPROCS 1/2/16, followed by a sentinel probe that the pool is not blocked; an enumerated burst stress targets the notify/unsubscribe lock interplay. Liveness is judged as safety with generous real-time slack and a scheduler-lag guard. Exhaustive for the grid; sampling of interleavings for schedules.",
             note="Hook: liteapi/pool/verif_hooks.go (build tag verif, add-only). Trusted: the fake connection type and the schedule oracle of harness/c13. A violation that needs one specific interleaving may stay unseen and may not replay; the full history and a goroutine dump are put in the replay file.",
             design="DESIGN.md section 4 C13"),
 "C17": dict(technique="property-based testing: round trips and differential comparison with independent reference encoders (own CRC16, base64, base32, shard arithmetic); exhaustive single-character substitution sweeps and prefix-length enumeration",
             text="Account ids go through raw text, user-friendly form (all four flag combinations, both alphabets), JSON, TL and TL-B and back and are compared with bytes produced by an independent encoder; all 48 x 63 single-character substitutions of sampled user-friendly strings and all 55 x 31 of ADNL addresses must be rejected; every anycast depth 1..30 and every shard prefix length 0..63 is enumerated with sampled prefixes for parse/encode, account matching, block matching and parent/child inverses. Exhaustive in the enumerated dimensions, sampled in addresses.",
             note="Trusted: harness/internal/addrref (no encoding-library imports; anchored to two public address strings and the CRC16 check value).",
             design="DESIGN.md section 4 C17"),
 "C16": dict(technique="property-based testing: reference-written messages and generated transactions decoded by tongo, hash compared with an independent hasher; metamorphic equivalence classes for the normalised hash; every real transaction/message checked against the block's cell set",
             text="Messages are produced by an independent block.tlb writer, so the expected identity hash is known without tongo; decoding with/without caching hashers must report exactly that hash; the normalised hash is checked against the canonical re-encoding and as a metamorphic relation (invariant under source, fee, state-init, body placement; sensitive to destination and body). All ~1300 real transactions and ~2800 messages must report hashes of cells that occur in the block. Sampling for synthetic inputs, complete for the real data set.",
             note="Trusted: harness/internal/tlbref (message writer), R2 hasher, R3 parser. Synthetic transactions are encoded by tongo's own encoder (only the hash relation is asserted for them).",
             design="DESIGN.md section 4 C16"),
 "C18": dict(technique="property-based testing: generated dictionaries and trees, proofs validated by an independent Merkle-proof verifier (reference hasher, parallel walk of original and pruned tree)",
             text="Proofs produced by ProveKeyInHashmap and by the MerkleProver cursor API are parsed by the reference parser and verified independently: stored hash/depth of the root, level-0 hash of the pruned tree, every pruned branch commits to the subtree it replaces, the proven value is readable from the proof, absent keys are refused. Sampling.",
             note="Trusted: R2 (level-aware hasher, anchored to real Merkle cells), R3 parser, R4 dictionary codec (label decoding).",
             design="DESIGN.md section 4 C18"),
 "C09": dict(technique="property-based testing of a program generator: random schemas -> tongo's schema compiler -> compiled scratch module -> differential check of every generated type against an independent TL reference codec; determinism by running the generator twice",
             text="Random TL schemas over the supported subset (conditional fields on every bit 0..31, vectors of builtin and declared types, bare and boxed references, unions of 2..5 constructors, functions) are compiled by tongo's tl/parser; the output must be deterministic, compile and vet; inside the compiled binary every generated type and function is exercised with generated values against the reference TL codec (bytes, decode, request decoder table, client method framing). For TL-B, random declarations over the constructs of abi/schemas (uintN/intN/bitsN, ## n, #, Bool, Coins, MsgAddress, VarUInteger n, Cell, Maybe, Maybe ^, Either T ^T, Either A B, ^T, ^[...], HashmapE n T, tagged unions with # and $ tags) are compiled by tlb/parser (deterministic, compiles, vets) and every generated struct is driven through tlb.Marshal/Unmarshal against an independent bit-exact reference writer (dictionaries compared by decoded key/value sets). Sampling; batches bounded by compile time.",
             note="Trusted: harness/internal/tlref (R5), tlbind, tlrun, tlbrun (own TL-B subset parser and reference writer); the go toolchain at run time. Subset limits listed in harness/c09/RULE.txt.",
             design="DESIGN.md section 4 C09"),
 "C10": dict(technique="property-based testing: differential comparison of every lite-server binding type with an independent TL reference codec driven by the checked-in schema; exhaustive byte-length sweep; generator-vs-artifact regeneration check",
             text="The reference codec parses the checked-in lite_api.tl at run time; for every declaration and function, generated values (all mode-bit subsets, byte strings of every length 0..1100 and around 2^16/2^24, vectors, nested unions) must marshal to exactly the reference bytes and unmarshal from them, requests must carry the schema's function id and be recognised by the request decoder; hand-written TL types are covered; liteclient/generated.go and tlb/integers.go must equal what the repository's generators produce (modulo gofmt). Sampling plus exhaustive length sweep.",
             note="Trusted: harness/internal/tlref (R5) anchored by the CRC32 agreement of 70 of 74 schema ids; tlbind reflection mapping by field position; the go toolchain at run time for the regeneration check.",
             design="DESIGN.md section 4 C10"),
 "C19": dict(technique="property-based testing: generated TON Connect proofs with single-field mutations and exhaustive bit sweeps against an independent reference judge (own signer, HMAC and state-init analysis)",
             text="For eleven wallet versions, keys, workchains, domains, lifetimes, payload kinds and executor behaviours a reference model decides whether a presented proof must be accepted; tongo must return (true, wallet key, nil) exactly then and (false, nil, error) otherwise, never panic; 32 mutation classes and exhaustive single-bit sweeps of signature, address, timestamp, payload and domain are included; ParseStateInit is fuzzed with constructed and damaged state-inits. Sampling; time boundaries probed at +-30 s only.",
             note="Trusted: harness/internal/tcref (independent ton-proof digest, payload HMAC, state-init analyser), crypto/ed25519 of the standard library.",
             design="DESIGN.md section 4 C19"),
 "C04": dict(technique="property-based testing: differential comparison of tongo's encoder (and decoder) with an independent bit-exact TL-B reference writer; exhaustive width/boundary enumeration for primitives; decode/re-encode of real chain records",
             text="An independent writer for the TL-B primitives and the core block.tlb records produces the expected cell for every generated integer type at all boundary values, for a struct exercising every tag and combinator, for every union constructor tag of the registry and for random Message values; tongo's cell must be identical bit for bit and reference for reference, and the decoder must read the reference cell as the same value (so symmetric encoder/decoder mistakes are caught). ~4000 real messages and transactions are decoded and re-encoded to the source hash. Exhaustive in the width/boundary dimension, sampled elsewhere.",
             note="Trusted: harness/internal/tlbref (written from the schema text quoted in the repository), R1/R2. Records containing non-empty dictionaries are compared by hash only when the re-encoding happens to be identical (label forms are not unique).",
             design="DESIGN.md section 4 C04"),
 "C05": dict(technique="property-based testing: model-based put/get/update sequences over all key types against a Go map and an independent reference dictionary codec (differential decode, foreign label forms, insertion-order metamorphic relation)",
             text="For every key type used in the library, generated key sets in adversarial shapes are inserted in drawn orders with updates; the encoding is decoded by tongo and by an independent decoder and compared with a map model in ascending key-bit order; the encoding hash must not depend on insertion order; dictionaries written by the reference encoder with every label form must decode, answer lookups and accept updates. Sampling.",
             note="Trusted: harness/internal/ref/hashmap.go (R4 dictionary codec written from the Hashmap/HmLabel schema), reference hasher R2. Values are 32-bit integers (leaf payload without references).",
             design="DESIGN.md section 4 C05"),
 "C08": dict(technique="fuzzing: structure-aware mutation of valid TL-B cell trees and TL byte encodings for every scanned decode target, with a totality/resource oracle",
             text="Every TL-B decode target of the scanned registry receives mutated valid encodings, random exotic DAGs, sharing bombs with bounded unfolding and long chains; every TL type receives mutated valid encodings with hostile length prefixes and vector counts; helpers that sit on network data receive corrupted, zero-root and multi-root bags. Oracle: value or error, never a panic, no hang, allocation within a stated linear bound. Sampling; the liteapi.Client helpers that need a live connection are not covered yet.",
             note="Trusted: allocation accounting via runtime.MemStats.TotalAlloc in a process that runs one case at a time; hang watchdog of 30 s per case (normal cost is microseconds to milliseconds).",
             design="DESIGN.md section 4 C08"),
 "C20": dict(technique="property-based testing: reflection-driven values for every type with both JSON directions, marshal/unmarshal round trip with a semantic comparator, plus mutated-document robustness",
             text="The set of types is computed from the scanned registry (both json.Marshaler and json.Unmarshaler); generated values are marshalled alone and inside struct/pointer/slice/map containers, must be valid JSON and parse back to an equal value; mutated documents must give an error or a value, never a panic. One unrepaired finding is excluded by construction and counted (empty external address). Sampling.",
             note="Trusted: generator/comparator of harness/internal/tlbgen; encoding/json for syntax validity.",
             design="DESIGN.md section 4 C20"),
 "C03": dict(technique="property-based testing: reflection-driven value generation for every scanned library type, encode/decode round trip with a semantic comparator and re-encode hash equality",
             text="Every exported TL-B type of tlb, wallet and abi (scanned from the current sources, so new types are picked up) plus instantiations of the generic combinators receives generated values from its TL-B domain; Marshal must fail cleanly or produce a cell that decodes to an equal value with the same constructors and re-encodes to the same hash; panics are violations. Per-type counts, constructor coverage, encoder-not-implemented and not-a-TL-B-type lists are reported in the evidence. Sampling; a symmetric encoder/decoder mistake is invisible here and is the job of C04.",
             note="Trusted: the reflective generator and comparator (harness/internal/tlbgen), the domain rules of the special-type table (each derived from the schema quoted at the type), reference hasher R2 for hash equality.",
             design="DESIGN.md section 4 C03"),
 "C07": dict(technique="fuzzing: structure-aware hostile BOC generation (lying serialiser, mutations, exhaustive single-byte faults) under rapid, plus coverage-guided go test -fuzz, with a soundness/resource oracle",
             text="Hostile inputs are generated by mutating valid bags (tongo's own output, reference output in every header variant, real files), by a reference serialiser that lies in exactly one header or cell field (counts, widths, indices, self/backward refs, stored-hash flag, short exotic cells, >4 refs, CRC, trailing bytes, deep chains, sharing ladders) and by random bytes behind each magic; every truncation and five substitutions of every byte of a dozen small valid bags are enumerated. Oracle: no panic / fatal error / hang, allocation bounded linearly in the input, returned graph sound (independent iterative walker), hashing/printing/serialising bounded and consistent. Thorough adds 5 minutes of coverage-guided native fuzzing of the same oracle. Sampling; enumerated faults are complete for the named seeds.",
             note="Trusted: the harness walker and allocation accounting (runtime.MemStats.TotalAlloc delta; one case at a time per process); the reference parser is only used to cross-check hashes of inputs both parsers accept.",
             design="DESIGN.md section 4 C07"),
 "C01": dict(technique="property-based testing: generated cell DAGs and header variants, round-trip plus differential against an independent reference BOC parser/serialiser",
             text="Generated DAGs are serialised by tongo with all eight option combinations and each output is validated by an independent parser (flags, CRC, index offsets, de-duplication, hashes) and by tongo itself; structurally equal builds must give identical bytes; bags written by the reference serialiser in every header variant (legacy magics, index, CRC, cache bits, wide fields, permuted order, stored hashes, multi-root, exotic cells) must parse to the intended hashes; every real BOC in the repository is round-tripped. Sampling; no absence proof.",
             note="Trusted: harness/internal/ref (R2 hasher, R3 parser and serialiser; stdlib CRC32C). Multi-root and exotic inputs only enter through the parse path because the public API cannot build them.",
             design="DESIGN.md section 4 C01"),
 "C02": dict(technique="property-based testing: generated exotic-cell DAGs and all real cells in the repository, differential against an independent reference hasher",
             text="Generated well-formed DAGs over all five cell types and level masks 0..7 are parsed by tongo and every cell is hashed through every entry point (with/without caching hasher, before/after reads, parsed vs built in memory vs produced by the proof builder) and compared with an independent implementation of the TON representation hash; all ~75 000 real cells in the repository are compared as well, and the Merkle cells among them validate the reference hasher against chain ground truth. Sampling for the generated part; complete for the enumerated bit lengths and for the real data set.",
             note="Trusted: harness/internal/ref/cell.go (R2) — itself anchored to the hashes stored inside real Merkle proof/update cells.",
             design="DESIGN.md section 4 C02"),
 "C06": dict(technique="property-based testing: rapid-generated operation sequences against an ideal bit-list model, plus exhaustive offset x width grids",
             text="Generated write/read/peek/skip sequences on BitString and Cell are compared step by step with an independent ideal bit list; the integer fast paths are enumerated over every offset 0..1023 and width 0..64, big-integer reads over widths 0..257, the Fift-hex/JSON form over every length. Sampling, not proof: absence of violations is established only for the enumerated grids.",
             note="Trusted: harness/internal/ref/bits.go (R1, ~150 lines, math/big based) and the reference cell hasher R2 for the NewCellWithBits hash comparison.",
             design="DESIGN.md section 4 C06"),
}
REASONS_PENDING = "check not built yet in this revision of /verif (work in progress; DESIGN.md section 4 describes the planned generated-input check)"
props = [json.loads(l)["id"] for l in open("properties.jsonl")]
hooks_commits = []
try:
    out = subprocess.run(["git", "-C", "/repo", "log", "--format=%H %s"], capture_output=True, text=True).stdout
    hooks_commits = [l.split()[0] for l in out.splitlines() if " verif hook" in l or l.split(" ", 1)[1].startswith("verif:")]
except Exception:
    pass
m = {
 "version": 1,
 "setup_cmd": "python3 check.py --setup",
 "hooks": {
  "guard": "verif",
  "enable": "go build tag: the harness builds tongo with `-tags verif` (check.py passes it to `go test -c`); hook files carry `//go:build verif`",
  "baseline_off_cmd": "cd /repo && GOFLAGS=-mod=mod GOPROXY=off go test -json -vet=off -count=1 -timeout 25m ./...",
  "source_commits": hooks_commits,
  "add_only": True,
 },
 "engines": [{"name": "verifharness", "path": "harness", "serves_properties": sorted(CLAIMED),
              "kind_free_text": "Go module: rapid v1.3.0 property tests + enumerations + native go fuzz targets, one package per property, driven by check.py"}],
 "checks": [],
 "not_applicable": [],
 "notes": "python3 check.py <id> [--tier quick|thorough] [--replay file]; VERIF_SEED selects the rapid seed; VERIF_REPO (default /repo) selects the tree under test. Exit 2 = inconclusive/infrastructure, never a verdict.",
}
for p in props:
    if p in CLAIMED:
        c = CLAIMED[p]
        m["checks"].append({
          "property_id": p,
          "quick_cmd": "python3 check.py %s --tier quick" % p,
          "thorough_cmd": "python3 check.py %s --tier thorough" % p,
          "evidence_file": "/verif/evidence/%s.json" % p,
          "replay_cmd_template": "python3 check.py %s --replay {path}" % p,
          "engine": "verifharness",
          "level_claimed": {"category": "exploration", "text": c["text"], "design_ref": c["design"]},
          "level_note": c["note"],
          "technique": c["technique"],
        })
    else:
        m["not_applicable"].append({"property_id": p, "reason": REASONS_PENDING})
json.dump(m, open("MANIFEST.json", "w"), indent=1)
print("claimed", len(m["checks"]), "pending", len(m["not_applicable"]))
