#!/usr/bin/env python3
"""Regenerates MANIFEST.json from the table below (kept as code so that the manifest is always valid)."""
import json, subprocess
CLAIMED = {
 "C06": dict(technique="property-based testing: rapid-generated operation sequences against an ideal bit-list model, plus exhaustive offset x width grids",
             text="Generated write/read/peek/skip sequences on BitString and Cell are compared step by step with an independent ideal bit list; the integer fast paths are enumerated over every offset 0..1023 and width 0..64, big-integer reads over widths 0..257, the Fift-hex/JSON form over every length. Sampling, not proof: absence of violations is established only for the enumerated grids.",
             note="Trusted: harness/internal/ref/bits.go (R1, ~150 lines, math/big based) and the reference cell hasher R2 for the NewCellWithBits hash comparison.",
             design="DESIGN.md section 4 C06"),
}
REASONS_PENDING = "check not built yet in this revision of /verif (work in progress; DESIGN.md section 4 describes the planned generated-input check)"
props = [json.loads(l)["id"] for l in open("properties.jsonl")]
hooks_commits = []
try:
    out = subprocess.run(["git", "-C", "/repo", "log", "--format=%H %s"], capture_output=True, text=True).stdout
    hooks_commits = [l.split()[0] for l in out.splitlines() if " verif hook" in l or l.split(" ", 1)[1].startswith("verif:")]
except Exception:
    pass
m = {
 "version": 1,
 "setup_cmd": "python3 check.py --setup",
 "hooks": {
  "guard": "verif",
  "enable": "go build tag: the harness builds tongo with `-tags verif` (check.py passes it to `go test -c`); hook files carry `//go:build verif`",
  "baseline_off_cmd": "cd /repo && GOFLAGS=-mod=mod GOPROXY=off go test -json -vet=off -count=1 -timeout 25m ./...",
  "source_commits": hooks_commits,
  "add_only": True,
 },
 "engines": [{"name": "verifharness", "path": "harness", "serves_properties": sorted(CLAIMED),
              "kind_free_text": "Go module: rapid v1.3.0 property tests + enumerations + native go fuzz targets, one package per property, driven by check.py"}],
 "checks": [],
 "not_applicable": [],
 "notes": "python3 check.py <id> [--tier quick|thorough] [--replay file]; VERIF_SEED selects the rapid seed; VERIF_REPO (default /repo) selects the tree under test. Exit 2 = inconclusive/infrastructure, never a verdict.",
}
for p in props:
    if p in CLAIMED:
        c = CLAIMED[p]
        m["checks"].append({
          "property_id": p,
          "quick_cmd": "python3 check.py %s --tier quick" % p,
          "thorough_cmd": "python3 check.py %s --tier thorough" % p,
          "evidence_file": "/verif/evidence/%s.json" % p,
          "replay_cmd_template": "python3 check.py %s --replay {path}" % p,
          "engine": "verifharness",
          "level_claimed": {"category": "exploration", "text": c["text"], "design_ref": c["design"]},
          "level_note": c["note"],
          "technique": c["technique"],
        })
    else:
        m["not_applicable"].append({"property_id": p, "reason": REASONS_PENDING})
json.dump(m, open("MANIFEST.json", "w"), indent=1)
print("claimed", len(m["checks"]), "pending", len(m["not_applicable"]))
