#!/usr/bin/env python3
"""Rewrites the table of seeded changes in DESIGN.md (between the SEEDED-TABLE markers) from seeded/*/meta.json
and seeded/REMARKS.json."""
import glob, json, os, re
V = os.path.dirname(os.path.abspath(__file__))
rem = json.load(open(os.path.join(V, "seeded/REMARKS.json")))
rows = []
def _key(d):
    b = os.path.basename(d)
    return (b[:3], int(b[4:]))
for d in sorted(glob.glob(os.path.join(V, "seeded/C??-*")), key=_key):
    m = json.load(open(os.path.join(d, "meta.json")))
    name = os.path.basename(d)
    s = " ".join(m["source_meta"]["summary"].split())[:150].replace("|", "/")
    walls = [str(m["ran"]["checks"][p]["wall_s"]) for p in m["caught_by"]]
    ok = "yes" if m["confirmed_breaks_property_and_passes_suite"] else "NO"
    rows.append("| %s | %s | %s | %s | %s | %s |" % (name, s, ok, ",".join(m["caught_by"]) or "MISSED", ",".join(walls), rem.get(name, "")))
missed_first = sum(1 for r in rem.values() if r.startswith("missed at first"))
strengthened = len([n for n in rem if rem[n].startswith(("missed", "needed", "TL-B generator"))])
not_caught = len([n for n in rem if rem[n].startswith("NOT")])
head = ("%d changes: %d caught by the quick tier of some check as it was when the change arrived, %d after the strengthening noted in the "
        "last column, %d not caught (see its remark).\n\n| seeded change | what it breaks (author's summary, truncated) | confirmed | caught by | wall s | remark |\n|---|---|---|---|---|---|\n"
        % (len(rows), len(rows) - strengthened - not_caught, strengthened, not_caught))
txt = open(os.path.join(V, "DESIGN.md")).read()
a, b = "<!-- SEEDED-TABLE-BEGIN -->", "<!-- SEEDED-TABLE-END -->"
assert a in txt and b in txt
txt = txt[:txt.index(a) + len(a)] + "\n" + head + "\n".join(rows) + "\n" + txt[txt.index(b):]
open(os.path.join(V, "DESIGN.md"), "w").write(txt)
print(len(rows), "rows")
