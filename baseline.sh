#!/bin/bash
# Runs the packages of the pinned baseline suite with the verif guard OFF and reports every test of
# BASELINE.stable_pass that does not pass. Exit 0 iff all 232 pass.  Usage: baseline.sh [repo dir]
REPO=${1:-/repo}
export GOFLAGS=-mod=mod GOPROXY=off GOSUMDB=off GOTOOLCHAIN=local
cd "$REPO" || exit 2
PKGS=$(python3 -c "
import json
b=json.load(open('/root/.vp/BASELINE.json'))
print(' '.join(sorted({'./'+x.split('::')[0].replace('github.com/tonkeeper/tongo/','') for x in b['stable_pass']})))")
go test -json -vet=off -count=1 -timeout 25m $PKGS 2>/dev/null | python3 -c "
import json,sys
b=json.load(open('/root/.vp/BASELINE.json'))
want=set(b['stable_pass']); got=set()
for l in sys.stdin:
    try: e=json.loads(l)
    except Exception: continue
    if e.get('Action')=='pass' and e.get('Test'): got.add(e['Package']+'::'+e['Test'])
miss=sorted(want-got)
print('baseline: %d of %d stable tests pass' % (len(want&got), len(want)))
for m in miss: print('  MISSING', m)
sys.exit(1 if miss else 0)"
rc=$?
git -C "$REPO" checkout -- go.sum go.mod 2>/dev/null
exit $rc
