// Package tcref is the trusted reference for property C19 (TON Connect ton_proof): the signed message,
// the server payload and the wallet state-init, written from the protocol description with the
// standard library and the reference cell model only. It imports no tongo package.
package tcref

import (
	"crypto/ed25519"
	"crypto/hmac"
	"crypto/sha256"
	"encoding/base64"
	"encoding/binary"
	"encoding/hex"

	"verifharness/internal/ref"
)

// ---------------------------------------------------------------------------------------------
// signed message
//
//	message = "ton-proof-item-v2/" ‖ workchain (4 bytes BE) ‖ address hash (32) ‖ domain length (4 bytes LE) ‖
//	          domain ‖ timestamp (8 bytes LE) ‖ payload
//	signed  = sha256(0xffff ‖ "ton-connect" ‖ sha256(message))

// Message builds the inner message with an explicit domain-length field (so that a test can lie in it).
func Message(wc int32, addr []byte, domainLenField [4]byte, domain string, ts int64, payload string) []byte {
	m := []byte("ton-proof-item-v2/")
	var w [4]byte
	binary.BigEndian.PutUint32(w[:], uint32(wc))
	m = append(m, w[:]...)
	m = append(m, addr...)
	m = append(m, domainLenField[:]...)
	m = append(m, domain...)
	var t [8]byte
	binary.LittleEndian.PutUint64(t[:], uint64(ts))
	m = append(m, t[:]...)
	m = append(m, payload...)
	return m
}

func LenLE(n int) (f [4]byte) {
	binary.LittleEndian.PutUint32(f[:], uint32(n))
	return
}

// Wrap turns the inner message into the 32 bytes that are signed.
func Wrap(message []byte) []byte {
	inner := sha256.Sum256(message)
	full := append([]byte{0xff, 0xff}, "ton-connect"...)
	full = append(full, inner[:]...)
	out := sha256.Sum256(full)
	return out[:]
}

// Digest is the value an honest wallet signs.
func Digest(wc int32, addr []byte, domain string, ts int64, payload string) []byte {
	return Wrap(Message(wc, addr, LenLE(len(domain)), domain, ts, payload))
}

// Verify says whether sigB64 is a 64-byte Ed25519 signature by key over the honest digest of the
// presented fields.
func Verify(key []byte, wc int32, addr []byte, domain string, ts int64, payload, sigB64 string) bool {
	sig, err := base64.StdEncoding.DecodeString(sigB64)
	if err != nil || len(sig) != ed25519.SignatureSize || len(key) != ed25519.PublicKeySize {
		return false
	}
	return ed25519.Verify(ed25519.PublicKey(key), Digest(wc, addr, domain, ts, payload), sig)
}

// ---------------------------------------------------------------------------------------------
// server payload: hex of  nonce (8) ‖ unix time (8 bytes BE) ‖ first 16 bytes of HMAC-SHA256(secret, first 16 bytes)

func PayloadBytes(secret string, nonce []byte, field uint64) []byte {
	p := make([]byte, 16, 32)
	copy(p[:8], nonce)
	binary.BigEndian.PutUint64(p[8:], field)
	mac := hmac.New(sha256.New, []byte(secret))
	mac.Write(p)
	return append(p, mac.Sum(nil)[:16]...)
}

func Payload(secret string, nonce []byte, field uint64) string {
	return hex.EncodeToString(PayloadBytes(secret, nonce, field))
}

// PayloadInfo: wellFormed = hex of exactly 32 bytes; authentic = the tag was made under secret.
func PayloadInfo(secret, payload string) (field uint64, wellFormed, authentic bool) {
	b, err := hex.DecodeString(payload)
	if err != nil || len(b) != 32 {
		return 0, false, false
	}
	field = binary.BigEndian.Uint64(b[8:16])
	mac := hmac.New(sha256.New, []byte(secret))
	mac.Write(b[:16])
	return field, true, hmac.Equal(mac.Sum(nil)[:16], b[16:])
}

// ---------------------------------------------------------------------------------------------
// wallet state-init
//
//	_ split_depth:(Maybe (## 5)) special:(Maybe TickTock) code:(Maybe ^Cell) data:(Maybe ^Cell) library:(HashmapE 256 SimpleLib) = StateInit;

type Layout int

const (
	NoLayout     Layout = iota
	LayoutV1V2          // seqno:32 public_key:256
	LayoutV3            // seqno:32 subwallet:32 public_key:256
	LayoutV4            // seqno:32 subwallet:32 public_key:256 plugins:(HashmapE 8+256 ..)
	LayoutV5Beta        // seqno:33 wallet_id:80 public_key:256 extensions:(HashmapE 256 ..)
	LayoutV5R1          // signature_allowed:1 seqno:32 wallet_id:32 public_key:256 extensions:(HashmapE 256 ..)
	LayoutLockup        // seqno:32 subwallet:32 public_key:256 config_public_key:256 ... (universal lockup wallet)
)

// KeyOffset is the bit position of the owner's public key in the data cell.
func KeyOffset(l Layout) int {
	switch l {
	case LayoutV1V2:
		return 32
	case LayoutV3, LayoutV4, LayoutLockup:
		return 64
	case LayoutV5Beta:
		return 113
	case LayoutV5R1:
		return 65
	}
	return -1
}

type DataParams struct {
	Seqno     uint64
	SubWallet uint64 // subwallet id / 32-bit wallet id
	NetID     uint32 // V5Beta
	Workchain uint8  // V5Beta
}

// DataCell builds the persistent data of a freshly made wallet of the given layout.
func DataCell(l Layout, key []byte, p DataParams) *ref.RCell {
	var b ref.Bits
	switch l {
	case LayoutV1V2:
		b = b.AppendUint(p.Seqno&0xffffffff, 32).AppendBytes(key)
	case LayoutV3:
		b = b.AppendUint(p.Seqno&0xffffffff, 32).AppendUint(p.SubWallet&0xffffffff, 32).AppendBytes(key)
	case LayoutV4:
		b = b.AppendUint(p.Seqno&0xffffffff, 32).AppendUint(p.SubWallet&0xffffffff, 32).AppendBytes(key).AppendUint(0, 1)
	case LayoutV5Beta:
		b = b.AppendUint(p.Seqno&0x1ffffffff, 33).AppendUint(uint64(p.NetID), 32).AppendUint(uint64(p.Workchain), 8).
			AppendUint(0, 8).AppendUint(p.SubWallet&0xffffffff, 32).AppendBytes(key).AppendUint(0, 1)
	case LayoutV5R1:
		b = b.AppendUint(1, 1).AppendUint(p.Seqno&0xffffffff, 32).AppendUint(p.SubWallet&0xffffffff, 32).AppendBytes(key).AppendUint(0, 1)
	case LayoutLockup:
		cfg := sha256.Sum256(key)
		b = b.AppendUint(p.Seqno&0xffffffff, 32).AppendUint(p.SubWallet&0xffffffff, 32).AppendBytes(key).AppendBytes(cfg[:]).
			AppendUint(0, 1).AppendUint(0, 4).AppendUint(0, 1).AppendUint(0, 4).AppendUint(0, 1)
	default:
		panic("tcref: no layout")
	}
	return ref.NewRCell(b, false)
}

type SIOpts struct {
	SplitDepth int // -1 = absent
	Special    int // -1 = absent, else 2 bits tick,tock
	Library    *ref.RCell
}

func PlainSI() SIOpts { return SIOpts{SplitDepth: -1, Special: -1} }

// StateInit builds the state-init cell; a nil code or data leaves that Maybe empty.
func StateInit(code, data *ref.RCell, o SIOpts) *ref.RCell {
	var b ref.Bits
	var refs []*ref.RCell
	if o.SplitDepth >= 0 {
		b = b.AppendUint(1, 1).AppendUint(uint64(o.SplitDepth), 5)
	} else {
		b = b.AppendUint(0, 1)
	}
	if o.Special >= 0 {
		b = b.AppendUint(1, 1).AppendUint(uint64(o.Special), 2)
	} else {
		b = b.AppendUint(0, 1)
	}
	for _, c := range []*ref.RCell{code, data, o.Library} {
		if c != nil {
			b = b.AppendUint(1, 1)
			refs = append(refs, c)
		} else {
			b = b.AppendUint(0, 1)
		}
	}
	return ref.NewRCell(b, false, refs...)
}

// Known is one row of the table of known wallet codes.
type Known struct {
	Name     string
	CodeHash string // raw 32 bytes
	Layout   Layout
}

// Info is what the reference learnt about a base64 state-init string.
type Info struct {
	Decoded  bool   // standard base64
	Bag      bool   // a well-formed bag of cells
	Roots    int    // number of roots
	Hash     []byte // representation hash of the single root
	Exotic   bool   // root or data is a special cell: the reference makes no statement (a special code cell, e.g. a library reference, is fine)
	Shape    bool   // the root reads as a StateInit
	HasCode  bool
	HasData  bool
	Known    *Known // code hash found in the table
	Key      []byte // owner's public key by the layout of the known wallet (nil if the data is too short or no layout)
	DataBits int
}

func Analyse(b64 string, table []Known) (in Info) {
	raw, err := base64.StdEncoding.DecodeString(b64)
	if err != nil {
		return
	}
	in.Decoded = true
	roots, err := ref.ParseBOC(raw)
	if err != nil {
		return
	}
	in.Bag = true
	in.Roots = len(roots)
	if len(roots) != 1 {
		return
	}
	root := roots[0]
	in.Hash = root.ReprHash()
	if root.Special {
		in.Exotic = true
		return
	}
	bits := root.Bits()
	pos, nref := 0, 0
	take := func(n int) (uint64, bool) {
		if pos+n > len(bits) {
			return 0, false
		}
		v := bits.Uint(pos, n)
		pos += n
		return v, true
	}
	maybe := func(n int) bool {
		f, ok := take(1)
		if !ok {
			return false
		}
		if f == 1 {
			_, ok = take(n)
		}
		return ok
	}
	if !maybe(5) || !maybe(2) {
		return
	}
	var code, data *ref.RCell
	for i := 0; i < 3; i++ {
		f, ok := take(1)
		if !ok {
			return
		}
		if f == 1 {
			if nref >= len(root.Refs) {
				return
			}
			switch i {
			case 0:
				code = root.Refs[nref]
			case 1:
				data = root.Refs[nref]
			}
			nref++
		}
	}
	in.Shape = true
	in.HasCode, in.HasData = code != nil, data != nil
	if code == nil || data == nil {
		return
	}
	if data.Special {
		in.Exotic = true
		return
	}
	in.DataBits = data.BitLen
	ch := string(code.ReprHash())
	for i := range table {
		if table[i].CodeHash == ch {
			in.Known = &table[i]
			break
		}
	}
	if in.Known == nil {
		return
	}
	off := KeyOffset(in.Known.Layout)
	if off < 0 || data.BitLen < off+256 {
		return
	}
	in.Key = ref.Bits(data.Bits()[off : off+256]).Packed()
	return
}
