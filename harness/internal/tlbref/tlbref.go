// Package tlbref is the reference writer for the TL-B primitives and the core block.tlb records (R4).
// It is written from the schema text and imports nothing from tongo.
package tlbref

import (
	"math/big"
	"math/bits"

	"verifharness/internal/ref"
)

// B builds one cell.
type B struct {
	Bits ref.Bits
	Refs []*ref.RCell
}

func (b *B) Bit(v bool) *B            { b.Bits = append(b.Bits, v); return b }
func (b *B) U(v uint64, n int) *B     { b.Bits = b.Bits.AppendUint(v, n); return b }
func (b *B) I(v int64, n int) *B      { b.Bits = b.Bits.AppendInt(v, n); return b }
func (b *B) Big(v *big.Int, n int) *B { b.Bits = b.Bits.AppendBig(v, n); return b }
func (b *B) Bytes(p []byte) *B        { b.Bits = b.Bits.AppendBytes(p); return b }
func (b *B) Raw(x ref.Bits) *B        { b.Bits = append(b.Bits, x...); return b }
func (b *B) Ref(c *ref.RCell) *B      { b.Refs = append(b.Refs, c); return b }
func (b *B) Cell() *ref.RCell         { return ref.NewRCell(b.Bits, false, b.Refs...) }

// Slice appends the content of a cell (bits and refs) inline.
func (b *B) Slice(c *ref.RCell) *B {
	b.Bits = append(b.Bits, c.Bits()...)
	b.Refs = append(b.Refs, c.Refs...)
	return b
}

// LimBits is the width of `#<= n`.
func LimBits(n int) int { return bits.Len(uint(n)) }

// VarUInt writes `VarUInteger n`: len:(#< n) value:(uint (len * 8)) with the minimal byte length.
func (b *B) VarUInt(v *big.Int, n int) *B {
	raw := v.Bytes() // minimal big-endian, empty for zero
	b.U(uint64(len(raw)), LimBits(n-1))
	return b.Bytes(raw)
}

// Grams: nanograms$_ amount:(VarUInteger 16)
func (b *B) Grams(v *big.Int) *B { return b.VarUInt(v, 16) }

// Unary: unary_zero$0 / unary_succ$1
func (b *B) Unary(n int) *B {
	for i := 0; i < n; i++ {
		b.Bit(true)
	}
	return b.Bit(false)
}

// Tag writes a constructor tag given as "$0101" or "#7f3a" text of the schema.
func (b *B) Tag(bitsN int, v uint64) *B { return b.U(v, bitsN) }

type Anycast struct {
	Depth  int // 1..30
	Prefix uint64
}

// Addr is an abstract MsgAddress.
type Addr struct {
	Kind    int // 0 none, 1 extern, 2 std, 3 var
	Anycast *Anycast
	WC      int32
	Hash    [32]byte // std
	Ext     ref.Bits // extern / var payload
}

// MsgAddress:
//
//	addr_none$00 / addr_extern$01 len:(## 9) external_address:(bits len)
//	addr_std$10 anycast:(Maybe Anycast) workchain_id:int8 address:bits256
//	addr_var$11 anycast:(Maybe Anycast) addr_len:(## 9) workchain_id:int32 address:(bits addr_len)
//	anycast_info$_ depth:(#<= 30) { depth >= 1 } rewrite_pfx:(bits depth)
func (b *B) Addr(a Addr) *B {
	any := func() {
		if a.Anycast == nil {
			b.Bit(false)
			return
		}
		b.Bit(true).U(uint64(a.Anycast.Depth), LimBits(30)).U(a.Anycast.Prefix, a.Anycast.Depth)
	}
	switch a.Kind {
	case 0:
		b.U(0, 2)
	case 1:
		b.U(1, 2).U(uint64(len(a.Ext)), 9).Raw(a.Ext)
	case 2:
		b.U(2, 2)
		any()
		b.I(int64(a.WC), 8).Bytes(a.Hash[:])
	case 3:
		b.U(3, 2)
		any()
		b.U(uint64(len(a.Ext)), 9).I(int64(a.WC), 32).Raw(a.Ext)
	}
	return b
}

// CurrencyCollection with an empty extra-currency dictionary: grams:Grams other:(HashmapE 32 ...) = 0 bit
func (b *B) Currency(grams *big.Int) *B { return b.Grams(grams).Bit(false) }

type MsgInfo struct {
	Kind                         int // 0 internal, 1 ext-in, 2 ext-out
	IhrDisabled, Bounce, Bounced bool
	Src, Dest                    Addr
	Value, IhrFee, FwdFee        *big.Int
	ImportFee                    *big.Int
	CreatedLt                    uint64
	CreatedAt                    uint32
}

// CommonMsgInfo:
//
//	int_msg_info$0 ihr_disabled:Bool bounce:Bool bounced:Bool src:MsgAddressInt dest:MsgAddressInt
//	  value:CurrencyCollection ihr_fee:Grams fwd_fee:Grams created_lt:uint64 created_at:uint32
//	ext_in_msg_info$10 src:MsgAddressExt dest:MsgAddressInt import_fee:Grams
//	ext_out_msg_info$11 src:MsgAddressInt dest:MsgAddressExt created_lt:uint64 created_at:uint32
func (b *B) Info(m MsgInfo) *B {
	switch m.Kind {
	case 0:
		b.Bit(false).Bit(m.IhrDisabled).Bit(m.Bounce).Bit(m.Bounced).Addr(m.Src).Addr(m.Dest).Currency(m.Value).Grams(m.IhrFee).Grams(m.FwdFee).U(m.CreatedLt, 64).U(uint64(m.CreatedAt), 32)
	case 1:
		b.U(2, 2).Addr(m.Src).Addr(m.Dest).Grams(m.ImportFee)
	case 2:
		b.U(3, 2).Addr(m.Src).Addr(m.Dest).U(m.CreatedLt, 64).U(uint64(m.CreatedAt), 32)
	}
	return b
}

type StateInit struct {
	SplitDepth *uint8 // 5 bits
	Special    *[2]bool
	Code, Data *ref.RCell
}

// StateInit: split_depth:(Maybe (## 5)) special:(Maybe TickTock) code:(Maybe ^Cell) data:(Maybe ^Cell)
// library:(HashmapE 256 SimpleLib)   (library empty here)
func (b *B) StateInit(s StateInit) *B {
	if s.SplitDepth != nil {
		b.Bit(true).U(uint64(*s.SplitDepth), 5)
	} else {
		b.Bit(false)
	}
	if s.Special != nil {
		b.Bit(true).Bit(s.Special[0]).Bit(s.Special[1])
	} else {
		b.Bit(false)
	}
	for _, c := range []*ref.RCell{s.Code, s.Data} {
		if c != nil {
			b.Bit(true).Ref(c)
		} else {
			b.Bit(false)
		}
	}
	return b.Bit(false)
}

type Message struct {
	Info      MsgInfo
	Init      *StateInit
	InitInRef bool
	Body      *ref.RCell // body as a cell; written inline (as a slice) or behind a reference
	BodyInRef bool
}

// Message: info:CommonMsgInfo init:(Maybe (Either StateInit ^StateInit)) body:(Either X ^X)
func (b *B) Message(m Message) *B {
	b.Info(m.Info)
	if m.Init == nil {
		b.Bit(false)
	} else {
		b.Bit(true)
		if m.InitInRef {
			b.Bit(true).Ref((&B{}).StateInit(*m.Init).Cell())
		} else {
			b.Bit(false).StateInit(*m.Init)
		}
	}
	if m.BodyInRef {
		b.Bit(true).Ref(m.Body)
	} else {
		b.Bit(false).Slice(m.Body)
	}
	return b
}

// Fits reports whether the builder still describes a legal cell.
func (b *B) Fits() bool { return len(b.Bits) <= 1023 && len(b.Refs) <= 4 }
