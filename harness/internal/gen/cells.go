// Package gen holds the generators shared by several checks. Every choice goes through *core.Ctx.
package gen

import (
	"errors"
	"fmt"

	"github.com/tonkeeper/tongo/boc"

	"verifharness/internal/core"
	"verifharness/internal/ref"
)

var boundaryLens = []int{0, 1, 2, 7, 8, 9, 15, 16, 17, 31, 32, 33, 63, 64, 65, 127, 128, 255, 256, 257, 263, 264, 265, 511, 512, 1007, 1008, 1015, 1016, 1017, 1021, 1022, 1023}

// BitLen draws a cell data length 0..1023, boundary-biased, mostly small so that DAGs stay cheap.
func BitLen(c *core.Ctx, label string) int {
	switch c.Weighted(label+".k", 3, 4, 2) {
	case 0:
		return boundaryLens[c.Choose(label+".b", len(boundaryLens))]
	case 1:
		return c.Range(label+".s", 0, 80)
	default:
		return c.URange(label+".u", 0, 1023)
	}
}

type DagOpts struct {
	MaxNodes int  // number of nodes to draw (>=1)
	Exotic   bool // allow well-formed exotic cells
	Shape    int  // 0 random, 1 chain, 2 wide tree, 3 diamond lattice
	SmallBit bool // keep data short (for many-cell bags)
	Indexed  bool // node i holds the 32-bit number i (no draws): all nodes are distinct cells whatever the tape
}

// Dag draws a DAG bottom-up and returns its nodes; the last node is the natural root. Every node is
// reachable from the last one only in the chain/lattice shapes; callers choose roots.
func Dag(c *core.Ctx, o DagOpts) []*ref.RCell {
	n := o.MaxNodes
	nodes := make([]*ref.RCell, 0, n)
	drawBits := func(i int) ref.Bits {
		if o.Indexed {
			return ref.Bits{}.AppendUint(uint64(i), 32)
		}
		l := 0
		if o.SmallBit {
			l = c.Range("len", 0, 20)
		} else {
			l = BitLen(c, "len")
		}
		return ref.Bits(c.Bits("data", l))
	}
	for i := 0; i < n; i++ {
		var refs []*ref.RCell
		switch o.Shape {
		case 1: // chain
			if i > 0 {
				refs = []*ref.RCell{nodes[i-1]}
			}
		case 2: // wide tree in heap layout (root created last): logarithmic depth, 4 children per inner node
			h := n - 1 - i
			for k := 1; k <= 4; k++ {
				if ch := 4*h + k; ch < n {
					refs = append(refs, nodes[n-1-ch])
				}
			}
		case 3: // diamond lattice: two parents share both children of the previous layer
			if i >= 2 {
				refs = []*ref.RCell{nodes[i-1], nodes[i-2]}
				if c.Bool("swap") {
					refs[0], refs[1] = refs[1], refs[0]
				}
			} else if i == 1 {
				refs = []*ref.RCell{nodes[0], nodes[0]}
			}
		default:
			if i > 0 {
				nr := c.Weighted("nrefs", 3, 3, 2, 1, 2)
				for k := 0; k < nr; k++ {
					// prefer recent nodes, sometimes any (sharing)
					var j int
					if c.Intn("far", 3) == 0 {
						j = c.Choose("ref", i)
					} else {
						j = i - 1 - c.Intn("back", min(i, 4))
					}
					refs = append(refs, nodes[j])
				}
			}
		}
		var cell *ref.RCell
		kind := 0
		if o.Exotic {
			kind = c.Weighted("kind", 10, 3, 1, 2, 2)
		}
		switch kind {
		case 1: // pruned branch standing for a previous node (or a fresh leaf) at a drawn depth
			var orig *ref.RCell
			if i > 0 && c.Bool("pruneExisting") {
				orig = nodes[c.Choose("pruned.of", i)]
			} else {
				orig = ref.NewRCell(drawBits(i), false)
			}
			if orig.Level() >= 3 {
				cell = ref.NewRCell(drawBits(i), false, refs...)
				break
			}
			d := orig.Level() + c.Intn("pruned.d", 3-orig.Level())
			if c.Intn("pruned.random", 4) == 0 {
				// arbitrary stored hashes/depths under an arbitrary mask
				mask := uint8(1 + c.Intn("pruned.mask", 7))
				var b ref.Bits
				b = b.AppendUint(1, 8).AppendUint(uint64(mask), 8)
				k := 0
				for m := mask; m != 0; m &= m - 1 {
					k++
				}
				b = b.AppendBytes(c.Content("pruned.hashes", 32*k))
				for j := 0; j < k; j++ {
					b = b.AppendUint(uint64(c.Intn("pruned.depth", 901)), 16)
				}
				cell = ref.NewRCell(b, true)
			} else {
				cell = ref.PrunedFor(orig, orig.Mask()|1<<uint(d))
			}
		case 2:
			var b ref.Bits
			b = b.AppendUint(2, 8).AppendBytes(c.Content("lib", 32))
			cell = ref.NewRCell(b, true)
		case 3:
			if i == 0 {
				cell = ref.NewRCell(drawBits(i), false)
			} else {
				cell = ref.MerkleProofOf(nodes[c.Choose("mp.of", i)])
			}
		case 4:
			if i == 0 {
				cell = ref.NewRCell(drawBits(i), false)
			} else {
				cell = ref.MerkleUpdateOf(nodes[c.Choose("mu.a", i)], nodes[c.Choose("mu.b", i)])
			}
		default:
			cell = ref.NewRCell(drawBits(i), false, refs...)
		}
		nodes = append(nodes, cell)
	}
	return nodes
}

func min(a, b int) int {
	if a < b {
		return a
	}
	return b
}

// ToTongo builds the ordinary-cell DAG through tongo's public construction API. With share=true a
// reference-model node maps to one *boc.Cell (pointer sharing); with share=false every occurrence is a
// fresh copy (structurally equal, distinct pointers). budget bounds the number of cells created.
func ToTongo(r *ref.RCell, share bool, budget int) (*boc.Cell, error) {
	memo := map[*ref.RCell]*boc.Cell{}
	count := 0
	var rec func(x *ref.RCell) (*boc.Cell, error)
	rec = func(x *ref.RCell) (*boc.Cell, error) {
		if x.Special {
			return nil, errors.New("gen.ToTongo: exotic cells cannot be built in memory")
		}
		if share {
			if c, ok := memo[x]; ok {
				return c, nil
			}
		}
		count++
		if count > budget {
			return nil, ErrBudget
		}
		c := boc.NewCell()
		if err := c.WriteBitString(bitString(x.Bits())); err != nil {
			return nil, fmt.Errorf("gen.ToTongo: write %d bits: %w", x.BitLen, err)
		}
		for _, ch := range x.Refs {
			cc, err := rec(ch)
			if err != nil {
				return nil, err
			}
			if err := c.AddRef(cc); err != nil {
				return nil, err
			}
		}
		memo[x] = c
		return c, nil
	}
	return rec(r)
}

var ErrBudget = errors.New("gen: unfolded DAG exceeds the budget")

func bitString(b ref.Bits) boc.BitString {
	bs := boc.NewBitString(len(b))
	bs.WriteBitArray(b)
	return bs
}

// BitString converts an ideal bit list into a tongo BitString.
func BitString(b ref.Bits) boc.BitString { return bitString(b) }

// BitsOf reads every bit of a tongo BitString (copy; the argument's cursor is untouched).
func BitsOf(bs boc.BitString) ref.Bits {
	bs.ResetCounter()
	n := bs.BitsAvailableForRead()
	out := make(ref.Bits, 0, n)
	for i := 0; i < n; i++ {
		b, err := bs.ReadBit()
		if err != nil {
			break
		}
		out = append(out, b)
	}
	return out
}

// FromTongo images a tongo cell tree into the reference model using public accessors only (bits,
// refs, exotic flag). Shared pointers stay shared. It refuses cyclic or oversized graphs.
func FromTongo(root *boc.Cell, maxCells int) (*ref.RCell, error) {
	type frame struct {
		c    *boc.Cell
		next int
	}
	memo := map[*boc.Cell]*ref.RCell{}
	onStack := map[*boc.Cell]bool{}
	stack := []frame{{root, 0}}
	onStack[root] = true
	for len(stack) > 0 {
		f := &stack[len(stack)-1]
		refs := f.c.Refs()
		if f.next < len(refs) {
			ch := refs[f.next]
			f.next++
			if ch == nil {
				return nil, errors.New("nil ref")
			}
			if onStack[ch] {
				return nil, errors.New("cycle")
			}
			if _, done := memo[ch]; !done {
				if len(memo)+len(stack) > maxCells {
					return nil, ErrBudget
				}
				onStack[ch] = true
				stack = append(stack, frame{ch, 0})
			}
			continue
		}
		r := &ref.RCell{Special: f.c.IsExotic()}
		b := BitsOf(f.c.RawBitString())
		r.Data, r.BitLen = b.Packed(), len(b)
		for _, ch := range refs {
			r.Refs = append(r.Refs, memo[ch])
		}
		memo[f.c] = r
		onStack[f.c] = false
		stack = stack[:len(stack)-1]
	}
	return memo[root], nil
}

// Pairs walks a tongo cell graph and its reference image in parallel (same shape required) and calls f
// once per distinct tongo cell pointer. Structural disagreement (ref count) is reported as an error.
func Pairs(tc *boc.Cell, rc *ref.RCell, f func(t *boc.Cell, r *ref.RCell) error) error {
	type pair struct {
		t *boc.Cell
		r *ref.RCell
	}
	seen := map[*boc.Cell]bool{}
	stack := []pair{{tc, rc}}
	for len(stack) > 0 {
		p := stack[len(stack)-1]
		stack = stack[:len(stack)-1]
		if seen[p.t] {
			continue
		}
		seen[p.t] = true
		refs := p.t.Refs()
		if len(refs) != len(p.r.Refs) {
			return fmt.Errorf("cell has %d refs, reference image has %d", len(refs), len(p.r.Refs))
		}
		if err := f(p.t, p.r); err != nil {
			return err
		}
		for i := range refs {
			stack = append(stack, pair{refs[i], p.r.Refs[i]})
		}
	}
	return nil
}

// SameCell compares a tongo cell (bits, exotic flag, type byte, refs recursively) with a reference cell.
func SameCell(tc *boc.Cell, rc *ref.RCell) error {
	return Pairs(tc, rc, func(t *boc.Cell, r *ref.RCell) error {
		if t.IsExotic() != r.Special {
			return fmt.Errorf("exotic flag %v, want %v", t.IsExotic(), r.Special)
		}
		if r.Special && int(t.CellType()) != r.Type() {
			return fmt.Errorf("cell type %d, want %d", t.CellType(), r.Type())
		}
		if got := BitsOf(t.RawBitString()); !got.Equal(r.Bits()) {
			return fmt.Errorf("cell bits %s, want %s", got.FiftHex(), r.Bits().FiftHex())
		}
		return nil
	})
}

// RefuseFirst makes the library refuse something just before the caller's real work: a chain of cells one
// or a few edges deeper than the limit of 1024 is hashed and serialised, and a bag with a broken checksum
// is parsed. What the library answers is not judged here (C02 and C07 do that); the point is that a
// refusal must leave nothing behind that changes the next, unrelated result.
func RefuseFirst(extra int) {
	t := boc.NewCell()
	_ = t.WriteBit(true)
	for i := 0; i < 1025+extra; i++ {
		p := boc.NewCell()
		_ = p.WriteUint(uint64(i), 16)
		_ = p.AddRef(t)
		t = p
	}
	_, _ = t.Hash()
	_, _ = t.ToBoc()
	_, _ = boc.NewHasher().Hash(t)
	_, _ = boc.DeserializeBoc([]byte{0xb5, 0xee, 0x9c, 0x72, 0x41, 0x01, 0x01, 0x01, 0x00, 0x03, 0x00, 0x00, 0x02, 0xab, 0, 0, 0, 0})
}
