package tlbgen

import (
	"reflect"
	"strings"

	"github.com/tonkeeper/tongo/tlb"
)

var (
	marshalerT   = reflect.TypeOf((*tlb.MarshalerTLB)(nil)).Elem()
	unmarshalerT = reflect.TypeOf((*tlb.UnmarshalerTLB)(nil)).Elem()
)

func hasCodec(t reflect.Type) bool {
	pt := reflect.PointerTo(t)
	return t.Implements(marshalerT) || pt.Implements(marshalerT) || t.Implements(unmarshalerT) || pt.Implements(unmarshalerT)
}

// HasEncoder / HasDecoder report hand-written codec halves.
func HasEncoder(t reflect.Type) bool {
	return t.Implements(marshalerT) || reflect.PointerTo(t).Implements(marshalerT)
}
func HasDecoder(t reflect.Type) bool {
	return t.Implements(unmarshalerT) || reflect.PointerTo(t).Implements(unmarshalerT)
}

// IsTLBType decides whether a scanned registry type belongs to the TL-B domain of C03/C08: it has a
// hand-written codec, or it is structurally TL-B (what the reflection codec can express: sized integers,
// bool, byte arrays, cells, tagged pointers and structs of those, all fields exported). Everything else
// (option structs, clients, get-method result records, ...) is reported as "not a TL-B type".
func IsTLBType(t reflect.Type) (bool, string) {
	if strings.HasSuffix(t.PkgPath(), "tongo/abi") && strings.HasSuffix(t.Name(), "Result") && t.Kind() == reflect.Struct && !hasCodec(t) {
		return false, "get-method result record (decoded from a VM stack, not from a cell)"
	}
	return structural(t, map[reflect.Type]bool{})
}

func structural(t reflect.Type, seen map[reflect.Type]bool) (bool, string) {
	if hasCodec(t) {
		return true, ""
	}
	if seen[t] {
		return true, ""
	}
	switch t.Kind() {
	case reflect.Bool, reflect.Int8, reflect.Int16, reflect.Int32, reflect.Int64, reflect.Uint8, reflect.Uint16, reflect.Uint32, reflect.Uint64:
		return true, ""
	case reflect.Int, reflect.Uint:
		return false, "platform-sized integer without codec"
	case reflect.Array:
		if t.Elem().Kind() == reflect.Uint8 {
			return true, ""
		}
		return false, "array of " + t.Elem().String()
	case reflect.Pointer:
		return structural(t.Elem(), seen)
	case reflect.Struct:
		if t == cellT || t == bitStringT {
			return true, ""
		}
		if t.PkgPath() != "" && !isTongo(t) {
			return false, "foreign struct " + t.String()
		}
		seen[t] = true
		for i := 0; i < t.NumField(); i++ {
			f := t.Field(i)
			if f.Type == sumTypeT {
				continue
			}
			// an inline cell (no "^") means "the whole current cell" to both codec directions, so it can only
			// be the sole content of its struct; helper records such as wallet.RawMessage are not TL-B types
			if ft := f.Type; (ft == cellT || (ft.Kind() == reflect.Pointer && ft.Elem() == cellT)) && !strings.Contains(f.Tag.Get("tlb"), "^") && t.NumField() > 1 {
				return false, "inline cell field " + f.Name + " next to other fields"
			}
			if !f.IsExported() {
				return false, "struct with unexported field " + f.Name + " and no codec"
			}
			if ok, why := structural(f.Type, seen); !ok {
				return false, f.Name + ": " + why
			}
		}
		return true, ""
	}
	return false, t.Kind().String() + " without codec"
}
