package tlbgen

import (
	"reflect"

	"github.com/tonkeeper/tongo/boc"

	"verifharness/internal/ref"
)

// Exotic cells in the raw-cell part of the domain (G.Exotic, opt-in; C03 sets it in c03/raw-cells).
//
// A raw cell (boc.Cell behind a reference, the cell under Ref[boc.Cell], the cell a tlb.Any was cut from, the
// message cells of the wallet payloads) is opaque to the TL-B codec: TL-B says `^Cell` / `Any` and nothing about
// what the cell is. So it may be an exotic cell, and it may have exotic cells among its children:
//   - behind a reference: a library cell (type 2 + 256-bit hash) or a Merkle proof cell (type 3, hash and depth of
//     its only child) - more often than without the option;
//   - among the children of an ordinary raw cell: library cells and pruned branches (type 1, level mask, hashes
//     and depths of the cell they stand for) of every level mask.
// A pruned branch directly behind a typed reference is not generated: there the library documents that it
// leaves the field empty (Ref[T].UnmarshalTLB, the `^` case of the reflection decoder), so it is not a value the
// field can hold.
// The cells are written by the reference serialiser and read by the library's BOC parser, the way every exotic
// cell reaches a program.

// parseOne turns a reference cell tree into a library cell tree.
func parseOne(r *ref.RCell) *boc.Cell {
	roots, err := boc.DeserializeBoc(ref.SerializeBOC([]*ref.RCell{r}, ref.BocVariant{}))
	if err != nil || len(roots) != 1 {
		return nil
	}
	return roots[0]
}

func (g *G) leaf(label string, maxBits int) *ref.RCell {
	n := g.C.Range(label+".bits", 0, maxBits)
	return ref.NewRCell(ref.Bits(g.C.Bits(label+".data", n)), false)
}

func (g *G) libraryR() *ref.RCell {
	return ref.NewRCell(ref.Bits{}.AppendUint(2, 8).AppendBytes(g.C.Content("cell.libhash", 32)), true)
}

// exoticBehindRef may store an exotic cell in v (a boc.Cell that stands behind a reference).
func (g *G) exoticBehindRef(v reflect.Value) bool {
	var r *ref.RCell
	var what string
	switch g.C.Weighted("cell.exotic", 3, 3, 1) {
	case 1:
		r, what = g.libraryR(), "library cell behind a reference"
	case 2:
		r, what = ref.MerkleProofOf(g.leaf("cell.proved", 40)), "merkle proof cell behind a reference"
	default:
		return false
	}
	c := parseOne(r)
	if c == nil {
		return false
	}
	g.ev(what)
	v.Set(reflect.ValueOf(*c))
	return true
}

// exoticTree may return an ordinary cell with exotic cells among its children (nil: the caller draws an
// ordinary tree as without the option).
func (g *G) exoticTree() *boc.Cell {
	if g.C.Intn("cell.exotickids", 3) != 0 {
		return nil
	}
	n := g.C.Range("cell.bits", 0, 40)
	bits := ref.Bits(g.C.Bits("cell.data", n))
	var kids []*ref.RCell
	what := "raw cell with children:"
	for i, k := 0, g.C.Range("cell.kids", 1, 3); i < k; i++ {
		switch g.C.Weighted("kid.kind", 1, 2, 2) {
		case 0:
			kids = append(kids, g.leaf("kid", 24))
			what += " ordinary"
		case 1:
			kids = append(kids, g.libraryR())
			what += " library"
		default:
			mask := g.C.OneOf("kid.mask", 1, 1, 2, 4, 3, 5, 6, 7)
			kids = append(kids, ref.PrunedFor(g.leaf("kid.pruned", 24), uint8(mask)))
			what += " pruned"
		}
	}
	c := parseOne(ref.NewRCell(bits, false, kids...))
	if c == nil {
		return nil
	}
	g.ev("exotic cells among the children of a raw cell")
	g.ev(what)
	return c
}
