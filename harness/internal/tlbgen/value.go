// Package tlbgen draws values of tongo's TL-B Go types by reflection, inside the TL-B domain of each type
// (R7 of DESIGN.md), and compares such values by meaning.
package tlbgen

import (
	"fmt"
	"math/big"
	"reflect"
	"strconv"
	"strings"
	"unicode/utf8"

	"github.com/tonkeeper/tongo/boc"
	"github.com/tonkeeper/tongo/tlb"

	"verifharness/internal/core"
	"verifharness/internal/gen"
	"verifharness/internal/ref"
)

var (
	bigIntT    = reflect.TypeOf(big.Int{})
	cellT      = reflect.TypeOf(boc.Cell{})
	bitStringT = reflect.TypeOf(boc.BitString{})
	anyT       = reflect.TypeOf(tlb.Any{})
	magicT     = reflect.TypeOf(tlb.Magic(0))
	sumTypeT   = reflect.TypeOf(tlb.SumType(""))
)

type fixedSizer interface{ FixedSize() int }

// ErrUnsupported is returned (wrapped) for types outside the generator's modelled domain.
type Unsupported struct{ Why string }

func (u *Unsupported) Error() string { return "unsupported by generator: " + u.Why }

type G struct {
	C *core.Ctx
	// Events collects what the generator chose (constructors, optional presence, ...) for the histogram.
	Events []string
	// Exotic, when a check sets it, widens the raw-cell part of the domain (see exotic.go). False by
	// default: a generator without it makes exactly the draws it made before the field existed.
	Exotic bool
}

func (g *G) ev(s string) {
	if len(g.Events) < 200 {
		g.Events = append(g.Events, s)
	}
}

// baseName strips package path and type arguments: "Maybe[...]" -> "Maybe".
func baseName(t reflect.Type) string {
	n := t.Name()
	if i := strings.IndexByte(n, '['); i >= 0 {
		n = n[:i]
	}
	return n
}

func isTongo(t reflect.Type) bool {
	return strings.HasPrefix(t.PkgPath(), "github.com/tonkeeper/tongo")
}

func (g *G) smallCell(depth int) *boc.Cell {
	if g.Exotic && depth > 0 {
		if ec := g.exoticTree(); ec != nil {
			return ec
		}
	}
	c := boc.NewCell()
	n := g.C.Range("cell.bits", 0, 40)
	c.WriteBitString(gen.BitString(ref.Bits(g.C.Bits("cell.data", n))))
	if depth > 0 {
		for i := g.C.Weighted("cell.refs", 6, 2, 1); i > 0; i-- {
			c.AddRef(g.smallCell(depth - 1))
		}
	}
	return c
}

// bigInRange draws an n-bit value, unsigned or two's complement signed, boundary-biased.
func (g *G) bigInRange(n int, signed bool) *big.Int {
	if n == 0 {
		return new(big.Int)
	}
	max := new(big.Int).Sub(new(big.Int).Lsh(big.NewInt(1), uint(n)), big.NewInt(1))
	var u *big.Int
	switch g.C.Weighted("int.k", 2, 2, 2, 2, 2, 6) {
	case 0:
		u = new(big.Int)
	case 1:
		u = big.NewInt(1)
	case 2:
		u = new(big.Int).Set(max) // unsigned max / signed -1
	case 3:
		u = new(big.Int).Lsh(big.NewInt(1), uint(n-1)) // signed min / top bit
	case 4:
		u = new(big.Int).Sub(new(big.Int).Lsh(big.NewInt(1), uint(n-1)), big.NewInt(1)) // signed max
	default:
		u = new(big.Int).SetBytes(g.C.Content("int.v", (n+7)/8))
		u.And(u, max)
	}
	u.And(u, max)
	if signed && u.Bit(n-1) == 1 {
		u.Sub(u, new(big.Int).Lsh(big.NewInt(1), uint(n)))
	}
	return u
}

func widthOfName(name, prefix string) (int, bool) {
	if !strings.HasPrefix(name, prefix) {
		return 0, false
	}
	n, err := strconv.Atoi(name[len(prefix):])
	return n, err == nil
}

// Value draws a value of type t. depth is the remaining recursion budget.
func (g *G) Value(t reflect.Type, depth int) (reflect.Value, error) {
	v := reflect.New(t).Elem()
	err := g.fill(v, "", depth)
	return v, err
}

func (g *G) fill(v reflect.Value, tag string, depth int) error {
	t := v.Type()
	name := baseName(t)

	// ---- special-type table (hand-written codecs, reviewed against the schema quoted at the type)
	if isTongo(t) {
		if done, err := g.special(v, name, depth); done {
			return err
		}
	}
	switch t {
	case cellT:
		if g.Exotic && strings.Contains(tag, "^") {
			if g.exoticBehindRef(v) {
				return nil
			}
		} else if strings.Contains(tag, "^") && g.C.Intn("cell.library", 6) == 0 {
			// a cell that stands behind a reference may be exotic: a library cell (type 2, hash of the real cell)
			if lc := libraryCell(g.C.Content("cell.libhash", 32)); lc != nil {
				g.ev("library cell behind a reference")
				v.Set(reflect.ValueOf(*lc))
				return nil
			}
		}
		v.Set(reflect.ValueOf(*g.smallCell(1)))
		return nil
	case bitStringT:
		n := g.C.Range("bits.n", 0, 40)
		v.Set(reflect.ValueOf(gen.BitString(ref.Bits(g.C.Bits("bits.v", n)))))
		return nil
	case bigIntT:
		v.Set(reflect.ValueOf(*g.bigInRange(64, true)))
		return nil
	}

	// big.Int-based generated integers
	if t.Kind() == reflect.Struct && t.ConvertibleTo(bigIntT) && isTongo(t) {
		if n, ok := widthOfName(name, "VarUInteger"); ok {
			bytesLen := g.C.Range("varuint.len", 0, n-1)
			x := new(big.Int)
			if bytesLen > 0 {
				raw := g.C.Content("varuint.v", bytesLen)
				if raw[0] == 0 { // the byte length is part of the domain: keep the top byte non-zero
					raw[0] = 1
				}
				x.SetBytes(raw)
			}
			g.ev(fmt.Sprintf("varuint %d bytes", bytesLen))
			v.Set(reflect.ValueOf(*x).Convert(t))
			return nil
		}
		if fs, ok := v.Interface().(fixedSizer); ok {
			signed := strings.HasPrefix(name, "Int")
			v.Set(reflect.ValueOf(*g.bigInRange(fs.FixedSize(), signed)).Convert(t))
			return nil
		}
		return &Unsupported{"big.Int based type without a known width: " + t.String()}
	}

	switch t.Kind() {
	case reflect.Bool:
		v.SetBool(g.C.Bool("bool"))
		return nil
	case reflect.Uint8, reflect.Uint16, reflect.Uint32, reflect.Uint64, reflect.Uint:
		bits := t.Bits()
		if fs, ok := v.Interface().(fixedSizer); ok {
			bits = fs.FixedSize()
		}
		if t == magicT {
			return g.fillMagic(v, tag)
		}
		v.SetUint(g.bigInRange(bits, false).Uint64())
		return nil
	case reflect.Int8, reflect.Int16, reflect.Int32, reflect.Int64, reflect.Int:
		bits := t.Bits()
		if fs, ok := v.Interface().(fixedSizer); ok {
			bits = fs.FixedSize()
		}
		v.SetInt(g.bigInRange(bits, true).Int64())
		return nil
	case reflect.Array:
		if t.Elem().Kind() != reflect.Uint8 {
			return &Unsupported{"array of " + t.Elem().String()}
		}
		raw := g.C.Content("array", t.Len())
		reflect.Copy(v, reflect.ValueOf(raw))
		return nil
	case reflect.Pointer:
		if depth <= 0 && strings.HasPrefix(tag, "maybe") {
			return nil
		}
		p := reflect.New(t.Elem())
		if err := g.fill(p.Elem(), "", depth-1); err != nil {
			return err
		}
		v.Set(p)
		return nil
	case reflect.Struct:
		if _, ok := t.FieldByName("SumType"); ok {
			return g.fillSum(v, depth)
		}
		return g.fillStruct(v, depth)
	case reflect.String:
		if t == sumTypeT {
			return nil
		}
		return &Unsupported{"string kind " + t.String()}
	case reflect.Slice:
		return &Unsupported{"slice " + t.String()}
	case reflect.Map, reflect.Interface, reflect.Func, reflect.Chan:
		return &Unsupported{t.Kind().String() + " " + t.String()}
	}
	return &Unsupported{"kind " + t.Kind().String()}
}

func (g *G) fillMagic(v reflect.Value, tag string) error {
	if tag == "" {
		return &Unsupported{"Magic without a tag"}
	}
	tg, err := parseTagText(tag)
	if err != nil {
		return &Unsupported{"Magic tag " + tag}
	}
	v.SetUint(tg.val)
	return nil
}

type tagText struct {
	bits int
	val  uint64
}

// parseTagText parses "name#hex", "name$bin", "#_" / "$_" (own parser, independent of tlb.ParseTag).
func parseTagText(s string) (tagText, error) {
	if i := strings.IndexByte(s, '$'); i >= 0 {
		b := s[i+1:]
		if b == "_" || b == "" {
			return tagText{}, nil
		}
		v, err := strconv.ParseUint(b, 2, 64)
		return tagText{len(b), v}, err
	}
	if i := strings.IndexByte(s, '#'); i >= 0 {
		h := s[i+1:]
		if h == "_" || h == "" {
			return tagText{}, nil
		}
		v, err := strconv.ParseUint(h, 16, 64)
		return tagText{4 * len(h), v}, err
	}
	if s == "_" { // constructor without a tag
		return tagText{}, nil
	}
	return tagText{}, fmt.Errorf("no tag separator in %q", s)
}

// SumTag exposes the harness's own tag parser (bits, value) to the checks.
func SumTag(s string) (bits int, val uint64, err error) {
	t, err := parseTagText(s)
	return t.bits, t.val, err
}

func (g *G) fillStruct(v reflect.Value, depth int) error {
	t := v.Type()
	for i := 0; i < t.NumField(); i++ {
		f := t.Field(i)
		if !f.IsExported() {
			// the reflection codec cannot represent unexported fields; left at zero
			continue
		}
		tag := f.Tag.Get("tlb")
		fv := v.Field(i)
		if strings.HasPrefix(tag, "maybe") && f.Type.Kind() == reflect.Pointer {
			present := depth > 0 && g.C.Bool("maybe")
			if present {
				g.ev("maybe present")
			} else {
				g.ev("maybe absent")
				continue
			}
		}
		if f.Type == cellT && strings.HasPrefix(t.Name(), "Ref[") {
			tag = "^" // Ref[T] stores its value behind a reference
		}
		if err := g.fill(fv, tag, depth-1); err != nil {
			return fmt.Errorf("%s.%s: %w", t.Name(), f.Name, err)
		}
	}
	return nil
}

// libraryCell returns an exotic library cell; exotic cells cannot be built through the construction API, so it
// is read from a bag of cells written by the reference serialiser.
func libraryCell(hash []byte) *boc.Cell {
	r := ref.NewRCell(ref.Bits{}.AppendUint(2, 8).AppendBytes(hash), true)
	roots, err := boc.DeserializeBoc(ref.SerializeBOC([]*ref.RCell{r}, ref.BocVariant{}))
	if err != nil || len(roots) != 1 {
		return nil
	}
	return roots[0]
}

// sumFields lists the constructor fields of a union struct.
func sumFields(t reflect.Type) []reflect.StructField {
	var out []reflect.StructField
	for i := 0; i < t.NumField(); i++ {
		f := t.Field(i)
		if f.Type == sumTypeT || f.Name == "SumType" {
			continue
		}
		if _, ok := f.Tag.Lookup("tlbSumType"); ok {
			out = append(out, f)
		}
	}
	return out
}

func (g *G) fillSum(v reflect.Value, depth int) error {
	t := v.Type()
	fields := sumFields(t)
	if len(fields) == 0 {
		return &Unsupported{"union without constructors: " + t.String()}
	}
	// uniform over ALL constructors (the seventh is as likely as the first); when the recursion budget is
	// spent, prefer constructors that do not recurse (first one whose type is not a pointer/struct with refs)
	k := g.C.Choose("ctor", len(fields))
	if depth <= 0 {
		k = g.cheapest(fields)
	}
	f := fields[k]
	g.ev("ctor " + t.Name() + "." + f.Name)
	v.FieldByName("SumType").SetString(f.Name)
	fv := v.FieldByName(f.Name)
	if fv.Kind() == reflect.Pointer {
		p := reflect.New(f.Type.Elem())
		if err := g.fill(p.Elem(), "", depth-1); err != nil {
			return fmt.Errorf("%s.%s: %w", t.Name(), f.Name, err)
		}
		fv.Set(p)
		return nil
	}
	if err := g.fill(fv, "", depth-1); err != nil {
		return fmt.Errorf("%s.%s: %w", t.Name(), f.Name, err)
	}
	return nil
}

// UnionCtors lists the constructor names and tag texts of a union struct type (nil for other types).
func UnionCtors(t reflect.Type) (names, tags []string) {
	if t.Kind() != reflect.Struct {
		return nil, nil
	}
	if _, ok := t.FieldByName("SumType"); !ok {
		return nil, nil
	}
	for _, f := range sumFields(t) {
		names = append(names, f.Name)
		tags = append(tags, f.Tag.Get("tlbSumType"))
	}
	return
}

// ValueWithCtor draws a value of union type t with the k-th constructor selected.
func (g *G) ValueWithCtor(t reflect.Type, k, depth int) (reflect.Value, error) {
	v := reflect.New(t).Elem()
	f := sumFields(t)[k]
	v.FieldByName("SumType").SetString(f.Name)
	fv := v.FieldByName(f.Name)
	if fv.Kind() == reflect.Pointer {
		p := reflect.New(f.Type.Elem())
		if err := g.fill(p.Elem(), "", depth-1); err != nil {
			return v, err
		}
		fv.Set(p)
		return v, nil
	}
	return v, g.fill(fv, "", depth-1)
}

func (g *G) cheapest(fields []reflect.StructField) int {
	best, bestCost := 0, 1<<30
	for i, f := range fields {
		c := typeCost(f.Type, 3, map[reflect.Type]bool{})
		if c < bestCost {
			best, bestCost = i, c
		}
	}
	return best
}

// typeCost is a rough count of mandatory sub-values, used only to end recursion.
func typeCost(t reflect.Type, depth int, seen map[reflect.Type]bool) int {
	if depth == 0 || seen[t] {
		return 50
	}
	switch t.Kind() {
	case reflect.Pointer:
		return 1 + typeCost(t.Elem(), depth-1, seen)
	case reflect.Struct:
		if t == cellT || t == bitStringT || t.ConvertibleTo(bigIntT) {
			return 1
		}
		seen[t] = true
		defer delete(seen, t)
		n := 1
		if _, ok := t.FieldByName("SumType"); ok {
			m := 1 << 30
			for _, f := range sumFields(t) {
				if c := typeCost(f.Type, depth-1, seen); c < m {
					m = c
				}
			}
			if m == 1<<30 {
				m = 0
			}
			return n + m
		}
		for i := 0; i < t.NumField(); i++ {
			f := t.Field(i)
			if !f.IsExported() || strings.HasPrefix(f.Tag.Get("tlb"), "maybe") {
				continue
			}
			n += typeCost(f.Type, depth-1, seen)
		}
		return n
	}
	return 1
}

func validUTF8(c *core.Ctx, label string, maxBytes int) string {
	n := c.Range(label+".n", 0, maxBytes)
	raw := c.Content(label+".v", n)
	alphabet := []string{"a", "Z", " ", "0", "é", "ж", "中", "😀", "\x00", "\n", "~"}
	var sb strings.Builder
	for _, b := range raw {
		s := alphabet[int(b)%len(alphabet)]
		if sb.Len()+len(s) > maxBytes {
			break
		}
		sb.WriteString(s)
	}
	if !utf8.ValidString(sb.String()) {
		panic("harness: invalid utf8 generated")
	}
	return sb.String()
}
