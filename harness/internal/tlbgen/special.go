package tlbgen

import (
	"fmt"
	"reflect"
	"strings"

	"github.com/tonkeeper/tongo/boc"
	"github.com/tonkeeper/tongo/tlb"
	"github.com/tonkeeper/tongo/wallet"

	"verifharness/internal/gen"
	"verifharness/internal/ref"
)

// Reviewed lists the hand-written codecs whose generator below was written against the schema quoted at
// the type. A type with a hand-written codec that is not listed is generated generically and reported
// under the class "unreviewed custom codec".
var Reviewed = map[string]bool{}

func init() {
	for _, n := range []string{"Maybe", "Either", "EitherRef", "Ref", "Hashmap", "HashmapE", "HashmapAug", "HashmapAugE", "BinTree", "Any", "Unary",
		"Grams", "SignedCoins", "SnakeData", "Bytes", "Text", "FixedLengthText", "ChunkedData", "AccountStatus", "AccStatusChange", "ComputeSkipReason",
		"MsgAddress", "Anycast", "VmStack", "VmCellSlice", "VmStkTuple", "VmCont", "VmTuple", "PayloadV1toV4", "PayloadHighload", "W5Actions", "W5ExtendedActions",
		"TextComment", "Message", "McStateExtraOther", "McBlockExtra"} {
		Reviewed[n] = true
	}
}

func (g *G) msgAddress(v reflect.Value, allowed string) {
	var a tlb.MsgAddress
	kinds := []string{"AddrNone", "AddrExtern", "AddrStd", "AddrVar"}
	k := kinds[g.C.Choose("addr.kind", 4)]
	if allowed != "" && !strings.Contains(allowed, k) {
		k = "AddrStd"
	}
	a.SumType = tlb.SumType(k)
	g.ev("ctor MsgAddress." + k)
	anycast := func() tlb.Maybe[tlb.Anycast] {
		var m tlb.Maybe[tlb.Anycast]
		if g.C.Bool("anycast") {
			d := g.C.Range("anycast.depth", 1, 30)
			m.Exists = true
			m.Value.Depth = uint32(d)
			m.Value.RewritePfx = uint32(g.bigInRange(d, false).Uint64())
			g.ev("anycast")
		}
		return m
	}
	switch k {
	case "AddrExtern":
		n := g.C.OneOf("extern.len", 0, 1, 7, 8, 9, 255, 256, 510, 511)
		if g.C.Bool("extern.rnd") {
			n = g.C.Range("extern.n", 0, 511)
		}
		bs := gen.BitString(ref.Bits(g.C.Bits("extern.bits", n)))
		a.AddrExtern = &bs
	case "AddrStd":
		a.AddrStd.Anycast = anycast()
		a.AddrStd.WorkchainId = int8(g.bigInRange(8, true).Int64())
		copy(a.AddrStd.Address[:], g.C.Content("std.addr", 32))
	case "AddrVar":
		n := g.C.OneOf("var.len", 0, 1, 8, 255, 256, 257, 511)
		if g.C.Bool("var.rnd") {
			n = g.C.Range("var.n", 0, 511)
		}
		a.AddrVar = &struct {
			Anycast     tlb.Maybe[tlb.Anycast]
			AddrLen     tlb.Uint9
			WorkchainId int32
			Address     boc.BitString
		}{Anycast: anycast(), AddrLen: tlb.Uint9(n), WorkchainId: int32(g.bigInRange(32, true).Int64()), Address: gen.BitString(ref.Bits(g.C.Bits("var.bits", n)))}
	}
	v.Set(reflect.ValueOf(a))
}

func (g *G) rawMessage() wallet.RawMessage {
	return wallet.RawMessage{Message: g.smallCell(1), Mode: byte(g.C.Intn("mode", 256))}
}

// special handles the reviewed hand-written codecs. It reports done=false for everything else.
func (g *G) special(v reflect.Value, name string, depth int) (bool, error) {
	t := v.Type()
	pkg := t.PkgPath()
	inTlb := strings.HasSuffix(pkg, "tongo/tlb")
	inWallet := strings.HasSuffix(pkg, "tongo/wallet")
	if Hook != nil {
		if done, err := Hook(g, v, name, depth); done {
			return true, err
		}
	}
	switch {
	case inTlb && name == "Maybe":
		exists := depth > 0 && g.C.Bool("maybe")
		v.FieldByName("Exists").SetBool(exists)
		if exists {
			g.ev("maybe present")
			return true, g.fill(v.FieldByName("Value"), "", depth-1)
		}
		g.ev("maybe absent")
		return true, nil
	case inTlb && name == "Either":
		right := g.C.Bool("either")
		v.FieldByName("IsRight").SetBool(right)
		if right {
			g.ev("either right")
			return true, g.fill(v.FieldByName("Right"), "", depth-1)
		}
		g.ev("either left")
		return true, g.fill(v.FieldByName("Left"), "", depth-1)
	case inTlb && name == "EitherRef":
		right := g.C.Bool("eitherref")
		v.FieldByName("IsRight").SetBool(right)
		if right {
			g.ev("eitherref right")
		} else {
			g.ev("eitherref left")
		}
		return true, g.fill(v.FieldByName("Value"), "", depth-1)
	case inTlb && name == "Ref":
		return true, g.fill(v.FieldByName("Value"), "^", depth-1)
	case inTlb && (name == "Hashmap" || name == "HashmapE"):
		n := 0
		if depth > 0 {
			n = g.C.Range("dict.n", 0, 5)
		}
		if name == "Hashmap" && n == 0 {
			n = 1 // a bare Hashmap has no empty form
		}
		put := v.Addr().MethodByName("Put")
		if !put.IsValid() {
			return true, &Unsupported{"dictionary without Put: " + t.String()}
		}
		kt, vt := put.Type().In(0), put.Type().In(1)
		for i := 0; i < n; i++ {
			kv := reflect.New(kt).Elem()
			if err := g.fill(kv, "", 1); err != nil {
				return true, err
			}
			vv := reflect.New(vt).Elem()
			if err := g.fill(vv, "", depth-1); err != nil {
				return true, err
			}
			put.Call([]reflect.Value{kv, vv})
		}
		g.ev(fmt.Sprintf("dict %d entries", n))
		return true, nil
	case inTlb && (name == "HashmapAug" || name == "HashmapAugE" || name == "BinTree" || name == "ChunkedData" || name == "VmStkTuple" || name == "VmCont" || name == "VmTuple"):
		// encoder declared not implemented: zero value, exercised decode-side only (C08)
		return true, nil
	case inTlb && name == "Any" && t == anyT:
		v.Set(reflect.ValueOf(tlb.Any(*g.smallCell(1))))
		return true, nil
	case inTlb && name == "McStateExtraOther":
		// schema: flags:(## 16) { flags <= 1 } ... block_create_stats:(flags . 0)?BlockCreateStats
		if err := g.fillStruct(v, depth); err != nil {
			return true, err
		}
		flag := g.C.Intn("mcstate.flags", 2)
		v.FieldByName("Flags").SetUint(uint64(flag))
		if flag == 0 {
			f := v.FieldByName("BlockCreateStats")
			f.Set(reflect.Zero(f.Type()))
		}
		return true, nil
	case inTlb && name == "McBlockExtra":
		// schema: key_block:(## 1) ... config:key_block?ConfigParams
		if err := g.fillStruct(v, depth); err != nil {
			return true, err
		}
		if !v.FieldByName("KeyBlock").Bool() {
			f := v.FieldByName("Config")
			f.Set(reflect.Zero(f.Type()))
		}
		return true, nil
	case inTlb && name == "Unary":
		v.SetUint(uint64(g.C.Range("unary", 0, 70)))
		return true, nil
	case inTlb && name == "Grams":
		v.SetUint(g.bigInRange(64, false).Uint64())
		return true, nil
	case inTlb && name == "SignedCoins":
		v.SetInt(g.bigInRange(64, true).Int64())
		return true, nil
	case inTlb && name == "SnakeData":
		n := g.C.OneOf("snake.len", 0, 1, 8, 1022, 1023, 1024, 1500, 2100)
		if g.C.Bool("snake.rnd") {
			n = g.C.Range("snake.n", 0, 300)
		}
		v.Set(reflect.ValueOf(tlb.SnakeData(gen.BitString(ref.Bits(g.C.Bits("snake.bits", n))))))
		return true, nil
	case inTlb && name == "Bytes":
		n := g.C.OneOf("bytes.len", 0, 1, 126, 127, 128, 300)
		if g.C.Bool("bytes.rnd") {
			n = g.C.Range("bytes.n", 0, 60)
		}
		v.Set(reflect.ValueOf(tlb.Bytes(g.C.Content("bytes.v", n))))
		return true, nil
	case inTlb && name == "Text":
		v.SetString(validUTF8(g.C, "text", g.C.OneOf("text.max", 0, 10, 127, 300)))
		return true, nil
	case inTlb && name == "FixedLengthText":
		v.SetString(string(g.C.Content("flt", g.C.Range("flt.n", 0, 100))))
		return true, nil
	case inTlb && name == "AccountStatus":
		v.SetString(string([]tlb.AccountStatus{tlb.AccountNone, tlb.AccountUninit, tlb.AccountActive, tlb.AccountFrozen}[g.C.Choose("accstatus", 4)]))
		return true, nil
	case inTlb && name == "AccStatusChange":
		v.SetString(string([]tlb.AccStatusChange{tlb.AccStatusChangeUnchanged, tlb.AccStatusChangeFrozen, tlb.AccStatusChangeDeleted}[g.C.Choose("accstchange", 3)]))
		return true, nil
	case inTlb && name == "ComputeSkipReason":
		v.SetString(string([]tlb.ComputeSkipReason{tlb.ComputeSkipReasonNoState, tlb.ComputeSkipReasonBadState, tlb.ComputeSkipReasonNoGas, tlb.ComputeSkipSuspended}[g.C.Choose("skipreason", 4)]))
		return true, nil
	case inTlb && name == "MsgAddress":
		g.msgAddress(v, "")
		return true, nil
	case inTlb && name == "Anycast":
		d := g.C.Range("anycast.depth", 1, 30)
		v.Set(reflect.ValueOf(tlb.Anycast{Depth: uint32(d), RewritePfx: uint32(g.bigInRange(d, false).Uint64())}))
		return true, nil
	case inTlb && name == "VmCellSlice":
		sv, err := tlb.CellToVmCellSlice(g.smallCell(1))
		if err != nil {
			return true, err
		}
		v.Set(reflect.ValueOf(sv.VmStkSlice))
		return true, nil
	case inTlb && name == "VmStack":
		n := 0
		if depth > 0 {
			n = g.C.Range("stack.n", 0, 8)
		}
		if depth > 0 && g.C.Intn("stack.big", 12) == 0 {
			// deep stacks of small values: the 24-bit depth field allows far more than 255 entries
			big := g.C.OneOf("stack.bigN", 255, 256, 257, 1000)
			s := make(tlb.VmStack, big)
			for i := range s {
				s[i] = tlb.VmStackValue{SumType: "VmStkTinyInt", VmStkTinyInt: int64(i) - 3}
			}
			v.Set(reflect.ValueOf(s))
			g.ev(fmt.Sprintf("stack %d values", big))
			return true, nil
		}
		s := make(tlb.VmStack, 0, n)
		for i := 0; i < n; i++ {
			ev := reflect.New(reflect.TypeOf(tlb.VmStackValue{})).Elem()
			if err := g.fill(ev, "", depth-1); err != nil {
				return true, err
			}
			s = append(s, ev.Interface().(tlb.VmStackValue))
		}
		v.Set(reflect.ValueOf(s))
		g.ev(fmt.Sprintf("stack %d values", n))
		return true, nil
	case inWallet && name == "PayloadV1toV4":
		n := g.C.Range("payload.n", 0, 4)
		p := wallet.PayloadV1toV4{}
		for i := 0; i < n; i++ {
			p = append(p, g.rawMessage())
		}
		if n == 0 {
			p = nil
		}
		v.Set(reflect.ValueOf(p))
		return true, nil
	case inWallet && name == "PayloadHighload":
		n := g.C.Range("payload.n", 0, 6)
		if g.C.Intn("payload.big", 20) == 0 {
			n = g.C.OneOf("payload.bigN", 64, 254)
		}
		p := make(wallet.PayloadHighload, 0, n)
		for i := 0; i < n; i++ {
			p = append(p, g.rawMessage())
		}
		v.Set(reflect.ValueOf(p))
		g.ev(fmt.Sprintf("highload %d msgs", n))
		return true, nil
	case inWallet && name == "W5Actions":
		n := g.C.Range("w5.n", 0, 5)
		var p wallet.W5Actions
		for i := 0; i < n; i++ {
			p = append(p, wallet.W5SendMessageAction{Magic: 0x0ec3c86d, Mode: uint8(g.C.Intn("mode", 256)), Msg: g.smallCell(1)})
		}
		v.Set(reflect.ValueOf(p))
		return true, nil
	case inWallet && name == "W5ExtendedActions":
		n := g.C.Range("w5e.n", 1, 4) // the list form has no empty value
		var p wallet.W5ExtendedActions
		for i := 0; i < n; i++ {
			ev := reflect.New(reflect.TypeOf(wallet.W5ExtendedAction{})).Elem()
			if err := g.fill(ev, "", depth-1); err != nil {
				return true, err
			}
			p = append(p, ev.Interface().(wallet.W5ExtendedAction))
		}
		v.Set(reflect.ValueOf(p))
		return true, nil
	case inWallet && name == "TextComment":
		v.SetString(validUTF8(g.C, "comment", g.C.OneOf("comment.max", 0, 10, 123, 124, 400)))
		return true, nil
	case inWallet && name == "RawMessage":
		v.Set(reflect.ValueOf(g.rawMessage()))
		return true, nil
	}
	return false, nil
}
