package tlbgen

import (
	"bytes"
	"fmt"
	"math/big"
	"reflect"
	"strings"

	"github.com/tonkeeper/tongo/boc"
	"github.com/tonkeeper/tongo/tlb"

	"verifharness/internal/gen"
)

// CellKey is the reference representation hash of a tongo cell (computed by the reference hasher on an
// image taken through public accessors), or an error text.
func CellKey(c *boc.Cell) string {
	if c == nil {
		return "<nil cell>"
	}
	cp := *c
	cp.ResetCounters()
	r, err := gen.FromTongo(&cp, 200000)
	if err != nil {
		return "<error " + err.Error() + ">"
	}
	return fmt.Sprintf("%x", r.ReprHash())
}

// Equal compares two values of the same type by meaning: big integers numerically, bit strings by
// length and bits, cells by representation hash, dictionaries by their key/value lists, pointers by
// pointee, unions by the selected constructor only, other structs by their exported fields.
func Equal(a, b reflect.Value) error { return equal(a, b, "") }

func equal(a, b reflect.Value, path string) error {
	if a.Type() != b.Type() {
		return fmt.Errorf("%s: types %v vs %v", path, a.Type(), b.Type())
	}
	t := a.Type()
	if t == magicT {
		// a Magic field only records that its constant tag was seen; the tag is part of the type, so the
		// stored number carries no information (hand-written decoders leave it zero)
		return nil
	}
	switch t {
	case cellT:
		ac, bc := a.Interface().(boc.Cell), b.Interface().(boc.Cell)
		if ka, kb := CellKey(&ac), CellKey(&bc); ka != kb {
			return fmt.Errorf("%s: cells differ: %s vs %s", path, ka, kb)
		}
		return nil
	case anyT:
		ac, bc := boc.Cell(a.Interface().(tlb.Any)), boc.Cell(b.Interface().(tlb.Any))
		if ka, kb := CellKey(&ac), CellKey(&bc); ka != kb {
			return fmt.Errorf("%s: Any cells differ: %s vs %s", path, ka, kb)
		}
		return nil
	case bitStringT:
		x, y := gen.BitsOf(a.Interface().(boc.BitString)), gen.BitsOf(b.Interface().(boc.BitString))
		if !x.Equal(y) {
			return fmt.Errorf("%s: bit strings differ: %s vs %s", path, x.FiftHex(), y.FiftHex())
		}
		return nil
	}
	if t.Kind() == reflect.Struct && t.ConvertibleTo(bigIntT) {
		x, y := a.Convert(bigIntT).Interface().(big.Int), b.Convert(bigIntT).Interface().(big.Int)
		if x.Cmp(&y) != 0 {
			return fmt.Errorf("%s: %s vs %s", path, x.String(), y.String())
		}
		return nil
	}
	if t.Kind() == reflect.Struct && t.ConvertibleTo(bitStringT) && t != bitStringT { // SnakeData, ChunkedData
		x, y := gen.BitsOf(a.Convert(bitStringT).Interface().(boc.BitString)), gen.BitsOf(b.Convert(bitStringT).Interface().(boc.BitString))
		if !x.Equal(y) {
			return fmt.Errorf("%s: bit data differ: %d bits %s vs %d bits %s", path, len(x), trunc(x.FiftHex()), len(y), trunc(y.FiftHex()))
		}
		return nil
	}
	name := baseName(t)
	if isTongo(t) && strings.HasSuffix(t.PkgPath(), "tongo/tlb") {
		switch name {
		case "Hashmap", "HashmapE", "HashmapAug", "HashmapAugE":
			ka, va := callList(a, "Keys"), callList(a, "Values")
			kb, vb := callList(b, "Keys"), callList(b, "Values")
			if ka.Len() != kb.Len() || va.Len() != vb.Len() {
				return fmt.Errorf("%s: dictionaries have %d/%d vs %d/%d keys/values", path, ka.Len(), va.Len(), kb.Len(), vb.Len())
			}
			// compare as key -> value sets: order of a is matched against b by key equality
			used := make([]bool, kb.Len())
			for i := 0; i < ka.Len(); i++ {
				found := false
				for j := 0; j < kb.Len(); j++ {
					if used[j] || equal(ka.Index(i), kb.Index(j), "") != nil {
						continue
					}
					if err := equal(va.Index(i), vb.Index(j), fmt.Sprintf("%s[%v]", path, ka.Index(i).Interface())); err != nil {
						return err
					}
					used[j], found = true, true
					break
				}
				if !found {
					return fmt.Errorf("%s: key %v missing on the other side", path, ka.Index(i).Interface())
				}
			}
			return nil
		case "VmCellSlice":
			x, y := a.Interface().(tlb.VmCellSlice), b.Interface().(tlb.VmCellSlice)
			if ka, kb := safeSliceKey(x), safeSliceKey(y); ka != kb {
				return fmt.Errorf("%s: VmCellSlice %s vs %s", path, ka, kb)
			}
			return nil
		}
	}
	switch t.Kind() {
	case reflect.Bool:
		if a.Bool() != b.Bool() {
			return fmt.Errorf("%s: %v vs %v", path, a.Bool(), b.Bool())
		}
	case reflect.Int, reflect.Int8, reflect.Int16, reflect.Int32, reflect.Int64:
		if a.Int() != b.Int() {
			return fmt.Errorf("%s: %d vs %d", path, a.Int(), b.Int())
		}
	case reflect.Uint, reflect.Uint8, reflect.Uint16, reflect.Uint32, reflect.Uint64:
		if a.Uint() != b.Uint() {
			return fmt.Errorf("%s: %d vs %d", path, a.Uint(), b.Uint())
		}
	case reflect.String:
		if a.String() != b.String() {
			return fmt.Errorf("%s: %q vs %q", path, trunc(a.String()), trunc(b.String()))
		}
	case reflect.Array:
		for i := 0; i < a.Len(); i++ {
			if err := equal(a.Index(i), b.Index(i), fmt.Sprintf("%s[%d]", path, i)); err != nil {
				return err
			}
		}
	case reflect.Slice:
		if t.Elem().Kind() == reflect.Uint8 {
			if !bytes.Equal(a.Bytes(), b.Bytes()) {
				return fmt.Errorf("%s: bytes %x vs %x", path, a.Bytes(), b.Bytes())
			}
			return nil
		}
		if a.Len() != b.Len() {
			return fmt.Errorf("%s: lengths %d vs %d", path, a.Len(), b.Len())
		}
		for i := 0; i < a.Len(); i++ {
			if err := equal(a.Index(i), b.Index(i), fmt.Sprintf("%s[%d]", path, i)); err != nil {
				return err
			}
		}
	case reflect.Pointer:
		if a.IsNil() || b.IsNil() {
			if a.IsNil() != b.IsNil() {
				return fmt.Errorf("%s: nil %v vs nil %v", path, a.IsNil(), b.IsNil())
			}
			return nil
		}
		if t.Elem() == cellT {
			if ka, kb := CellKey(a.Interface().(*boc.Cell)), CellKey(b.Interface().(*boc.Cell)); ka != kb {
				return fmt.Errorf("%s: cells differ: %s vs %s", path, ka, kb)
			}
			return nil
		}
		return equal(a.Elem(), b.Elem(), path)
	case reflect.Struct:
		if _, ok := t.FieldByName("SumType"); ok && len(sumFields(t)) > 0 {
			sa, sb := a.FieldByName("SumType").String(), b.FieldByName("SumType").String()
			if sa != sb {
				return fmt.Errorf("%s: constructor %q vs %q", path, sa, sb)
			}
			if sa == "" {
				return nil
			}
			fa := a.FieldByName(sa)
			if !fa.IsValid() {
				return fmt.Errorf("%s: unknown constructor %q", path, sa)
			}
			return equal(fa, b.FieldByName(sa), path+"."+sa)
		}
		for i := 0; i < t.NumField(); i++ {
			if !t.Field(i).IsExported() {
				continue
			}
			if err := equal(a.Field(i), b.Field(i), path+"."+t.Field(i).Name); err != nil {
				return err
			}
		}
	case reflect.Interface:
		if a.IsNil() || b.IsNil() {
			if a.IsNil() != b.IsNil() {
				return fmt.Errorf("%s: nil interface mismatch", path)
			}
			return nil
		}
		return equal(a.Elem(), b.Elem(), path)
	case reflect.Map:
		if a.Len() != b.Len() {
			return fmt.Errorf("%s: map sizes %d vs %d", path, a.Len(), b.Len())
		}
		for _, k := range a.MapKeys() {
			bv := b.MapIndex(k)
			if !bv.IsValid() {
				return fmt.Errorf("%s: key %v missing", path, k)
			}
			if err := equal(a.MapIndex(k), bv, fmt.Sprintf("%s[%v]", path, k)); err != nil {
				return err
			}
		}
	default:
		return fmt.Errorf("%s: cannot compare kind %v", path, t.Kind())
	}
	return nil
}

func safeSliceKey(s tlb.VmCellSlice) (k string) {
	defer func() {
		if r := recover(); r != nil {
			k = fmt.Sprintf("<panic %v>", r)
		}
	}()
	return CellKey(s.Cell())
}

func callList(v reflect.Value, method string) reflect.Value {
	m := v.MethodByName(method)
	if !m.IsValid() {
		if v.CanAddr() {
			m = v.Addr().MethodByName(method)
		} else {
			p := reflect.New(v.Type())
			p.Elem().Set(v)
			m = p.MethodByName(method)
		}
	}
	return m.Call(nil)[0]
}

func trunc(s string) string {
	if len(s) > 120 {
		return s[:120] + "…"
	}
	return s
}

// IsZero reports whether v is the zero value of its type by meaning.
func IsZero(v reflect.Value) bool {
	z := reflect.New(v.Type()).Elem()
	return equal(v, z, "") == nil
}
