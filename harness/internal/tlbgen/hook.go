package tlbgen

import "reflect"

// Hook, when a check package sets it, is asked first for every library type the generator is about to
// fill: it may fill v itself (done=true) or decline (done=false: the generator proceeds as if there was
// no hook). It is nil by default, so packages that do not set it draw exactly what they drew before.
// Used by C08 to obtain valid encodings of the abi unions whose alternatives are held in an `any` field.
var Hook func(g *G, v reflect.Value, name string, depth int) (done bool, err error)

// Fill fills v (settable) with a drawn value; for hooks that recurse into the generator.
func (g *G) Fill(v reflect.Value, tag string, depth int) error { return g.fill(v, tag, depth) }
