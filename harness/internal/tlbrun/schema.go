// Package tlbrun is the value-level oracle of C09's TL-B half. It runs INSIDE the scratch binary that was
// compiled from the output of tongo's TL-B type generator (tlb/parser): it reads the schema text with its
// own parser (this file), draws abstract values of every declared type (value.go), writes them with a
// reference writer made from the TL-B semantics (encode.go), maps them by field position into the
// generated Go structs (bind.go) and compares tlb.Marshal / tlb.Unmarshal with the reference cells
// (run.go). The package is compiled and vetted as part of the harness and copied verbatim (import paths
// rewritten) into the scratch module. schema.go, value.go and encode.go import nothing from tongo.
package tlbrun

import (
	"fmt"
	"strconv"
	"strings"
)

type Kind int

const (
	KUint    Kind = iota // uintN
	KInt                 // intN
	KBits                // bitsN
	KNat                 // (## n)
	KNat32               // #
	KBool                // Bool
	KCoins               // Coins, Grams (Name keeps the spelling)
	KVarUint             // (VarUInteger n)
	KAddr                // MsgAddress
	KCell                // Cell: the remainder of the current cell
	KNamed               // a declared type
	KMaybe               // (Maybe X)
	KEither              // (Either X Y)
	KRef                 // ^X
	KAnonRef             // ^[ fields ]
	KDict                // (HashmapE n X)
)

type Type struct {
	Kind   Kind
	N      int
	Name   string
	Args   []*Type
	Fields []*Field
}

// Field: Name "" is a field without a name, "_" the anonymous name.
type Field struct {
	Name string
	Type *Type
}

// Ctor is one declaration. Tag is "" (constructor `_` without a tag), "#_", "$_", "#<hex>" or "$<bin>".
type Ctor struct {
	Name    string
	Tag     string
	TagBits int
	TagVal  uint64
	Fields  []*Field
	Result  string
}

type TypeDef struct {
	Name  string
	Ctors []*Ctor
}

type Schema struct {
	Types  []*TypeDef
	byName map[string]*TypeDef
}

func (s *Schema) Type(name string) *TypeDef { return s.byName[name] }

// NewSchema indexes the definitions and resolves the tags.
func NewSchema(types []*TypeDef) (*Schema, error) {
	s := &Schema{Types: types, byName: map[string]*TypeDef{}}
	for _, t := range types {
		if s.byName[t.Name] != nil {
			return nil, fmt.Errorf("type %s declared twice", t.Name)
		}
		s.byName[t.Name] = t
		for _, c := range t.Ctors {
			if err := c.resolveTag(); err != nil {
				return nil, err
			}
		}
	}
	var check func(t *Type) error
	check = func(t *Type) error {
		if t.Kind == KNamed && s.byName[t.Name] == nil {
			return fmt.Errorf("unknown type %s", t.Name)
		}
		for _, a := range t.Args {
			if err := check(a); err != nil {
				return err
			}
		}
		for _, f := range t.Fields {
			if err := check(f.Type); err != nil {
				return err
			}
		}
		return nil
	}
	for _, t := range types {
		for _, c := range t.Ctors {
			for _, f := range c.Fields {
				if err := check(f.Type); err != nil {
					return nil, fmt.Errorf("%s: %v", c.Name, err)
				}
			}
		}
	}
	return s, nil
}

func (c *Ctor) resolveTag() error {
	c.TagBits, c.TagVal = 0, 0
	switch {
	case c.Tag == "" || c.Tag == "#_" || c.Tag == "$_":
		return nil
	case c.Tag[0] == '#':
		v, err := strconv.ParseUint(c.Tag[1:], 16, 64)
		if err != nil || len(c.Tag) > 17 {
			return fmt.Errorf("bad tag %q", c.Tag)
		}
		c.TagBits, c.TagVal = 4*(len(c.Tag)-1), v
	case c.Tag[0] == '$':
		v, err := strconv.ParseUint(c.Tag[1:], 2, 64)
		if err != nil {
			return fmt.Errorf("bad tag %q", c.Tag)
		}
		c.TagBits, c.TagVal = len(c.Tag)-1, v
	default:
		return fmt.Errorf("bad tag %q", c.Tag)
	}
	return nil
}

// ---------------------------------------------------------------------------------------------
// rendering

func (t *Type) String() string { return t.render(false) }

// render writes the type expression; top is true where no parentheses are needed (never, in field
// position parentheses are always written for applied types, as the schemas of abi/ do).
func (t *Type) render(bool) string {
	switch t.Kind {
	case KUint:
		return fmt.Sprintf("uint%d", t.N)
	case KInt:
		return fmt.Sprintf("int%d", t.N)
	case KBits:
		return fmt.Sprintf("bits%d", t.N)
	case KNat:
		return fmt.Sprintf("(## %d)", t.N)
	case KNat32:
		return "#"
	case KBool:
		return "Bool"
	case KCoins:
		if t.Name != "" {
			return t.Name
		}
		return "Coins"
	case KVarUint:
		return fmt.Sprintf("(VarUInteger %d)", t.N)
	case KAddr:
		return "MsgAddress"
	case KCell:
		return "Cell"
	case KNamed:
		return t.Name
	case KMaybe:
		return "(Maybe " + t.Args[0].String() + ")"
	case KEither:
		return "(Either " + t.Args[0].String() + " " + t.Args[1].String() + ")"
	case KRef:
		return "^" + t.Args[0].String()
	case KAnonRef:
		return "^[ " + renderFields(t.Fields) + "]"
	case KDict:
		return fmt.Sprintf("(HashmapE %d %s)", t.N, t.Args[0].String())
	}
	return "?"
}

func renderFields(fs []*Field) string {
	var sb strings.Builder
	for _, f := range fs {
		if f.Name != "" {
			sb.WriteString(f.Name + ":")
		}
		sb.WriteString(f.Type.String() + " ")
	}
	return sb.String()
}

func (c *Ctor) String() string {
	return fmt.Sprintf("%s%s %s= %s;", c.Name, c.Tag, renderFields(c.Fields), c.Result)
}

func (s *Schema) String() string {
	var sb strings.Builder
	for _, t := range s.Types {
		for _, c := range t.Ctors {
			sb.WriteString(c.String() + "\n")
		}
	}
	return sb.String()
}

// ---------------------------------------------------------------------------------------------
// parser of the subset (independent of tongo's participle grammar)

type token struct {
	kind byte // 'i' identifier, 'n' number, 't' tag (directly after a constructor name), or the punctuation itself; '2' is ##
	text string
}

func lex(text string) ([]token, error) {
	var out []token
	isIdent := func(ch byte) bool {
		return ch == '_' || ch >= 'a' && ch <= 'z' || ch >= 'A' && ch <= 'Z' || ch >= '0' && ch <= '9'
	}
	for i := 0; i < len(text); {
		ch := text[i]
		switch {
		case ch == ' ' || ch == '\t' || ch == '\n' || ch == '\r':
			i++
		case ch == '/' && i+1 < len(text) && text[i+1] == '/':
			for i < len(text) && text[i] != '\n' {
				i++
			}
		case ch >= '0' && ch <= '9':
			j := i
			for j < len(text) && text[j] >= '0' && text[j] <= '9' {
				j++
			}
			out = append(out, token{'n', text[i:j]})
			i = j
		case isIdent(ch):
			j := i
			for j < len(text) && isIdent(text[j]) {
				j++
			}
			out = append(out, token{'i', text[i:j]})
			i = j
			// a tag sticks to the constructor name
			if i < len(text) && (text[i] == '#' || text[i] == '$') {
				j = i + 1
				for j < len(text) && isIdent(text[j]) {
					j++
				}
				if j > i+1 || text[i] == '$' {
					out = append(out, token{'t', text[i:j]})
					i = j
				}
			}
		case ch == '#':
			if i+1 < len(text) && text[i+1] == '#' {
				out = append(out, token{'2', "##"})
				i += 2
			} else {
				out = append(out, token{'#', "#"})
				i++
			}
		case strings.IndexByte("()[]^:=;", ch) >= 0:
			out = append(out, token{ch, string(ch)})
			i++
		default:
			return nil, fmt.Errorf("unexpected character %q at offset %d", ch, i)
		}
	}
	return out, nil
}

type parser struct {
	toks []token
	pos  int
}

func (p *parser) peek() token {
	if p.pos < len(p.toks) {
		return p.toks[p.pos]
	}
	return token{0, "<end>"}
}

func (p *parser) next() token { t := p.peek(); p.pos++; return t }

func (p *parser) expect(kind byte) (token, error) {
	t := p.next()
	if t.kind != kind {
		return t, fmt.Errorf("token %d: %q, want %q", p.pos-1, t.text, string(kind))
	}
	return t, nil
}

func (p *parser) number() (int, error) {
	t, err := p.expect('n')
	if err != nil {
		return 0, err
	}
	return strconv.Atoi(t.text)
}

func identType(name string) *Type {
	for _, pre := range []struct {
		p string
		k Kind
	}{{"uint", KUint}, {"int", KInt}, {"bits", KBits}} {
		if strings.HasPrefix(name, pre.p) {
			if n, err := strconv.Atoi(name[len(pre.p):]); err == nil && n > 0 && name[len(pre.p)] != '0' {
				return &Type{Kind: pre.k, N: n}
			}
		}
	}
	switch name {
	case "Bool":
		return &Type{Kind: KBool}
	case "Coins", "Grams":
		return &Type{Kind: KCoins, Name: name}
	case "MsgAddress":
		return &Type{Kind: KAddr}
	case "Cell":
		return &Type{Kind: KCell}
	}
	return &Type{Kind: KNamed, Name: name}
}

func (p *parser) typeExpr() (*Type, error) {
	t := p.next()
	switch t.kind {
	case 'i':
		return identType(t.text), nil
	case '#':
		return &Type{Kind: KNat32}, nil
	case '^':
		if p.peek().kind == '[' {
			p.next()
			fs, err := p.fields(']')
			if err != nil {
				return nil, err
			}
			p.next()
			return &Type{Kind: KAnonRef, Fields: fs}, nil
		}
		inner, err := p.typeExpr()
		if err != nil {
			return nil, err
		}
		return &Type{Kind: KRef, Args: []*Type{inner}}, nil
	case '(':
		head := p.next()
		var res *Type
		switch {
		case head.kind == '2':
			n, err := p.number()
			if err != nil {
				return nil, err
			}
			res = &Type{Kind: KNat, N: n}
		case head.kind == 'i' && head.text == "Maybe":
			a, err := p.typeExpr()
			if err != nil {
				return nil, err
			}
			res = &Type{Kind: KMaybe, Args: []*Type{a}}
		case head.kind == 'i' && head.text == "Either":
			a, err := p.typeExpr()
			if err != nil {
				return nil, err
			}
			b, err := p.typeExpr()
			if err != nil {
				return nil, err
			}
			res = &Type{Kind: KEither, Args: []*Type{a, b}}
		case head.kind == 'i' && head.text == "HashmapE":
			n, err := p.number()
			if err != nil {
				return nil, err
			}
			a, err := p.typeExpr()
			if err != nil {
				return nil, err
			}
			res = &Type{Kind: KDict, N: n, Args: []*Type{a}}
		case head.kind == 'i' && head.text == "VarUInteger":
			n, err := p.number()
			if err != nil {
				return nil, err
			}
			res = &Type{Kind: KVarUint, N: n}
		default: // parenthesised expression
			p.pos--
			inner, err := p.typeExpr()
			if err != nil {
				return nil, err
			}
			res = inner
		}
		if _, err := p.expect(')'); err != nil {
			return nil, err
		}
		return res, nil
	}
	return nil, fmt.Errorf("token %d: %q is not a type expression", p.pos-1, t.text)
}

// fields parses field definitions up to (not including) the token of kind end.
func (p *parser) fields(end byte) ([]*Field, error) {
	var out []*Field
	for p.peek().kind != end {
		if p.peek().kind == 0 {
			return nil, fmt.Errorf("unexpected end of text")
		}
		f := &Field{}
		if p.peek().kind == 'i' && p.pos+1 < len(p.toks) && p.toks[p.pos+1].kind == ':' {
			f.Name = p.next().text
			p.next()
		}
		t, err := p.typeExpr()
		if err != nil {
			return nil, err
		}
		f.Type = t
		out = append(out, f)
	}
	return out, nil
}

// ParseSchema reads declarations `ctor[tag] field... = Type;` of the subset described in RULE.txt.
func ParseSchema(text string) (*Schema, error) {
	toks, err := lex(text)
	if err != nil {
		return nil, err
	}
	p := &parser{toks: toks}
	var types []*TypeDef
	byName := map[string]*TypeDef{}
	for p.peek().kind != 0 {
		name, err := p.expect('i')
		if err != nil {
			return nil, err
		}
		c := &Ctor{Name: name.text}
		if p.peek().kind == 't' {
			c.Tag = p.next().text
		}
		if c.Fields, err = p.fields('='); err != nil {
			return nil, fmt.Errorf("%s: %v", c.Name, err)
		}
		p.next()
		res, err := p.expect('i')
		if err != nil {
			return nil, err
		}
		if _, err := p.expect(';'); err != nil {
			return nil, err
		}
		c.Result = res.text
		td := byName[c.Result]
		if td == nil {
			td = &TypeDef{Name: c.Result}
			byName[c.Result] = td
			types = append(types, td)
		}
		td.Ctors = append(td.Ctors, c)
	}
	return NewSchema(types)
}

// ---------------------------------------------------------------------------------------------
// static sizes (inline part of a value: bits and references written into the current cell)

type Size struct{ MinBits, MaxBits, MinRefs, MaxRefs int }

func (a Size) plus(b Size) Size {
	return Size{a.MinBits + b.MinBits, a.MaxBits + b.MaxBits, a.MinRefs + b.MinRefs, a.MaxRefs + b.MaxRefs}
}

func either(a, b Size) Size {
	r := a
	if b.MinBits < r.MinBits {
		r.MinBits = b.MinBits
	}
	if b.MaxBits > r.MaxBits {
		r.MaxBits = b.MaxBits
	}
	if b.MinRefs < r.MinRefs {
		r.MinRefs = b.MinRefs
	}
	if b.MaxRefs > r.MaxRefs {
		r.MaxRefs = b.MaxRefs
	}
	return r
}

// CellMaxBits and CellMaxRefs bound the `Cell` values the value generator draws.
const (
	CellMaxBits = 24
	CellMaxRefs = 1
)

func bitLen(n int) int {
	l := 0
	for n > 0 {
		l++
		n >>= 1
	}
	return l
}

func (s *Schema) SizeOf(t *Type) Size {
	switch t.Kind {
	case KUint, KInt, KBits, KNat:
		return Size{t.N, t.N, 0, 0}
	case KNat32:
		return Size{32, 32, 0, 0}
	case KBool:
		return Size{1, 1, 0, 0}
	case KCoins:
		return Size{4, 4 + 64, 0, 0} // values are kept below 2^64 (tlb.Grams is a uint64)
	case KVarUint:
		w := bitLen(t.N - 1)
		return Size{w, w + 8*(t.N-1), 0, 0}
	case KAddr:
		return Size{2, 267, 0, 0}
	case KCell:
		return Size{0, CellMaxBits, 0, CellMaxRefs}
	case KNamed:
		return s.SizeOfDef(s.byName[t.Name])
	case KMaybe:
		return either(Size{}, s.SizeOf(t.Args[0])).plus(Size{1, 1, 0, 0})
	case KEither:
		return either(s.SizeOf(t.Args[0]), s.SizeOf(t.Args[1])).plus(Size{1, 1, 0, 0})
	case KRef, KAnonRef:
		return Size{0, 0, 1, 1}
	case KDict:
		return Size{1, 1, 0, 1}
	}
	return Size{}
}

func (s *Schema) SizeOfFields(fs []*Field) Size {
	var r Size
	for _, f := range fs {
		r = r.plus(s.SizeOf(f.Type))
	}
	return r
}

func (s *Schema) SizeOfDef(td *TypeDef) Size {
	var r Size
	for i, c := range td.Ctors {
		cs := s.SizeOfFields(c.Fields).plus(Size{c.TagBits, c.TagBits, 0, 0})
		if i == 0 {
			r = cs
		} else {
			r = either(r, cs)
		}
	}
	return r
}

// Greedy reports whether a value of the type, written inline, ends with a `Cell` (which takes the rest of
// the cell when read back), so that nothing may follow it in the same cell.
func (s *Schema) Greedy(t *Type) bool {
	switch t.Kind {
	case KCell:
		return true
	case KNamed:
		for _, c := range s.byName[t.Name].Ctors {
			if n := len(c.Fields); n > 0 && s.Greedy(c.Fields[n-1].Type) {
				return true
			}
		}
	case KMaybe:
		return s.Greedy(t.Args[0])
	case KEither:
		return s.Greedy(t.Args[0]) || s.Greedy(t.Args[1])
	}
	return false
}
