package tlbrun

import (
	"fmt"
	"math/big"
	"strings"

	"verifharness/internal/ref"
)

// Reference writer, made from the TL-B semantics:
//
//	uintN / (## n) / #    n-bit unsigned, most significant bit first (# is 32 bits)
//	intN                  n-bit two's complement
//	bitsN                 the N bits
//	Bool                  bool_false$0 / bool_true$1
//	VarUInteger n         len:(#< n) value:(uint (len * 8)), len minimal; (#< n) has bitlen(n-1) bits
//	Coins, Grams          VarUInteger 16
//	MsgAddress            addr_none$00 / addr_std$10 anycast:(Maybe Anycast) workchain_id:int8 address:bits256
//	Cell                  the bits and references of the cell, inline
//	T                     the tag of the constructor, then its fields in order
//	Maybe X               nothing$0 / just$1 value:X
//	Either X Y            left$0 value:X / right$1 value:Y
//	^X                    a reference to a new cell that holds X
//	^[ fields ]           a reference to a new cell that holds the fields
//	HashmapE n X          hme_empty$0 / hme_root$1 root:^(Hashmap n X)      (internal/ref/hashmap.go)

type builder struct {
	bits ref.Bits
	refs []*ref.RCell
}

type dictInfo struct {
	n   int
	val *Type
}

// Encoding is a reference cell tree plus the positions of its dictionary roots. Dictionaries are written
// with canonical (shortest) labels; tongo's writer chooses other valid label forms, therefore a
// comparison decodes both trees below a dictionary root (Compare).
type Encoding struct {
	Root  *ref.RCell
	Fits  bool // false: some cell of the value would need more than 1023 bits or 4 references
	dicts map[*ref.RCell]dictInfo
}

type encoder struct {
	s   *Schema
	out *Encoding
	why string
}

func (e *encoder) overflow(format string, args ...any) {
	if e.out.Fits {
		e.out.Fits = false
		e.why = fmt.Sprintf(format, args...)
	}
}

func (e *encoder) cell(b *builder) *ref.RCell {
	bits, refs := b.bits, b.refs
	if len(bits) > 1023 {
		e.overflow("a cell of %d bits", len(bits))
		bits = bits[:1023]
	}
	if len(refs) > 4 {
		e.overflow("a cell with %d references", len(refs))
		refs = refs[:4]
	}
	return ref.NewRCell(bits, false, refs...)
}

func (e *encoder) fields(b *builder, fs []*Field, vs []*Val) {
	for i, f := range fs {
		e.write(b, f.Type, vs[i])
	}
}

func (e *encoder) varUint(b *builder, v *big.Int, n int) {
	raw := v.Bytes()
	b.bits = b.bits.AppendUint(uint64(len(raw)), bitLen(n-1))
	b.bits = b.bits.AppendBytes(raw)
}

func (e *encoder) write(b *builder, t *Type, v *Val) {
	switch t.Kind {
	case KUint, KInt, KNat:
		b.bits = b.bits.AppendBig(v.Big, t.N)
	case KNat32:
		b.bits = b.bits.AppendBig(v.Big, 32)
	case KBits:
		b.bits = append(b.bits, ref.BitsFromBytes(v.Bytes, t.N)...)
	case KBool:
		b.bits = append(b.bits, v.Bool)
	case KCoins:
		e.varUint(b, v.Big, 16)
	case KVarUint:
		e.varUint(b, v.Big, t.N)
	case KAddr:
		if !v.Std {
			b.bits = append(b.bits, false, false)
			break
		}
		b.bits = append(b.bits, true, false, false)
		b.bits = b.bits.AppendInt(int64(v.WC), 8).AppendBytes(v.Bytes)
	case KCell:
		b.bits = append(b.bits, v.Cell.Bits()...)
		b.refs = append(b.refs, v.Cell.Refs...)
	case KNamed:
		c := e.s.byName[t.Name].Ctors[v.Ctor]
		b.bits = b.bits.AppendUint(c.TagVal, c.TagBits)
		e.fields(b, c.Fields, v.Fields)
	case KAnonRef:
		nb := &builder{}
		e.fields(nb, t.Fields, v.Fields)
		b.refs = append(b.refs, e.cell(nb))
	case KMaybe:
		b.bits = append(b.bits, v.Bool)
		if v.Bool {
			e.write(b, t.Args[0], v.Inner)
		}
	case KEither:
		b.bits = append(b.bits, v.Bool)
		if v.Bool {
			e.write(b, t.Args[1], v.Inner)
		} else {
			e.write(b, t.Args[0], v.Inner)
		}
	case KRef:
		nb := &builder{}
		e.write(nb, t.Args[0], v.Inner)
		b.refs = append(b.refs, e.cell(nb))
	case KDict:
		if len(v.Dict) == 0 {
			b.bits = append(b.bits, false)
			break
		}
		var entries []ref.DictEntry
		for _, ent := range v.Dict {
			vb := &builder{}
			e.write(vb, t.Args[0], ent.Val)
			if len(vb.refs) > 4 {
				e.overflow("a dictionary leaf with %d references", len(vb.refs))
				vb.refs = vb.refs[:4]
			}
			entries = append(entries, ref.DictEntry{Key: ent.Key, Value: ref.DictValue{Bits: vb.bits, Refs: vb.refs}})
		}
		root, err := ref.EncodeHashmap(entries, t.N, nil)
		if err != nil {
			e.overflow("dictionary: %v", err)
			root = ref.NewRCell(nil, false)
		} else {
			e.out.dicts[root] = dictInfo{t.N, t.Args[0]}
		}
		b.bits = append(b.bits, true)
		b.refs = append(b.refs, root)
	default:
		panic(fmt.Sprintf("tlbrun: write of kind %d", t.Kind))
	}
}

// Encode writes value v of the declared type td into a fresh cell.
func (s *Schema) Encode(td *TypeDef, v *Val) (*Encoding, string) {
	e := &encoder{s: s, out: &Encoding{Fits: true, dicts: map[*ref.RCell]dictInfo{}}}
	b := &builder{}
	e.write(b, &Type{Kind: KNamed, Name: td.Name}, v)
	e.out.Root = e.cell(b)
	return e.out, e.why
}

// HasDict reports whether the encoding contains a non-empty dictionary.
func (enc *Encoding) HasDict() bool { return len(enc.dicts) > 0 }

// Compare checks that got (tongo's output, imaged into the cell model) is the reference tree: equal bits
// and references cell by cell; below a dictionary root both sides are decoded with the reference
// dictionary decoder and must hold the same keys with the same values (label forms may differ).
func (enc *Encoding) Compare(got *ref.RCell) error {
	return enc.compare(got, enc.Root, "root")
}

func (enc *Encoding) compare(got, want *ref.RCell, path string) error {
	if got.Special {
		return fmt.Errorf("%s: exotic cell", path)
	}
	if g, w := got.Bits(), want.Bits(); !g.Equal(w) {
		return fmt.Errorf("%s: cell bits %s (%d), want %s (%d)", path, g.FiftHex(), len(g), w.FiftHex(), len(w))
	}
	if len(got.Refs) != len(want.Refs) {
		return fmt.Errorf("%s: %d references, want %d", path, len(got.Refs), len(want.Refs))
	}
	for i := range want.Refs {
		p := fmt.Sprintf("%s.%d", path, i)
		info, isDict := enc.dicts[want.Refs[i]]
		if !isDict {
			if err := enc.compare(got.Refs[i], want.Refs[i], p); err != nil {
				return err
			}
			continue
		}
		ge, err := ref.DecodeHashmap(got.Refs[i], info.n)
		if err != nil {
			return fmt.Errorf("%s: not a Hashmap %d: %v", p, info.n, err)
		}
		we, err := ref.DecodeHashmap(want.Refs[i], info.n)
		if err != nil {
			return fmt.Errorf("harness error: %s: reference dictionary does not decode: %v", p, err)
		}
		if len(ge) != len(we) {
			return fmt.Errorf("%s: dictionary with %d entries, want %d", p, len(ge), len(we))
		}
		for k := range we {
			if !ge[k].Key.Equal(we[k].Key) {
				return fmt.Errorf("%s: dictionary key %d is %s, want %s", p, k, ge[k].Key.FiftHex(), we[k].Key.FiftHex())
			}
			gl := ref.NewRCell(ge[k].Value.Bits, false, ge[k].Value.Refs...)
			wl := ref.NewRCell(we[k].Value.Bits, false, we[k].Value.Refs...)
			if err := enc.compare(gl, wl, fmt.Sprintf("%s[%s]", p, we[k].Key.FiftHex())); err != nil {
				return err
			}
		}
	}
	return nil
}

// Dump prints a cell tree, one cell per line.
func Dump(c *ref.RCell) string {
	var sb strings.Builder
	var rec func(c *ref.RCell, depth int)
	n := 0
	rec = func(c *ref.RCell, depth int) {
		n++
		if n > 60 {
			return
		}
		fmt.Fprintf(&sb, "%sx{%s} (%d bits)\n", strings.Repeat("  ", depth), c.Bits().FiftHex(), c.BitLen)
		for _, r := range c.Refs {
			rec(r, depth+1)
		}
	}
	rec(c, 0)
	return sb.String()
}
