package tlbrun

import (
	"encoding/hex"
	"fmt"
	"math/big"
	"sort"
	"strings"

	"verifharness/internal/ref"
)

// Val is an abstract value of a type expression of the schema.
type Val struct {
	Big    *big.Int   // KUint, KInt, KNat, KNat32, KCoins, KVarUint
	Bytes  []byte     // KBits (N bits left aligned; unused bits of the last byte are zero), KAddr
	Bool   bool       // KBool; KMaybe: present; KEither: right
	Std    bool       // KAddr: addr_std (else addr_none)
	WC     int8       // KAddr
	Cell   *ref.RCell // KCell
	Ctor   int        // KNamed: constructor index
	Fields []*Val     // KNamed, KAnonRef
	Inner  *Val       // KMaybe (present), KEither, KRef
	Dict   []DictEnt  // KDict, ascending keys
}

type DictEnt struct {
	Key ref.Bits
	Val *Val
}

func cellString(c *ref.RCell) string {
	var sb strings.Builder
	sb.WriteString("x{" + c.Bits().FiftHex() + "}")
	if len(c.Refs) > 0 {
		sb.WriteString("[")
		for i, r := range c.Refs {
			if i > 0 {
				sb.WriteString(" ")
			}
			sb.WriteString(cellString(r))
		}
		sb.WriteString("]")
	}
	return sb.String()
}

// Show renders the value against its type; two values of a type are equal iff they render equally.
func (s *Schema) Show(t *Type, v *Val) string {
	if v == nil {
		return "<nil>"
	}
	switch t.Kind {
	case KUint, KInt, KNat, KNat32, KCoins, KVarUint:
		if v.Big == nil {
			return "<nil int>"
		}
		return v.Big.String()
	case KBits:
		return "x" + hex.EncodeToString(v.Bytes)
	case KBool:
		return fmt.Sprint(v.Bool)
	case KAddr:
		if !v.Std {
			return "addr_none"
		}
		return fmt.Sprintf("addr_std(%d:%x)", v.WC, v.Bytes)
	case KCell:
		if v.Cell == nil {
			return "<nil cell>"
		}
		return cellString(v.Cell)
	case KNamed:
		td := s.byName[t.Name]
		if v.Ctor < 0 || v.Ctor >= len(td.Ctors) {
			return fmt.Sprintf("<constructor %d of %s>", v.Ctor, t.Name)
		}
		c := td.Ctors[v.Ctor]
		return c.Name + c.Tag + s.showFields(c.Fields, v.Fields)
	case KAnonRef:
		return "^[" + s.showFields(t.Fields, v.Fields) + "]"
	case KMaybe:
		if !v.Bool {
			return "nothing"
		}
		return "just(" + s.Show(t.Args[0], v.Inner) + ")"
	case KEither:
		if v.Bool {
			return "right(" + s.Show(t.Args[1], v.Inner) + ")"
		}
		return "left(" + s.Show(t.Args[0], v.Inner) + ")"
	case KRef:
		return "^(" + s.Show(t.Args[0], v.Inner) + ")"
	case KDict:
		var sb strings.Builder
		sb.WriteString("dict{")
		for i, e := range v.Dict {
			if i > 0 {
				sb.WriteString(", ")
			}
			sb.WriteString(e.Key.FiftHex() + ": " + s.Show(t.Args[0], e.Val))
		}
		return sb.String() + "}"
	}
	return "?"
}

func (s *Schema) showFields(fs []*Field, vs []*Val) string {
	if len(fs) != len(vs) {
		return fmt.Sprintf("<%d values for %d fields>", len(vs), len(fs))
	}
	var sb strings.Builder
	sb.WriteString("{")
	for i, f := range fs {
		if i > 0 {
			sb.WriteString(" ")
		}
		sb.WriteString(f.Name + ":" + s.Show(f.Type, vs[i]))
	}
	return sb.String() + "}"
}

// ---------------------------------------------------------------------------------------------
// drawing

// Rand is a splitmix64 stream; a value is a pure function of the seed.
type Rand struct{ s uint64 }

func NewRand(seed uint64) *Rand { return &Rand{seed} }

func (r *Rand) Next() uint64 {
	r.s += 0x9e3779b97f4a7c15
	z := r.s
	z = (z ^ (z >> 30)) * 0xbf58476d1ce4e5b9
	z = (z ^ (z >> 27)) * 0x94d049bb133111eb
	return z ^ (z >> 31)
}

func (r *Rand) Intn(n int) int { return int(r.Next() % uint64(n)) }

func (r *Rand) bytes(n int) []byte {
	out := make([]byte, n)
	switch r.Intn(8) {
	case 0:
	case 1:
		for i := range out {
			out[i] = 0xff
		}
	default:
		for i := range out {
			out[i] = byte(r.Next())
		}
	}
	return out
}

// unsigned draws a number in [0, 2^n), favouring 0, 1, the maximum and the top bit.
func (r *Rand) unsigned(n int) *big.Int {
	if n <= 0 {
		return new(big.Int)
	}
	max := new(big.Int).Lsh(big.NewInt(1), uint(n))
	switch r.Intn(8) {
	case 0:
		return new(big.Int)
	case 1:
		return max.Sub(max, big.NewInt(1))
	case 2:
		return new(big.Int).Lsh(big.NewInt(1), uint(n-1))
	case 3:
		return new(big.Int).Mod(big.NewInt(1), max)
	case 4: // a short number
		return new(big.Int).Mod(new(big.Int).SetUint64(r.Next()%(1<<uint(1+r.Intn(16)))), max)
	}
	x := new(big.Int).SetBytes(r.bytes((n + 7) / 8))
	return x.Mod(x, max)
}

type Stats struct {
	Unions, MaybePresent, MaybeAbsent, EitherLeft, EitherRight, Refs, DictEmpty, DictOne, DictMany int
	Negative, CellInline, AddrStd, DictSameLabel                                                   int
}

// Draw draws a value of type t. depth bounds the size of nested dictionaries.
func (s *Schema) Draw(r *Rand, t *Type, st *Stats) *Val {
	switch t.Kind {
	case KUint, KNat:
		return &Val{Big: r.unsigned(t.N)}
	case KNat32:
		return &Val{Big: r.unsigned(32)}
	case KInt:
		x := r.unsigned(t.N)
		if x.Bit(t.N-1) == 1 { // reinterpret as two's complement
			x.Sub(x, new(big.Int).Lsh(big.NewInt(1), uint(t.N)))
			st.Negative++
		}
		return &Val{Big: x}
	case KBits:
		if t.N%8 == 0 {
			return &Val{Bytes: r.bytes(t.N / 8)}
		}
		// a width that is not a whole number of bytes: the N bits, left aligned, the rest of the last byte zero
		raw := r.bytes((t.N + 7) / 8)
		raw[len(raw)-1] &= 0xff << uint(8-t.N%8)
		return &Val{Bytes: raw}
	case KBool:
		return &Val{Bool: r.Intn(2) == 1}
	case KCoins:
		return &Val{Big: r.unsigned(8 * r.Intn(9))}
	case KVarUint:
		return &Val{Big: r.unsigned(8 * r.Intn(t.N))}
	case KAddr:
		if r.Intn(3) == 0 {
			return &Val{}
		}
		st.AddrStd++
		wc := int8(r.Next())
		if r.Intn(2) == 0 {
			wc = []int8{0, -1}[r.Intn(2)]
		}
		return &Val{Std: true, WC: wc, Bytes: r.bytes(32)}
	case KCell:
		st.CellInline++
		var refs []*ref.RCell
		for i := r.Intn(CellMaxRefs + 1); i > 0; i-- {
			refs = append(refs, ref.NewRCell(ref.BitsFromBytes(r.bytes(2), r.Intn(17)), false))
		}
		n := r.Intn(CellMaxBits + 1)
		return &Val{Cell: ref.NewRCell(ref.BitsFromBytes(r.bytes((n+7)/8), n), false, refs...)}
	case KNamed:
		td := s.byName[t.Name]
		v := &Val{Ctor: r.Intn(len(td.Ctors))}
		if len(td.Ctors) > 1 {
			st.Unions++
		}
		v.Fields = s.drawFields(r, td.Ctors[v.Ctor].Fields, st)
		return v
	case KAnonRef:
		st.Refs++
		return &Val{Fields: s.drawFields(r, t.Fields, st)}
	case KMaybe:
		if r.Intn(3) == 0 {
			st.MaybeAbsent++
			return &Val{}
		}
		st.MaybePresent++
		return &Val{Bool: true, Inner: s.Draw(r, t.Args[0], st)}
	case KEither:
		if r.Intn(2) == 0 {
			st.EitherLeft++
			return &Val{Inner: s.Draw(r, t.Args[0], st)}
		}
		st.EitherRight++
		return &Val{Bool: true, Inner: s.Draw(r, t.Args[1], st)}
	case KRef:
		st.Refs++
		return &Val{Inner: s.Draw(r, t.Args[0], st)}
	case KDict:
		n := []int{0, 1, 2, 3, 4, 1, 2, 0}[r.Intn(8)]
		if t.N < 2 && n > 1<<uint(t.N) {
			n = 1 << uint(t.N)
		}
		v := &Val{}
		seen := map[string]bool{}
		var base ref.Bits
		for len(v.Dict) < n {
			var key ref.Bits
			switch r.Intn(6) {
			case 0: // all zeros / all ones: the hml_same label form
				key = make(ref.Bits, t.N)
				if r.Intn(2) == 1 {
					for i := range key {
						key[i] = true
					}
				}
			case 1, 2: // a neighbour of an earlier key: a long common prefix
				if base != nil {
					key = base.Clone()
					i := t.N - 1 - r.Intn(minInt(t.N, 10))
					key[i] = !key[i]
					break
				}
				fallthrough
			default:
				key = ref.BitsFromBytes(r.bytes((t.N+7)/8), t.N)
			}
			if seen[key.String()] {
				continue
			}
			seen[key.String()] = true
			base = key
			v.Dict = append(v.Dict, DictEnt{Key: key, Val: s.Draw(r, t.Args[0], st)})
		}
		sort.Slice(v.Dict, func(i, j int) bool { return v.Dict[i].Key.String() < v.Dict[j].Key.String() })
		switch {
		case n == 0:
			st.DictEmpty++
		case n == 1:
			st.DictOne++
			same := true
			for _, b := range v.Dict[0].Key {
				same = same && b == v.Dict[0].Key[0]
			}
			if same {
				st.DictSameLabel++
			}
		default:
			st.DictMany++
		}
		return v
	}
	panic(fmt.Sprintf("tlbrun: draw of kind %d", t.Kind))
}

func (s *Schema) drawFields(r *Rand, fs []*Field, st *Stats) []*Val {
	out := make([]*Val, len(fs))
	for i, f := range fs {
		out[i] = s.Draw(r, f.Type, st)
	}
	return out
}

func minInt(a, b int) int {
	if a < b {
		return a
	}
	return b
}
