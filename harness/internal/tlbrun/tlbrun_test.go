package tlbrun

import (
	"math/big"
	"strings"
	"testing"

	"verifharness/internal/ref"
)

// The reference writer against encodings worked out by hand from the TL-B definitions.
func TestReferenceWriterByHand(t *testing.T) {
	s, err := ParseSchema(`
		a#_ v:(VarUInteger 16) = A;          // 1 TON = 1000000000 nanoton: x{43B9ACA00}
		b#ab x:uint4 y:int4 z:(## 3) f:Bool = B;
		c$101 m:(Maybe ^B) e:(Either B ^B) = C;
		d1#1 = D;
		d2$0010 x:uint8 = D;
		e#_ a:MsgAddress b:MsgAddress c:Grams = E;
		f#_ d:(HashmapE 8 uint16) r:^[ x:uint8 y:^Cell ] t:Cell = F;
		g#_ v:(VarUInteger 1) w:(VarUInteger 2) x:(VarUInteger 32) = G;
	`)
	if err != nil {
		t.Fatal(err)
	}
	big1 := func(v int64) *Val { return &Val{Big: big.NewInt(v)} }
	bVal := &Val{Fields: []*Val{big1(9), big1(-2), big1(5), {Bool: true}}} // ab 1001 1110 101 1
	hash := make([]byte, 32)
	for i := range hash {
		hash[i] = 0x11
	}
	leaf := ref.NewRCell(ref.Bits{}.AppendUint(0xC, 4), false)
	cases := []struct {
		typ  string
		val  *Val
		want string // cell tree: x{hex}[children]
	}{
		{"A", &Val{Fields: []*Val{big1(1000000000)}}, "x{43B9ACA00}"},
		{"A", &Val{Fields: []*Val{big1(0)}}, "x{0}"},
		{"B", bVal, "x{AB9EB}"},
		// c: 101, just -> 1 + ref, right -> 1 + ref                 => 10111
		{"C", &Val{Fields: []*Val{{Bool: true, Inner: &Val{Inner: bVal}}, {Bool: true, Inner: &Val{Inner: bVal}}}}, "x{BC_}[x{AB9EB} x{AB9EB}]"},
		// c: 101, nothing -> 0, left -> 0 + B inline                => 101 0 0 ab9eb
		{"C", &Val{Fields: []*Val{{}, {Inner: bVal}}}, "x{A55CF5C_}"},
		{"D", &Val{Ctor: 0, Fields: []*Val{}}, "x{1}"},
		{"D", &Val{Ctor: 1, Fields: []*Val{big1(255)}}, "x{2FF}"},
		// addr_none 00, addr_std 10 0 wc=-1 (FF) hash, grams 0 -> 0000
		{"E", &Val{Fields: []*Val{{}, {Std: true, WC: -1, Bytes: hash}, big1(0)}}, "x{27F" + strings.Repeat("8", 65) + "4_}"},
		// f: dict {0x01: 0x0203} -> 1 + ref to the leaf (the shortest label of 00000001 with 8 bits left is hml_long
		// 10 1000 00000001 = 14 bits, hml_short would take 18), then the value; r -> ref; t = x{C} inline: root 1 1100
		{"F", &Val{Fields: []*Val{
			{Dict: []DictEnt{{Key: ref.Bits{}.AppendUint(1, 8), Val: big1(0x0203)}}},
			{Fields: []*Val{big1(7), {Inner: &Val{Cell: leaf}}}},
			{Cell: leaf},
		}}, "x{E4_}[x{A004080E_} x{07}[x{C}]]"},
		// VarUInteger 1: 0 bits; VarUInteger 2: 1 bit length; VarUInteger 32: 5 bits length
		{"G", &Val{Fields: []*Val{big1(0), big1(255), big1(256)}}, "x{FF880402_}"},
	}
	for i, c := range cases {
		td := s.Type(c.typ)
		enc, why := s.Encode(td, c.val)
		if !enc.Fits {
			t.Errorf("case %d: does not fit: %s", i, why)
			continue
		}
		if got := cellString(enc.Root); got != c.want {
			t.Errorf("case %d (%s %s): got %s want %s", i, c.typ, s.Show(&Type{Kind: KNamed, Name: c.typ}, c.val), got, c.want)
		}
		if err := enc.Compare(enc.Root); err != nil {
			t.Errorf("case %d: the tree does not compare equal to itself: %v", i, err)
		}
	}
}

func TestParseRenderRoundTrip(t *testing.T) {
	text := "a_b#0f x_0:uint8 _:^[ y:(Maybe ^T0) (Either T0 ^T0) ] ^Cell T0 z:(HashmapE 256 ^T0) = T1;\n"
	s, err := ParseSchema("t$_ = T0;\n" + text)
	if err != nil {
		t.Fatal(err)
	}
	if got := s.String(); got != "t$_ = T0;\n"+text {
		t.Fatalf("rendered\n%s", got)
	}
	if _, err := ParseSchema("a#_ x:Unknown = A;"); err == nil {
		t.Fatal("unknown type accepted")
	}
}

func TestCompareSeesDifferences(t *testing.T) {
	s, _ := ParseSchema("f#_ d:(HashmapE 8 uint16) = F;")
	mk := func(k, v uint64) *Val {
		return &Val{Fields: []*Val{{Dict: []DictEnt{{Key: ref.Bits{}.AppendUint(k, 8), Val: &Val{Big: new(big.Int).SetUint64(v)}}}}}}
	}
	a, _ := s.Encode(s.Type("F"), mk(1, 5))
	b, _ := s.Encode(s.Type("F"), mk(1, 6))
	c, _ := s.Encode(s.Type("F"), mk(2, 5))
	if a.Compare(b.Root) == nil || a.Compare(c.Root) == nil {
		t.Fatal("different dictionaries compare equal")
	}
	// another label form of the same dictionary compares equal: hml_short
	var bits ref.Bits
	bits = append(bits, false)
	for i := 0; i < 8; i++ {
		bits = append(bits, true)
	}
	bits = append(bits, false)
	bits = bits.AppendUint(1, 8).AppendUint(5, 16)
	alt := ref.NewRCell(ref.Bits{true}, false, ref.NewRCell(bits, false))
	if err := a.Compare(alt); err != nil {
		t.Fatalf("the same dictionary under another label form: %v", err)
	}
}
