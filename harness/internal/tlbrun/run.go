package tlbrun

import (
	"fmt"
	"reflect"
	"sort"

	"github.com/tonkeeper/tongo/boc"
	"github.com/tonkeeper/tongo/tlb"

	"verifharness/internal/ref"
)

// Entry is what the per-schema package registers: the schema text and, for every declared type, the zero
// value of the Go type the generator emitted for it.
type Entry struct {
	Name   string
	Schema string
	Types  map[string]any
}

type Result struct {
	Name      string   `json:"name"`
	Types     int      `json:"types"`
	Values    int      `json:"values"`
	NoFit     int      `json:"nofit"`
	WithDict  int      `json:"withdict"`
	Distinct  int      `json:"distinct"`
	Stats     Stats    `json:"stats"`
	Failures  []string `json:"failures"`
	NFailures int      `json:"nfailures"`
}

type runner struct {
	e    Entry
	s    *Schema
	res  *Result
	seen map[string]struct{}
}

func (r *runner) fail(size int, format string, args ...any) {
	r.res.NFailures++
	msg := fmt.Sprintf(format, args...)
	if len(msg) > 2500 {
		msg = msg[:2500] + "…"
	}
	// keep the three distinct failures with the smallest encodings (poor man's shrinking)
	entry := fmt.Sprintf("%08d|%s", size, msg)
	for _, f := range r.res.Failures {
		if f == entry {
			return
		}
	}
	r.res.Failures = append(r.res.Failures, entry)
	sort.Strings(r.res.Failures)
	if len(r.res.Failures) > 3 {
		r.res.Failures = r.res.Failures[:3]
	}
}

func treeBits(c *ref.RCell) int {
	n := c.BitLen
	for _, r := range c.Refs {
		n += treeBits(r)
	}
	return n
}

// one checks one value of one declared type.
func (r *runner) one(td *TypeDef, goType reflect.Type, rnd *Rand, byPointer bool) {
	var stage string
	var v *Val
	size := 0
	show := func() string { return r.s.Show(&Type{Kind: KNamed, Name: td.Name}, v) }
	defer func() {
		if p := recover(); p != nil {
			r.fail(size, "%s: panic while %s: %v\nvalue %s", td.Name, stage, p, show())
		}
	}()
	stage = "drawing the value"
	v = r.s.Draw(rnd, &Type{Kind: KNamed, Name: td.Name}, &r.res.Stats)
	stage = "writing the reference encoding"
	enc, why := r.s.Encode(td, v)
	size = treeBits(enc.Root)
	r.res.Values++
	if enc.HasDict() {
		r.res.WithDict++
	}
	var stale *Rand
	if rnd.Intn(4) == 0 {
		stale = rnd
	}
	stage = "populating the generated struct"
	gp := reflect.New(goType)
	if err := r.s.ToGo(td, v, gp.Elem(), stale); err != nil {
		r.fail(0, "%s: the generated type %v does not have the shape of the declaration: %v", td.Name, goType, err)
		return
	}
	stage = "tlb.Marshal of the generated struct"
	cell := boc.NewCell()
	var merr error
	if byPointer {
		merr = tlb.Marshal(cell, gp.Interface())
	} else {
		merr = tlb.Marshal(cell, gp.Elem().Interface())
	}
	if !enc.Fits {
		r.res.NoFit++
		if merr == nil {
			r.fail(size, "%s: the value does not fit into cells (%s) but tlb.Marshal reports no error\nvalue %s", td.Name, why, show())
		}
		return
	}
	if merr != nil {
		r.fail(size, "%s: tlb.Marshal of the generated struct fails: %v\nvalue %s\nreference encoding:\n%s", td.Name, merr, show(), Dump(enc.Root))
		return
	}
	stage = "comparing the encodings"
	budget := 2000
	got, err := FromCell(cell, &budget)
	if err != nil {
		r.fail(size, "%s: tlb.Marshal output: %v", td.Name, err)
		return
	}
	if err := enc.Compare(got); err != nil {
		r.fail(size, "%s: tlb.Marshal of the generated struct differs from the encoding the declaration prescribes: %v\nvalue %s\ngenerated struct gives:\n%sdeclaration prescribes:\n%s", td.Name, err, show(), Dump(got), Dump(enc.Root))
		return
	}
	r.seen[td.Name+"|"+string(enc.Root.ReprHash())] = struct{}{}
	stage = "tlb.Unmarshal of the reference encoding"
	tc, err := ToCell(enc.Root)
	if err != nil {
		r.fail(size, "harness error: %s: building the reference cell: %v", td.Name, err)
		return
	}
	back := reflect.New(goType)
	if err := tlb.Unmarshal(tc, back.Interface()); err != nil {
		r.fail(size, "%s: tlb.Unmarshal of the reference encoding fails: %v\nvalue %s\nencoding:\n%s", td.Name, err, show(), Dump(enc.Root))
		return
	}
	stage = "reading the decoded struct"
	bv, err := r.s.FromGo(td, back.Elem())
	if err != nil {
		r.fail(size, "%s: reading the decoded struct: %v\nvalue %s", td.Name, err, show())
		return
	}
	if g, w := r.s.Show(&Type{Kind: KNamed, Name: td.Name}, bv), show(); g != w {
		r.fail(size, "%s: tlb.Unmarshal of the reference encoding gives\n  %s\nwant\n  %s\nencoding:\n%s", td.Name, g, w, Dump(enc.Root))
	}
}

// RunEntry checks one schema package: perType values of every declared type.
func RunEntry(e Entry, seed uint64, perType int) (res Result) {
	res = Result{Name: e.Name}
	r := &runner{e: e, res: &res, seen: map[string]struct{}{}}
	defer func() {
		if p := recover(); p != nil {
			r.fail(0, "panic inside the runner: %v", p)
		}
		for i, f := range res.Failures { // strip the sort key
			if len(f) > 9 {
				res.Failures[i] = f[9:]
			}
		}
		res.Distinct = len(r.seen)
	}()
	s, err := ParseSchema(e.Schema)
	if err != nil {
		r.fail(0, "harness error: reference parser rejects the schema: %v", err)
		return
	}
	r.s = s
	for ti, td := range s.Types {
		zero := e.Types[td.Name]
		if zero == nil {
			r.fail(0, "harness error: no Go type registered for %s", td.Name)
			continue
		}
		res.Types++
		goType := reflect.TypeOf(zero)
		start := res.NFailures
		for k := 0; k < perType && res.NFailures-start < 20; k++ { // a broken type: more failing values add nothing
			rnd := NewRand(seed ^ uint64(ti+1)*0x9e3779b97f4a7c15 ^ uint64(k+1)*0xbf58476d1ce4e5b9)
			r.one(td, goType, rnd, k%2 == 1)
		}
	}
	return
}
