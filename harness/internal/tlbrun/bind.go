package tlbrun

import (
	"fmt"
	"math/big"
	"reflect"
	"sort"

	"github.com/tonkeeper/tongo/boc"
	"github.com/tonkeeper/tongo/tlb"

	"verifharness/internal/ref"
)

// Binding of abstract values to the generated Go types. Declared types are bound BY FIELD POSITION
// against the harness's own schema (field and type names of the generated code are never consulted,
// except that the name of the Go field of a union alternative is copied into the SumType discriminator,
// which is how tongo's codec selects the alternative). Library types that the generator maps schema
// types to (tlb.MsgAddress, tlb.Any, tlb.HashmapE, tlb.Either...) are handled by their public shape.

var (
	bigIntType  = reflect.TypeOf(big.Int{})
	bitStrType  = reflect.TypeOf(boc.BitString{})
	anyType     = reflect.TypeOf(tlb.Any{})
	addrType    = reflect.TypeOf(tlb.MsgAddress{})
	magicType   = reflect.TypeOf(tlb.Magic(0))
	sumTypeType = reflect.TypeOf(tlb.SumType(""))
)

// ToCell builds the tongo cell of a reference cell through the public construction API.
func ToCell(r *ref.RCell) (*boc.Cell, error) {
	c := boc.NewCell()
	bs := boc.NewBitString(r.BitLen)
	for _, b := range r.Bits() {
		if err := bs.WriteBit(b); err != nil {
			return nil, err
		}
	}
	if err := c.WriteBitString(bs); err != nil {
		return nil, err
	}
	for _, ch := range r.Refs {
		cc, err := ToCell(ch)
		if err != nil {
			return nil, err
		}
		if err := c.AddRef(cc); err != nil {
			return nil, err
		}
	}
	return c, nil
}

// FromCell images a tongo cell tree into the reference cell model (all bits, all references, whatever the
// read cursors are).
func FromCell(c *boc.Cell, budget *int) (*ref.RCell, error) {
	if c == nil {
		return nil, fmt.Errorf("nil cell")
	}
	*budget--
	if *budget < 0 {
		return nil, fmt.Errorf("cell tree too large")
	}
	bs := c.RawBitString()
	bs.ResetCounter()
	n := bs.BitsAvailableForRead()
	bits := make(ref.Bits, 0, n)
	for i := 0; i < n; i++ {
		b, err := bs.ReadBit()
		if err != nil {
			return nil, err
		}
		bits = append(bits, b)
	}
	out := &ref.RCell{Special: c.IsExotic()}
	out.Data, out.BitLen = bits.Packed(), len(bits)
	for _, ch := range c.Refs() {
		r, err := FromCell(ch, budget)
		if err != nil {
			return nil, err
		}
		out.Refs = append(out.Refs, r)
	}
	return out, nil
}

type binder struct {
	s     *Schema
	stale *Rand // when set, the parts of the Go value the encoding must ignore are filled with other values
}

func shapeErr(t *Type, gv reflect.Value, what string) error {
	return fmt.Errorf("schema type %s is generated as %v: %s", t, gv.Type(), what)
}

func isBitStringStruct(t reflect.Type) bool {
	return t.Kind() == reflect.Struct && t.ConvertibleTo(bitStrType) && bitStrType.ConvertibleTo(t)
}

func isBigStruct(t reflect.Type) bool {
	return t.Kind() == reflect.Struct && t.ConvertibleTo(bigIntType) && bigIntType.ConvertibleTo(t)
}

func (b *binder) setInt(t *Type, v *big.Int, gv reflect.Value) error {
	switch gv.Kind() {
	case reflect.Uint8, reflect.Uint16, reflect.Uint32, reflect.Uint64:
		if v.Sign() < 0 || !v.IsUint64() || gv.OverflowUint(v.Uint64()) {
			return shapeErr(t, gv, fmt.Sprintf("cannot hold %v", v))
		}
		gv.SetUint(v.Uint64())
	case reflect.Int8, reflect.Int16, reflect.Int32, reflect.Int64:
		if !v.IsInt64() || gv.OverflowInt(v.Int64()) {
			return shapeErr(t, gv, fmt.Sprintf("cannot hold %v", v))
		}
		gv.SetInt(v.Int64())
	default:
		if !isBigStruct(gv.Type()) {
			return shapeErr(t, gv, "not an integer type")
		}
		gv.Set(reflect.ValueOf(*new(big.Int).Set(v)).Convert(gv.Type()))
	}
	return nil
}

func (b *binder) getInt(t *Type, gv reflect.Value) (*big.Int, error) {
	switch gv.Kind() {
	case reflect.Uint8, reflect.Uint16, reflect.Uint32, reflect.Uint64:
		return new(big.Int).SetUint64(gv.Uint()), nil
	case reflect.Int8, reflect.Int16, reflect.Int32, reflect.Int64:
		return big.NewInt(gv.Int()), nil
	}
	if !isBigStruct(gv.Type()) {
		return nil, shapeErr(t, gv, "not an integer type")
	}
	x := gv.Convert(bigIntType).Interface().(big.Int)
	return new(big.Int).Set(&x), nil
}

// structFields returns the fields of a generated struct that carry the schema fields: all fields, minus a
// leading tlb.Magic when the constructor has tag bits.
func (b *binder) structFields(t *Type, gv reflect.Value, n int, magic bool) ([]reflect.Value, error) {
	if gv.Kind() != reflect.Struct {
		return nil, shapeErr(t, gv, "not a struct")
	}
	first := 0
	if magic {
		if gv.NumField() == 0 || gv.Type().Field(0).Type != magicType {
			return nil, shapeErr(t, gv, "the constructor has a tag but the struct does not start with a tlb.Magic")
		}
		first = 1
	}
	if gv.NumField()-first != n {
		return nil, shapeErr(t, gv, fmt.Sprintf("%d fields for %d schema fields", gv.NumField()-first, n))
	}
	out := make([]reflect.Value, n)
	for i := range out {
		if f := gv.Type().Field(first + i); !f.IsExported() {
			return nil, shapeErr(t, gv, fmt.Sprintf("field %d (%s) is not exported, the codec skips it", first+i, f.Name))
		}
		out[i] = gv.Field(first + i)
	}
	return out, nil
}

func (b *binder) toFields(t *Type, fs []*Field, vs []*Val, gv reflect.Value, magic bool) error {
	gf, err := b.structFields(t, gv, len(fs), magic)
	if err != nil {
		return err
	}
	for i, f := range fs {
		if err := b.toGo(f.Type, vs[i], gf[i]); err != nil {
			return err
		}
	}
	return nil
}

func (b *binder) fromFields(t *Type, fs []*Field, gv reflect.Value, magic bool) ([]*Val, error) {
	gf, err := b.structFields(t, gv, len(fs), magic)
	if err != nil {
		return nil, err
	}
	out := make([]*Val, len(fs))
	for i, f := range fs {
		if out[i], err = b.fromGo(f.Type, gf[i]); err != nil {
			return nil, err
		}
	}
	return out, nil
}

func (b *binder) isStale() bool { return b.stale != nil && b.stale.Intn(2) == 0 }

func (b *binder) toGo(t *Type, v *Val, gv reflect.Value) error {
	switch t.Kind {
	case KUint, KInt, KNat, KNat32, KCoins, KVarUint:
		return b.setInt(t, v.Big, gv)
	case KBits:
		if isBitStringStruct(gv.Type()) { // the form the bits type generator writes for widths that are not whole bytes
			bs := boc.NewBitString(t.N)
			for _, bit := range ref.BitsFromBytes(v.Bytes, t.N) {
				if err := bs.WriteBit(bit); err != nil {
					return err
				}
			}
			gv.Set(reflect.ValueOf(bs).Convert(gv.Type()))
			break
		}
		if gv.Kind() != reflect.Array || gv.Type().Elem().Kind() != reflect.Uint8 || gv.Len() != len(v.Bytes) || t.N%8 != 0 {
			return shapeErr(t, gv, "not a byte array of that size")
		}
		reflect.Copy(gv, reflect.ValueOf(v.Bytes))
	case KBool:
		if gv.Kind() != reflect.Bool {
			return shapeErr(t, gv, "not a bool")
		}
		gv.SetBool(v.Bool)
	case KAddr:
		if gv.Type() != addrType {
			return shapeErr(t, gv, "not a tlb.MsgAddress")
		}
		var a tlb.MsgAddress
		a.SumType = "AddrNone"
		if v.Std {
			a.SumType = "AddrStd"
			a.AddrStd.WorkchainId = v.WC
			copy(a.AddrStd.Address[:], v.Bytes)
		}
		gv.Set(reflect.ValueOf(a))
	case KCell:
		if gv.Type() != anyType {
			return shapeErr(t, gv, "not a tlb.Any")
		}
		c, err := ToCell(v.Cell)
		if err != nil {
			return err
		}
		gv.Set(reflect.ValueOf(tlb.Any(*c)))
	case KNamed:
		td := b.s.byName[t.Name]
		if len(td.Ctors) == 1 {
			return b.toFields(t, td.Ctors[0].Fields, v.Fields, gv, td.Ctors[0].TagBits > 0)
		}
		if gv.Kind() != reflect.Struct || gv.NumField() != 1+len(td.Ctors) || gv.Type().Field(0).Type != sumTypeType {
			return shapeErr(t, gv, "not a struct of a tlb.SumType and one field per constructor")
		}
		for i, c := range td.Ctors {
			switch {
			case i == v.Ctor:
				gv.Field(0).SetString(gv.Type().Field(1 + i).Name)
				if err := b.toFields(t, c.Fields, v.Fields, gv.Field(1+i), false); err != nil {
					return err
				}
			case b.isStale():
				other := b.s.drawFields(b.stale, c.Fields, &Stats{})
				if err := (&binder{s: b.s}).toFields(t, c.Fields, other, gv.Field(1+i), false); err != nil {
					return err
				}
			}
		}
	case KAnonRef:
		return b.toFields(t, t.Fields, v.Fields, gv, false)
	case KMaybe: // *X; `Maybe ^X` is a *X as well (the reference is a struct tag)
		if gv.Kind() != reflect.Pointer {
			return shapeErr(t, gv, "not a pointer")
		}
		if !v.Bool {
			gv.Set(reflect.Zero(gv.Type()))
			return nil
		}
		p := reflect.New(gv.Type().Elem())
		if err := b.toGo(t.Args[0], v.Inner, p.Elem()); err != nil {
			return err
		}
		gv.Set(p)
	case KEither:
		if gv.Kind() != reflect.Struct || gv.NumField() < 2 || gv.Field(0).Kind() != reflect.Bool {
			return shapeErr(t, gv, "not an Either struct")
		}
		gv.Field(0).SetBool(v.Bool)
		left, right := t.Args[0], t.Args[1]
		switch gv.NumField() {
		case 2: // tlb.EitherRef[T]{IsRight, Value}: Either T ^T
			if v.Bool {
				return b.toGo(right, v.Inner, gv.Field(1))
			}
			return b.toGo(left, v.Inner, gv.Field(1))
		case 3: // tlb.Either[M, N]{IsRight, Left, Right}
			sel, other, side, otherSide := gv.Field(1), gv.Field(2), left, right
			if v.Bool {
				sel, other, side, otherSide = other, sel, right, left
			}
			if err := b.toGo(side, v.Inner, sel); err != nil {
				return err
			}
			if b.isStale() {
				return (&binder{s: b.s}).toGo(otherSide, b.s.Draw(b.stale, otherSide, &Stats{}), other)
			}
		default:
			return shapeErr(t, gv, "not an Either struct")
		}
	case KRef:
		// `^X` is X with a struct tag, or tlb.Ref[X] inside a dictionary
		if isRefWrapper(gv.Type()) {
			gv = gv.Field(0)
		}
		return b.toGo(t.Args[0], v.Inner, gv)
	case KDict:
		put := gv.Addr().MethodByName("Put")
		if !put.IsValid() || put.Type().NumIn() != 2 {
			return shapeErr(t, gv, "no Put(key, value) method")
		}
		for _, e := range v.Dict {
			k := reflect.New(put.Type().In(0)).Elem()
			if err := b.setKey(t, e.Key, k); err != nil {
				return err
			}
			val := reflect.New(put.Type().In(1)).Elem()
			if err := b.toGo(t.Args[0], e.Val, val); err != nil {
				return err
			}
			put.Call([]reflect.Value{k, val})
		}
	default:
		return fmt.Errorf("tlbrun: bind of kind %d", t.Kind)
	}
	return nil
}

// isRefWrapper recognises tlb.Ref[T] (a struct whose only field is called Value, declared in package tlb).
func isRefWrapper(t reflect.Type) bool {
	return t.Kind() == reflect.Struct && t.NumField() == 1 && t.Field(0).Name == "Value" && t.PkgPath() == anyType.PkgPath() && len(t.Name()) > 4 && t.Name()[:4] == "Ref["
}

func (b *binder) setKey(t *Type, key ref.Bits, k reflect.Value) error {
	switch k.Kind() {
	case reflect.Uint8, reflect.Uint16, reflect.Uint32, reflect.Uint64:
		if len(key) > 64 {
			return shapeErr(t, k, "key type too narrow")
		}
		k.SetUint(key.Uint(0, len(key)))
	case reflect.Array:
		if k.Len()*8 != len(key) || k.Type().Elem().Kind() != reflect.Uint8 {
			return shapeErr(t, k, "key array of another size")
		}
		reflect.Copy(k, reflect.ValueOf(key.Packed()))
	default:
		return shapeErr(t, k, "unsupported dictionary key type")
	}
	return nil
}

func (b *binder) getKey(t *Type, k reflect.Value) (ref.Bits, error) {
	switch k.Kind() {
	case reflect.Uint8, reflect.Uint16, reflect.Uint32, reflect.Uint64:
		return ref.Bits{}.AppendUint(k.Uint(), t.N), nil
	case reflect.Array:
		if k.Len()*8 != t.N || k.Type().Elem().Kind() != reflect.Uint8 {
			return nil, shapeErr(t, k, "key array of another size")
		}
		raw := make([]byte, k.Len())
		reflect.Copy(reflect.ValueOf(raw), k)
		return ref.BitsFromBytes(raw, t.N), nil
	}
	return nil, shapeErr(t, k, "unsupported dictionary key type")
}

func (b *binder) fromGo(t *Type, gv reflect.Value) (*Val, error) {
	switch t.Kind {
	case KUint, KInt, KNat, KNat32, KCoins, KVarUint:
		x, err := b.getInt(t, gv)
		return &Val{Big: x}, err
	case KBits:
		if isBitStringStruct(gv.Type()) {
			bs := gv.Convert(bitStrType).Interface().(boc.BitString)
			bs.ResetCounter()
			n := bs.BitsAvailableForRead()
			bits := make(ref.Bits, 0, n)
			for i := 0; i < n; i++ {
				bit, err := bs.ReadBit()
				if err != nil {
					return nil, err
				}
				bits = append(bits, bit)
			}
			if n != t.N {
				return nil, fmt.Errorf("%s decoded as a bit string of %d bits: %s", t, n, bits.FiftHex())
			}
			return &Val{Bytes: bits.Packed()}, nil
		}
		if gv.Kind() != reflect.Array || gv.Type().Elem().Kind() != reflect.Uint8 {
			return nil, shapeErr(t, gv, "not a byte array")
		}
		raw := make([]byte, gv.Len())
		reflect.Copy(reflect.ValueOf(raw), gv)
		return &Val{Bytes: raw}, nil
	case KBool:
		if gv.Kind() != reflect.Bool {
			return nil, shapeErr(t, gv, "not a bool")
		}
		return &Val{Bool: gv.Bool()}, nil
	case KAddr:
		a, ok := gv.Interface().(tlb.MsgAddress)
		if !ok {
			return nil, shapeErr(t, gv, "not a tlb.MsgAddress")
		}
		switch a.SumType {
		case "AddrNone":
			return &Val{}, nil
		case "AddrStd":
			if a.AddrStd.Anycast.Exists {
				return nil, fmt.Errorf("address with anycast")
			}
			return &Val{Std: true, WC: a.AddrStd.WorkchainId, Bytes: append([]byte{}, a.AddrStd.Address[:]...)}, nil
		}
		return nil, fmt.Errorf("address of kind %q", a.SumType)
	case KCell:
		a, ok := gv.Interface().(tlb.Any)
		if !ok {
			return nil, shapeErr(t, gv, "not a tlb.Any")
		}
		c := boc.Cell(a)
		budget := 100
		r, err := FromCell(&c, &budget)
		return &Val{Cell: r}, err
	case KNamed:
		td := b.s.byName[t.Name]
		if len(td.Ctors) == 1 {
			fs, err := b.fromFields(t, td.Ctors[0].Fields, gv, td.Ctors[0].TagBits > 0)
			return &Val{Fields: fs}, err
		}
		if gv.Kind() != reflect.Struct || gv.NumField() != 1+len(td.Ctors) || gv.Type().Field(0).Type != sumTypeType {
			return nil, shapeErr(t, gv, "not a struct of a tlb.SumType and one field per constructor")
		}
		for i, c := range td.Ctors {
			if gv.Type().Field(1+i).Name == gv.Field(0).String() {
				fs, err := b.fromFields(t, c.Fields, gv.Field(1+i), false)
				return &Val{Ctor: i, Fields: fs}, err
			}
		}
		return nil, fmt.Errorf("%s: SumType %q names no alternative", t.Name, gv.Field(0).String())
	case KAnonRef:
		fs, err := b.fromFields(t, t.Fields, gv, false)
		return &Val{Fields: fs}, err
	case KMaybe:
		if gv.Kind() != reflect.Pointer {
			return nil, shapeErr(t, gv, "not a pointer")
		}
		if gv.IsNil() {
			return &Val{}, nil
		}
		x, err := b.fromGo(t.Args[0], gv.Elem())
		return &Val{Bool: true, Inner: x}, err
	case KEither:
		if gv.Kind() != reflect.Struct || gv.NumField() < 2 || gv.Field(0).Kind() != reflect.Bool {
			return nil, shapeErr(t, gv, "not an Either struct")
		}
		right := gv.Field(0).Bool()
		switch gv.NumField() {
		case 2:
			side := t.Args[0]
			if right {
				side = t.Args[1]
			}
			x, err := b.fromGo(side, gv.Field(1))
			return &Val{Bool: right, Inner: x}, err
		case 3:
			if right {
				x, err := b.fromGo(t.Args[1], gv.Field(2))
				return &Val{Bool: true, Inner: x}, err
			}
			x, err := b.fromGo(t.Args[0], gv.Field(1))
			return &Val{Inner: x}, err
		}
		return nil, shapeErr(t, gv, "not an Either struct")
	case KRef:
		if isRefWrapper(gv.Type()) {
			gv = gv.Field(0)
		}
		x, err := b.fromGo(t.Args[0], gv)
		return &Val{Inner: x}, err
	case KDict:
		items := gv.MethodByName("Items")
		if !items.IsValid() || items.Type().NumIn() != 0 || items.Type().NumOut() != 1 {
			return nil, shapeErr(t, gv, "no Items() method")
		}
		list := items.Call(nil)[0]
		out := &Val{}
		get := gv.MethodByName("Get")
		for i := 0; i < list.Len(); i++ {
			it := list.Index(i)
			if it.Kind() != reflect.Struct || it.NumField() != 2 {
				return nil, shapeErr(t, gv, "Items() does not return key/value pairs")
			}
			key, err := b.getKey(t, it.Field(0))
			if err != nil {
				return nil, err
			}
			val, err := b.fromGo(t.Args[0], it.Field(1))
			if err != nil {
				return nil, err
			}
			out.Dict = append(out.Dict, DictEnt{Key: key, Val: val})
			// the entry the dictionary lists must be the entry it finds under a key made from the same bits
			if get.IsValid() && get.Type().NumIn() == 1 && get.Type().NumOut() == 2 {
				k := reflect.New(get.Type().In(0)).Elem()
				if err := b.setKey(t, key, k); err != nil {
					return nil, err
				}
				if res := get.Call([]reflect.Value{k}); !res[1].Bool() {
					return nil, fmt.Errorf("%s: the decoded dictionary lists key %s but Get does not find it", t, key.FiftHex())
				}
			}
		}
		// a dictionary is a map: the order in which the library lists the entries is not part of the value
		sort.SliceStable(out.Dict, func(i, j int) bool { return out.Dict[i].Key.String() < out.Dict[j].Key.String() })
		return out, nil
	}
	return nil, fmt.Errorf("tlbrun: bind of kind %d", t.Kind)
}

// ToGo fills gv (settable, of the generated type of td) with value v.
func (s *Schema) ToGo(td *TypeDef, v *Val, gv reflect.Value, stale *Rand) error {
	return (&binder{s: s, stale: stale}).toGo(&Type{Kind: KNamed, Name: td.Name}, v, gv)
}

// FromGo reads the abstract value back from a generated Go value.
func (s *Schema) FromGo(td *TypeDef, gv reflect.Value) (*Val, error) {
	return (&binder{s: s}).fromGo(&Type{Kind: KNamed, Name: td.Name}, gv)
}
