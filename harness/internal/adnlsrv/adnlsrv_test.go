package adnlsrv

import (
	"bytes"
	"testing"
)

type lcg uint64

func (l *lcg) n(m int) int {
	*l = *l*6364136223846793005 + 1442695040888963407
	return int(uint64(*l>>33) % uint64(m))
}

// The shaper (incremental, segmenting) agrees with Fault.Apply (whole-string definition) whatever the
// write sizes and cuts are, and emits exactly the planned segment boundaries.
func TestShaperAgainstDefinition(t *testing.T) {
	r := lcg(1)
	for iter := 0; iter < 20000; iter++ {
		total := 1 + r.n(300)
		stream := make([]byte, total)
		for i := range stream {
			stream[i] = byte(r.n(256))
		}
		var f Fault
		switch r.n(5) {
		case 1:
			f = Fault{Kind: FaultFlipBit, Off: r.n(total), Bit: uint(r.n(8))}
		case 2:
			f = Fault{Kind: FaultReplace, Off: r.n(total), Mask: byte(1 + r.n(255))}
		case 3:
			f = Fault{Kind: FaultTruncate, Off: r.n(total + 1)}
		case 4:
			off := 1 + r.n(total)
			f = Fault{Kind: FaultDup, Off: off, Len: 1 + r.n(off)}
		}
		var cuts []Cut
		for i := r.n(6); i > 0; i-- {
			cuts = append(cuts, Cut{Off: r.n(total + 1)})
		}
		var segs Segments
		sh := NewShaper(&segs, Plan{Cuts: cuts, Fault: f})
		truncated := 0
		sh.OnTruncate = func() { truncated++ }
		orig := append([]byte{}, stream...)
		for at := 0; at < total; {
			n := 1 + r.n(total-at)
			if _, err := sh.Write(stream[at : at+n]); err != nil {
				t.Fatal(err)
			}
			at += n
		}
		sh.Finish()
		if !bytes.Equal(orig, stream) {
			t.Fatalf("iter %d: shaper altered the caller's buffer", iter)
		}
		want := f.Apply(stream)
		if got := segs.Bytes(); !bytes.Equal(got, want) {
			t.Fatalf("iter %d: fault %v cuts %v\n got %x\nwant %x", iter, f, cuts, got, want)
		}
		if (f.Kind == FaultTruncate) != (truncated == 1) {
			t.Fatalf("iter %d: fault %v OnTruncate called %d times", iter, f, truncated)
		}
		if f.Kind == FaultNone || f.Kind == FaultFlipBit || f.Kind == FaultReplace {
			// every cut strictly inside the stream is a segment boundary
			bounds := map[int]bool{}
			at := 0
			for _, s := range segs {
				at += len(s)
				bounds[at] = true
			}
			for _, c := range cuts {
				if c.Off > 0 && c.Off < total && !bounds[c.Off] {
					t.Fatalf("iter %d: cut %d is not a segment boundary (%v)", iter, c.Off, bounds)
				}
			}
		}
		rd := &SegmentReader{Segs: segs}
		var back []byte
		buf := make([]byte, 7)
		for {
			n, err := rd.Read(buf)
			back = append(back, buf[:n]...)
			if err != nil {
				break
			}
		}
		if !bytes.Equal(back, want) {
			t.Fatalf("iter %d: SegmentReader lost bytes", iter)
		}
	}
}

func TestLayout(t *testing.T) {
	l := Layout{0, 5, 0, 100}
	if l.Total() != 4*FrameOverhead+105 {
		t.Fatal("total")
	}
	for off := 0; off <= l.Total(); off++ {
		k, f, rel := l.Locate(off)
		if off == l.Total() {
			if k != len(l) || f != FieldEnd {
				t.Fatal("end")
			}
			continue
		}
		if l.Offset(k, f, rel) != off {
			t.Fatalf("offset %d -> (%d,%v,%d) -> %d", off, k, f, rel, l.Offset(k, f, rel))
		}
	}
	frames := [][]byte{{}, {1, 2, 3, 4, 5}, {}, bytes.Repeat([]byte{7}, 100)}
	var stream []byte
	for i, p := range frames {
		stream = append(stream, BuildFrame(p, [32]byte{byte(i)})...)
	}
	got, err := ParseStream(stream, nil, MaxLengthServer)
	if len(got) != 4 || err == nil {
		t.Fatalf("ParseStream: %d frames, %v", len(got), err)
	}
	for i := range frames {
		if !bytes.Equal(got[i].Payload, frames[i]) || got[i].Nonce != [32]byte{byte(i)} {
			t.Fatalf("frame %d", i)
		}
	}
	if MagicPing != 0x4d082b9a || MagicPong != 0xdc69fb03 || MagicQuery != 0xb48bf97a || MagicAnswer != 0x0fac8416 || MagicPubEd != 0x4813b4c6 {
		t.Fatal("TL ids")
	}
	for _, n := range []int{0, 1, 253, 254, 255, 70000} {
		b := bytes.Repeat([]byte{9}, n)
		enc := TLBytes(b)
		v, rest, err := ParseTLBytes(enc)
		if err != nil || !bytes.Equal(v, b) || len(rest) != 0 || len(enc)%4 != 0 {
			t.Fatalf("tl bytes %d", n)
		}
	}
}
