package adnlsrv

// The optional authentication exchange of an ADNL-over-TCP connection (TON tl schema, ton_api.tl):
//
//	tcp.authentificate nonce:bytes = tcp.Message                                   client -> server
//	tcp.authentificationNonce nonce:bytes = tcp.Message                            server -> client
//	tcp.authentificationComplete key:PublicKey signature:bytes = tcp.Message       client -> server
//
// The client opens with a nonce of its own, the server answers with its nonce, and the client proves the
// possession of an Ed25519 key by signing  client nonce ‖ server nonce.  A server that requires the
// exchange serves queries only after it has verified the signature.

import (
	"bytes"
	"crypto/ed25519"
	"encoding/binary"
	"fmt"
)

var (
	MagicAuthenticate = tlID("tcp.authentificate nonce:bytes = tcp.Message")
	MagicAuthComplete = tlID("tcp.authentificationComplete key:PublicKey signature:bytes = tcp.Message")
)

// ParseAuthenticate recognises tcp.authentificate and returns the client's nonce.
func ParseAuthenticate(payload []byte) (nonce []byte, ok bool) {
	if len(payload) < 5 || binary.LittleEndian.Uint32(payload) != MagicAuthenticate {
		return nil, false
	}
	nonce, _, err := ParseTLBytes(payload[4:])
	if err != nil {
		return nil, false
	}
	return append([]byte{}, nonce...), true
}

// AuthNonce builds tcp.authentificationNonce.
func AuthNonce(nonce []byte) []byte {
	out := make([]byte, 4, 8+len(nonce)+4)
	binary.LittleEndian.PutUint32(out, MagicAuthNonce)
	return append(out, TLBytes(nonce)...)
}

// AuthComplete is a parsed tcp.authentificationComplete.
type AuthComplete struct {
	Key       ed25519.PublicKey
	Signature []byte
	// Bare: the message came without its own constructor id, i.e. it started with the pub.ed25519
	// constructor of the key field. The reference accepts this form too: it is unambiguous (no other
	// client message starts with that id), and a server under test harness conditions must not turn a
	// serialisation detail that is outside the property being checked into connection faults.
	Bare bool
}

// ParseAuthComplete recognises tcp.authentificationComplete (boxed pub.ed25519 key, signature bytes).
func ParseAuthComplete(payload []byte) (ac AuthComplete, ok bool) {
	if len(payload) < 4 {
		return ac, false
	}
	rest := payload
	switch binary.LittleEndian.Uint32(rest) {
	case MagicAuthComplete:
		rest = rest[4:]
	case MagicPubEd:
		ac.Bare = true
	default:
		return ac, false
	}
	if len(rest) < 4+32+1 || binary.LittleEndian.Uint32(rest) != MagicPubEd {
		return ac, false
	}
	ac.Key = append(ed25519.PublicKey{}, rest[4:36]...)
	sig, _, err := ParseTLBytes(rest[36:])
	if err != nil {
		return ac, false
	}
	ac.Signature = append([]byte{}, sig...)
	return ac, true
}

// Verify checks the proof: an Ed25519 signature of  client nonce ‖ server nonce  under the announced key,
// which must be the key the server expects (nil = any key).
func (ac AuthComplete) Verify(expect ed25519.PublicKey, clientNonce, serverNonce []byte) error {
	if len(ac.Key) != ed25519.PublicKeySize {
		return fmt.Errorf("key of %d bytes", len(ac.Key))
	}
	if expect != nil && !bytes.Equal(expect, ac.Key) {
		return fmt.Errorf("key %x is not the expected key %x", []byte(ac.Key), []byte(expect))
	}
	if len(ac.Signature) != ed25519.SignatureSize {
		return fmt.Errorf("signature of %d bytes", len(ac.Signature))
	}
	msg := append(append([]byte{}, clientNonce...), serverNonce...)
	if !ed25519.Verify(ac.Key, msg, ac.Signature) {
		return fmt.Errorf("signature does not verify over client nonce ‖ server nonce (%d + %d bytes)", len(clientNonce), len(serverNonce))
	}
	return nil
}

// Note adds a line to the server's event log on behalf of the user of the package.
func (c *Conn) Note(format string, args ...any) { c.srv.log(c.Dial, format, args...) }
