package adnlsrv

import (
	"crypto/ed25519"
	"encoding/binary"
	"testing"
)

func TestAuthMessages(t *testing.T) {
	// constructor ids as published in ton_api.tl (crc32 of the declarations)
	if MagicAuthenticate != 0x445bab12 || MagicAuthNonce != 0xe35d4ab6 || MagicAuthComplete != 0xf7ad9ea6 {
		t.Fatalf("constructor ids %08x %08x %08x", MagicAuthenticate, MagicAuthNonce, MagicAuthComplete)
	}
	seed := make([]byte, ed25519.SeedSize)
	seed[0] = 7
	priv := ed25519.NewKeyFromSeed(seed)
	pub := priv.Public().(ed25519.PublicKey)
	for _, n := range []int{0, 32, 253, 254, 256, 512} {
		cn, sn := make([]byte, 32), make([]byte, n)
		for i := range sn {
			sn[i] = byte(i * 3)
		}
		req := append(binary.LittleEndian.AppendUint32(nil, MagicAuthenticate), TLBytes(cn)...)
		got, ok := ParseAuthenticate(req)
		if !ok || len(got) != 32 {
			t.Fatalf("ParseAuthenticate: %v %d", ok, len(got))
		}
		nonceMsg := AuthNonce(sn)
		if len(nonceMsg)%4 != 0 || binary.LittleEndian.Uint32(nonceMsg) != MagicAuthNonce {
			t.Fatalf("AuthNonce(%d): %x", n, nonceMsg[:8])
		}
		back, _, err := ParseTLBytes(nonceMsg[4:])
		if err != nil || string(back) != string(sn) {
			t.Fatalf("AuthNonce(%d) does not carry the nonce", n)
		}
		sig := ed25519.Sign(priv, append(append([]byte{}, cn...), sn...))
		inner := append(binary.LittleEndian.AppendUint32(nil, MagicPubEd), pub...)
		inner = append(inner, TLBytes(sig)...)
		for _, bare := range []bool{false, true} {
			msg := inner
			if !bare {
				msg = append(binary.LittleEndian.AppendUint32(nil, MagicAuthComplete), inner...)
			}
			ac, ok := ParseAuthComplete(msg)
			if !ok || ac.Bare != bare {
				t.Fatalf("ParseAuthComplete(bare=%v): %v %+v", bare, ok, ac)
			}
			if err := ac.Verify(pub, cn, sn); err != nil {
				t.Fatalf("Verify: %v", err)
			}
			if ac.Verify(pub, cn, append(sn, 1)) == nil || ac.Verify(make(ed25519.PublicKey, 32), cn, sn) == nil {
				t.Fatal("Verify accepts a wrong nonce or a wrong key")
			}
		}
	}
	if _, ok := ParseAuthComplete(Pong(1)); ok {
		t.Fatal("a pong parsed as authentificationComplete")
	}
}
