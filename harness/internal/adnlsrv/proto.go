// Package adnlsrv is reference model R6 of the harness: an independent, in-process implementation of the
// server side of ADNL-over-TCP (the transport a TON lite-server speaks), written from the protocol
// description only. It imports nothing from tongo: it is the oracle for tongo's liteclient transport.
//
// Wire format (all integers little endian):
//
//	handshake, client -> server, 256 bytes in the clear:
//	    key id        32   SHA-256( c6 b4 13 48 ‖ server Ed25519 public key )      (TL pub.ed25519)
//	    ephemeral key 32   an Ed25519 public key A of the client
//	    hash          32   SHA-256(params)
//	    E(params)    160   AES-256-CTR, key = S[0:16]‖hash[16:32], iv = hash[0:4]‖S[20:32],
//	                       S = X25519(a, B) where a, B are the Curve25519 images of the two Ed25519 keys
//	    params = rx key 32 ‖ tx key 32 ‖ rx iv 16 ‖ tx iv 16 ‖ padding 64   (rx/tx seen from the server:
//	                       the server encrypts with (params[0:32], params[64:80]) and decrypts with
//	                       (params[32:64], params[80:96]))
//	frame, either direction, inside the two continuous AES-CTR streams:
//	    length 4 (= 32 + len(payload) + 32)  ‖  nonce 32  ‖  payload  ‖  SHA-256(nonce ‖ payload)
//	the server confirms the handshake with one frame that has an empty payload.
package adnlsrv

import (
	"bytes"
	"crypto/aes"
	"crypto/cipher"
	"crypto/ecdh"
	"crypto/ed25519"
	"crypto/sha256"
	"crypto/sha512"
	"encoding/binary"
	"errors"
	"fmt"
	"hash/crc32"
	"io"
	"math/big"
)

// TL constructor ids are derived from the schema text (CRC32-IEEE of the declaration), not copied.
func tlID(decl string) uint32 { return crc32.ChecksumIEEE([]byte(decl)) }

var (
	MagicPing      = tlID("tcp.ping random_id:long = tcp.Pong")
	MagicPong      = tlID("tcp.pong random_id:long = tcp.Pong")
	MagicQuery     = tlID("adnl.message.query query_id:int256 query:bytes = adnl.Message")
	MagicAnswer    = tlID("adnl.message.answer query_id:int256 answer:bytes = adnl.Message")
	MagicPubEd     = tlID("pub.ed25519 key:int256 = PublicKey")
	MagicAuthNonce = tlID("tcp.authentificationNonce nonce:bytes = tcp.Message")
)

const (
	HandshakeSize = 256
	FrameOverhead = 4 + 32 + 32 // length field + nonce + checksum
	MinLength     = 64          // smallest legal value of the length field (empty payload)
	// MaxLengthServer is what this server accepts from a client (the C++ node accepts 1<<24).
	MaxLengthServer = 1 << 24
)

var p25519 = new(big.Int).Sub(new(big.Int).Lsh(big.NewInt(1), 255), big.NewInt(19))

func reverse(b []byte) []byte {
	out := make([]byte, len(b))
	for i := range b {
		out[len(b)-1-i] = b[i]
	}
	return out
}

// EdPublicToMontgomery maps a compressed Ed25519 point (only y is needed) to the Curve25519
// u-coordinate u = (1+y)/(1-y) mod p.
func EdPublicToMontgomery(pub []byte) ([]byte, error) {
	if len(pub) != 32 {
		return nil, fmt.Errorf("public key of %d bytes", len(pub))
	}
	le := append([]byte{}, pub...)
	le[31] &= 0x7f
	y := new(big.Int).SetBytes(reverse(le))
	if y.Cmp(p25519) >= 0 {
		return nil, errors.New("y not reduced")
	}
	one := big.NewInt(1)
	den := new(big.Int).Sub(one, y)
	den.Mod(den, p25519)
	if den.Sign() == 0 {
		return nil, errors.New("y = 1 has no Montgomery image")
	}
	den.ModInverse(den, p25519)
	u := new(big.Int).Add(one, y)
	u.Mul(u, den)
	u.Mod(u, p25519)
	out := make([]byte, 32)
	ub := u.Bytes()
	copy(out[32-len(ub):], ub)
	return reverse(out), nil
}

// EdPrivateToX25519 is the clamped first half of SHA-512(seed).
func EdPrivateToX25519(priv ed25519.PrivateKey) []byte {
	h := sha512.Sum512(priv.Seed())
	s := h[:32]
	s[0] &= 248
	s[31] &= 127
	s[31] |= 64
	return s
}

// KeyID is the ADNL short id of an Ed25519 public key.
func KeyID(pub ed25519.PublicKey) [32]byte {
	var m [4]byte
	binary.LittleEndian.PutUint32(m[:], MagicPubEd)
	return sha256.Sum256(append(m[:], pub...))
}

// Handshake is what the server learnt from the 256 handshake bytes.
type Handshake struct {
	Raw       [HandshakeSize]byte
	KeyIDOK   bool // the first 32 bytes name this server's key
	ClientPub [32]byte
	Hash      [32]byte
	Params    [160]byte // decrypted session parameters
	HashOK    bool      // SHA-256(Params) == Hash
	Err       error     // nil iff the handshake is acceptable
}

// ParseHandshake checks a client handshake against the server key.
func ParseHandshake(priv ed25519.PrivateKey, raw []byte) (hs Handshake) {
	if len(raw) != HandshakeSize {
		hs.Err = fmt.Errorf("handshake of %d bytes", len(raw))
		return
	}
	copy(hs.Raw[:], raw)
	pub := priv.Public().(ed25519.PublicKey)
	kid := KeyID(pub)
	hs.KeyIDOK = bytes.Equal(kid[:], raw[:32])
	copy(hs.ClientPub[:], raw[32:64])
	copy(hs.Hash[:], raw[64:96])
	if !hs.KeyIDOK {
		hs.Err = fmt.Errorf("key id %x does not name the server key (want %x)", raw[:32], kid)
		return
	}
	u, err := EdPublicToMontgomery(hs.ClientPub[:])
	if err != nil {
		hs.Err = fmt.Errorf("ephemeral key: %v", err)
		return
	}
	xpriv, err := ecdh.X25519().NewPrivateKey(EdPrivateToX25519(priv))
	if err != nil {
		hs.Err = err
		return
	}
	xpub, err := ecdh.X25519().NewPublicKey(u)
	if err != nil {
		hs.Err = err
		return
	}
	shared, err := xpriv.ECDH(xpub)
	if err != nil {
		hs.Err = fmt.Errorf("ecdh: %v", err)
		return
	}
	key := append(append([]byte{}, shared[:16]...), hs.Hash[16:32]...)
	iv := append(append([]byte{}, hs.Hash[:4]...), shared[20:32]...)
	blk, err := aes.NewCipher(key)
	if err != nil {
		hs.Err = err
		return
	}
	cipher.NewCTR(blk, iv).XORKeyStream(hs.Params[:], raw[96:])
	sum := sha256.Sum256(hs.Params[:])
	hs.HashOK = sum == hs.Hash
	if !hs.HashOK {
		hs.Err = fmt.Errorf("SHA-256 of the decrypted parameters is %x, the handshake announced %x", sum, hs.Hash)
	}
	return
}

// Streams returns the server's encrypting and decrypting CTR streams for accepted parameters.
func (hs *Handshake) Streams() (enc, dec cipher.Stream) {
	eb, _ := aes.NewCipher(hs.Params[0:32])
	db, _ := aes.NewCipher(hs.Params[32:64])
	return cipher.NewCTR(eb, hs.Params[64:80]), cipher.NewCTR(db, hs.Params[80:96])
}

// BuildFrame returns the plaintext of one frame.
func BuildFrame(payload []byte, nonce [32]byte) []byte {
	buf := make([]byte, FrameOverhead+len(payload))
	binary.LittleEndian.PutUint32(buf, uint32(64+len(payload)))
	copy(buf[4:], nonce[:])
	copy(buf[36:], payload)
	h := sha256.New()
	h.Write(nonce[:])
	h.Write(payload)
	copy(buf[36+len(payload):], h.Sum(nil))
	return buf
}

// Frame is one received frame.
type Frame struct {
	Nonce   [32]byte
	Payload []byte
}

var (
	ErrLength   = errors.New("adnlsrv: length field out of range")
	ErrChecksum = errors.New("adnlsrv: checksum mismatch")
)

// ReadFrame is the reference frame reader: it reads one frame from r through dec (nil = plaintext).
// maxLen is the largest accepted value of the length field.
func ReadFrame(r io.Reader, dec cipher.Stream, maxLen int) (Frame, error) {
	var f Frame
	var l [4]byte
	if _, err := io.ReadFull(r, l[:]); err != nil {
		return f, err
	}
	if dec != nil {
		dec.XORKeyStream(l[:], l[:])
	}
	n := int(binary.LittleEndian.Uint32(l[:]))
	if n < MinLength || n > maxLen {
		return f, fmt.Errorf("%w: %d", ErrLength, n)
	}
	buf := make([]byte, n)
	if _, err := io.ReadFull(r, buf); err != nil {
		if err == io.EOF {
			err = io.ErrUnexpectedEOF
		}
		return f, err
	}
	if dec != nil {
		dec.XORKeyStream(buf, buf)
	}
	sum := sha256.Sum256(buf[:n-32])
	if !bytes.Equal(sum[:], buf[n-32:]) {
		return f, ErrChecksum
	}
	copy(f.Nonce[:], buf[:32])
	f.Payload = buf[32 : n-32]
	return f, nil
}

// ParseStream applies the reference reader to a whole byte string: the frames accepted before the
// first error, and that error (io.EOF when the string ends exactly at a frame boundary).
func ParseStream(stream []byte, dec cipher.Stream, maxLen int) ([]Frame, error) {
	r := bytes.NewReader(stream)
	var out []Frame
	for {
		f, err := ReadFrame(r, dec, maxLen)
		if err != nil {
			return out, err
		}
		out = append(out, f)
	}
}

// ---------------------------------------------------------------------------------------------
// TL helpers for the four messages a lite-server connection carries

// TLBytes encodes a TL byte string (1-byte or 254-escaped 3-byte length, zero padding to 4).
func TLBytes(b []byte) []byte {
	var out []byte
	if len(b) < 254 {
		out = append(out, byte(len(b)))
	} else {
		out = append(out, 254, byte(len(b)), byte(len(b)>>8), byte(len(b)>>16))
	}
	out = append(out, b...)
	for len(out)%4 != 0 {
		out = append(out, 0)
	}
	return out
}

// ParseTLBytes decodes a TL byte string at the start of b.
func ParseTLBytes(b []byte) (val, rest []byte, err error) {
	if len(b) == 0 {
		return nil, nil, errors.New("tl bytes: empty")
	}
	n, hdr := int(b[0]), 1
	if b[0] == 254 {
		if len(b) < 4 {
			return nil, nil, errors.New("tl bytes: short length")
		}
		n, hdr = int(b[1])|int(b[2])<<8|int(b[3])<<16, 4
	} else if b[0] == 255 {
		return nil, nil, errors.New("tl bytes: 255 length form")
	}
	total := (hdr + n + 3) &^ 3
	if len(b) < hdr+n {
		return nil, nil, errors.New("tl bytes: truncated")
	}
	if len(b) < total {
		total = len(b)
	}
	return b[hdr : hdr+n], b[total:], nil
}

// ParseQuery recognises adnl.message.query.
func ParseQuery(payload []byte) (id [32]byte, body []byte, ok bool) {
	if len(payload) < 37 || binary.LittleEndian.Uint32(payload) != MagicQuery {
		return id, nil, false
	}
	copy(id[:], payload[4:36])
	body, _, err := ParseTLBytes(payload[36:])
	return id, body, err == nil
}

// Answer builds adnl.message.answer.
func Answer(id [32]byte, body []byte) []byte {
	out := make([]byte, 4, 40+len(body)+8)
	binary.LittleEndian.PutUint32(out, MagicAnswer)
	out = append(out, id[:]...)
	return append(out, TLBytes(body)...)
}

// ParsePing recognises tcp.ping.
func ParsePing(payload []byte) (id uint64, ok bool) {
	if len(payload) != 12 || binary.LittleEndian.Uint32(payload) != MagicPing {
		return 0, false
	}
	return binary.LittleEndian.Uint64(payload[4:]), true
}

// Pong builds tcp.pong.
func Pong(id uint64) []byte {
	out := make([]byte, 12)
	binary.LittleEndian.PutUint32(out, MagicPong)
	binary.LittleEndian.PutUint64(out[4:], id)
	return out
}
