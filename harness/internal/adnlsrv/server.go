package adnlsrv

import (
	"crypto/cipher"
	"crypto/ed25519"
	"crypto/sha256"
	"encoding/binary"
	"errors"
	"fmt"
	"io"
	"net"
	"sync"
	"sync/atomic"
	"time"
)

// DialKind says what the server does with one accepted TCP connection.
type DialKind int

const (
	DialServe           DialKind = iota // handshake, confirmation frame, then Hooks.Serve
	DialServeNoConfirm                  // handshake parsed and checked; Hooks.Serve sends the confirmation itself
	DialTarpit                          // keep the connection open, never read or write
	DialCloseNow                        // close (FIN) without reading
	DialReset                           // close with RST without reading ("dial rejected")
	DialCloseAfterHello                 // read the 256 handshake bytes, then close
	DialPartialConfirm                  // read the handshake, send the first Partial bytes of the confirmation, close
)

func (k DialKind) String() string {
	return [...]string{"serve", "serve-noconfirm", "tarpit", "close-now", "reset", "close-after-hello", "partial-confirm"}[k]
}

// DialPlan is the answer of Hooks.Dial.
type DialPlan struct {
	Kind    DialKind
	Partial int // DialPartialConfirm: 0..67 bytes of the 68-byte confirmation
}

// Hooks script the server. All hooks may be nil. They are called from server goroutines.
type Hooks struct {
	// Dial decides the fate of the n-th accepted connection (n counts from 1, over the server's life).
	Dial func(n int) DialPlan
	// Handshake is called after the handshake bytes of a served connection were checked (also when the
	// check failed, in which case the connection is closed afterwards).
	Handshake func(c *Conn)
	// Serve owns an established connection; the connection is closed when it returns. nil = c.Loop(nil).
	Serve func(c *Conn)
}

// Event is one entry of the server's own log (for error reports).
type Event struct {
	At   time.Time
	Dial int
	What string
}

type Server struct {
	priv  ed25519.PrivateKey
	hooks Hooks
	ln    net.Listener
	addr  string

	mu        sync.Mutex
	dials     int
	conns     map[*Conn]struct{}
	held      []net.Conn // tarpitted sockets (kept referenced so that no finalizer closes them)
	events    []Event
	hsErrs    []error
	retired   bool
	retireCap int
	closed    bool
	wg        sync.WaitGroup
}

// Listen starts a server on 127.0.0.1:0 that owns the given Ed25519 key.
func Listen(priv ed25519.PrivateKey, hooks Hooks) (*Server, error) {
	ln, err := net.Listen("tcp", "127.0.0.1:0")
	if err != nil {
		return nil, err
	}
	s := &Server{priv: priv, hooks: hooks, ln: ln, addr: ln.Addr().String(), conns: map[*Conn]struct{}{}}
	s.wg.Add(1)
	go s.acceptLoop()
	return s, nil
}

func (s *Server) Addr() string                 { return s.addr }
func (s *Server) PublicKey() ed25519.PublicKey { return s.priv.Public().(ed25519.PublicKey) }

func (s *Server) log(dial int, format string, args ...any) {
	s.mu.Lock()
	if len(s.events) < 4096 {
		s.events = append(s.events, Event{time.Now(), dial, fmt.Sprintf(format, args...)})
	}
	s.mu.Unlock()
}

// Events returns a copy of the server log.
func (s *Server) Events() []Event {
	s.mu.Lock()
	defer s.mu.Unlock()
	return append([]Event{}, s.events...)
}

// HandshakeErrors lists the handshakes this server refused.
func (s *Server) HandshakeErrors() []error {
	s.mu.Lock()
	defer s.mu.Unlock()
	return append([]error{}, s.hsErrs...)
}

// Dials returns the number of TCP connections accepted so far.
func (s *Server) Dials() int {
	s.mu.Lock()
	defer s.mu.Unlock()
	return s.dials
}

// Conns returns the currently established connections.
func (s *Server) Conns() []*Conn {
	s.mu.Lock()
	defer s.mu.Unlock()
	out := make([]*Conn, 0, len(s.conns))
	for c := range s.conns {
		out = append(out, c)
	}
	return out
}

// Close stops listening and closes every connection, including tarpitted ones.
func (s *Server) Close() {
	s.mu.Lock()
	if s.closed {
		s.mu.Unlock()
		return
	}
	s.closed = true
	conns := make([]*Conn, 0, len(s.conns))
	for c := range s.conns {
		conns = append(conns, c)
	}
	held := s.held
	s.held = nil
	s.mu.Unlock()
	s.ln.Close()
	for _, c := range conns {
		c.Close()
	}
	for _, h := range held {
		h.Close()
		keepMu.Lock()
		delete(kept, h)
		keepMu.Unlock()
	}
}

// Retire puts the server out of service without making its clients spin: every established connection
// is closed, and every later dial is accepted and then ignored for ever (a client that redials stays
// parked inside its handshake). After tarpitted further dials the listener is closed (0 = never).
func (s *Server) Retire(tarpitted int) {
	s.mu.Lock()
	s.retired = true
	s.retireCap = tarpitted
	conns := make([]*Conn, 0, len(s.conns))
	for c := range s.conns {
		conns = append(conns, c)
	}
	stop := tarpitted > 0 && len(s.held) >= tarpitted
	s.mu.Unlock()
	if stop {
		s.ln.Close()
	}
	for _, c := range conns {
		c.Close()
	}
}

func (s *Server) acceptLoop() {
	defer s.wg.Done()
	for {
		nc, err := s.ln.Accept()
		if err != nil {
			return
		}
		s.mu.Lock()
		s.dials++
		n := s.dials
		retired, closed := s.retired, s.closed
		s.mu.Unlock()
		if closed {
			nc.Close()
			return
		}
		plan := DialPlan{Kind: DialServe}
		if retired {
			plan = DialPlan{Kind: DialTarpit}
		} else if s.hooks.Dial != nil {
			plan = s.hooks.Dial(n)
		}
		s.log(n, "accepted, plan %v", plan.Kind)
		switch plan.Kind {
		case DialTarpit:
			keepAlive(nc)
			s.mu.Lock()
			s.held = append(s.held, nc)
			stop := s.retired && s.retireCap > 0 && len(s.held) >= s.retireCap
			s.mu.Unlock()
			if stop {
				s.ln.Close()
				return
			}
		case DialCloseNow:
			nc.Close()
		case DialReset:
			reset(nc)
		default:
			go s.serve(nc, n, plan)
		}
	}
}

// Tarpitted sockets must stay open for the life of the process even when their Server is garbage: a
// collected net.Conn is closed by its finalizer, which would send the parked client back into its
// redial loop.
var (
	keepMu sync.Mutex
	kept   = map[net.Conn]struct{}{}
)

func keepAlive(nc net.Conn) {
	keepMu.Lock()
	kept[nc] = struct{}{}
	keepMu.Unlock()
}

func reset(nc net.Conn) {
	if tc, ok := nc.(*net.TCPConn); ok {
		tc.SetLinger(0)
	}
	nc.Close()
}

func (s *Server) serve(nc net.Conn, n int, plan DialPlan) {
	c := &Conn{srv: s, nc: nc, Dial: n}
	raw := make([]byte, HandshakeSize)
	if _, err := io.ReadFull(nc, raw); err != nil {
		s.log(n, "handshake read: %v", err)
		nc.Close()
		return
	}
	if plan.Kind == DialCloseAfterHello {
		s.log(n, "closed after the handshake bytes")
		nc.Close()
		return
	}
	c.HS = ParseHandshake(s.priv, raw)
	if c.HS.Err != nil {
		s.mu.Lock()
		s.hsErrs = append(s.hsErrs, c.HS.Err)
		s.mu.Unlock()
		s.log(n, "handshake refused: %v", c.HS.Err)
		if s.hooks.Handshake != nil {
			s.hooks.Handshake(c)
		}
		nc.Close()
		return
	}
	c.enc, c.dec = c.HS.Streams()
	c.shaper = NewShaper(nc, Plan{})
	c.autoPong.Store(true)
	if s.hooks.Handshake != nil {
		s.hooks.Handshake(c)
	}
	if plan.Kind == DialPartialConfirm {
		buf := BuildFrame(nil, c.nextNonce())
		c.enc.XORKeyStream(buf, buf)
		k := plan.Partial
		if k > len(buf) {
			k = len(buf)
		}
		nc.Write(buf[:k])
		s.log(n, "closed after %d bytes of the confirmation", k)
		nc.Close()
		return
	}
	s.mu.Lock()
	if s.closed || s.retired {
		s.mu.Unlock()
		nc.Close()
		return
	}
	s.conns[c] = struct{}{}
	s.mu.Unlock()
	defer func() {
		c.Close()
		s.mu.Lock()
		delete(s.conns, c)
		s.mu.Unlock()
	}()
	if plan.Kind == DialServe {
		if err := c.WriteFrame(nil); err != nil {
			s.log(n, "confirmation: %v", err)
			return
		}
	}
	s.log(n, "established")
	if s.hooks.Serve != nil {
		s.hooks.Serve(c)
	} else {
		c.Loop(nil)
	}
}

// ---------------------------------------------------------------------------------------------

// Conn is one established (handshake accepted) connection, seen from the server.
type Conn struct {
	srv  *Server
	nc   net.Conn
	Dial int       // which accepted connection of the server this is (from 1)
	HS   Handshake // the client's handshake
	// Tag is free for the user of the package (set it in Hooks.Handshake / Hooks.Serve).
	Tag any

	rmu sync.Mutex
	dec cipher.Stream

	wmu      sync.Mutex
	enc      cipher.Stream
	shaper   *Shaper
	nonceCtr uint64

	autoPong atomic.Bool
	// ignorePongs (off by default, see SetIgnorePongs): Loop keeps well-formed tcp.pong frames of the client
	// to itself and counts them in pongsSeen.
	ignorePongs atomic.Bool
	pongsSeen   atomic.Int64
	closed      atomic.Bool
	closedAt    atomic.Int64 // unix nanoseconds
}

func (c *Conn) nextNonce() [32]byte {
	c.nonceCtr++
	var b [16]byte
	binary.LittleEndian.PutUint64(b[:], uint64(c.Dial))
	binary.LittleEndian.PutUint64(b[8:], c.nonceCtr)
	return sha256.Sum256(append([]byte("adnlsrv frame nonce"), b[:]...))
}

// SetPlan installs a segmentation / fault plan for the outgoing byte stream. Offsets count from the
// first byte the server sends on this connection (the confirmation frame starts at 0). Must be called
// before the first write (in Hooks.Handshake, or in Hooks.Serve of a DialServeNoConfirm connection).
func (c *Conn) SetPlan(p Plan, onTruncate func()) {
	c.wmu.Lock()
	c.shaper = NewShaper(c.nc, p)
	c.shaper.OnTruncate = onTruncate
	c.wmu.Unlock()
}

// SetAutoPong switches the automatic tcp.pong answers of Loop on or off (default on).
func (c *Conn) SetAutoPong(on bool) { c.autoPong.Store(on) }

// ReadFrame reads the next frame the client sent (reference reader; any error is final).
func (c *Conn) ReadFrame() (Frame, error) {
	c.rmu.Lock()
	defer c.rmu.Unlock()
	return ReadFrame(c.nc, c.dec, MaxLengthServer)
}

// WriteFrame sends payload in a well-formed frame with a fresh nonce.
func (c *Conn) WriteFrame(payload []byte) error {
	c.wmu.Lock()
	defer c.wmu.Unlock()
	return c.writeLocked(BuildFrame(payload, c.nextNonce()))
}

// WriteFrameNonce sends payload in a well-formed frame with the given nonce.
func (c *Conn) WriteFrameNonce(payload []byte, nonce [32]byte) error {
	c.wmu.Lock()
	defer c.wmu.Unlock()
	return c.writeLocked(BuildFrame(payload, nonce))
}

// WriteFrames sends several frames back to back under one lock (nothing can interleave).
func (c *Conn) WriteFrames(payloads ...[]byte) error {
	c.wmu.Lock()
	defer c.wmu.Unlock()
	for _, p := range payloads {
		if err := c.writeLocked(BuildFrame(p, c.nextNonce())); err != nil {
			return err
		}
	}
	return nil
}

// WritePlain encrypts arbitrary plaintext bytes into the outgoing stream (ill-formed frames).
func (c *Conn) WritePlain(b []byte) error {
	c.wmu.Lock()
	defer c.wmu.Unlock()
	return c.writeLocked(append([]byte{}, b...))
}

func (c *Conn) writeLocked(buf []byte) error {
	if c.closed.Load() {
		return net.ErrClosed
	}
	c.enc.XORKeyStream(buf, buf)
	_, err := c.shaper.Write(buf)
	return err
}

// FinishStream fires a fault placed exactly at the current end of the outgoing stream.
func (c *Conn) FinishStream() error {
	c.wmu.Lock()
	defer c.wmu.Unlock()
	return c.shaper.Finish()
}

// StreamOffset returns the number of stream bytes produced so far (before fault effects).
func (c *Conn) StreamOffset() int {
	c.wmu.Lock()
	defer c.wmu.Unlock()
	return c.shaper.Offset()
}

// Close closes the connection in the orderly way (FIN after pending data).
func (c *Conn) Close() {
	if c.closed.CompareAndSwap(false, true) {
		c.closedAt.Store(time.Now().UnixNano())
		c.nc.Close()
		c.srv.log(c.Dial, "closed by the server")
	}
}

// Reset aborts the connection (RST; data in flight may be lost).
func (c *Conn) Reset() {
	if c.closed.CompareAndSwap(false, true) {
		c.closedAt.Store(time.Now().UnixNano())
		reset(c.nc)
		c.srv.log(c.Dial, "reset by the server")
	}
}

// Closed reports whether the server side closed this connection, and when.
func (c *Conn) Closed() (bool, time.Time) {
	if !c.closed.Load() {
		return false, time.Time{}
	}
	return true, time.Unix(0, c.closedAt.Load())
}

// Loop reads frames until the connection ends. tcp.ping is answered with tcp.pong carrying the same id
// while auto-pong is on; every other frame (and pings while auto-pong is off) goes to onFrame. Loop
// returns when reading fails or onFrame returns false; the returned error is the read error (nil when
// onFrame stopped the loop).
func (c *Conn) Loop(onFrame func(f Frame) bool) error {
	for {
		f, err := c.ReadFrame()
		if err != nil {
			if !errors.Is(err, io.EOF) && !c.closed.Load() {
				c.srv.log(c.Dial, "read: %v", err)
			}
			return err
		}
		if id, ok := ParsePing(f.Payload); ok && c.autoPong.Load() {
			if c.WriteFrame(Pong(id)) != nil {
				return nil
			}
			continue
		}
		if c.ignorePongs.Load() {
			if _, ok := ParsePong(f.Payload); ok {
				c.pongsSeen.Add(1)
				continue
			}
		}
		if onFrame != nil && !onFrame(f) {
			return nil
		}
	}
}
