package adnlsrv

import "encoding/binary"

// A server may ping its peer (tcp.ping is not reserved to the client), and a client is free to answer such a
// ping with tcp.pong or to leave it unanswered. A server that sends pings therefore has to expect well-formed
// pongs between the client's data frames and must not take them for data.

// Ping builds tcp.ping.
func Ping(id uint64) []byte {
	out := make([]byte, 12)
	binary.LittleEndian.PutUint32(out, MagicPing)
	binary.LittleEndian.PutUint64(out[4:], id)
	return out
}

// ParsePong recognises the well-formed tcp.pong (exactly 12 bytes).
func ParsePong(payload []byte) (id uint64, ok bool) {
	if len(payload) != 12 || binary.LittleEndian.Uint32(payload) != MagicPong {
		return 0, false
	}
	return binary.LittleEndian.Uint64(payload[4:]), true
}

// SetIgnorePongs (default off) makes Loop drop the well-formed tcp.pong frames the client sends instead of
// handing them to onFrame; they are counted (IgnoredPongs). For servers that ping the client themselves.
func (c *Conn) SetIgnorePongs(on bool) { c.ignorePongs.Store(on) }

// IgnoredPongs returns the number of tcp.pong frames Loop has dropped so far.
func (c *Conn) IgnoredPongs() int { return int(c.pongsSeen.Load()) }
