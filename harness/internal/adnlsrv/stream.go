package adnlsrv

import (
	"fmt"
	"io"
	"sort"
	"time"
)

// Field names the part of a frame a stream offset falls into.
type Field int

const (
	FieldLength Field = iota
	FieldNonce
	FieldPayload
	FieldChecksum
	FieldEnd // the offset is the end of the stream (after the last frame)
)

func (f Field) String() string {
	return [...]string{"length", "nonce", "payload", "checksum", "end"}[f]
}

// Layout describes a byte stream made of consecutive frames with the given payload lengths.
type Layout []int

// Total is the stream length in bytes.
func (l Layout) Total() int {
	t := 0
	for _, n := range l {
		t += FrameOverhead + n
	}
	return t
}

// Start is the stream offset of frame k (k == len(l): the end of the stream).
func (l Layout) Start(k int) int {
	t := 0
	for _, n := range l[:k] {
		t += FrameOverhead + n
	}
	return t
}

// Locate maps a stream offset to (frame, field, offset inside the field). An offset equal to Total()
// maps to (len(l), FieldEnd, 0).
func (l Layout) Locate(off int) (frame int, field Field, rel int) {
	for k, n := range l {
		size := FrameOverhead + n
		if off < size {
			switch {
			case off < 4:
				return k, FieldLength, off
			case off < 36:
				return k, FieldNonce, off - 4
			case off < 36+n:
				return k, FieldPayload, off - 36
			default:
				return k, FieldChecksum, off - 36 - n
			}
		}
		off -= size
	}
	return len(l), FieldEnd, 0
}

// Offset is the inverse of Locate for a valid (frame, field, rel).
func (l Layout) Offset(frame int, field Field, rel int) int {
	base := l.Start(frame)
	switch field {
	case FieldLength:
		return base + rel
	case FieldNonce:
		return base + 4 + rel
	case FieldPayload:
		return base + 36 + rel
	case FieldChecksum:
		return base + 36 + l[frame] + rel
	}
	return base
}

// FaultKind enumerates the transit faults the shaper can inject into a byte stream.
type FaultKind int

const (
	FaultNone     FaultKind = iota
	FaultFlipBit            // byte at Off: bit Bit inverted
	FaultReplace            // byte at Off: xor Mask (Mask != 0)
	FaultTruncate           // the stream ends after Off bytes
	FaultDup                // the Len bytes before Off are sent a second time at Off
)

func (k FaultKind) String() string {
	return [...]string{"none", "flip", "replace", "truncate", "dup"}[k]
}

type Fault struct {
	Kind FaultKind
	Off  int  // stream offset (bytes written before the fault position)
	Bit  uint // FaultFlipBit: 0..7
	Mask byte // FaultReplace
	Len  int  // FaultDup: 1..MaxDup, <= Off
}

const MaxDup = 4096

func (f Fault) String() string {
	switch f.Kind {
	case FaultFlipBit:
		return fmt.Sprintf("flip bit %d of byte %d", f.Bit, f.Off)
	case FaultReplace:
		return fmt.Sprintf("xor byte %d with %#x", f.Off, f.Mask)
	case FaultTruncate:
		return fmt.Sprintf("truncate at %d", f.Off)
	case FaultDup:
		return fmt.Sprintf("resend bytes [%d,%d) at %d", f.Off-f.Len, f.Off, f.Off)
	}
	return "none"
}

// FirstAffected returns the index of the first frame of the layout that does not arrive intact under
// the fault (len(l) if every frame arrives intact), and the field the fault position falls into.
func (f Fault) FirstAffected(l Layout) (frame int, field Field) {
	if f.Kind == FaultNone {
		return len(l), FieldEnd
	}
	frame, field, _ = l.Locate(f.Off)
	return frame, field
}

// Cut is a forced segment boundary of the outgoing stream.
type Cut struct {
	Off   int           // the write is split before stream byte Off
	Pause time.Duration // sleep after the bytes before the cut were handed to the kernel
}

// Plan shapes an outgoing byte stream: segment boundaries and at most one fault.
type Plan struct {
	Cuts  []Cut
	Fault Fault
}

// Shaper is an io.Writer that forwards a byte stream to W in the segments of the plan and applies the
// plan's fault. Offsets count the bytes of the original (unfaulted) stream. After a truncation the
// remaining stream is swallowed and OnTruncate (if set) is called once.
type Shaper struct {
	W          io.Writer
	OnTruncate func()
	plan       Plan
	off        int    // original-stream bytes consumed so far
	hist       []byte // last MaxDup original bytes (only kept for FaultDup)
	cut        int
	faultDone  bool
	dead       bool
}

func NewShaper(w io.Writer, p Plan) *Shaper {
	cuts := append([]Cut{}, p.Cuts...)
	sort.SliceStable(cuts, func(i, j int) bool { return cuts[i].Off < cuts[j].Off })
	p.Cuts = cuts
	return &Shaper{W: w, plan: p}
}

// Offset returns the number of original stream bytes written so far.
func (s *Shaper) Offset() int { return s.off }

func (s *Shaper) emit(b []byte) error {
	if len(b) == 0 {
		return nil
	}
	_, err := s.W.Write(b)
	return err
}

// Write never reports short writes; bytes swallowed by a truncation count as written.
func (s *Shaper) Write(b []byte) (int, error) {
	n := len(b)
	if s.dead {
		s.off += n
		return n, nil
	}
	b = append([]byte{}, b...) // faults must not alter the caller's buffer
	f := s.plan.Fault
	for len(b) > 0 {
		// position-triggered faults that fire before the next byte
		if !s.faultDone && f.Kind != FaultNone && s.off == f.Off {
			switch f.Kind {
			case FaultTruncate:
				s.faultDone, s.dead = true, true
				s.off += len(b)
				if s.OnTruncate != nil {
					s.OnTruncate()
				}
				return n, nil
			case FaultDup:
				s.faultDone = true
				k := f.Len
				if k > len(s.hist) {
					k = len(s.hist)
				}
				if err := s.emit(s.hist[len(s.hist)-k:]); err != nil {
					return 0, err
				}
			}
		}
		// how far may this segment run?
		end := s.off + len(b)
		for s.cut < len(s.plan.Cuts) && s.plan.Cuts[s.cut].Off <= s.off {
			s.cut++
		}
		var pause time.Duration
		cutHere := false
		if s.cut < len(s.plan.Cuts) && s.plan.Cuts[s.cut].Off < end {
			end = s.plan.Cuts[s.cut].Off
			pause = s.plan.Cuts[s.cut].Pause
			cutHere = true
		}
		if !s.faultDone && (f.Kind == FaultTruncate || f.Kind == FaultDup) && f.Off > s.off && f.Off < end {
			end, cutHere, pause = f.Off, false, 0
		}
		seg := b[:end-s.off]
		if !s.faultDone && (f.Kind == FaultFlipBit || f.Kind == FaultReplace) && f.Off >= s.off && f.Off < end {
			s.faultDone = true
			if f.Kind == FaultFlipBit {
				seg[f.Off-s.off] ^= 1 << (f.Bit & 7)
			} else {
				seg[f.Off-s.off] ^= f.Mask
			}
		}
		if f.Kind == FaultDup && !s.faultDone {
			// the history holds original bytes (a flip and a dup never coexist in one plan)
			s.hist = append(s.hist, seg...)
			if len(s.hist) > MaxDup {
				s.hist = s.hist[len(s.hist)-MaxDup:]
			}
		}
		if err := s.emit(seg); err != nil {
			return 0, err
		}
		s.off = end
		b = b[len(seg):]
		if cutHere && pause > 0 {
			time.Sleep(pause)
		}
	}
	return n, nil
}

// Finish fires a truncation or duplication placed exactly at the end of the stream written so far.
func (s *Shaper) Finish() error {
	f := s.plan.Fault
	if s.dead || s.faultDone || s.off != f.Off {
		return nil
	}
	switch f.Kind {
	case FaultTruncate:
		s.faultDone, s.dead = true, true
		if s.OnTruncate != nil {
			s.OnTruncate()
		}
	case FaultDup:
		s.faultDone = true
		k := f.Len
		if k > len(s.hist) {
			k = len(s.hist)
		}
		return s.emit(s.hist[len(s.hist)-k:])
	}
	return nil
}

// Segments collects what a Shaper writes, one element per segment.
type Segments [][]byte

func (s *Segments) Write(b []byte) (int, error) {
	*s = append(*s, append([]byte{}, b...))
	return len(b), nil
}

// Bytes concatenates the segments.
func (s Segments) Bytes() []byte {
	var out []byte
	for _, seg := range s {
		out = append(out, seg...)
	}
	return out
}

// SegmentReader is an io.Reader that returns the stream one segment per Read call at most (never
// crossing a segment boundary), the way a TCP receiver may see it.
type SegmentReader struct {
	Segs  Segments
	i, at int
}

func (r *SegmentReader) Read(p []byte) (int, error) {
	for r.i < len(r.Segs) && r.at == len(r.Segs[r.i]) {
		r.i, r.at = r.i+1, 0
	}
	if r.i >= len(r.Segs) {
		return 0, io.EOF
	}
	if len(p) == 0 {
		return 0, nil
	}
	n := copy(p, r.Segs[r.i][r.at:])
	r.at += n
	return n, nil
}

// Apply is the plain definition of a fault on a complete byte string (the Shaper must agree with it).
func (f Fault) Apply(stream []byte) []byte {
	out := append([]byte{}, stream...)
	switch f.Kind {
	case FaultFlipBit:
		if f.Off < len(out) {
			out[f.Off] ^= 1 << (f.Bit & 7)
		}
	case FaultReplace:
		if f.Off < len(out) {
			out[f.Off] ^= f.Mask
		}
	case FaultTruncate:
		if f.Off <= len(out) {
			out = out[:f.Off]
		}
	case FaultDup:
		if f.Off <= len(stream) {
			k := f.Len
			if k > f.Off {
				k = f.Off
			}
			if k > MaxDup {
				k = MaxDup
			}
			out = append(append(append([]byte{}, stream[:f.Off]...), stream[f.Off-k:f.Off]...), stream[f.Off:]...)
		}
	}
	return out
}
