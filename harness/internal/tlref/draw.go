package tlref

import "encoding/binary"

// Rand is the source of choices for value generation. *core.Ctx satisfies it; SeedRand is a
// deterministic expansion of one seed for use inside scratch binaries.
type Rand interface {
	Intn(label string, n int) int
	U64(label string) uint64
}

type splitMix struct{ s uint64 }

func (m *splitMix) next() uint64 {
	m.s += 0x9e3779b97f4a7c15
	z := m.s
	z = (z ^ (z >> 30)) * 0xbf58476d1ce4e5b9
	z = (z ^ (z >> 27)) * 0x94d049bb133111eb
	return z ^ (z >> 31)
}

func (m *splitMix) fill(b []byte) {
	for i := 0; i < len(b); i += 8 {
		var t [8]byte
		binary.LittleEndian.PutUint64(t[:], m.next())
		copy(b[i:], t[:])
	}
}

// SeedRand is a Rand that expands a single seed (pure function of the seed).
type SeedRand struct{ m splitMix }

func NewSeedRand(seed uint64) *SeedRand { return &SeedRand{splitMix{seed}} }
func (r *SeedRand) Intn(_ string, n int) int {
	if n <= 1 {
		return 0
	}
	return int(r.m.next() % uint64(n))
}
func (r *SeedRand) U64(string) uint64 {
	// mix of small values, boundaries and full-width words, like a property-testing integer source
	switch r.m.next() % 4 {
	case 0:
		return r.m.next() % 16
	case 1:
		return [...]uint64{0, 1, 0x7f, 0x80, 0xff, 0x7fffffff, 0x80000000, 0xffffffff, 1 << 63, ^uint64(0)}[r.m.next()%10]
	}
	return r.m.next()
}

// GenOpts bounds the generated values.
type GenOpts struct {
	MaxVec   int // longest vector (default 4)
	MaxBytes int // longest randomly chosen byte string (default 1100)
	Budget   int // soft limit on the sum of byte-string lengths of one value (default 6000)
	BytesLen int // with ForceLen: every bytes/string field of the top-level object has exactly this length
	ForceLen bool
	ForceMax int // > 0: only the first ForceMax byte strings get the forced length
	forced   int
	// ContentSeed != 0: forced-length byte strings get pseudo-random content expanded from this seed
	// instead of drawn content (enumerations feed short tapes, which would give all-zero content).
	ContentSeed uint64
	// ForceVec: every vector field of the top-level object has exactly VecLen elements
	ForceVec bool
	VecLen   int
	AllBits     bool    // top-level object: every used flag bit is set
	ModeSubset  *uint32 // top-level object: bit k selects the k-th (ascending) used flag bit
	used        int
	depth       int
}

func (o *GenOpts) defaults() {
	if o.MaxVec == 0 {
		o.MaxVec = 4
	}
	if o.MaxBytes == 0 {
		o.MaxBytes = 1100
	}
	if o.Budget == 0 {
		o.Budget = 6000
	}
}

func (o *GenOpts) forcing() bool {
	return o.ForceLen && o.depth <= 1 && (o.ForceMax <= 0 || o.forced < o.ForceMax)
}

var lenBoundaries = [...]int{0, 1, 2, 3, 4, 5, 7, 8, 252, 253, 254, 255, 256, 257, 258, 259, 260, 261}

func drawContent(r Rand, n int) []byte {
	b := make([]byte, n)
	if n == 0 {
		return b
	}
	switch r.Intn("content.kind", 6) {
	case 0: // zeros: indistinguishable from padding
	case 1:
		for i := range b {
			b[i] = 0xff
		}
	case 2:
		v := byte(r.Intn("content.byte", 256))
		for i := range b {
			b[i] = v
		}
	default:
		(&splitMix{r.U64("content.seed")}).fill(b)
	}
	return b
}

func drawLen(r Rand, o *GenOpts) int {
	if o.forcing() {
		o.forced++
		return o.BytesLen
	}
	n := 0
	switch k := r.Intn("len.kind", 10); {
	case k < 4:
		n = r.Intn("len.small", 17)
	case k < 6:
		n = lenBoundaries[r.Intn("len.boundary", len(lenBoundaries))]
	case k < 9:
		n = r.Intn("len.mid", 301)
	default:
		n = r.Intn("len.any", o.MaxBytes+1)
	}
	if o.used+n > o.Budget {
		n = r.Intn("len.capped", 9)
	}
	o.used += n
	return n
}

func drawWord(r Rand, label string) uint64 {
	switch r.Intn(label+".kind", 4) {
	case 0:
		return r.U64(label)
	case 1:
		return [...]uint64{0, 1, 0xff, 0x100, 0x7fffffff, 0x80000000, 0xffffffff, 0x100000000, 0x7fffffffffffffff, 0x8000000000000000, 0xffffffffffffffff}[r.Intn(label+".b", 11)]
	}
	return (&splitMix{r.U64(label)}).next()
}

// Draw generates a value of type t.
func (s *Schema) Draw(r Rand, t TypeExpr, o *GenOpts) *Value {
	o.defaults()
	switch t.Kind {
	case KInt, KNat:
		return &Value{Kind: t.Kind, N: uint64(uint32(drawWord(r, "int")))}
	case KLong:
		return VLong(drawWord(r, "long"))
	case KInt256:
		return VInt256(drawContent(r, 32))
	case KBytes, KString:
		if o.forcing() && o.ContentSeed != 0 {
			o.forced++
			b := make([]byte, o.BytesLen)
			o.ContentSeed++
			(&splitMix{o.ContentSeed}).fill(b)
			return &Value{Kind: t.Kind, Bytes: b}
		}
		return &Value{Kind: t.Kind, Bytes: drawContent(r, drawLen(r, o))}
	case KBool:
		return VBool(r.Intn("bool", 2) == 1)
	case KTrue:
		return VTrue()
	case KVector:
		max := o.MaxVec
		if o.depth > 2 && max > 2 {
			max = 2
		}
		n := r.Intn("veclen", max+1)
		if o.ForceVec && o.depth <= 1 {
			n = o.VecLen
		}
		v := &Value{Kind: KVector}
		for i := 0; i < n; i++ {
			v.Elems = append(v.Elems, s.Draw(r, *t.Elem, o))
		}
		return v
	case KBare:
		return s.DrawObject(r, s.byName[t.Name], o)
	case KBoxed:
		cs := s.byType[t.Name]
		return s.DrawObject(r, cs[r.Intn("constructor", len(cs))], o)
	}
	panic("tlref: cannot draw " + t.String())
}

// DrawMode draws a flags word: a random subset of the used bits plus (sometimes) unused bits.
func DrawMode(r Rand, used uint32) uint32 {
	var m uint32
	for bit := 0; bit < 32; bit++ {
		if used>>uint(bit)&1 == 1 && r.Intn("mode.bit", 2) == 1 {
			m |= 1 << uint(bit)
		}
	}
	switch r.Intn("mode.unused", 4) {
	case 0, 1:
	case 2:
		m |= ^used
	case 3:
		m |= uint32(drawWord(r, "mode.extra")) &^ used
	}
	return m
}

// DrawObject generates a value of constructor (or function) c: conditional fields are present exactly
// when their bit is set in the drawn flags word.
func (s *Schema) DrawObject(r Rand, c *Combinator, o *GenOpts) *Value {
	o.defaults()
	o.depth++
	defer func() { o.depth-- }()
	v := &Value{Kind: KObject, Con: c, Fields: make([]*Value, len(c.Fields))}
	for i, f := range c.Fields {
		if f.Cond != "" {
			j := c.CondIndex(i)
			if uint32(v.Fields[j].N)>>uint(f.CondBit)&1 == 0 {
				continue
			}
		}
		if f.Type.Kind == KNat && f.Cond == "" {
			if used := c.UsedBits(i); used != 0 {
				m := DrawMode(r, used)
				if o.depth == 1 && o.AllBits {
					m |= used
				}
				if o.depth == 1 && o.ModeSubset != nil {
					m &^= used
					k := 0
					for bit := 0; bit < 32; bit++ {
						if used>>uint(bit)&1 == 1 {
							if *o.ModeSubset>>uint(k)&1 == 1 {
								m |= 1 << uint(bit)
							}
							k++
						}
					}
				}
				v.Fields[i] = VNat(m)
				continue
			}
		}
		v.Fields[i] = s.Draw(r, f.Type, o)
	}
	return v
}

// Features summarises what a value exercises.
type Features struct {
	ModeBits    int // conditional fields present
	AbsentConds int // conditional fields absent
	UnusedBits  bool
	LongBytes   int // byte strings >= 254 bytes
	MaxBytes    int
	Vectors     int // non-empty vectors
	EmptyVecs   int
	Boxed       int // nested boxed values (sum types, boxed single-constructor references, Bool excluded)
	Nodes       int
}

func (s *Schema) Inspect(v *Value) Features {
	var f Features
	s.inspect(v, &f)
	return f
}

func (s *Schema) inspect(v *Value, f *Features) {
	if v == nil {
		return
	}
	f.Nodes++
	switch v.Kind {
	case KBytes, KString:
		if len(v.Bytes) >= 254 {
			f.LongBytes++
		}
		if len(v.Bytes) > f.MaxBytes {
			f.MaxBytes = len(v.Bytes)
		}
	case KVector:
		if len(v.Elems) > 0 {
			f.Vectors++
		} else {
			f.EmptyVecs++
		}
		for _, e := range v.Elems {
			s.inspect(e, f)
		}
	case KObject:
		for i, fd := range v.Con.Fields {
			if fd.Cond != "" {
				if v.Fields[i] != nil {
					f.ModeBits++
				} else {
					f.AbsentConds++
				}
			}
			if fd.Type.Kind == KNat && fd.Cond == "" && v.Fields[i] != nil {
				if used := v.Con.UsedBits(i); used != 0 && uint32(v.Fields[i].N)&^used != 0 {
					f.UnusedBits = true
				}
			}
			if fd.Type.Kind == KBoxed && v.Fields[i] != nil {
				f.Boxed++
			}
			s.inspect(v.Fields[i], f)
		}
	}
}
