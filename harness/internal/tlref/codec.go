package tlref

import (
	"bytes"
	"encoding/binary"
	"encoding/hex"
	"fmt"
	"strings"
)

// Value is an abstract TL value.
type Value struct {
	Kind   Kind
	N      uint64      // KInt (low 32 bits), KLong, KNat (low 32 bits)
	Bytes  []byte      // KInt256 (32 bytes), KBytes, KString
	Flag   bool        // KBool
	Elems  []*Value    // KVector
	Con    *Combinator // KObject
	Fields []*Value    // KObject: one entry per field of Con; nil = absent conditional field
}

func VInt(v uint32) *Value      { return &Value{Kind: KInt, N: uint64(v)} }
func VNat(v uint32) *Value      { return &Value{Kind: KNat, N: uint64(v)} }
func VLong(v uint64) *Value     { return &Value{Kind: KLong, N: v} }
func VBool(b bool) *Value       { return &Value{Kind: KBool, Flag: b} }
func VBytes(b []byte) *Value    { return &Value{Kind: KBytes, Bytes: b} }
func VString(b []byte) *Value   { return &Value{Kind: KString, Bytes: b} }
func VInt256(b []byte) *Value   { return &Value{Kind: KInt256, Bytes: b} }
func VTrue() *Value             { return &Value{Kind: KTrue} }
func VVector(e []*Value) *Value { return &Value{Kind: KVector, Elems: e} }

// Equal compares two values structurally (nil and empty byte strings / vectors are equal).
func Equal(a, b *Value) bool {
	if a == nil || b == nil {
		return a == nil && b == nil
	}
	if a.Kind != b.Kind {
		return false
	}
	switch a.Kind {
	case KInt, KNat:
		return uint32(a.N) == uint32(b.N)
	case KLong:
		return a.N == b.N
	case KInt256, KBytes, KString:
		return bytes.Equal(a.Bytes, b.Bytes)
	case KBool:
		return a.Flag == b.Flag
	case KTrue:
		return true
	case KVector:
		if len(a.Elems) != len(b.Elems) {
			return false
		}
		for i := range a.Elems {
			if !Equal(a.Elems[i], b.Elems[i]) {
				return false
			}
		}
		return true
	case KObject:
		if a.Con != b.Con || len(a.Fields) != len(b.Fields) {
			return false
		}
		for i := range a.Fields {
			if !Equal(a.Fields[i], b.Fields[i]) {
				return false
			}
		}
		return true
	}
	return false
}

func shortHex(b []byte) string {
	if len(b) <= 12 {
		return hex.EncodeToString(b)
	}
	return fmt.Sprintf("%s…(%d bytes)", hex.EncodeToString(b[:8]), len(b))
}

// String renders a value compactly for notes and error messages.
func (v *Value) String() string {
	if v == nil {
		return "-"
	}
	switch v.Kind {
	case KInt, KNat:
		return fmt.Sprintf("%#x", uint32(v.N))
	case KLong:
		return fmt.Sprintf("%#x", v.N)
	case KInt256:
		return "i256:" + shortHex(v.Bytes)
	case KBytes, KString:
		return fmt.Sprintf("b[%d]:%s", len(v.Bytes), shortHex(v.Bytes))
	case KBool:
		return fmt.Sprint(v.Flag)
	case KTrue:
		return "true"
	case KVector:
		var sb strings.Builder
		sb.WriteString("[")
		for i, e := range v.Elems {
			if i > 0 {
				sb.WriteString(" ")
			}
			if i >= 6 {
				fmt.Fprintf(&sb, "…(%d)", len(v.Elems))
				break
			}
			sb.WriteString(e.String())
		}
		return sb.String() + "]"
	case KObject:
		var sb strings.Builder
		sb.WriteString(v.Con.Name + "{")
		for i, f := range v.Fields {
			if i > 0 {
				sb.WriteString(" ")
			}
			sb.WriteString(v.Con.Fields[i].Name + "=" + f.String())
		}
		return sb.String() + "}"
	}
	return "?"
}

// ---------------------------------------------------------------------------------------------
// serialisation

// MaxBytesLen is the longest byte string the 0xfe escape (3-byte length) can describe.
const MaxBytesLen = 1<<24 - 1

// AppendBytes appends the TL layout of a byte string: one length byte (< 254), or 0xfe and three
// little-endian length bytes; the content; zero bytes up to a multiple of four (counting the prefix).
func AppendBytes(dst, b []byte) ([]byte, error) {
	n := len(b)
	total := 0
	switch {
	case n < 254:
		dst = append(dst, byte(n))
		total = 1 + n
	case n <= MaxBytesLen:
		dst = append(dst, 0xfe, byte(n), byte(n>>8), byte(n>>16))
		total = 4 + n
	default:
		return nil, fmt.Errorf("byte string of %d bytes has no TL layout in this subset (limit %d)", n, MaxBytesLen)
	}
	dst = append(dst, b...)
	for ; total%4 != 0; total++ {
		dst = append(dst, 0)
	}
	return dst, nil
}

func appendU32(dst []byte, v uint32) []byte { return binary.LittleEndian.AppendUint32(dst, v) }

// Encode serialises v as a value of type t (the use site decides whether a constructor id is written).
func (s *Schema) Encode(dst []byte, t TypeExpr, v *Value) ([]byte, error) {
	if v == nil {
		return nil, fmt.Errorf("missing value for type %s", t)
	}
	want := t.Kind
	if want == KBare || want == KBoxed {
		want = KObject
	}
	if v.Kind != want {
		return nil, fmt.Errorf("value of kind %s where type %s is expected", v.Kind, t)
	}
	switch t.Kind {
	case KInt, KNat:
		return appendU32(dst, uint32(v.N)), nil
	case KLong:
		return binary.LittleEndian.AppendUint64(dst, v.N), nil
	case KInt256:
		if len(v.Bytes) != 32 {
			return nil, fmt.Errorf("int256 with %d bytes", len(v.Bytes))
		}
		return append(dst, v.Bytes...), nil
	case KBytes, KString:
		return AppendBytes(dst, v.Bytes)
	case KBool:
		if v.Flag {
			return appendU32(dst, BoolTrueID), nil
		}
		return appendU32(dst, BoolFalseID), nil
	case KTrue:
		return dst, nil
	case KVector:
		dst = appendU32(dst, uint32(len(v.Elems)))
		var err error
		for i, e := range v.Elems {
			if dst, err = s.Encode(dst, *t.Elem, e); err != nil {
				return nil, fmt.Errorf("element %d: %v", i, err)
			}
		}
		return dst, nil
	case KBare:
		if v.Con == nil || v.Con.Name != t.Name || v.Con.IsFunc {
			return nil, fmt.Errorf("value %s where bare %s is expected", v, t.Name)
		}
		return s.EncodeBare(dst, v)
	case KBoxed:
		if v.Con == nil || v.Con.Result != t.Name || v.Con.IsFunc {
			return nil, fmt.Errorf("value %s where a constructor of %s is expected", v, t.Name)
		}
		return s.EncodeBoxed(dst, v)
	}
	return nil, fmt.Errorf("unsupported type %s", t)
}

// EncodeBare serialises the fields of a constructed value without its constructor id.
func (s *Schema) EncodeBare(dst []byte, v *Value) ([]byte, error) {
	if v == nil || v.Kind != KObject || v.Con == nil {
		return nil, fmt.Errorf("not a constructed value")
	}
	c := v.Con
	if len(v.Fields) != len(c.Fields) {
		return nil, fmt.Errorf("%s: %d field values for %d fields", c.Name, len(v.Fields), len(c.Fields))
	}
	var err error
	for i, f := range c.Fields {
		fv := v.Fields[i]
		if j := c.CondIndex(i); f.Cond != "" {
			if j < 0 || v.Fields[j] == nil {
				return nil, fmt.Errorf("%s.%s: governing field %s missing", c.Name, f.Name, f.Cond)
			}
			set := uint32(v.Fields[j].N)>>uint(f.CondBit)&1 == 1
			if set != (fv != nil) {
				return nil, fmt.Errorf("%s.%s: present=%v but bit %d of %s=%#x", c.Name, f.Name, fv != nil, f.CondBit, f.Cond, uint32(v.Fields[j].N))
			}
			if !set {
				continue
			}
		}
		if dst, err = s.Encode(dst, f.Type, fv); err != nil {
			return nil, fmt.Errorf("%s.%s: %v", c.Name, f.Name, err)
		}
	}
	return dst, nil
}

// EncodeBoxed serialises the 32-bit little-endian constructor (or function) id followed by the fields.
func (s *Schema) EncodeBoxed(dst []byte, v *Value) ([]byte, error) {
	if v == nil || v.Kind != KObject || v.Con == nil {
		return nil, fmt.Errorf("not a constructed value")
	}
	return s.EncodeBare(appendU32(dst, v.Con.ID), v)
}

// ---------------------------------------------------------------------------------------------
// parsing (independent of the serialiser; used to cross-check R5 against itself and to explain diffs)

type reader struct {
	b   []byte
	pos int
}

func (r *reader) take(n int) ([]byte, error) {
	if n < 0 || len(r.b)-r.pos < n {
		return nil, fmt.Errorf("need %d bytes at offset %d, have %d", n, r.pos, len(r.b)-r.pos)
	}
	out := r.b[r.pos : r.pos+n]
	r.pos += n
	return out, nil
}

func (r *reader) u32() (uint32, error) {
	b, err := r.take(4)
	if err != nil {
		return 0, err
	}
	return binary.LittleEndian.Uint32(b), nil
}

func (r *reader) byteString() ([]byte, error) {
	p, err := r.take(1)
	if err != nil {
		return nil, err
	}
	n, used := int(p[0]), 1
	switch {
	case p[0] == 0xff:
		return nil, fmt.Errorf("length escape 0xff is outside the subset")
	case p[0] == 0xfe:
		l, err := r.take(3)
		if err != nil {
			return nil, err
		}
		n, used = int(l[0])|int(l[1])<<8|int(l[2])<<16, 4
	}
	data, err := r.take(n)
	if err != nil {
		return nil, err
	}
	for used += n; used%4 != 0; used++ {
		if _, err := r.take(1); err != nil { // padding content is not checked by readers
			return nil, err
		}
	}
	return data, nil
}

func (s *Schema) decode(r *reader, t TypeExpr) (*Value, error) {
	switch t.Kind {
	case KInt, KNat:
		v, err := r.u32()
		return &Value{Kind: t.Kind, N: uint64(v)}, err
	case KLong:
		b, err := r.take(8)
		if err != nil {
			return nil, err
		}
		return VLong(binary.LittleEndian.Uint64(b)), nil
	case KInt256:
		b, err := r.take(32)
		return VInt256(b), err
	case KBytes, KString:
		b, err := r.byteString()
		return &Value{Kind: t.Kind, Bytes: b}, err
	case KBool:
		id, err := r.u32()
		if err != nil {
			return nil, err
		}
		switch id {
		case BoolTrueID:
			return VBool(true), nil
		case BoolFalseID:
			return VBool(false), nil
		}
		return nil, fmt.Errorf("constructor id %08x is not a Bool", id)
	case KTrue:
		return VTrue(), nil
	case KVector:
		n, err := r.u32()
		if err != nil {
			return nil, err
		}
		if int(n) > len(r.b)-r.pos && minSize(*t.Elem) > 0 {
			return nil, fmt.Errorf("vector count %d exceeds the remaining %d bytes", n, len(r.b)-r.pos)
		}
		out := &Value{Kind: KVector}
		for i := uint32(0); i < n; i++ {
			e, err := s.decode(r, *t.Elem)
			if err != nil {
				return nil, fmt.Errorf("element %d: %v", i, err)
			}
			out.Elems = append(out.Elems, e)
		}
		return out, nil
	case KBare:
		return s.decodeFields(r, s.byName[t.Name])
	case KBoxed:
		id, err := r.u32()
		if err != nil {
			return nil, err
		}
		for _, c := range s.byType[t.Name] {
			if c.ID == id {
				return s.decodeFields(r, c)
			}
		}
		return nil, fmt.Errorf("constructor id %08x does not belong to type %s", id, t.Name)
	}
	return nil, fmt.Errorf("unsupported type %s", t)
}

func minSize(t TypeExpr) int {
	switch t.Kind {
	case KTrue:
		return 0
	case KBare:
		return 0 // may consist of conditional fields only
	}
	return 4
}

func (s *Schema) decodeFields(r *reader, c *Combinator) (*Value, error) {
	v := &Value{Kind: KObject, Con: c, Fields: make([]*Value, len(c.Fields))}
	for i, f := range c.Fields {
		if f.Cond != "" {
			j := c.CondIndex(i)
			if uint32(v.Fields[j].N)>>uint(f.CondBit)&1 == 0 {
				continue
			}
		}
		fv, err := s.decode(r, f.Type)
		if err != nil {
			return nil, fmt.Errorf("%s.%s: %v", c.Name, f.Name, err)
		}
		v.Fields[i] = fv
	}
	return v, nil
}

// Decode parses a value of type t and returns the number of bytes consumed.
func (s *Schema) Decode(data []byte, t TypeExpr) (*Value, int, error) {
	r := &reader{b: data}
	v, err := s.decode(r, t)
	return v, r.pos, err
}

// DecodeBare parses the fields of constructor c (no id in front).
func (s *Schema) DecodeBare(data []byte, c *Combinator) (*Value, int, error) {
	r := &reader{b: data}
	v, err := s.decodeFields(r, c)
	return v, r.pos, err
}

// DecodeRequest parses function id + arguments.
func (s *Schema) DecodeRequest(data []byte) (*Value, int, error) {
	r := &reader{b: data}
	id, err := r.u32()
	if err != nil {
		return nil, 0, err
	}
	for _, c := range s.Funcs {
		if c.ID == id {
			v, err := s.decodeFields(r, c)
			return v, r.pos, err
		}
	}
	return nil, r.pos, fmt.Errorf("unknown function id %08x", id)
}
