package tlref

import (
	"bytes"
	"encoding/hex"
	"os"
	"testing"
)

func repoSchema(t *testing.T) *Schema {
	repo := os.Getenv("VERIF_REPO")
	if repo == "" {
		repo = "/repo"
	}
	text, err := os.ReadFile(repo + "/liteclient/lite_api.tl")
	if err != nil {
		t.Skip(err)
	}
	s, err := ParseSchema(string(text))
	if err != nil {
		t.Fatal(err)
	}
	return s
}

func TestParseLiteAPI(t *testing.T) {
	s := repoSchema(t)
	agree, explicit, dis := s.CRCAgreement()
	t.Logf("%d constructors, %d functions, %d types; crc32 agreement %d/%d, disagree %v", len(s.Types), len(s.Funcs), len(s.TypeNames()), agree, explicit, dis)
	if len(s.Types) < 40 || len(s.Funcs) < 25 {
		t.Fatalf("too few declarations parsed")
	}
	c := s.Constructor("liteServer.runMethodResult")
	if c == nil || len(c.Fields) != 10 || c.Fields[9].Cond != "mode" || c.Fields[9].CondBit != 2 || c.UsedBits(0) != 0x1f {
		t.Fatalf("runMethodResult parsed wrongly: %+v", c)
	}
	if f := s.Constructor("liteServer.partialBlockProof").Fields[3]; f.Type.Kind != KVector || f.Type.Elem.Kind != KBoxed {
		t.Fatalf("steps parsed wrongly: %+v", f)
	}
}

// hand-computed layouts (from the TL specification, not from any implementation)
func TestHandVectors(t *testing.T) {
	s, err := ParseSchema(`
a.pair#01020304 x:int y:long = a.Pair;
a.opt#0a0b0c0d flags:# s:flags.0?string p:flags.1?a.pair t:flags.2?true v:(vector a.pair) w:(vector a.U) b:Bool = a.Opt;
a.u1#00000011 = a.U;
a.u2#00000022 d:bytes = a.U;
---functions---
a.get#f0f1f2f3 q:a.U = a.Opt;
`)
	if err != nil {
		t.Fatal(err)
	}
	pair := s.Constructor("a.pair")
	mk := func(x uint32, y uint64) *Value {
		return &Value{Kind: KObject, Con: pair, Fields: []*Value{VInt(x), VLong(y)}}
	}
	opt := s.Constructor("a.opt")
	u2 := &Value{Kind: KObject, Con: s.Constructor("a.u2"), Fields: []*Value{VBytes([]byte{1, 2, 3})}}
	u1 := &Value{Kind: KObject, Con: s.Constructor("a.u1"), Fields: []*Value{}}
	v := &Value{Kind: KObject, Con: opt, Fields: []*Value{
		VNat(0x80000005), VString([]byte("abcde")), nil, VTrue(),
		VVector([]*Value{mk(1, 2)}), VVector([]*Value{u1, u2}), VBool(true)}}
	got, err := s.EncodeBoxed(nil, v)
	if err != nil {
		t.Fatal(err)
	}
	want := "0d0c0b0a" + "05000080" + "05" + "6162636465" + "0000" +
		"01000000" + "01000000" + "0200000000000000" +
		"02000000" + "11000000" + "22000000" + "03010203" +
		"b5757299"
	if hex.EncodeToString(got) != want {
		t.Fatalf("got  %x\nwant %s", got, want)
	}
	back, n, err := s.Decode(got, TypeExpr{Kind: KBoxed, Name: "a.Opt"})
	if err != nil || n != len(got) || !Equal(back, v) {
		t.Fatalf("decode: %v %d %v", err, n, back)
	}
	req := &Value{Kind: KObject, Con: s.Constructor("a.get"), Fields: []*Value{u2}}
	got, err = s.EncodeBoxed(nil, req)
	if err != nil || hex.EncodeToString(got) != "f3f2f1f0"+"22000000"+"03010203" {
		t.Fatalf("request: %x %v", got, err)
	}
	// inconsistent presence is refused
	v.Fields[2] = mk(1, 1)
	if _, err := s.EncodeBoxed(nil, v); err == nil {
		t.Fatal("inconsistent conditional accepted")
	}
	// byte string lengths
	for _, tc := range []struct {
		n      int
		prefix string
		total  int
	}{{0, "00", 4}, {1, "01", 4}, {3, "03", 4}, {4, "04", 8}, {253, "fd", 256}, {254, "fefe0000", 260}, {255, "feff0000", 260}, {256, "fe000100", 260}, {257, "fe010100", 264}, {65536, "fe000001", 65540}, {1<<24 - 1, "feffffff", 1<<24 + 4}} {
		b, err := AppendBytes(nil, bytes.Repeat([]byte{7}, tc.n))
		if err != nil || len(b) != tc.total || hex.EncodeToString(b[:len(tc.prefix)/2]) != tc.prefix {
			t.Fatalf("len %d: total %d prefix %x err %v", tc.n, len(b), b[:4], err)
		}
		for _, z := range b[len(tc.prefix)/2+tc.n:] {
			if z != 0 {
				t.Fatalf("len %d: non-zero padding", tc.n)
			}
		}
	}
	if _, err := AppendBytes(nil, make([]byte, 1<<24)); err == nil {
		t.Fatal("2^24 bytes accepted")
	}
	if NaturalID("a.b#12 x:(vector int) = a.B;") != NaturalID("a.b  x:vector int = a.B") {
		t.Fatal("natural id normalisation")
	}
}

func TestRoundTripSelf(t *testing.T) {
	s := repoSchema(t)
	r := NewSeedRand(42)
	for round := 0; round < 50; round++ {
		for _, c := range s.All() {
			v := s.DrawObject(r, c, &GenOpts{})
			b, err := s.EncodeBoxed(nil, v)
			if err != nil {
				t.Fatalf("%s: %v", c.Name, err)
			}
			var back *Value
			var n int
			if c.IsFunc {
				back, n, err = s.DecodeRequest(b)
			} else {
				back, n, err = s.Decode(b, TypeExpr{Kind: KBoxed, Name: c.Result})
			}
			if err != nil || n != len(b) || !Equal(back, v) {
				t.Fatalf("%s: decode(encode(v)) != v: %v, %d of %d\n%v\n%v", c.Name, err, n, len(b), v, back)
			}
			if len(b)%4 != 0 {
				t.Fatalf("%s: length %d not a multiple of 4", c.Name, len(b))
			}
		}
	}
}
