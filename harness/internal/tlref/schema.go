// Package tlref is reference model R5: an independent implementation of the TL (Type Language)
// serialisation used by TON lite-servers. It imports nothing from tongo (standard library only, so that
// the C09 pipeline can copy the package verbatim into a scratch module).
//
// schema.go: line-based parser for the .tl subset of liteclient/lite_api.tl.
//
//	constructor#hexid name:type name:cond.N?type name:(vector T) = Result.Type;
//	---functions---
//	function#hexid name:type ... = Result.Type;
//
// Type references: `#` (nat, 32 bit), int, long, int256, bytes, string, Bool (boxed boolTrue/boolFalse),
// true (zero-width), (vector T) (bare vector: count + elements), a dotted name whose last component starts
// with a lower-case letter (bare reference to that constructor: fields only) or with an upper-case letter
// (boxed reference to a type: constructor id + fields of one of the type's constructors).
package tlref

import (
	"fmt"
	"hash/crc32"
	"sort"
	"strconv"
	"strings"
)

type Kind int

const (
	KInt    Kind = iota // int: 32 bit little endian
	KLong               // long: 64 bit little endian
	KNat                // #: 32 bit little endian, unsigned
	KInt256             // int256: 32 raw bytes
	KBytes              // bytes
	KString             // string (same layout as bytes)
	KBool               // Bool: boxed boolTrue#997275b5 / boolFalse#bc799737
	KTrue               // true: no bytes
	KVector             // (vector T)
	KBare               // reference to a constructor, serialised without id
	KBoxed              // reference to a type, serialised with the constructor id
	KObject             // (values only) a constructed value
)

func (k Kind) String() string {
	return [...]string{"int", "long", "#", "int256", "bytes", "string", "Bool", "true", "vector", "bare", "boxed", "object"}[k]
}

const (
	BoolTrueID  uint32 = 0x997275b5
	BoolFalseID uint32 = 0xbc799737
)

// TypeExpr is the type of a field.
type TypeExpr struct {
	Kind Kind
	Name string    // KBare: constructor name; KBoxed: type name
	Elem *TypeExpr // KVector
}

func (t TypeExpr) String() string {
	switch t.Kind {
	case KVector:
		return "(vector " + t.Elem.String() + ")"
	case KBare, KBoxed:
		return t.Name
	}
	return t.Kind.String()
}

type Field struct {
	Name    string
	Cond    string // name of the earlier # field that governs presence; "" = unconditional
	CondBit int
	Type    TypeExpr
}

func (f Field) String() string {
	if f.Cond != "" {
		return fmt.Sprintf("%s:%s.%d?%s", f.Name, f.Cond, f.CondBit, f.Type)
	}
	return f.Name + ":" + f.Type.String()
}

// Combinator is one schema line: a constructor of a type, or a function.
type Combinator struct {
	Name       string
	ID         uint32
	ExplicitID bool
	Fields     []Field
	Result     string // type name right of '='
	IsFunc     bool
	Text       string // normalised declaration text (single spaces, no trailing ';')
	LineNo     int
}

func (c *Combinator) String() string { return fmt.Sprintf("%s#%08x", c.Name, c.ID) }

// CondIndex returns the index of the field that governs field i, or -1.
func (c *Combinator) CondIndex(i int) int {
	if c.Fields[i].Cond == "" {
		return -1
	}
	for j := 0; j < i; j++ {
		if c.Fields[j].Name == c.Fields[i].Cond {
			return j
		}
	}
	return -1
}

// UsedBits returns the mask of bits of field i (a # field) that later fields are conditional on.
func (c *Combinator) UsedBits(i int) uint32 {
	var m uint32
	for j := i + 1; j < len(c.Fields); j++ {
		if c.Fields[j].Cond == c.Fields[i].Name {
			m |= 1 << uint(c.Fields[j].CondBit)
		}
	}
	return m
}

type Schema struct {
	Types  []*Combinator // constructors, in file order
	Funcs  []*Combinator // functions, in file order
	byName map[string]*Combinator
	byType map[string][]*Combinator
}

func (s *Schema) Constructor(name string) *Combinator { return s.byName[name] }

// ConstructorsOf returns the constructors whose result type is typeName, in file order.
func (s *Schema) ConstructorsOf(typeName string) []*Combinator { return s.byType[typeName] }

// TypeNames returns the names of all declared types, sorted.
func (s *Schema) TypeNames() []string {
	var out []string
	for k := range s.byType {
		out = append(out, k)
	}
	sort.Strings(out)
	return out
}

// All returns constructors followed by functions.
func (s *Schema) All() []*Combinator {
	return append(append([]*Combinator{}, s.Types...), s.Funcs...)
}

func lastComponent(name string) string {
	if i := strings.LastIndexByte(name, '.'); i >= 0 {
		return name[i+1:]
	}
	return name
}

func isIdent(s string) bool {
	if s == "" {
		return false
	}
	for _, part := range strings.Split(s, ".") {
		if part == "" {
			return false
		}
		for i := 0; i < len(part); i++ {
			ch := part[i]
			letter := ch >= 'a' && ch <= 'z' || ch >= 'A' && ch <= 'Z'
			if !(letter || i > 0 && (ch >= '0' && ch <= '9' || ch == '_')) {
				return false
			}
		}
	}
	return true
}

func parseType(s string) (TypeExpr, error) {
	s = strings.TrimSpace(s)
	if strings.HasPrefix(s, "(") {
		if !strings.HasSuffix(s, ")") {
			return TypeExpr{}, fmt.Errorf("unbalanced parentheses in %q", s)
		}
		inner := strings.TrimSpace(s[1 : len(s)-1])
		sp := strings.IndexAny(inner, " \t")
		if sp < 0 {
			return parseType(inner)
		}
		head, rest := inner[:sp], strings.TrimSpace(inner[sp:])
		if head != "vector" {
			return TypeExpr{}, fmt.Errorf("unsupported type application %q", s)
		}
		el, err := parseType(rest)
		if err != nil {
			return TypeExpr{}, err
		}
		if el.Kind == KTrue {
			return TypeExpr{}, fmt.Errorf("vector of true is not supported")
		}
		return TypeExpr{Kind: KVector, Elem: &el}, nil
	}
	switch s {
	case "#":
		return TypeExpr{Kind: KNat}, nil
	case "int":
		return TypeExpr{Kind: KInt}, nil
	case "long":
		return TypeExpr{Kind: KLong}, nil
	case "int256":
		return TypeExpr{Kind: KInt256}, nil
	case "bytes":
		return TypeExpr{Kind: KBytes}, nil
	case "string":
		return TypeExpr{Kind: KString}, nil
	case "Bool":
		return TypeExpr{Kind: KBool}, nil
	case "true":
		return TypeExpr{Kind: KTrue}, nil
	case "double", "int128", "Int", "Long", "String", "Bytes", "Object", "Function", "True", "Int256", "Int128", "Double", "vector", "Vector":
		return TypeExpr{}, fmt.Errorf("type %q is outside the supported subset", s)
	}
	if !isIdent(s) {
		return TypeExpr{}, fmt.Errorf("bad type reference %q", s)
	}
	lc := lastComponent(s)
	if lc[0] >= 'a' && lc[0] <= 'z' {
		return TypeExpr{Kind: KBare, Name: s}, nil
	}
	return TypeExpr{Kind: KBoxed, Name: s}, nil
}

// splitTokens splits on white space outside parentheses.
func splitTokens(s string) ([]string, error) {
	var out []string
	depth, start := 0, -1
	for i := 0; i < len(s); i++ {
		ch := s[i]
		sp := ch == ' ' || ch == '\t' || ch == '\r' || ch == '\n'
		if sp && depth == 0 {
			if start >= 0 {
				out = append(out, s[start:i])
				start = -1
			}
			continue
		}
		if start < 0 {
			start = i
		}
		switch ch {
		case '(':
			depth++
		case ')':
			depth--
			if depth < 0 {
				return nil, fmt.Errorf("unbalanced ')'")
			}
		}
	}
	if depth != 0 {
		return nil, fmt.Errorf("unbalanced '('")
	}
	if start >= 0 {
		out = append(out, s[start:])
	}
	return out, nil
}

func normaliseSpaces(s string) string { return strings.Join(strings.Fields(s), " ") }

// NaturalID is the constructor id the TL specification assigns to a declaration without an explicit
// #id: CRC32 (IEEE) of the declaration text with single spaces, without the id, without parentheses
// and without the terminating semicolon.
func NaturalID(declText string) uint32 {
	t := normaliseSpaces(declText)
	t = strings.TrimSpace(strings.TrimSuffix(t, ";"))
	if toks := strings.SplitN(t, " ", 2); len(toks) > 0 {
		if h := strings.IndexByte(toks[0], '#'); h >= 0 {
			toks[0] = toks[0][:h]
			t = strings.Join(toks, " ")
		}
	}
	t = strings.NewReplacer("(", "", ")", "").Replace(t)
	return crc32.ChecksumIEEE([]byte(t))
}

func parseDecl(text string, lineNo int, isFunc bool) (*Combinator, error) {
	text = normaliseSpaces(text)
	toks, err := splitTokens(text)
	if err != nil {
		return nil, err
	}
	if len(toks) < 3 {
		return nil, fmt.Errorf("declaration too short")
	}
	if toks[len(toks)-2] != "=" {
		return nil, fmt.Errorf("expected '= ResultType' at the end (result types with parameters are outside the subset)")
	}
	c := &Combinator{IsFunc: isFunc, Text: text, LineNo: lineNo, Result: toks[len(toks)-1]}
	if !isIdent(c.Result) {
		return nil, fmt.Errorf("bad result type %q", c.Result)
	}
	head := toks[0]
	if h := strings.IndexByte(head, '#'); h >= 0 {
		hex := head[h+1:]
		if len(hex) == 0 || len(hex) > 8 {
			return nil, fmt.Errorf("bad constructor id %q", head)
		}
		v, err := strconv.ParseUint(hex, 16, 32)
		if err != nil {
			return nil, fmt.Errorf("bad constructor id %q", head)
		}
		c.ID, c.ExplicitID = uint32(v), true
		head = head[:h]
	} else {
		c.ID = NaturalID(text)
	}
	if !isIdent(head) {
		return nil, fmt.Errorf("bad combinator name %q", head)
	}
	c.Name = head
	seen := map[string]int{}
	for _, tok := range toks[1 : len(toks)-2] {
		col := strings.IndexByte(tok, ':')
		if col <= 0 {
			return nil, fmt.Errorf("field %q: expected name:type", tok)
		}
		f := Field{Name: tok[:col], CondBit: -1}
		if !isIdent(f.Name) || strings.Contains(f.Name, ".") {
			return nil, fmt.Errorf("bad field name %q", f.Name)
		}
		ty := tok[col+1:]
		if q := strings.IndexByte(ty, '?'); q >= 0 && !strings.HasPrefix(ty, "(") {
			cond := ty[:q]
			dot := strings.LastIndexByte(cond, '.')
			if dot <= 0 {
				return nil, fmt.Errorf("field %q: expected flags.N?type", tok)
			}
			bit, err := strconv.Atoi(cond[dot+1:])
			if err != nil || bit < 0 || bit > 31 {
				return nil, fmt.Errorf("field %q: bad bit number", tok)
			}
			f.Cond, f.CondBit = cond[:dot], bit
			j, ok := seen[f.Cond]
			if !ok {
				return nil, fmt.Errorf("field %q: no earlier field %q", tok, f.Cond)
			}
			if c.Fields[j].Type.Kind != KNat || c.Fields[j].Cond != "" {
				return nil, fmt.Errorf("field %q: %q is not an unconditional # field", tok, f.Cond)
			}
			ty = ty[q+1:]
		}
		if f.Type, err = parseType(ty); err != nil {
			return nil, fmt.Errorf("field %q: %v", tok, err)
		}
		if f.Type.Kind == KTrue && f.Cond == "" {
			return nil, fmt.Errorf("field %q: unconditional true field is outside the subset", tok)
		}
		if _, dup := seen[f.Name]; dup {
			return nil, fmt.Errorf("duplicate field %q", f.Name)
		}
		seen[f.Name] = len(c.Fields)
		c.Fields = append(c.Fields, f)
	}
	return c, nil
}

// ParseSchema parses .tl text. Comments (// to end of line) are removed; a declaration ends at ';'.
func ParseSchema(text string) (*Schema, error) {
	s := &Schema{byName: map[string]*Combinator{}, byType: map[string][]*Combinator{}}
	inFuncs := false
	var acc strings.Builder
	accLine := 0
	for i, line := range strings.Split(text, "\n") {
		if k := strings.Index(line, "//"); k >= 0 {
			line = line[:k]
		}
		line = strings.TrimSpace(line)
		if line == "" {
			continue
		}
		if line == "---functions---" || line == "---types---" {
			if strings.TrimSpace(acc.String()) != "" {
				return nil, fmt.Errorf("line %d: section marker inside a declaration", i+1)
			}
			inFuncs = line == "---functions---"
			continue
		}
		for line != "" {
			semi := strings.IndexByte(line, ';')
			if semi < 0 {
				if acc.Len() == 0 {
					accLine = i + 1
				}
				acc.WriteString(line + " ")
				break
			}
			if acc.Len() == 0 {
				accLine = i + 1
			}
			acc.WriteString(line[:semi])
			decl := acc.String()
			acc.Reset()
			line = strings.TrimSpace(line[semi+1:])
			c, err := parseDecl(decl, accLine, inFuncs)
			if err != nil {
				return nil, fmt.Errorf("line %d: %v", accLine, err)
			}
			if s.byName[c.Name] != nil {
				return nil, fmt.Errorf("line %d: duplicate combinator %s", accLine, c.Name)
			}
			s.byName[c.Name] = c
			if inFuncs {
				s.Funcs = append(s.Funcs, c)
			} else {
				s.Types = append(s.Types, c)
				s.byType[c.Result] = append(s.byType[c.Result], c)
			}
		}
	}
	if strings.TrimSpace(acc.String()) != "" {
		return nil, fmt.Errorf("line %d: declaration without ';'", accLine)
	}
	// resolve references
	for _, c := range s.All() {
		for _, f := range c.Fields {
			if err := s.checkRef(f.Type); err != nil {
				return nil, fmt.Errorf("line %d: %s field %s: %v", c.LineNo, c.Name, f.Name, err)
			}
		}
		if c.IsFunc && len(s.byType[c.Result]) == 0 {
			return nil, fmt.Errorf("line %d: function %s returns undeclared type %s", c.LineNo, c.Name, c.Result)
		}
	}
	// constructor ids must identify a constructor within its type, function ids a function
	ids := map[uint32]string{}
	for _, c := range s.All() {
		if prev, dup := ids[c.ID]; dup {
			return nil, fmt.Errorf("line %d: id %08x of %s already used by %s", c.LineNo, c.ID, c.Name, prev)
		}
		ids[c.ID] = c.Name
	}
	return s, nil
}

func (s *Schema) checkRef(t TypeExpr) error {
	switch t.Kind {
	case KVector:
		return s.checkRef(*t.Elem)
	case KBare:
		c := s.byName[t.Name]
		if c == nil || c.IsFunc {
			return fmt.Errorf("unknown constructor %s", t.Name)
		}
	case KBoxed:
		if len(s.byType[t.Name]) == 0 {
			return fmt.Errorf("unknown type %s", t.Name)
		}
	}
	return nil
}

// CRCAgreement counts the declarations with an explicit id that equals the natural (CRC32) id.
// Informational anchor for the parser and the id handling; it never influences a verdict.
func (s *Schema) CRCAgreement() (agree, explicit int, disagree []string) {
	for _, c := range s.All() {
		if !c.ExplicitID {
			continue
		}
		explicit++
		if NaturalID(c.Text) == c.ID {
			agree++
		} else {
			disagree = append(disagree, c.Name)
		}
	}
	return
}
