// Package typereg holds the list of library types the "for every type" properties quantify over.
// registry_gen.go is regenerated from the tree under test by check.py (go run ./internal/typereg/scan).
package typereg

import (
	"reflect"

	"github.com/tonkeeper/tongo/boc"
	"github.com/tonkeeper/tongo/tlb"
)

// TLB lists exported non-generic types of packages tlb, wallet, abi (scanned) followed by a fixed list of
// instantiations of the generic combinators.
var TLB []reflect.Type

// TL lists exported types of package liteclient (scanned).
var TL []reflect.Type

func t[T any]() reflect.Type { return reflect.TypeOf((*T)(nil)).Elem() }

// Generic instantiations (the scan cannot enumerate these).
var Generic = []reflect.Type{
	t[tlb.Maybe[tlb.Uint32]](),
	t[tlb.Maybe[tlb.Ref[tlb.Uint64]]](),
	t[tlb.Maybe[tlb.Grams]](),
	t[tlb.Maybe[tlb.MsgAddress]](),
	t[tlb.Either[tlb.Uint8, tlb.Int16]](),
	t[tlb.Either[tlb.Ref[tlb.Uint8], tlb.Grams]](),
	t[tlb.EitherRef[tlb.Uint32]](),
	t[tlb.EitherRef[tlb.StateInit]](),
	t[tlb.EitherRef[tlb.Any]](),
	t[tlb.Ref[tlb.Uint257]](),
	t[tlb.Ref[tlb.Any]](),
	t[tlb.Ref[tlb.Message]](),
	t[tlb.Hashmap[tlb.Uint16, tlb.Uint8]](),
	t[tlb.HashmapE[tlb.Uint32, tlb.Uint64]](),
	t[tlb.HashmapE[tlb.Bits256, tlb.Ref[tlb.Any]]](),
	t[tlb.HashmapE[tlb.Int8, tlb.Grams]](),
	t[tlb.HashmapE[tlb.Uint32, tlb.Ref[boc.Cell]]](),
	t[tlb.HashmapAugE[tlb.Bits256, tlb.Uint8, tlb.Grams]](),
	t[tlb.HashmapAug[tlb.Uint8, tlb.Uint8, tlb.Uint8]](),
	t[tlb.BinTree[tlb.Uint8]](),
	t[tlb.Maybe[tlb.Either[tlb.Uint8, tlb.Ref[tlb.Uint8]]]](),
}

func All() []reflect.Type { return append(append([]reflect.Type{}, TLB...), Generic...) }
