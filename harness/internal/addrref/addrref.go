// Package addrref is the trusted reference for property C17: the textual/binary forms of TON account
// addresses, shard identifiers and ADNL addresses, written from the format descriptions (TON docs:
// "user-friendly address" = flag byte, workchain byte, 32-byte hash, CRC16-XMODEM big-endian, in base64 or
// base64url; shard id = prefix bits followed by a single 1 bit and zeros in 64 bits) with no tongo import
// and no use of encoding/base64, encoding/base32 or any CRC library.
package addrref

import "fmt"

// Crc16 is CRC-16/XMODEM (polynomial 0x1021, initial value 0, no reflection, no final xor), bit by bit.
func Crc16(p []byte) uint16 {
	var crc uint16
	for _, b := range p {
		crc ^= uint16(b) << 8
		for i := 0; i < 8; i++ {
			if crc&0x8000 != 0 {
				crc = crc<<1 ^ 0x1021
			} else {
				crc <<= 1
			}
		}
	}
	return crc
}

const (
	StdAlphabet = "ABCDEFGHIJKLMNOPQRSTUVWXYZabcdefghijklmnopqrstuvwxyz0123456789+/"
	URLAlphabet = "ABCDEFGHIJKLMNOPQRSTUVWXYZabcdefghijklmnopqrstuvwxyz0123456789-_"
	B32Alphabet = "abcdefghijklmnopqrstuvwxyz234567"
)

// bitsOf returns the bits of p, most significant first.
func bitsOf(p []byte) []bool {
	out := make([]bool, 0, 8*len(p))
	for _, b := range p {
		for i := 7; i >= 0; i-- {
			out = append(out, b>>uint(i)&1 == 1)
		}
	}
	return out
}

func pack(bits []bool) []byte {
	out := make([]byte, (len(bits)+7)/8)
	for i, b := range bits {
		if b {
			out[i/8] |= 0x80 >> uint(i%8)
		}
	}
	return out
}

// encodeGroups splits the bits of p into groups of w bits (the input length must be a multiple of w bits)
// and maps each group through the alphabet.
func encodeGroups(p []byte, w int, alphabet string) string {
	bits := bitsOf(p)
	if len(bits)%w != 0 {
		panic("addrref: length is not a whole number of digits")
	}
	out := make([]byte, 0, len(bits)/w)
	for i := 0; i < len(bits); i += w {
		v := 0
		for j := 0; j < w; j++ {
			v <<= 1
			if bits[i+j] {
				v |= 1
			}
		}
		out = append(out, alphabet[v])
	}
	return string(out)
}

func decodeGroups(s string, w int, alphabet string) ([]byte, error) {
	var bits []bool
	for i := 0; i < len(s); i++ {
		v := -1
		for k := 0; k < len(alphabet); k++ {
			if alphabet[k] == s[i] {
				v = k
			}
		}
		if v < 0 {
			return nil, fmt.Errorf("character %q at %d is not a digit of the alphabet", s[i], i)
		}
		for j := w - 1; j >= 0; j-- {
			bits = append(bits, v>>uint(j)&1 == 1)
		}
	}
	if len(bits)%8 != 0 {
		return nil, fmt.Errorf("not a whole number of bytes")
	}
	return pack(bits), nil
}

// Base64 encodes a byte string whose length is a multiple of 3 (no padding is ever needed for the
// 36-byte address form).
func Base64(p []byte, url bool) string {
	if url {
		return encodeGroups(p, 6, URLAlphabet)
	}
	return encodeGroups(p, 6, StdAlphabet)
}

func Base64Decode(s string, url bool) ([]byte, error) {
	if url {
		return decodeGroups(s, 6, URLAlphabet)
	}
	return decodeGroups(s, 6, StdAlphabet)
}

// Digit64 returns the 6-bit value of a base64 digit of either alphabet, or -1.
func Digit64(ch byte) int {
	for k := 0; k < 64; k++ {
		if StdAlphabet[k] == ch || URLAlphabet[k] == ch {
			return k
		}
	}
	return -1
}

// Friendly returns the 36 bytes of the user-friendly address form.
func Friendly(bounceable, testnet bool, workchain int8, hash [32]byte) []byte {
	tag := byte(0x11)
	if !bounceable {
		tag = 0x51
	}
	if testnet {
		tag += 0x80
	}
	out := append([]byte{tag, byte(workchain)}, hash[:]...)
	crc := Crc16(out)
	return append(out, byte(crc>>8), byte(crc))
}

// Raw returns the raw text form "<workchain>:<64 lower-case hex digits>".
func Raw(workchain int32, hash [32]byte) string {
	const hexdigits = "0123456789abcdef"
	s := fmt.Sprintf("%d:", workchain)
	for _, b := range hash {
		s += string(hexdigits[b>>4]) + string(hexdigits[b&15])
	}
	return s
}

// ADNLText returns the 55-character text form of an ADNL address: base32 (lower case, RFC 4648
// alphabet) of 0x2d || address || CRC16 of those 33 bytes, without its first character (always 'f').
func ADNLText(addr [32]byte) string {
	p := append([]byte{0x2d}, addr[:]...)
	crc := Crc16(p)
	p = append(p, byte(crc>>8), byte(crc))
	s := encodeGroups(p, 5, B32Alphabet)
	if s[0] != 'f' {
		panic("addrref: first base32 digit of an ADNL address is not f")
	}
	return s[1:]
}

// ---------------------------------------------------------------------------------------------
// bit prefixes and shard ids

// ShardID encodes a shard prefix (0..63 bits): the prefix bits, a single 1 bit, zeros.
func ShardID(prefix []bool) uint64 {
	if len(prefix) > 63 {
		panic("addrref: shard prefix longer than 63 bits")
	}
	var v uint64
	for i, b := range prefix {
		if b {
			v |= 1 << uint(63-i)
		}
	}
	return v | 1<<uint(63-len(prefix))
}

// TopAligned returns the prefix bits in the top bits of a 64-bit word, zeros below.
func TopAligned(prefix []bool) uint64 {
	var v uint64
	for i, b := range prefix {
		if b {
			v |= 1 << uint(63-i)
		}
	}
	return v
}

// IsPrefix reports whether p is a prefix of q.
func IsPrefix(p, q []bool) bool {
	if len(p) > len(q) {
		return false
	}
	for i := range p {
		if p[i] != q[i] {
			return false
		}
	}
	return true
}

// HashBits returns the 256 bits of an address, most significant first.
func HashBits(h [32]byte) []bool { return bitsOf(h[:]) }

// HashFromBits packs 256 bits.
func HashFromBits(bits []bool) [32]byte {
	var h [32]byte
	copy(h[:], pack(bits))
	return h
}

// UintBits returns the low n bits of v, most significant first.
func UintBits(v uint64, n int) []bool {
	out := make([]bool, n)
	for i := 0; i < n; i++ {
		out[i] = v>>uint(n-1-i)&1 == 1
	}
	return out
}
