// Package realdata harvests real bag-of-cells inputs from the tree under test at run time: binary
// files in testdata directories and hex / base64 literals in the repository's test sources. Only inputs
// the *reference* parser accepts are kept, so the corpus does not depend on the parser under test.
package realdata

import (
	"bytes"
	"encoding/base64"
	"encoding/hex"
	"os"
	"path/filepath"
	"regexp"
	"sort"
	"strings"
	"sync"

	"verifharness/internal/ref"
)

type Item struct {
	Name  string
	Bytes []byte
	Roots []*ref.RCell
}

func Repo() string {
	if v := os.Getenv("VERIF_REPO"); v != "" {
		return v
	}
	return "/repo"
}

var (
	once  sync.Once
	items []Item
)

var hexRe = regexp.MustCompile(`(?i)b5ee9c72[0-9a-f]{10,}`)
var b64Re = regexp.MustCompile(`te6cc[A-Za-z0-9+/_=-]{8,}`)

func tryAdd(seen map[string]bool, name string, b []byte) {
	if len(b) < 8 || seen[string(b)] {
		return
	}
	roots, err := ref.ParseBOC(b)
	if err != nil {
		return
	}
	seen[string(b)] = true
	items = append(items, Item{name, b, roots})
}

func decodeB64(s string) []byte {
	for _, enc := range []*base64.Encoding{base64.StdEncoding, base64.URLEncoding, base64.RawStdEncoding, base64.RawURLEncoding} {
		if b, err := enc.DecodeString(s); err == nil {
			return b
		}
	}
	return nil
}

// All returns every harvested real BOC, sorted by name. maxFile bounds the size of files read.
func All() []Item {
	once.Do(func() {
		seen := map[string]bool{}
		root := Repo()
		filepath.Walk(root, func(p string, info os.FileInfo, err error) error {
			if err != nil {
				return nil
			}
			rel, _ := filepath.Rel(root, p)
			if info.IsDir() {
				if rel == "lib" || rel == ".git" || strings.HasPrefix(rel, ".git/") {
					return filepath.SkipDir
				}
				return nil
			}
			if info.Size() > 8<<20 || info.Size() == 0 {
				return nil
			}
			inTestdata := strings.Contains(rel, "testdata/")
			isTest := strings.HasSuffix(rel, "_test.go")
			if !inTestdata && !isTest {
				return nil
			}
			data, err := os.ReadFile(p)
			if err != nil {
				return nil
			}
			if inTestdata && len(data) > 4 && (bytes.HasPrefix(data, []byte{0xb5, 0xee, 0x9c, 0x72}) || bytes.HasPrefix(data, []byte{0x68, 0xff, 0x65, 0xf3}) || bytes.HasPrefix(data, []byte{0xac, 0xc3, 0xa7, 0x28})) {
				tryAdd(seen, rel, data)
				return nil
			}
			for i, m := range hexRe.FindAll(data, -1) {
				if len(m)%2 == 1 {
					m = m[:len(m)-1]
				}
				if b, err := hex.DecodeString(string(m)); err == nil {
					tryAdd(seen, rel+"#hex"+itoa(i), b)
				}
			}
			for i, m := range b64Re.FindAll(data, -1) {
				if b := decodeB64(string(m)); b != nil {
					tryAdd(seen, rel+"#b64-"+itoa(i), b)
				}
			}
			return nil
		})
		sort.Slice(items, func(i, j int) bool { return items[i].Name < items[j].Name })
	})
	return items
}

func itoa(i int) string {
	if i == 0 {
		return "0"
	}
	var b []byte
	for i > 0 {
		b = append([]byte{byte('0' + i%10)}, b...)
		i /= 10
	}
	return string(b)
}
