package realdata

import (
	"encoding/hex"
	"fmt"
	"os"
	"path/filepath"
	"regexp"
	"testing"
	"verifharness/internal/ref"
)

func TestList(t *testing.T) {
	tot := 0
	cells := 0
	for _, it := range All() {
		tot += len(it.Bytes)
		n := 0
		ref.Walk(it.Roots, func(*ref.RCell) { n++ })
		cells += n
	}
	fmt.Println(len(All()), "items", tot, "bytes", cells, "cells")
}
func TestRejected(t *testing.T) {
	re := regexp.MustCompile(`(?i)b5ee9c72[0-9a-f]{10,}`)
	filepath.Walk("/repo", func(p string, info os.FileInfo, err error) error {
		if info.IsDir() || filepath.Ext(p) != ".go" {
			return nil
		}
		data, _ := os.ReadFile(p)
		for _, m := range re.FindAll(data, -1) {
			if len(m)%2 == 1 {
				m = m[:len(m)-1]
			}
			b, _ := hex.DecodeString(string(m))
			if _, err := ref.ParseBOCInfo(b); err != nil {
				fmt.Println(p, err, len(b), string(m[:20]))
			}
		}
		return nil
	})
}
