// Package wtest holds the harness-side helpers shared by the wallet checks C14 and C15: the mapping between
// the reference's and the library's version numbers, generators for keys and options, the scripted
// blockchain double and account-state builders. It uses tongo types (it talks to the code under test) and
// is NOT part of the reference; the oracle lives in internal/walletref.
package wtest

import (
	"context"
	"crypto/ed25519"
	"errors"
	"fmt"
	"sync"
	"time"

	"github.com/tonkeeper/tongo/boc"
	"github.com/tonkeeper/tongo/tlb"
	"github.com/tonkeeper/tongo/ton"
	"github.com/tonkeeper/tongo/wallet"

	"verifharness/internal/core"
	"verifharness/internal/gen"
	"verifharness/internal/ref"
	"verifharness/internal/walletref"
)

type VersionPair struct {
	Ref walletref.Version
	Lib wallet.Version
}

// Versions lists every wallet version the library can construct.
var Versions = []VersionPair{
	{walletref.V1R1, wallet.V1R1}, {walletref.V1R2, wallet.V1R2}, {walletref.V1R3, wallet.V1R3},
	{walletref.V2R1, wallet.V2R1}, {walletref.V2R2, wallet.V2R2},
	{walletref.V3R1, wallet.V3R1}, {walletref.V3R2, wallet.V3R2},
	{walletref.V4R1, wallet.V4R1}, {walletref.V4R2, wallet.V4R2},
	{walletref.V5Beta, wallet.V5Beta}, {walletref.V5R1, wallet.V5R1},
	{walletref.HighloadV2R2, wallet.HighLoadV2R2},
}

// SendVersions are the versions for which the library builds messages (C14's list).
var SendVersions = Versions[5:]

// Cell converts a reference cell into a tongo cell: through the construction API when the tree is
// ordinary, through a reference-written BOC when it holds exotic cells (the v5 beta code is a library cell).
func Cell(r *ref.RCell) (*boc.Cell, error) {
	exotic := false
	ref.Walk([]*ref.RCell{r}, func(x *ref.RCell) { exotic = exotic || x.Special })
	if !exotic {
		return gen.ToTongo(r, true, 1<<20)
	}
	roots, err := boc.DeserializeBoc(ref.SerializeBOC([]*ref.RCell{r}, ref.BocVariant{}))
	if err != nil {
		return nil, fmt.Errorf("wtest.Cell: tongo rejects a reference-written BOC: %v", err)
	}
	if len(roots) != 1 {
		return nil, fmt.Errorf("wtest.Cell: %d roots", len(roots))
	}
	return roots[0], nil
}

// MustCell is Cell for inputs that cannot fail (harness-built ordinary cells).
func MustCell(r *ref.RCell) *boc.Cell {
	c, err := Cell(r)
	if err != nil {
		panic("HARNESS: " + err.Error())
	}
	return c
}

// FromCell images a tongo cell into the reference model.
func FromCell(c *boc.Cell) (*ref.RCell, error) { return gen.FromTongo(c, 1<<20) }

// DrawU32 draws a 32-bit value with the boundaries of the unsigned and signed ranges over-represented.
func DrawU32(c *core.Ctx, label string) uint32 {
	switch c.Weighted(label+".k", 2, 2, 3) {
	case 0:
		b := []uint32{0, 1, 2, 0x7ffffffe, 0x7fffffff, 0x80000000, 0x80000001, 0xfffffffe, 0xffffffff, 698983191}
		return b[c.Choose(label+".b", len(b))]
	case 1:
		return uint32(c.Range(label+".s", 0, 100000))
	}
	return uint32(c.U64(label+".v") >> 13) // middle bits of a drawn word
}

// DrawKey draws an Ed25519 key pair from 32 seed bytes.
func DrawKey(c *core.Ctx, label string) ed25519.PrivateKey {
	return ed25519.NewKeyFromSeed(c.Content(label, 32))
}

// OtherKey returns a key pair different from k, derived from it deterministically.
func OtherKey(k ed25519.PrivateKey, n byte) ed25519.PrivateKey {
	seed := append([]byte{}, k.Seed()...)
	seed[int(n)%32] ^= 1 << (n % 8)
	return ed25519.NewKeyFromSeed(seed)
}

func DrawWorkchain(c *core.Ctx, label string) int8 {
	switch c.Weighted(label+".k", 4, 3, 3) {
	case 0:
		return 0
	case 1:
		return -1
	}
	return int8(c.Range(label, -128, 127))
}

// Opts is one choice of identity options, in the reference's and in the library's form.
type Opts struct {
	Ref walletref.Options
	Lib []wallet.Option
	// arguments for GenerateWalletAddress / GenerateStateInit
	Net *int32
	Sub *uint32
}

func (o Opts) String() string {
	s := fmt.Sprintf("workchain=%d", o.Ref.Workchain)
	if o.Sub != nil {
		s += fmt.Sprintf(" subwallet=%d", *o.Sub)
	}
	if o.Net != nil {
		s += fmt.Sprintf(" network=%d", *o.Net)
	}
	return s
}

// NonDefault reports whether any option differs from the defaults.
func (o Opts) NonDefault() bool { return o.Ref.Workchain != 0 || o.Sub != nil || o.Net != nil }

func MakeOpts(wc int8, sub *uint32, net *int32, explicitWorkchain bool) Opts {
	o := Opts{Ref: walletref.Options{Workchain: wc, SubWallet: sub, NetworkID: net}, Net: net, Sub: sub}
	if wc != 0 || explicitWorkchain {
		o.Lib = append(o.Lib, wallet.WithWorkchain(int(wc)))
	}
	if sub != nil {
		o.Lib = append(o.Lib, wallet.WithSubWalletID(*sub))
	}
	if net != nil {
		o.Lib = append(o.Lib, wallet.WithNetworkGlobalID(*net))
	}
	return o
}

func DrawOpts(c *core.Ctx) Opts {
	wc := DrawWorkchain(c, "workchain")
	var sub *uint32
	if c.Weighted("subwallet.k", 3, 2) == 1 {
		v := DrawU32(c, "subwallet")
		sub = &v
	}
	var net *int32
	switch c.Weighted("network.k", 3, 1, 1, 2) {
	case 1:
		v := int32(walletref.MainnetGlobalID)
		net = &v
	case 2:
		v := int32(walletref.TestnetGlobalID)
		net = &v
	case 3:
		v := int32(DrawU32(c, "network"))
		net = &v
	}
	return MakeOpts(wc, sub, net, c.Bool("explicit workchain"))
}

// ---------------------------------------------------------------------------------------------
// account states, as the blockchain interface hands them to the wallet

func StateNone() tlb.ShardAccount {
	var s tlb.ShardAccount
	s.Account.SumType = "AccountNone"
	return s
}

func existing(addr ton.AccountID, balance uint64) tlb.ShardAccount {
	var s tlb.ShardAccount
	s.Account.SumType = "Account"
	s.Account.Account.Addr = addr.ToMsgAddress()
	s.Account.Account.Storage.Balance.Grams = tlb.Grams(balance)
	s.Account.Account.Storage.LastTransLt = 1
	s.LastTransLt = 1
	return s
}

func StateUninit(addr ton.AccountID, balance uint64) tlb.ShardAccount {
	s := existing(addr, balance)
	s.Account.Account.Storage.State.SumType = "AccountUninit"
	return s
}

func StateFrozen(addr ton.AccountID, balance uint64, hash [32]byte) tlb.ShardAccount {
	s := existing(addr, balance)
	s.Account.Account.Storage.State.SumType = "AccountFrozen"
	s.Account.Account.Storage.State.AccountFrozen.StateHash = hash
	return s
}

func StateActive(addr ton.AccountID, balance uint64, code, data *boc.Cell) tlb.ShardAccount {
	s := existing(addr, balance)
	s.Account.Account.Storage.State.SumType = "AccountActive"
	si := &s.Account.Account.Storage.State.AccountActive.StateInit
	si.Code = tlb.Maybe[tlb.Ref[boc.Cell]]{Exists: true, Value: tlb.Ref[boc.Cell]{Value: *code}}
	si.Data = tlb.Maybe[tlb.Ref[boc.Cell]]{Exists: true, Value: tlb.Ref[boc.Cell]{Value: *data}}
	return s
}

// ---------------------------------------------------------------------------------------------
// the blockchain double

// Poll is one scripted answer of GetSeqno.
type Poll struct {
	Seqno uint32
	Err   error
}

// PollRecord is one observed GetSeqno call.
type PollRecord struct {
	At    time.Time
	Reply Poll
}

var (
	ErrScriptedSend  = errors.New("scripted SendMessage failure")
	ErrScriptedState = errors.New("scripted GetAccountState failure")
	ErrScriptedSeqno = errors.New("scripted GetSeqno failure")
)

// Chain implements the three methods the wallet needs from a blockchain. Every call is recorded.
type Chain struct {
	mu       sync.Mutex
	State    tlb.ShardAccount
	StateErr error
	SendErr  error
	SendCode uint32
	// Script[i] answers the i-th GetSeqno call; calls beyond the script repeat Tail.
	Script []Poll
	Tail   Poll
	// AdvanceAfter > 0: from that long after the first SendMessage on, every GetSeqno answers AdvanceTo (the
	// message was executed on chain at that moment), whatever the script says.
	AdvanceAfter time.Duration
	AdvanceTo    uint32

	Sent       [][]byte
	SentAt     []time.Time
	Polls      []PollRecord
	StateCalls []ton.AccountID
	SeqnoAddrs []ton.AccountID

	scriptBase int // number of GetSeqno calls made before the last Reconfigure
}

// Reconfigure changes the chain between two calls of a sequence (the account state of the next moment, the
// scripted failures, the GetSeqno answers): f runs under the chain's lock. The script starts over: Script[0]
// answers the next GetSeqno call. The records keep growing.
func (c *Chain) Reconfigure(f func(c *Chain)) {
	c.mu.Lock()
	defer c.mu.Unlock()
	f(c)
	c.scriptBase = len(c.Polls)
}

// Counts returns how many calls of each kind have been recorded so far.
func (c *Chain) Counts() (stateCalls, sent, polls int) {
	c.mu.Lock()
	defer c.mu.Unlock()
	return len(c.StateCalls), len(c.Sent), len(c.Polls)
}

// StateCallsCopy returns a copy of the recorded GetAccountState arguments.
func (c *Chain) StateCallsCopy() []ton.AccountID {
	c.mu.Lock()
	defer c.mu.Unlock()
	return append([]ton.AccountID{}, c.StateCalls...)
}

func (c *Chain) GetSeqno(ctx context.Context, account ton.AccountID) (uint32, error) {
	c.mu.Lock()
	defer c.mu.Unlock()
	p := c.Tail
	if i := len(c.Polls) - c.scriptBase; i < len(c.Script) {
		p = c.Script[i]
	}
	if c.AdvanceAfter > 0 && len(c.SentAt) > 0 && time.Since(c.SentAt[0]) >= c.AdvanceAfter {
		p = Poll{Seqno: c.AdvanceTo}
	}
	c.Polls = append(c.Polls, PollRecord{At: time.Now(), Reply: p})
	c.SeqnoAddrs = append(c.SeqnoAddrs, account)
	return p.Seqno, p.Err
}

func (c *Chain) SendMessage(ctx context.Context, payload []byte) (uint32, error) {
	c.mu.Lock()
	defer c.mu.Unlock()
	c.Sent = append(c.Sent, append([]byte{}, payload...))
	c.SentAt = append(c.SentAt, time.Now())
	return c.SendCode, c.SendErr
}

func (c *Chain) GetAccountState(ctx context.Context, accountID ton.AccountID) (tlb.ShardAccount, error) {
	c.mu.Lock()
	defer c.mu.Unlock()
	c.StateCalls = append(c.StateCalls, accountID)
	if c.StateErr != nil {
		return tlb.ShardAccount{}, c.StateErr
	}
	return c.State, nil
}

// Snapshot returns copies of the records.
func (c *Chain) Snapshot() (sent [][]byte, polls []PollRecord) {
	c.mu.Lock()
	defer c.mu.Unlock()
	return append([][]byte{}, c.Sent...), append([]PollRecord{}, c.Polls...)
}

// SameAccount compares a library account id with a reference address.
func SameAccount(a ton.AccountID, r walletref.Addr) bool {
	return !r.None && a.Workchain == int32(r.Workchain) && a.Address == r.Hash
}
