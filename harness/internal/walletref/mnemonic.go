package walletref

import (
	"crypto/ed25519"
	"crypto/hmac"
	"crypto/sha512"
	"encoding/binary"
)

// TON mnemonics (ton-crypto / tonlib "mnemonic" documentation), without password:
//   entropy   = HMAC-SHA512(key = words joined by one space, message = "")
//   basic seed check:  PBKDF2-HMAC-SHA512(entropy, "TON seed version", max(1, 100000/256) iterations, 64 bytes)[0] == 0
//   private seed    =  PBKDF2-HMAC-SHA512(entropy, "TON default seed", 100000 iterations, 64 bytes)[0:32]
//   key pair        =  Ed25519 key from that 32-byte seed

// PBKDF2SHA512 is RFC 8018 PBKDF2 with HMAC-SHA512 as the PRF.
func PBKDF2SHA512(password, salt []byte, iter, keyLen int) []byte {
	prf := hmac.New(sha512.New, password)
	hl := prf.Size()
	var out []byte
	for block := uint32(1); len(out) < keyLen; block++ {
		prf.Reset()
		prf.Write(salt)
		var be [4]byte
		binary.BigEndian.PutUint32(be[:], block)
		prf.Write(be[:])
		u := prf.Sum(nil)
		t := append([]byte{}, u...)
		for i := 1; i < iter; i++ {
			prf.Reset()
			prf.Write(u)
			u = prf.Sum(u[:0])
			for j := 0; j < hl; j++ {
				t[j] ^= u[j]
			}
		}
		out = append(out, t...)
	}
	return out[:keyLen]
}

func mnemonicEntropy(phrase string) []byte {
	m := hmac.New(sha512.New, []byte(phrase))
	return m.Sum(nil)
}

// MnemonicVersionByte is the byte the version check looks at; a phrase is a basic seed when it is zero.
func MnemonicVersionByte(phrase string) byte {
	return PBKDF2SHA512(mnemonicEntropy(phrase), []byte("TON seed version"), 100000/256, 64)[0]
}

// MnemonicIsBasicSeed is the version check a phrase has to pass.
func MnemonicIsBasicSeed(phrase string) bool { return MnemonicVersionByte(phrase) == 0 }

// MnemonicToKey derives the key pair of a phrase (the caller checks MnemonicIsBasicSeed separately).
func MnemonicToKey(phrase string) ed25519.PrivateKey {
	seed := PBKDF2SHA512(mnemonicEntropy(phrase), []byte("TON default seed"), 100000, 64)[:32]
	return ed25519.NewKeyFromSeed(seed)
}
