package walletref

import (
	"errors"
	"fmt"
	"math/big"

	"verifharness/internal/ref"
)

// ---------------------------------------------------------------------------------------------
// block.tlb:
//   addr_none$00 = MsgAddressExt;
//   addr_extern$01 len:(## 9) external_address:(bits len) = MsgAddressExt;
//   anycast_info$_ depth:(#<= 30) { depth >= 1 } rewrite_pfx:(bits depth) = Anycast;
//   addr_std$10 anycast:(Maybe Anycast) workchain_id:int8 address:bits256 = MsgAddressInt;
//   addr_var$11 anycast:(Maybe Anycast) addr_len:(## 9) workchain_id:int32 address:(bits addr_len) = MsgAddressInt;
// The wallet checks only ever need addr_none and addr_std without anycast; the reader reports anything
// else as an error naming the constructor.

type Addr struct {
	None      bool
	Workchain int8
	Hash      [32]byte
}

func (a Addr) String() string {
	if a.None {
		return "addr_none"
	}
	return fmt.Sprintf("%d:%x", a.Workchain, a.Hash)
}

func StdAddr(wc int8, hash []byte) Addr {
	a := Addr{Workchain: wc}
	copy(a.Hash[:], hash)
	return a
}

func (b *Builder) MsgAddress(a Addr) *Builder {
	if a.None {
		return b.U(0, 2)
	}
	b.U(2, 2)    // addr_std$10
	b.Bit(false) // anycast: nothing$0
	b.I(int64(a.Workchain), 8)
	return b.Bytes(a.Hash[:])
}

func (r *Reader) MsgAddress() (Addr, error) {
	tag, err := r.U(2)
	if err != nil {
		return Addr{}, err
	}
	switch tag {
	case 0:
		return Addr{None: true}, nil
	case 2:
		any, err := r.Bit()
		if err != nil {
			return Addr{}, err
		}
		if any {
			return Addr{}, errors.New("walletref: addr_std with anycast")
		}
		wc, err := r.I(8)
		if err != nil {
			return Addr{}, err
		}
		h, err := r.Bytes(32)
		if err != nil {
			return Addr{}, err
		}
		return StdAddr(int8(wc), h), nil
	case 1:
		return Addr{}, errors.New("walletref: addr_extern")
	default:
		return Addr{}, errors.New("walletref: addr_var")
	}
}

// ---------------------------------------------------------------------------------------------
// block.tlb:
//   var_uint$_ {n:#} len:(#< n) value:(uint (len * 8)) = VarUInteger n;
//   nanograms$_ amount:(VarUInteger 16) = Grams;
// (#< 16) is a 4-bit field. The canonical form has no leading zero byte.

func (b *Builder) Grams(v *big.Int) *Builder {
	if v.Sign() < 0 || v.BitLen() > 120 {
		panic("walletref: Grams out of range")
	}
	n := (v.BitLen() + 7) / 8
	b.U(uint64(n), 4)
	return b.Big(v, 8*n)
}

func (r *Reader) Grams() (*big.Int, error) {
	n, err := r.U(4)
	if err != nil {
		return nil, err
	}
	return r.Big(8 * int(n))
}

// ---------------------------------------------------------------------------------------------
// block.tlb:
//   tick_tock$_ tick:Bool tock:Bool = TickTock;
//   _ split_depth:(Maybe (## 5)) special:(Maybe TickTock)
//     code:(Maybe ^Cell) data:(Maybe ^Cell)
//     library:(HashmapE 256 SimpleLib) = StateInit;        (older schema text; newer: fixed_prefix_length)

type StateInit struct {
	HasSplit   bool
	Split      uint8
	HasSpecial bool
	Tick, Tock bool
	Code, Data *ref.RCell // nil = nothing$0
	Library    *ref.RCell // root of the library dictionary, nil = hme_empty$0
}

func (b *Builder) StateInit(s *StateInit) *Builder {
	b.Bit(s.HasSplit)
	if s.HasSplit {
		b.U(uint64(s.Split), 5)
	}
	b.Bit(s.HasSpecial)
	if s.HasSpecial {
		b.Bit(s.Tick).Bit(s.Tock)
	}
	for _, c := range []*ref.RCell{s.Code, s.Data, s.Library} {
		b.Bit(c != nil)
		if c != nil {
			b.Ref(c)
		}
	}
	return b
}

func (s *StateInit) Cell() *ref.RCell { return NewBuilder().StateInit(s).Cell() }

func (r *Reader) StateInit() (*StateInit, error) {
	s := &StateInit{}
	var err error
	if s.HasSplit, err = r.Bit(); err != nil {
		return nil, err
	}
	if s.HasSplit {
		v, err := r.U(5)
		if err != nil {
			return nil, err
		}
		s.Split = uint8(v)
	}
	if s.HasSpecial, err = r.Bit(); err != nil {
		return nil, err
	}
	if s.HasSpecial {
		if s.Tick, err = r.Bit(); err != nil {
			return nil, err
		}
		if s.Tock, err = r.Bit(); err != nil {
			return nil, err
		}
	}
	for _, dst := range []**ref.RCell{&s.Code, &s.Data, &s.Library} {
		has, err := r.Bit()
		if err != nil {
			return nil, err
		}
		if has {
			if *dst, err = r.Ref(); err != nil {
				return nil, err
			}
		}
	}
	return s, nil
}

// ---------------------------------------------------------------------------------------------
// block.tlb:
//   extra_currencies$_ dict:(HashmapE 32 (VarUInteger 32)) = ExtraCurrencyCollection;
//   currencies$_ grams:Grams other:ExtraCurrencyCollection = CurrencyCollection;
//   int_msg_info$0 ihr_disabled:Bool bounce:Bool bounced:Bool
//     src:MsgAddressInt dest:MsgAddressInt
//     value:CurrencyCollection ihr_fee:Grams fwd_fee:Grams
//     created_lt:uint64 created_at:uint32 = CommonMsgInfo;
//   ext_in_msg_info$10 src:MsgAddressExt dest:MsgAddressInt import_fee:Grams = CommonMsgInfo;
//   ext_out_msg_info$11 src:MsgAddressInt dest:MsgAddressExt created_lt:uint64 created_at:uint32 = CommonMsgInfo;
//   message$_ {X:Type} info:CommonMsgInfo
//     init:(Maybe (Either StateInit ^StateInit))
//     body:(Either X ^X) = Message X;
// For messages leaving a contract (MessageRelaxed) src may be addr_none; the layout is the same.

const (
	KindInt    = 0
	KindExtIn  = 1
	KindExtOut = 2
)

type Msg struct {
	Kind                         int
	IhrDisabled, Bounce, Bounced bool
	Src, Dest                    Addr
	Value                        *big.Int
	Extra                        *ref.RCell // root of the extra-currency dictionary, nil = empty
	IhrFee, FwdFee               *big.Int
	CreatedLt                    uint64
	CreatedAt                    uint32
	ImportFee                    *big.Int

	Init      *StateInit
	InitInRef bool // Either: right$1
	Body      Slice
	BodyInRef bool // Either: right$1
}

func z(v *big.Int) *big.Int {
	if v == nil {
		return new(big.Int)
	}
	return v
}

func (b *Builder) msgInfo(m *Msg) {
	switch m.Kind {
	case KindInt:
		b.Bit(false).Bit(m.IhrDisabled).Bit(m.Bounce).Bit(m.Bounced)
		b.MsgAddress(m.Src).MsgAddress(m.Dest)
		b.Grams(z(m.Value))
		b.Bit(m.Extra != nil)
		if m.Extra != nil {
			b.Ref(m.Extra)
		}
		b.Grams(z(m.IhrFee)).Grams(z(m.FwdFee))
		b.U(m.CreatedLt, 64).U(uint64(m.CreatedAt), 32)
	case KindExtIn:
		b.U(2, 2).MsgAddress(m.Src).MsgAddress(m.Dest).Grams(z(m.ImportFee))
	case KindExtOut:
		b.U(3, 2).MsgAddress(m.Src).MsgAddress(m.Dest).U(m.CreatedLt, 64).U(uint64(m.CreatedAt), 32)
	}
}

// Cell writes the message with the Either choices recorded in InitInRef / BodyInRef.
func (m *Msg) Cell() *ref.RCell {
	b := NewBuilder()
	b.msgInfo(m)
	b.Bit(m.Init != nil)
	if m.Init != nil {
		b.Bit(m.InitInRef)
		if m.InitInRef {
			b.Ref(m.Init.Cell())
		} else {
			b.StateInit(m.Init)
		}
	}
	b.Bit(m.BodyInRef)
	if m.BodyInRef {
		b.Ref(NewBuilder().Slice(m.Body).Cell())
	} else {
		b.Slice(m.Body)
	}
	return b.Cell()
}

// ParseMessage reads a Message Any (or MessageRelaxed Any) and demands that the cell is consumed exactly.
func ParseMessage(c *ref.RCell) (*Msg, error) {
	if c.Special {
		return nil, errors.New("walletref: message root is an exotic cell")
	}
	r := NewReader(c)
	m := &Msg{}
	t, err := r.Bit()
	if err != nil {
		return nil, err
	}
	if !t {
		m.Kind = KindInt
		if m.IhrDisabled, err = r.Bit(); err != nil {
			return nil, err
		}
		if m.Bounce, err = r.Bit(); err != nil {
			return nil, err
		}
		if m.Bounced, err = r.Bit(); err != nil {
			return nil, err
		}
		if m.Src, err = r.MsgAddress(); err != nil {
			return nil, fmt.Errorf("src: %w", err)
		}
		if m.Dest, err = r.MsgAddress(); err != nil {
			return nil, fmt.Errorf("dest: %w", err)
		}
		if m.Value, err = r.Grams(); err != nil {
			return nil, err
		}
		has, err := r.Bit()
		if err != nil {
			return nil, err
		}
		if has {
			if m.Extra, err = r.Ref(); err != nil {
				return nil, err
			}
		}
		if m.IhrFee, err = r.Grams(); err != nil {
			return nil, err
		}
		if m.FwdFee, err = r.Grams(); err != nil {
			return nil, err
		}
		if m.CreatedLt, err = r.U(64); err != nil {
			return nil, err
		}
		at, err := r.U(32)
		if err != nil {
			return nil, err
		}
		m.CreatedAt = uint32(at)
	} else {
		t2, err := r.Bit()
		if err != nil {
			return nil, err
		}
		if m.Src, err = r.MsgAddress(); err != nil {
			return nil, fmt.Errorf("src: %w", err)
		}
		if m.Dest, err = r.MsgAddress(); err != nil {
			return nil, fmt.Errorf("dest: %w", err)
		}
		if !t2 {
			m.Kind = KindExtIn
			if m.ImportFee, err = r.Grams(); err != nil {
				return nil, err
			}
		} else {
			m.Kind = KindExtOut
			if m.CreatedLt, err = r.U(64); err != nil {
				return nil, err
			}
			at, err := r.U(32)
			if err != nil {
				return nil, err
			}
			m.CreatedAt = uint32(at)
		}
	}
	hasInit, err := r.Bit()
	if err != nil {
		return nil, err
	}
	if hasInit {
		if m.InitInRef, err = r.Bit(); err != nil {
			return nil, err
		}
		if m.InitInRef {
			ic, err := r.Ref()
			if err != nil {
				return nil, err
			}
			ir := NewReader(ic)
			if m.Init, err = ir.StateInit(); err != nil {
				return nil, fmt.Errorf("init: %w", err)
			}
			if err := ir.End(); err != nil {
				return nil, fmt.Errorf("init cell: %w", err)
			}
		} else if m.Init, err = r.StateInit(); err != nil {
			return nil, fmt.Errorf("init: %w", err)
		}
	}
	if m.BodyInRef, err = r.Bit(); err != nil {
		return nil, err
	}
	if m.BodyInRef {
		bc, err := r.Ref()
		if err != nil {
			return nil, err
		}
		m.Body = SliceOf(bc)
		if err := r.End(); err != nil {
			return nil, fmt.Errorf("after body reference: %w", err)
		}
	} else {
		m.Body = r.Rest()
	}
	return m, nil
}

// ---------------------------------------------------------------------------------------------
// Snake data (TEP-64):  tail#_ {bn:#} b:(bits bn) = SnakeData ~0;
//                       cons#_ {bn:#} {n:#} b:(bits bn) next:^(SnakeData ~n) = SnakeData ~(n + 1);
// A text comment is a body of 32 zero bits followed by the text in snake form. How the bytes are cut into
// cells is the writer's business; the reader accepts any cut.

// ReadSnake concatenates the data bits along the chain of single references.
func ReadSnake(s Slice) (ref.Bits, error) {
	out := s.Bits.Clone()
	for hops := 0; len(s.Refs) > 0; hops++ {
		if len(s.Refs) != 1 {
			return nil, fmt.Errorf("walletref: snake cell with %d references", len(s.Refs))
		}
		if hops > 4096 {
			return nil, errors.New("walletref: snake too long")
		}
		s = SliceOf(s.Refs[0])
		out = append(out, s.Bits...)
	}
	return out, nil
}

// ReadTextComment returns the text of a comment body, ok=false when the body is not a text comment.
func ReadTextComment(body Slice) (text []byte, ok bool) {
	if len(body.Bits) < 32 || body.Bits.Uint(0, 32) != 0 {
		return nil, false
	}
	bits, err := ReadSnake(Slice{Bits: body.Bits[32:], Refs: body.Refs})
	if err != nil || len(bits)%8 != 0 {
		return nil, false
	}
	return bits.Packed(), true
}

// Snake writes data greedily: as many whole bytes as fit after the bits already in b, the rest in a chain.
func (b *Builder) Snake(data []byte) *Builder {
	room := (1023 - len(b.Bits)) / 8
	if len(data) <= room {
		return b.Bytes(data)
	}
	b.Bytes(data[:room])
	return b.Ref(NewBuilder().Snake(data[room:]).Cell())
}
