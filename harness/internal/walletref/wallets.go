package walletref

import (
	"encoding/base64"
	"encoding/hex"
	"errors"
	"fmt"
	"sync"

	"verifharness/internal/ref"
)

// Version enumerates the wallet contracts the library can construct. The numbering is the reference's own.
type Version int

const (
	V1R1 Version = iota
	V1R2
	V1R3
	V2R1
	V2R2
	V3R1
	V3R2
	V4R1
	V4R2
	V5Beta
	V5R1
	HighloadV2R2
	NumVersions
)

var versionNames = [...]string{"v1R1", "v1R2", "v1R3", "v2R1", "v2R2", "v3R1", "v3R2", "v4R1", "v4R2", "v5Beta", "v5R1", "highload_v2R2"}

func (v Version) String() string { return versionNames[v] }

type Family int

const (
	FamV1V2 Family = iota
	FamV3
	FamV4
	FamV5Beta
	FamV5R1
	FamHighloadV2
)

func (v Version) Family() Family {
	switch {
	case v <= V2R2:
		return FamV1V2
	case v <= V3R2:
		return FamV3
	case v <= V4R2:
		return FamV4
	case v == V5Beta:
		return FamV5Beta
	case v == V5R1:
		return FamV5R1
	}
	return FamHighloadV2
}

// MaxMessages is the number of outgoing messages one external message of the version can carry:
// v1-v4 send one message per reference of the body cell (4); highload v2 iterates a dictionary with int16
// keys, the library documents 254; the v5 action list is bounded by the 255 actions a transaction may have
// (the beta implementation documents 254).
func (v Version) MaxMessages() int {
	switch v.Family() {
	case FamHighloadV2, FamV5Beta:
		return 254
	case FamV5R1:
		return 255
	}
	return 4
}

// UsesSubWallet / UsesNetworkID tell which options influence the version's identity.
func (v Version) UsesSubWallet() bool {
	switch v.Family() {
	case FamV3, FamV4, FamHighloadV2, FamV5Beta:
		return true
	}
	return false
}
func (v Version) UsesNetworkID() bool { f := v.Family(); return f == FamV5Beta || f == FamV5R1 }

// KnownCodeHash holds code hashes known independently of the tree under test (explorers, the contracts'
// repositories and documentation list them).
var KnownCodeHash = map[Version]string{
	V3R2: "84dafa449f98a6987789ba232358072bc0f76dc4524002a5d0918b9a75d2d599",
	V4R2: "feb5ff6820e2ff0d9483e7e0d62c817d846789fb4ae580c878866d959dabd5c0",
	V5R1: "20834b7b72b112147e1b2fb457b84e74d1a30f04f737d4f62a668e9552d2b72f",
}

var (
	codeOnce  sync.Once
	codeCells map[Version]*ref.RCell
	codeErr   error
)

func loadCodes() {
	codeCells = map[Version]*ref.RCell{}
	for v := Version(0); v < NumVersions; v++ {
		raw, err := base64.StdEncoding.DecodeString(codeBase64[v])
		if err != nil {
			codeErr = fmt.Errorf("code of %v: %v", v, err)
			return
		}
		roots, err := ref.ParseBOC(raw)
		if err != nil || len(roots) != 1 {
			codeErr = fmt.Errorf("code of %v: reference BOC parser: %v (%d roots)", v, err, len(roots))
			return
		}
		codeCells[v] = roots[0]
	}
	for v, want := range KnownCodeHash {
		if got := hex.EncodeToString(codeCells[v].ReprHash()); got != want {
			codeErr = fmt.Errorf("code of %v hashes to %s, the published code hash is %s", v, got, want)
			return
		}
	}
}

// CheckCodes is the self-check of the code table and of the reference hasher on it.
func CheckCodes() error {
	codeOnce.Do(loadCodes)
	return codeErr
}

// Code returns the published code cell of the version.
func Code(v Version) *ref.RCell {
	if err := CheckCodes(); err != nil {
		panic("HARNESS-SELF-CHECK: " + err.Error())
	}
	return codeCells[v]
}

// ---------------------------------------------------------------------------------------------
// identity options

const (
	// DefaultSubWalletBase: "subwallet_id ... default 698983191 + workchain" (docs.ton.org, wallet tutorial;
	// 698983191 is the first 32 bits of the mainnet zero-state hash).
	DefaultSubWalletBase = 698983191
	MainnetGlobalID      = -239
	TestnetGlobalID      = -3
)

type Options struct {
	Workchain int8
	SubWallet *uint32 // nil = default
	NetworkID *int32  // nil = mainnet
}

// IDs are the identity fields that end up in the contract data and in every signed body.
type IDs struct {
	Workchain int8
	SubWallet uint32 // v3, v4, highload v2, v5 beta
	NetworkID int32  // v5 beta
	WalletID  uint32 // v5r1
}

// ResolveIDs applies the documented defaults.
//
// v5r1 (wallet v5 specification): wallet_id is a 32-bit field equal to network_global_id XOR context_id,
// where the client context is   context_id_client$1 wc:int8 wallet_version:(## 8) counter:(## 15)
// with wallet_version 0 for v5r1 and counter 0 for the first wallet. On mainnet, workchain 0, this gives
// 0x80000000 ^ 0xFFFFFF11 = 2147483409, the value every v5r1 wallet created by the common apps carries.
//
// v5 beta: wallet_id is 80 bits: global_id:int32 wc:int8 version:(## 8) subwallet_number:(## 32), version 0,
// subwallet number 0 by default.
func ResolveIDs(v Version, o Options) IDs {
	ids := IDs{Workchain: o.Workchain, NetworkID: MainnetGlobalID}
	if o.NetworkID != nil {
		ids.NetworkID = *o.NetworkID
	}
	switch v.Family() {
	case FamV3, FamV4, FamHighloadV2:
		ids.SubWallet = uint32(int64(DefaultSubWalletBase) + int64(o.Workchain))
		if o.SubWallet != nil {
			ids.SubWallet = *o.SubWallet
		}
	case FamV5Beta:
		if o.SubWallet != nil {
			ids.SubWallet = *o.SubWallet
		}
	case FamV5R1:
		ctx := NewBuilder().Bit(true).I(int64(o.Workchain), 8).U(0, 8).U(0, 15).Bits.Uint(0, 32)
		ids.WalletID = uint32(ctx) ^ uint32(ids.NetworkID)
	}
	return ids
}

func (b *Builder) walletIDV5Beta(ids IDs) *Builder {
	return b.I(int64(ids.NetworkID), 32).I(int64(ids.Workchain), 8).U(0, 8).U(uint64(ids.SubWallet), 32)
}

// ---------------------------------------------------------------------------------------------
// persistent data layouts (from the contracts' load_data / save_data)
//
//	v1, v2:       seqno:uint32 public_key:bits256
//	v3:           seqno:uint32 subwallet_id:uint32 public_key:bits256
//	v4:           seqno:uint32 subwallet_id:uint32 public_key:bits256 plugins:(HashmapE 264 ...)
//	highload v2:  subwallet_id:uint32 last_cleaned:uint64 public_key:bits256 old_queries:(HashmapE 64 ...)
//	v5 beta:      seqno:(## 33) wallet_id:(## 80) public_key:bits256 extensions:(HashmapE 256 int8)
//	v5r1:         is_signature_allowed:(## 1) seqno:# wallet_id:(## 32) public_key:(## 256) extensions_dict:(HashmapE 256 int1)
//
// seqno is 0 in the initial state; DataCell takes any value so that a check can build the data of a
// wallet that has already sent messages. For highload v2 (no seqno) the argument is ignored.
func DataCell(v Version, seqno uint64, pub []byte, ids IDs) *ref.RCell {
	if len(pub) != 32 {
		panic("walletref: public key must be 32 bytes")
	}
	b := NewBuilder()
	switch v.Family() {
	case FamV1V2:
		b.U(seqno, 32).Bytes(pub)
	case FamV3:
		b.U(seqno, 32).U(uint64(ids.SubWallet), 32).Bytes(pub)
	case FamV4:
		b.U(seqno, 32).U(uint64(ids.SubWallet), 32).Bytes(pub).Bit(false)
	case FamHighloadV2:
		b.U(uint64(ids.SubWallet), 32).U(0, 64).Bytes(pub).Bit(false)
	case FamV5Beta:
		b.U(seqno, 33).walletIDV5Beta(ids).Bytes(pub).Bit(false)
	case FamV5R1:
		b.Bit(true).U(seqno, 32).U(uint64(ids.WalletID), 32).Bytes(pub).Bit(false)
	}
	return b.Cell()
}

// InitialState is the StateInit a wallet is deployed with: split_depth nothing, special nothing, the
// published code, the initial data, no libraries.
func InitialState(v Version, pub []byte, o Options) *StateInit {
	return &StateInit{Code: Code(v), Data: DataCell(v, 0, pub, ResolveIDs(v, o))}
}

// Address: "the address of a smart contract is workchain_id : representation hash of its initial StateInit".
func Address(v Version, pub []byte, o Options) Addr {
	return StdAddr(o.Workchain, InitialState(v, pub, o).Cell().ReprHash())
}

// ---------------------------------------------------------------------------------------------
// message bodies

type OutMsg struct {
	Mode uint8
	Msg  *ref.RCell
}

const (
	OpV5SignedExternal = 0x7369676e // "sign"
	OpV5SignedInternal = 0x73696e74 // "sint"
	tagActionSendMsg   = 0x0ec3c86d
)

type BodyParams struct {
	Seqno      uint32
	ValidUntil uint32
	QueryID    uint64 // highload v2: valid_until is its upper half ("query_id >> 32" is compared with now())
	OpcodeV5   uint32
	Msgs       []OutMsg
}

// Candidate is one admissible layout of the cell that gets signed.
type Candidate struct {
	Cell *ref.RCell
	Note string
}

// outList writes   out_list_empty$_ = OutList 0;
//
//	out_list$_ {n:#} prev:^(OutList n) action:OutAction = OutList (n + 1);
//	action_send_msg#0ec3c86d mode:(## 8) out_msg:^(MessageRelaxed Any) = OutAction;
//
// acts[0] ends up in the innermost cell (TVM performs the innermost action first).
func outList(acts []OutMsg) *ref.RCell {
	c := NewBuilder().Cell()
	for _, a := range acts {
		c = NewBuilder().Ref(c).U(tagActionSendMsg, 32).U(uint64(a.Mode), 8).Ref(a.Msg).Cell()
	}
	return c
}

func reversed(a []OutMsg) []OutMsg {
	out := make([]OutMsg, len(a))
	for i := range a {
		out[len(a)-1-i] = a[i]
	}
	return out
}

// SigningCells returns the admissible layouts of the signed cell for the documented body formats:
//
//	v3:  subwallet_id:uint32 valid_until:uint32 seqno:uint32 { mode:uint8 ^msg }*           (at most 4)
//	v4:  subwallet_id:uint32 valid_until:uint32 seqno:uint32 op:uint8(0 = simple send) { mode:uint8 ^msg }*
//	v5 beta:  opcode:uint32 wallet_id:(## 80) valid_until:uint32 seqno:uint32 0:(## 1) ^OutList   | signature
//	v5r1:     opcode:uint32 wallet_id:uint32 valid_until:uint32 seqno:uint32
//	          out_actions:(Maybe ^OutList) has_other_actions:(## 1)                                | signature
//
// For v5 the schema does not say which end of a request list becomes the outermost list cell, so both
// orders are admissible decodings of "the same messages"; the Note tells which one it is. For v5r1 with no
// message both `nothing` and `just (empty list)` are admissible.
func SigningCells(v Version, ids IDs, p BodyParams) ([]Candidate, error) {
	if len(p.Msgs) > v.MaxMessages() {
		return nil, fmt.Errorf("walletref: %d messages exceed the limit %d of %v", len(p.Msgs), v.MaxMessages(), v)
	}
	switch v.Family() {
	case FamV3, FamV4:
		b := NewBuilder().U(uint64(ids.SubWallet), 32).U(uint64(p.ValidUntil), 32).U(uint64(p.Seqno), 32)
		if v.Family() == FamV4 {
			b.U(0, 8)
		}
		for _, m := range p.Msgs {
			b.U(uint64(m.Mode), 8).Ref(m.Msg)
		}
		return []Candidate{{b.Cell(), ""}}, nil
	case FamV5Beta, FamV5R1:
		head := func() *Builder {
			b := NewBuilder().U(uint64(p.OpcodeV5), 32)
			if v.Family() == FamV5Beta {
				b.walletIDV5Beta(ids)
			} else {
				b.U(uint64(ids.WalletID), 32)
			}
			return b.U(uint64(p.ValidUntil), 32).U(uint64(p.Seqno), 32)
		}
		type ord struct {
			acts []OutMsg
			note string
		}
		orders := []ord{{p.Msgs, ""}}
		if len(p.Msgs) >= 2 {
			orders = []ord{
				{p.Msgs, "first requested message innermost (performed first)"},
				{reversed(p.Msgs), "first requested message outermost (performed last)"},
			}
		}
		var out []Candidate
		for _, o := range orders {
			if v.Family() == FamV5Beta {
				out = append(out, Candidate{head().Bit(false).Ref(outList(o.acts)).Cell(), o.note})
				continue
			}
			if len(p.Msgs) == 0 {
				out = append(out, Candidate{head().Bit(true).Ref(outList(nil)).Bit(false).Cell(), "no message: just(empty list)"})
				out = append(out, Candidate{head().Bit(false).Bit(false).Cell(), "no message: nothing"})
				continue
			}
			out = append(out, Candidate{head().Bit(true).Ref(outList(o.acts)).Bit(false).Cell(), o.note})
		}
		return out, nil
	}
	return nil, errors.New("walletref: SigningCells: use HighloadBody for highload wallets")
}

// HighloadBody is the signed part of a highload v2 request:
//
//	subwallet_id:uint32 query_id:uint64 messages:(HashmapE 16 ^[ mode:uint8 ^msg ])     -- values inline
type HighloadBody struct {
	SubWallet uint32
	QueryID   uint64
	Msgs      []DictEntry // key, value slice (mode:uint8 and one reference)
}

// ParseHighloadBody reads the signed cell of a highload v2 request, accepting any valid label encoding.
func ParseHighloadBody(c *ref.RCell) (*HighloadBody, error) {
	r := NewReader(c)
	sw, err := r.U(32)
	if err != nil {
		return nil, err
	}
	q, err := r.U(64)
	if err != nil {
		return nil, err
	}
	has, err := r.Bit()
	if err != nil {
		return nil, err
	}
	h := &HighloadBody{SubWallet: uint32(sw), QueryID: q}
	if has {
		root, err := r.Ref()
		if err != nil {
			return nil, err
		}
		if h.Msgs, err = ParseDict(root, 16); err != nil {
			return nil, fmt.Errorf("message dictionary: %w", err)
		}
	}
	if err := r.End(); err != nil {
		return nil, err
	}
	return h, nil
}

// HighloadSigningCell writes the canonical form (shortest labels, keys 0..n-1).
func HighloadSigningCell(ids IDs, queryID uint64, msgs []OutMsg) *ref.RCell {
	b := NewBuilder().U(uint64(ids.SubWallet), 32).U(queryID, 64)
	if len(msgs) == 0 {
		return b.Bit(false).Cell()
	}
	var es []DictEntry
	for i, m := range msgs {
		es = append(es, DictEntry{Key: uint64(i), Value: Slice{Bits: ref.Bits{}.AppendUint(uint64(m.Mode), 8), Refs: []*ref.RCell{m.Msg}}})
	}
	return b.Bit(true).Ref(BuildDict(es, 16)).Cell()
}

// SplitSignedBody separates the signature from the signed cell.
//
//	v3, v4, highload v2: signature:bits512 followed by the signed content (same references);
//	v5: the signed content followed by signature:bits512.
func SplitSignedBody(v Version, body Slice) (signed *ref.RCell, sig []byte, err error) {
	if len(body.Bits) < 512 {
		return nil, nil, fmt.Errorf("walletref: body of %d bits cannot hold a signature", len(body.Bits))
	}
	var content ref.Bits
	switch v.Family() {
	case FamV5Beta, FamV5R1:
		n := len(body.Bits) - 512
		content, sig = body.Bits[:n], ref.Bits(body.Bits[n:]).Packed()
	default:
		content, sig = body.Bits[512:], ref.Bits(body.Bits[:512]).Packed()
	}
	return ref.NewRCell(content.Clone(), false, body.Refs...), sig, nil
}

// JoinSignedBody is the inverse of SplitSignedBody.
func JoinSignedBody(v Version, signed *ref.RCell, sig []byte) Slice {
	var bits ref.Bits
	switch v.Family() {
	case FamV5Beta, FamV5R1:
		bits = append(signed.Bits(), ref.Bits{}.AppendBytes(sig)...)
	default:
		bits = append(ref.Bits{}.AppendBytes(sig), signed.Bits()...)
	}
	return Slice{Bits: bits, Refs: signed.Refs}
}

// ---------------------------------------------------------------------------------------------
// reading signed cells

// DecodedBody is what the reference reads out of a signed cell.
type DecodedBody struct {
	SubWallet  uint32 // v3, v4, highload v2, v5 beta
	NetworkID  int32  // v5 beta
	Workchain  int8   // v5 beta
	VersionV5  uint8  // v5 beta
	WalletID   uint32 // v5r1
	ValidUntil uint32
	Seqno      uint32
	QueryID    uint64 // highload v2
	Opcode     uint32 // v5
	OpV4       uint8
	// Msgs: v3/v4 in reference order; highload v2 in key order (Keys holds the keys); v5 from the outermost
	// list cell inwards.
	Msgs []OutMsg
	Keys []uint64
}

func readModeRef(s Slice) (OutMsg, error) {
	r := ReaderOf(s)
	mode, err := r.U(8)
	if err != nil {
		return OutMsg{}, err
	}
	m, err := r.Ref()
	if err != nil {
		return OutMsg{}, err
	}
	if err := r.End(); err != nil {
		return OutMsg{}, err
	}
	return OutMsg{Mode: uint8(mode), Msg: m}, nil
}

func readOutList(c *ref.RCell) ([]OutMsg, error) {
	var out []OutMsg
	for {
		if c.BitLen == 0 && len(c.Refs) == 0 {
			return out, nil
		}
		if len(out) > 255 {
			return nil, errors.New("walletref: action list longer than 255")
		}
		r := NewReader(c)
		prev, err := r.Ref()
		if err != nil {
			return nil, err
		}
		tag, err := r.U(32)
		if err != nil {
			return nil, err
		}
		if tag != tagActionSendMsg {
			return nil, fmt.Errorf("walletref: action tag %08x is not action_send_msg", tag)
		}
		mode, err := r.U(8)
		if err != nil {
			return nil, err
		}
		msg, err := r.Ref()
		if err != nil {
			return nil, err
		}
		if err := r.End(); err != nil {
			return nil, err
		}
		out = append(out, OutMsg{Mode: uint8(mode), Msg: msg})
		c = prev
	}
}

// DecodeBody reads the signed cell of the given version and demands that it is consumed exactly.
func DecodeBody(v Version, signed *ref.RCell) (*DecodedBody, error) {
	d := &DecodedBody{}
	r := NewReader(signed)
	u32 := func(dst *uint32) error {
		x, err := r.U(32)
		*dst = uint32(x)
		return err
	}
	switch v.Family() {
	case FamV3, FamV4:
		if err := u32(&d.SubWallet); err != nil {
			return nil, err
		}
		if err := u32(&d.ValidUntil); err != nil {
			return nil, err
		}
		if err := u32(&d.Seqno); err != nil {
			return nil, err
		}
		if v.Family() == FamV4 {
			op, err := r.U(8)
			if err != nil {
				return nil, err
			}
			d.OpV4 = uint8(op)
		}
		for r.RefsLeft() > 0 {
			mode, err := r.U(8)
			if err != nil {
				return nil, fmt.Errorf("mode of message %d: %w", len(d.Msgs), err)
			}
			m, _ := r.Ref()
			d.Msgs = append(d.Msgs, OutMsg{Mode: uint8(mode), Msg: m})
		}
		return d, r.End()
	case FamHighloadV2:
		h, err := ParseHighloadBody(signed)
		if err != nil {
			return nil, err
		}
		d.SubWallet, d.QueryID, d.ValidUntil = h.SubWallet, h.QueryID, uint32(h.QueryID>>32)
		for _, e := range h.Msgs {
			m, err := readModeRef(e.Value)
			if err != nil {
				return nil, fmt.Errorf("dictionary value at key %d: %w", e.Key, err)
			}
			d.Msgs = append(d.Msgs, m)
			d.Keys = append(d.Keys, e.Key)
		}
		return d, nil
	case FamV5Beta:
		if err := u32(&d.Opcode); err != nil {
			return nil, err
		}
		n, err := r.I(32)
		if err != nil {
			return nil, err
		}
		wc, err := r.I(8)
		if err != nil {
			return nil, err
		}
		ver, err := r.U(8)
		if err != nil {
			return nil, err
		}
		d.NetworkID, d.Workchain, d.VersionV5 = int32(n), int8(wc), uint8(ver)
		if err := u32(&d.SubWallet); err != nil {
			return nil, err
		}
		if err := u32(&d.ValidUntil); err != nil {
			return nil, err
		}
		if err := u32(&d.Seqno); err != nil {
			return nil, err
		}
		ext, err := r.Bit()
		if err != nil {
			return nil, err
		}
		if ext {
			return nil, errors.New("walletref: v5 beta request with extended actions")
		}
		list, err := r.Ref()
		if err != nil {
			return nil, err
		}
		if d.Msgs, err = readOutList(list); err != nil {
			return nil, err
		}
		return d, r.End()
	case FamV5R1:
		if err := u32(&d.Opcode); err != nil {
			return nil, err
		}
		if err := u32(&d.WalletID); err != nil {
			return nil, err
		}
		if err := u32(&d.ValidUntil); err != nil {
			return nil, err
		}
		if err := u32(&d.Seqno); err != nil {
			return nil, err
		}
		has, err := r.Bit()
		if err != nil {
			return nil, err
		}
		if has {
			list, err := r.Ref()
			if err != nil {
				return nil, err
			}
			if d.Msgs, err = readOutList(list); err != nil {
				return nil, err
			}
		}
		other, err := r.Bit()
		if err != nil {
			return nil, err
		}
		if other {
			return nil, errors.New("walletref: v5r1 request with extended actions")
		}
		return d, r.End()
	}
	return nil, fmt.Errorf("walletref: %v has no documented message body", v)
}
