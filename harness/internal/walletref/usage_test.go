package walletref

import (
	"bytes"
	"encoding/hex"
	"testing"

	"verifharness/internal/ref"
)

func TestUsedDataCellEmptyIsDataCell(t *testing.T) {
	pub := bytes.Repeat([]byte{7}, 32)
	for v := Version(0); v < NumVersions; v++ {
		ids := ResolveIDs(v, Options{Workchain: -1})
		a, b := DataCell(v, 77, pub, ids), UsedDataCell(v, 77, pub, ids, Usage{})
		if !bytes.Equal(a.ReprHash(), b.ReprHash()) {
			t.Errorf("%v: UsedDataCell with no usage differs from DataCell", v)
		}
	}
}

// One plugin: the dictionary is a single leaf whose label is the whole 264-bit key. Written out by hand from
// the schema: hml_long$10, n:(#<= 264) = 9 bits holding 264, then the key; the value is empty.
func TestUsedDataCellV4OnePluginByHand(t *testing.T) {
	pub := bytes.Repeat([]byte{0xab}, 32)
	h, _ := hex.DecodeString("6ccd325a858c379693fae2bcaab1c2906831a4e10a6c3bb44ee8b615bca1d220")
	ids := ResolveIDs(V4R2, Options{})
	c := UsedDataCell(V4R2, 41, pub, ids, Usage{Plugins: []Addr{StdAddr(-1, h)}})
	if c.BitLen != 32+32+256+1 || len(c.Refs) != 1 {
		t.Fatalf("data cell has %d bits, %d refs", c.BitLen, len(c.Refs))
	}
	if bits := c.Bits(); !bits[len(bits)-1] {
		t.Fatalf("hme_root bit not set")
	}
	want := ref.Bits{true, false}
	want = want.AppendUint(264, 9)
	want = want.AppendUint(0xff, 8) // workchain -1 as int8
	want = want.AppendBytes(h)
	leaf := c.Refs[0]
	if !leaf.Bits().Equal(want) || len(leaf.Refs) != 0 {
		t.Fatalf("leaf is %s, by hand %s", leaf.Bits().FiftHex(), want.FiftHex())
	}
}

func TestUsedDataCellDictsDecode(t *testing.T) {
	pub := bytes.Repeat([]byte{1}, 32)
	var plugins []Addr
	for i := 0; i < 5; i++ {
		plugins = append(plugins, StdAddr(int8(i-2), bytes.Repeat([]byte{byte(i * 40)}, 32)))
	}
	plugins = append(plugins, plugins[1]) // duplicate: written once
	for _, tc := range []struct {
		v      Version
		n      int
		valLen int
	}{{V4R1, 264, 0}, {V4R2, 264, 0}, {V5Beta, 256, 8}, {V5R1, 256, 1}} {
		c := UsedDataCell(tc.v, 3, pub, ResolveIDs(tc.v, Options{}), Usage{Plugins: plugins, SignatureDisabled: true})
		if len(c.Refs) != 1 {
			t.Fatalf("%v: %d refs", tc.v, len(c.Refs))
		}
		es, err := ref.DecodeHashmap(c.Refs[0], tc.n)
		if err != nil {
			t.Fatalf("%v: %v", tc.v, err)
		}
		if len(es) != 5 {
			t.Fatalf("%v: %d entries", tc.v, len(es))
		}
		for _, e := range es {
			if len(e.Key) != tc.n || len(e.Value.Bits) != tc.valLen || len(e.Value.Refs) != 0 {
				t.Errorf("%v: entry key %d bits, value %d bits", tc.v, len(e.Key), len(e.Value.Bits))
			}
		}
		if tc.v == V5R1 && c.Bits()[0] {
			t.Errorf("v5r1: signature still allowed")
		}
	}
	hl := UsedDataCell(HighloadV2R2, 0, pub, ResolveIDs(HighloadV2R2, Options{}), Usage{LastCleaned: 5 << 32, OldQueries: []uint64{7 << 32, 6<<32 | 9}})
	es, err := ref.DecodeHashmap(hl.Refs[0], 64)
	if err != nil || len(es) != 2 || es[0].Key.Uint(0, 64) != 6<<32|9 {
		t.Fatalf("highload old_queries: %v %v", es, err)
	}
}
