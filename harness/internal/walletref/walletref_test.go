package walletref

import (
	"crypto/ed25519"
	"encoding/hex"
	"go/parser"
	"go/token"
	"os"
	"path/filepath"
	"strings"
	"testing"

	"verifharness/internal/ref"
)

// The reference must not import the code it is the oracle for.
func TestNoTongoImport(t *testing.T) {
	files, _ := filepath.Glob("*.go")
	for _, f := range files {
		if strings.HasSuffix(f, "_test.go") {
			continue
		}
		src, err := os.ReadFile(f)
		if err != nil {
			t.Fatal(err)
		}
		af, err := parser.ParseFile(token.NewFileSet(), f, src, parser.ImportsOnly)
		if err != nil {
			t.Fatal(err)
		}
		for _, im := range af.Imports {
			if strings.Contains(im.Path.Value, "tonkeeper/tongo") {
				t.Errorf("%s imports %s", f, im.Path.Value)
			}
		}
	}
}

func TestCodeHashes(t *testing.T) {
	if err := CheckCodes(); err != nil {
		t.Fatal(err)
	}
	// further hashes quoted in wallet documentation; recorded here because they agree
	more := map[Version]string{
		V1R1: "a0cfc2c48aee16a271f2cfc0b7382d81756cecb1017d077faaab3bb602f6868c",
		V1R2: "d4902fcc9fad74698fa8e353220a68da0dcf72e32bcb2eb9ee04217c17d3062c",
		V1R3: "587cc789eff1c84f46ec3797e45fc809a14ff5ae24f1e0c7a6a99cc9dc9061ff",
		V2R1: "5c9a5e68c108e18721a07c42f9956bfb39ad77ec6d624b60c576ec88eee65329",
		V2R2: "fe9530d3243853083ef2ef0b4c2908c0abf6fa1c31ea243aacaa5bf8c7d753f1",
		V3R1: "b61041a58a7980b946e8fb9e198e3c904d24799ffa36574ea4251c41a566f581",
		V4R1: "64dd54805522c5be8a9db59cea0105ccf0d08786ca79beb8cb79e880a8d7322d",
	}
	for v, want := range more {
		if got := hex.EncodeToString(Code(v).ReprHash()); got != want {
			t.Errorf("%v: code hash %s, remembered %s", v, got, want)
		}
	}
	// the v5 beta code is a library reference to the code with this hash
	c := Code(V5Beta)
	if !c.Special || c.Type() != ref.TypeLibrary || hex.EncodeToString(c.Data[1:33]) != "e4cf3b2f4c6d6a61ea0f2b5447d266785b26af3637db2deee6bcd1aa826f3412" {
		t.Errorf("v5 beta code cell: special=%v type=%d data=%x", c.Special, c.Type(), c.Data)
	}
}

// Addresses of real wallets (public key -> address), as listed in the tree's own wallet tests; they tie the
// reference StateInit/data layouts and the default sub-wallet id to the chain.
func TestKnownAddresses(t *testing.T) {
	for _, k := range []struct {
		v         Version
		pub, addr string
	}{
		{V3R2, "f96db56e72de2e84e0aef780428e439a6c84e0b27bc2b2591075785479f2e9c3", "f3a069b7fc4631da4401de03eddd7cd30caca618c6ad0e3ac3fa454370b73a96"},
		{V4R1, "6f58b9fecb87e847825a7ecf3ae1f32b5578eee156ac10b398e2f1d67c12ca05", "17afeaaa61cb575e3e340a296da6bf55bc6b996cfab1d9f87840b2b6dc4cf613"},
		{V4R2, "7843fd9de6cd858154d9a914b8c3cd0bf1dc5af3a0c1dd273586568fc4d1c002", "8f2983152d1480ba6af25e087d672232080b294dc8992525e35e4ff6d601f405"},
	} {
		pub, _ := hex.DecodeString(k.pub)
		a := Address(k.v, pub, Options{})
		if hex.EncodeToString(a.Hash[:]) != k.addr {
			t.Errorf("%v: address %x, want %s", k.v, a.Hash, k.addr)
		}
	}
}

func TestV5R1DefaultWalletID(t *testing.T) {
	if id := ResolveIDs(V5R1, Options{}).WalletID; id != 2147483409 {
		t.Errorf("mainnet workchain 0 wallet id %d, want 2147483409", id)
	}
	tn := int32(TestnetGlobalID)
	if id := ResolveIDs(V5R1, Options{NetworkID: &tn}).WalletID; id != 2147483645 {
		t.Errorf("testnet workchain 0 wallet id %d, want 2147483645", id)
	}
}

func TestPBKDF2Vectors(t *testing.T) {
	// widely published PBKDF2-HMAC-SHA512 vectors ("password"/"salt")
	for _, k := range []struct {
		iter int
		want string
	}{
		{1, "867f70cf1ade02cff3752599a3a53dc4af34c7a669815ae5d513554e1c8cf252c02d470a285a0501bad999bfe943c08f050235d7d68b1da55e63f73b60a57fce"},
		{2, "e1d9c16aa681708a45f5c7c4e215ceb66e011a2e9f0040713f18aefdb866d53cf76cab2868a39b9f7840edce4fef5a82be67335c77a6068e04112754f27ccf4e"},
		{4096, "d197b1b33db0143e018b12f3d1d1479e6cdebdcc97c5c0f87f6902e072f457b5143f30602641b3d55cd335988cb36b84376060ecd532e039b742a239434af2d5"},
	} {
		if got := hex.EncodeToString(PBKDF2SHA512([]byte("password"), []byte("salt"), k.iter, 64)); got != k.want {
			t.Errorf("iter %d: %s", k.iter, got)
		}
	}
	// more than one block
	long := PBKDF2SHA512([]byte("password"), []byte("salt"), 2, 100)
	if hex.EncodeToString(long[:64]) != "e1d9c16aa681708a45f5c7c4e215ceb66e011a2e9f0040713f18aefdb866d53cf76cab2868a39b9f7840edce4fef5a82be67335c77a6068e04112754f27ccf4e" {
		t.Error("first block changes with the key length")
	}
}

func TestDictRoundTrip(t *testing.T) {
	for _, n := range []int{1, 2, 3, 4, 5, 100, 254, 255, 256, 300} {
		var es []DictEntry
		for i := 0; i < n; i++ {
			es = append(es, DictEntry{Key: uint64(i), Value: Slice{Bits: ref.Bits{}.AppendUint(uint64(i%251), 8)}})
		}
		back, err := ParseDict(BuildDict(es, 16), 16)
		if err != nil {
			t.Fatalf("n=%d: %v", n, err)
		}
		if len(back) != n {
			t.Fatalf("n=%d: %d entries back", n, len(back))
		}
		for i, e := range back {
			if e.Key != uint64(i) || !e.Value.Equal(es[i].Value) {
				t.Fatalf("n=%d entry %d: %v", n, i, e)
			}
		}
	}
	// sparse keys incl. extremes
	es := []DictEntry{{0, Slice{}}, {1, Slice{}}, {0x7fff, Slice{}}, {0x8000, Slice{}}, {0xfffe, Slice{}}, {0xffff, Slice{}}}
	back, err := ParseDict(BuildDict(es, 16), 16)
	if err != nil || len(back) != len(es) {
		t.Fatalf("sparse: %v %d", err, len(back))
	}
	for i := range es {
		if back[i].Key != es[i].Key {
			t.Fatalf("sparse key %d: %x", i, back[i].Key)
		}
	}
	// a one-entry dictionary with key 0 in 16 bits: label is hml_same 0 x16 : 11 0 10000 -> bits "11010000"
	one := BuildDict([]DictEntry{{0, Slice{}}}, 16)
	if one.Bits().String() != "11010000" {
		t.Errorf("single zero key label %s", one.Bits())
	}
}

func TestMessageRoundTrip(t *testing.T) {
	body := Slice{Bits: ref.Bits{}.AppendUint(0xdeadbeef, 32), Refs: []*ref.RCell{NewBuilder().U(7, 3).Cell()}}
	for _, inRef := range []bool{false, true} {
		for _, init := range []*StateInit{nil, {Code: NewBuilder().U(1, 8).Cell(), Data: NewBuilder().Cell()}} {
			m := &Msg{Kind: KindExtIn, Src: Addr{None: true}, Dest: StdAddr(-1, make([]byte, 32)), Init: init, InitInRef: inRef, Body: body, BodyInRef: inRef}
			back, err := ParseMessage(m.Cell())
			if err != nil {
				t.Fatal(err)
			}
			if back.Kind != KindExtIn || back.Dest != m.Dest || !back.Body.Equal(body) || (back.Init == nil) != (init == nil) {
				t.Fatalf("round trip: %+v", back)
			}
		}
	}
}

func TestSplitJoin(t *testing.T) {
	sig := make([]byte, 64)
	for i := range sig {
		sig[i] = byte(i)
	}
	signed := NewBuilder().U(5, 13).Ref(NewBuilder().Cell()).Cell()
	for _, v := range []Version{V3R2, V5R1} {
		s, g, err := SplitSignedBody(v, JoinSignedBody(v, signed, sig))
		if err != nil || s.Key() != signed.Key() || string(g) != string(sig) {
			t.Fatalf("%v: %v", v, err)
		}
	}
	_ = ed25519.PublicKeySize
}
