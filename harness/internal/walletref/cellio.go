// Package walletref is the reference model R4 restricted to what the wallet checks C14/C15 need: bit-exact
// writers and readers for the block.tlb records that occur in wallet messages, and the documented data and
// message-body layouts of the standard wallet contracts. It is written from the TL-B schema text and the
// contracts' documented layouts; it imports nothing from the code under test (enforced by
// TestNoTongoImport). Cells and hashes come from internal/ref (ideal bit list, reference cell hasher).
package walletref

import (
	"errors"
	"fmt"
	"math/big"

	"verifharness/internal/ref"
)

// Builder accumulates the bits and references of one cell.
type Builder struct {
	Bits ref.Bits
	Refs []*ref.RCell
}

func NewBuilder() *Builder { return &Builder{} }

func (b *Builder) U(v uint64, n int) *Builder     { b.Bits = b.Bits.AppendUint(v, n); return b }
func (b *Builder) I(v int64, n int) *Builder      { b.Bits = b.Bits.AppendInt(v, n); return b }
func (b *Builder) Big(v *big.Int, n int) *Builder { b.Bits = b.Bits.AppendBig(v, n); return b }
func (b *Builder) Bytes(p []byte) *Builder        { b.Bits = b.Bits.AppendBytes(p); return b }
func (b *Builder) Bit(v bool) *Builder            { b.Bits = append(b.Bits, v); return b }
func (b *Builder) Append(x ref.Bits) *Builder     { b.Bits = append(b.Bits, x...); return b }
func (b *Builder) Ref(c *ref.RCell) *Builder      { b.Refs = append(b.Refs, c); return b }

// Slice appends the bits and refs of a slice value (a TL-B value of type X written in place).
func (b *Builder) Slice(s Slice) *Builder {
	b.Bits = append(b.Bits, s.Bits...)
	b.Refs = append(b.Refs, s.Refs...)
	return b
}

// Fits reports whether the accumulated content is a legal ordinary cell.
func (b *Builder) Fits() bool { return len(b.Bits) <= 1023 && len(b.Refs) <= 4 }

// Cell finishes the cell. It panics when the content does not fit: the reference never writes an illegal
// cell, a caller that may overflow checks Fits first.
func (b *Builder) Cell() *ref.RCell {
	if !b.Fits() {
		panic(fmt.Sprintf("walletref: cell overflow: %d bits, %d refs", len(b.Bits), len(b.Refs)))
	}
	return ref.NewRCell(b.Bits, false, b.Refs...)
}

// Slice is a value seen as "remaining bits and references": the content of a cell or the rest of one.
type Slice struct {
	Bits ref.Bits
	Refs []*ref.RCell
}

func SliceOf(c *ref.RCell) Slice { return Slice{Bits: c.Bits(), Refs: c.Refs} }

// Equal compares two slices by bits and by the representation hashes of their references.
func (s Slice) Equal(o Slice) bool {
	if !s.Bits.Equal(o.Bits) || len(s.Refs) != len(o.Refs) {
		return false
	}
	for i := range s.Refs {
		if s.Refs[i].Key() != o.Refs[i].Key() {
			return false
		}
	}
	return true
}

func (s Slice) String() string {
	return fmt.Sprintf("x{%s}+%d refs", s.Bits.FiftHex(), len(s.Refs))
}

// Reader reads a cell front to back.
type Reader struct {
	bits ref.Bits
	refs []*ref.RCell
	pos  int
	rpos int
}

var ErrShort = errors.New("walletref: not enough bits or refs")

func NewReader(c *ref.RCell) *Reader { return &Reader{bits: c.Bits(), refs: c.Refs} }
func ReaderOf(s Slice) *Reader       { return &Reader{bits: s.Bits, refs: s.Refs} }

func (r *Reader) BitsLeft() int { return len(r.bits) - r.pos }
func (r *Reader) RefsLeft() int { return len(r.refs) - r.rpos }

func (r *Reader) U(n int) (uint64, error) {
	if n > 64 || r.BitsLeft() < n {
		return 0, ErrShort
	}
	v := r.bits.Uint(r.pos, n)
	r.pos += n
	return v, nil
}

func (r *Reader) I(n int) (int64, error) {
	if n > 64 || n < 1 || r.BitsLeft() < n {
		return 0, ErrShort
	}
	v := r.bits.Int(r.pos, n)
	r.pos += n
	return v, nil
}

func (r *Reader) Big(n int) (*big.Int, error) {
	if r.BitsLeft() < n {
		return nil, ErrShort
	}
	v := r.bits.BigUint(r.pos, n)
	r.pos += n
	return v, nil
}

func (r *Reader) Bit() (bool, error) {
	if r.BitsLeft() < 1 {
		return false, ErrShort
	}
	v := r.bits[r.pos]
	r.pos++
	return v, nil
}

func (r *Reader) Take(n int) (ref.Bits, error) {
	if n < 0 || r.BitsLeft() < n {
		return nil, ErrShort
	}
	v := r.bits[r.pos : r.pos+n].Clone()
	r.pos += n
	return v, nil
}

func (r *Reader) Bytes(n int) ([]byte, error) {
	b, err := r.Take(8 * n)
	if err != nil {
		return nil, err
	}
	return b.Packed(), nil
}

func (r *Reader) Ref() (*ref.RCell, error) {
	if r.RefsLeft() < 1 {
		return nil, ErrShort
	}
	c := r.refs[r.rpos]
	r.rpos++
	return c, nil
}

// Rest returns what has not been read yet and moves to the end.
func (r *Reader) Rest() Slice {
	s := Slice{Bits: r.bits[r.pos:].Clone(), Refs: append([]*ref.RCell{}, r.refs[r.rpos:]...)}
	r.pos, r.rpos = len(r.bits), len(r.refs)
	return s
}

// End checks that everything has been consumed.
func (r *Reader) End() error {
	if r.BitsLeft() != 0 || r.RefsLeft() != 0 {
		return fmt.Errorf("walletref: %d bits and %d refs left over", r.BitsLeft(), r.RefsLeft())
	}
	return nil
}
