package walletref

import (
	"errors"
	"fmt"
	"math/bits"

	"verifharness/internal/ref"
)

// block.tlb:
//   hm_edge#_ {n:#} {X:Type} {l:#} {m:#} label:(HmLabel ~l n) {n = (~m) + l} node:(HashmapNode m X) = Hashmap n X;
//   hmn_leaf#_ {X:Type} value:X = HashmapNode 0 X;
//   hmn_fork#_ {n:#} {X:Type} left:^(Hashmap n X) right:^(Hashmap n X) = HashmapNode (n + 1) X;
//   hml_short$0 {m:#} {n:#} len:(Unary ~n) {n <= m} s:(n * Bit) = HmLabel ~n m;
//   hml_long$10 {m:#} n:(#<= m) s:(n * Bit) = HmLabel ~n m;
//   hml_same$11 {m:#} v:Bit n:(#<= m) = HmLabel ~n m;
//   hme_empty$0 {n:#} {X:Type} = HashmapE n X;
//   hme_root$1 {n:#} {X:Type} root:^(Hashmap n X) = HashmapE n X;
// Keys here are at most 64 bits wide (the wallet checks need 16).

type DictEntry struct {
	Key   uint64
	Value Slice
}

func lenBits(m int) int { return bits.Len(uint(m)) } // width of (#<= m)

// readLabel reads an HmLabel with at most m bits in any of its three forms.
func readLabel(r *Reader, m int) (ref.Bits, error) {
	t, err := r.Bit()
	if err != nil {
		return nil, err
	}
	if !t { // hml_short
		n := 0
		for {
			b, err := r.Bit()
			if err != nil {
				return nil, err
			}
			if !b {
				break
			}
			n++
		}
		if n > m {
			return nil, errors.New("walletref: hml_short longer than the remaining key")
		}
		return r.Take(n)
	}
	t2, err := r.Bit()
	if err != nil {
		return nil, err
	}
	if !t2 { // hml_long
		n, err := r.U(lenBits(m))
		if err != nil {
			return nil, err
		}
		if int(n) > m {
			return nil, errors.New("walletref: hml_long longer than the remaining key")
		}
		return r.Take(int(n))
	}
	v, err := r.Bit()
	if err != nil {
		return nil, err
	}
	n, err := r.U(lenBits(m))
	if err != nil {
		return nil, err
	}
	if int(n) > m {
		return nil, errors.New("walletref: hml_same longer than the remaining key")
	}
	out := make(ref.Bits, n)
	for i := range out {
		out[i] = v
	}
	return out, nil
}

func parseEdge(c *ref.RCell, n int, prefix ref.Bits, out *[]DictEntry, budget *int) error {
	if *budget--; *budget < 0 {
		return errors.New("walletref: dictionary too large")
	}
	if c.Special {
		return errors.New("walletref: exotic cell inside a dictionary")
	}
	r := NewReader(c)
	label, err := readLabel(r, n)
	if err != nil {
		return err
	}
	prefix = append(prefix.Clone(), label...)
	m := n - len(label)
	if m == 0 {
		*out = append(*out, DictEntry{Key: prefix.Uint(0, len(prefix)), Value: r.Rest()})
		return nil
	}
	left, err := r.Ref()
	if err != nil {
		return fmt.Errorf("fork: %w", err)
	}
	right, err := r.Ref()
	if err != nil {
		return fmt.Errorf("fork: %w", err)
	}
	if err := r.End(); err != nil {
		return fmt.Errorf("fork: %w", err)
	}
	if err := parseEdge(left, m-1, append(prefix.Clone(), false), out, budget); err != nil {
		return err
	}
	return parseEdge(right, m-1, append(prefix.Clone(), true), out, budget)
}

// ParseDict reads a non-empty Hashmap n X whose root edge is cell root. Entries come out in key order.
func ParseDict(root *ref.RCell, n int) ([]DictEntry, error) {
	var out []DictEntry
	budget := 1 << 16
	if err := parseEdge(root, n, nil, &out, &budget); err != nil {
		return nil, err
	}
	return out, nil
}

// writeLabel writes the label in the shortest form (the choice the reference C++ implementation makes).
func writeLabel(b *Builder, label ref.Bits, m int) {
	n, k := len(label), lenBits(m)
	same := n > 0
	for _, v := range label {
		if v != label[0] {
			same = false
		}
	}
	switch {
	case same && n > 1 && k < 2*n-1: // hml_same$11: 3+k bits
		b.U(3, 2).Bit(label[0]).U(uint64(n), k)
	case k < n: // hml_long$10: 2+k+n bits
		b.U(2, 2).U(uint64(n), k).Append(label)
	default: // hml_short$0: 2n+2 bits
		b.Bit(false)
		for i := 0; i < n; i++ {
			b.Bit(true)
		}
		b.Bit(false).Append(label)
	}
}

func buildEdge(entries []DictEntry, n, keyLen int) *ref.RCell {
	// entries are sorted and share the first keyLen-n bits; find the common prefix of the remaining n bits
	bitAt := func(k uint64, i int) bool { return k>>(uint(keyLen-1-i))&1 == 1 }
	first, last := entries[0].Key, entries[len(entries)-1].Key
	l := 0
	for l < n && bitAt(first, keyLen-n+l) == bitAt(last, keyLen-n+l) {
		l++
	}
	var label ref.Bits
	for i := 0; i < l; i++ {
		label = append(label, bitAt(first, keyLen-n+i))
	}
	b := NewBuilder()
	writeLabel(b, label, n)
	if l == n {
		return b.Slice(entries[0].Value).Cell()
	}
	split := 0
	for split < len(entries) && !bitAt(entries[split].Key, keyLen-n+l) {
		split++
	}
	b.Ref(buildEdge(entries[:split], n-l-1, keyLen))
	b.Ref(buildEdge(entries[split:], n-l-1, keyLen))
	return b.Cell()
}

// BuildDict writes a Hashmap keyLen X in canonical form. Entries must be sorted by key, distinct, non-empty.
func BuildDict(entries []DictEntry, keyLen int) *ref.RCell {
	return buildEdge(entries, keyLen, keyLen)
}
