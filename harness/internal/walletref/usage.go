package walletref

import (
	"fmt"
	"sort"

	"verifharness/internal/ref"
)

// Usage is the part of a wallet's persistent data, besides the seqno, that differs from the initial data
// once the wallet has been used. It is what an account found on the chain looks like, as opposed to the
// data a wallet is deployed with (DataCell writes the latter: every dictionary empty).
//
//	v4 (wallet-v4-code.fc, op 2 "install plugin"):
//	    plugins:(HashmapE 264 X), key = workchain:int8 ++ address:bits256 of the plugin, value an empty slice
//	    (plugins~dict_set_builder(8 + 256, wc_n_address, begin_cell())); get_plugin_list walks it with 8+256.
//	v5 beta:  extensions:(HashmapE 256 int8), key = address hash of the extension, value its workchain.
//	v5r1:     extensions_dict:(HashmapE 256 int1), key = address hash, value -1 (a single 1 bit);
//	          is_signature_allowed may be 0 only while at least one extension is installed.
//	highload v2 (highload-wallet-v2-code.fc): last_cleaned:uint64 and old_queries:(HashmapE 64 X) with empty
//	          values (old_queries~udict_set_builder(64, query_id, begin_cell())).
//
// v1, v2 and v3 data has no such part.
type Usage struct {
	// Plugins: installed plugins (v4) or extensions (v5). For v5 only the hash is the key; entries that
	// collide on the key are written once.
	Plugins []Addr
	// SignatureDisabled: v5r1 only, honoured only when at least one extension is present.
	SignatureDisabled bool
	// highload v2
	LastCleaned uint64
	OldQueries  []uint64
}

func (u Usage) Empty() bool {
	return len(u.Plugins) == 0 && !u.SignatureDisabled && u.LastCleaned == 0 && len(u.OldQueries) == 0
}

func (u Usage) String() string {
	if u.Empty() {
		return "as deployed"
	}
	s := ""
	for i, p := range u.Plugins {
		if i > 0 {
			s += " "
		}
		s += p.String()
	}
	if len(u.Plugins) > 0 {
		s = "plugins/extensions [" + s + "]"
	}
	if u.SignatureDisabled {
		s += " signature-disabled"
	}
	if u.LastCleaned != 0 || len(u.OldQueries) > 0 {
		s += fmt.Sprintf(" last_cleaned=%d old_queries=%v", u.LastCleaned, u.OldQueries)
	}
	return s
}

// PluginKey is the 264-bit key of a v4 plugin: workchain:int8 ++ address:bits256.
func PluginKey(a Addr) ref.Bits {
	return ref.Bits{}.AppendInt(int64(a.Workchain), 8).AppendBytes(a.Hash[:])
}

// usageDict writes a HashmapE n X in the canonical form the TVM dictionary primitives produce (shortest
// labels). Entries with equal keys are written once (the first wins).
func usageDict(b *Builder, entries []ref.DictEntry, n int) {
	sort.SliceStable(entries, func(i, j int) bool {
		a, c := entries[i].Key, entries[j].Key
		for k := range a {
			if a[k] != c[k] {
				return !a[k]
			}
		}
		return false
	})
	var uniq []ref.DictEntry
	for i, e := range entries {
		if i > 0 && e.Key.Equal(entries[i-1].Key) {
			continue
		}
		uniq = append(uniq, e)
	}
	bits, refs, err := ref.EncodeHashmapE(uniq, n, nil)
	if err != nil {
		panic("walletref: usage dictionary: " + err.Error())
	}
	b.Append(bits)
	for _, r := range refs {
		b.Ref(r)
	}
}

// UsedDataCell writes the persistent data of a wallet that has been in use: stored seqno and the Usage part.
// With an empty Usage it is DataCell.
func UsedDataCell(v Version, seqno uint64, pub []byte, ids IDs, u Usage) *ref.RCell {
	if len(pub) != 32 {
		panic("walletref: public key must be 32 bytes")
	}
	b := NewBuilder()
	switch v.Family() {
	case FamV4:
		b.U(seqno, 32).U(uint64(ids.SubWallet), 32).Bytes(pub)
		var es []ref.DictEntry
		for _, p := range u.Plugins {
			es = append(es, ref.DictEntry{Key: PluginKey(p)})
		}
		usageDict(b, es, 264)
	case FamV5Beta:
		b.U(seqno, 33).walletIDV5Beta(ids).Bytes(pub)
		var es []ref.DictEntry
		for _, p := range u.Plugins {
			es = append(es, ref.DictEntry{Key: ref.Bits{}.AppendBytes(p.Hash[:]), Value: ref.DictValue{Bits: ref.Bits{}.AppendInt(int64(p.Workchain), 8)}})
		}
		usageDict(b, es, 256)
	case FamV5R1:
		b.Bit(!(u.SignatureDisabled && len(u.Plugins) > 0)).U(seqno, 32).U(uint64(ids.WalletID), 32).Bytes(pub)
		var es []ref.DictEntry
		for _, p := range u.Plugins {
			es = append(es, ref.DictEntry{Key: ref.Bits{}.AppendBytes(p.Hash[:]), Value: ref.DictValue{Bits: ref.Bits{true}}})
		}
		usageDict(b, es, 256)
	case FamHighloadV2:
		b.U(uint64(ids.SubWallet), 32).U(u.LastCleaned, 64).Bytes(pub)
		var es []ref.DictEntry
		for _, q := range u.OldQueries {
			es = append(es, ref.DictEntry{Key: ref.Bits{}.AppendUint(q, 64)})
		}
		usageDict(b, es, 64)
	default:
		return DataCell(v, seqno, pub, ids)
	}
	return b.Cell()
}
