// Package tlbind maps abstract TL values (internal/tlref) to and from Go values of binding types that
// follow the conventions of tongo's TL generator, BY FIELD POSITION (names are never consulted, except
// that the SumType string of a union must name the Go field that holds the chosen constructor, which is
// how the library itself selects it). Standard library and tlref only, so that C09 can copy it into a
// scratch module.
//
// Conventions:
//   - a constructor is a struct with one field per TL field in declaration order; TL fields of type
//     `true` have no Go field;
//   - int, # -> uint32 (int32 accepted); long -> uint64 (int64 accepted); int256 -> [32]byte;
//     bytes -> []byte; string -> string; Bool -> bool; (vector T) -> []T;
//   - a conditional field is a pointer to its type, unless the type is a slice (bytes, vectors);
//   - a type with several constructors is a struct whose first field is the SumType string and whose
//     following fields are the constructor structs in declaration order;
//   - a boxed reference to a type with one constructor is a struct like the constructor's.
package tlbind

import (
	"fmt"
	"reflect"

	"verifharness/internal/tlref"
)

// Absent, if not nil, is asked for a value to store into the Go field of a conditional field whose bit
// is clear (a stale value that serialisation must ignore). Returning nil leaves the zero value.
type Options struct {
	Absent func(f tlref.Field) *tlref.Value
}

func isSum(rt reflect.Type) bool {
	if rt.Kind() != reflect.Struct || rt.NumField() == 0 {
		return false
	}
	f := rt.Field(0)
	return f.Name == "SumType" && f.Type.Kind() == reflect.String
}

// goFields returns, per TL field, the index of the Go struct field (-1 for `true` fields).
func goFields(c *tlref.Combinator, rt reflect.Type) ([]int, error) {
	if rt.Kind() != reflect.Struct {
		return nil, fmt.Errorf("%s: Go type %v is not a struct", c.Name, rt)
	}
	out := make([]int, len(c.Fields))
	n := 0
	for i, f := range c.Fields {
		if f.Type.Kind == tlref.KTrue {
			out[i] = -1
			continue
		}
		out[i] = n
		n++
	}
	if n != rt.NumField() {
		return nil, fmt.Errorf("%s: schema has %d value fields, Go type %v has %d", c.Name, n, rt, rt.NumField())
	}
	return out, nil
}

// CheckShape verifies that Go type rt can hold values of TL type t (conditional: as a conditional field).
func CheckShape(s *tlref.Schema, t tlref.TypeExpr, rt reflect.Type, conditional bool) error {
	if conditional && t.Kind != tlref.KBytes && t.Kind != tlref.KVector {
		if rt.Kind() != reflect.Pointer {
			return fmt.Errorf("conditional %s: Go type %v is not a pointer", t, rt)
		}
		rt = rt.Elem()
	}
	bad := func() error { return fmt.Errorf("TL type %s does not fit Go type %v", t, rt) }
	switch t.Kind {
	case tlref.KInt, tlref.KNat:
		if rt.Kind() != reflect.Uint32 && rt.Kind() != reflect.Int32 {
			return bad()
		}
	case tlref.KLong:
		if rt.Kind() != reflect.Uint64 && rt.Kind() != reflect.Int64 {
			return bad()
		}
	case tlref.KInt256:
		if rt.Kind() != reflect.Array || rt.Len() != 32 || rt.Elem().Kind() != reflect.Uint8 {
			return bad()
		}
	case tlref.KBytes:
		if rt.Kind() != reflect.Slice || rt.Elem().Kind() != reflect.Uint8 {
			return bad()
		}
	case tlref.KString:
		if rt.Kind() != reflect.String {
			return bad()
		}
	case tlref.KBool:
		if rt.Kind() != reflect.Bool {
			return bad()
		}
	case tlref.KVector:
		if rt.Kind() != reflect.Slice {
			return bad()
		}
		return CheckShape(s, *t.Elem, rt.Elem(), false)
	case tlref.KBare:
		return CheckObjectShape(s, s.Constructor(t.Name), rt)
	case tlref.KBoxed:
		return CheckBoxedShape(s, t.Name, rt)
	default:
		return bad()
	}
	return nil
}

func CheckObjectShape(s *tlref.Schema, c *tlref.Combinator, rt reflect.Type) error {
	idx, err := goFields(c, rt)
	if err != nil {
		return err
	}
	for i, f := range c.Fields {
		if idx[i] < 0 {
			continue
		}
		if err := CheckShape(s, f.Type, rt.Field(idx[i]).Type, f.Cond != ""); err != nil {
			return fmt.Errorf("%s.%s (Go field %s): %v", c.Name, f.Name, rt.Field(idx[i]).Name, err)
		}
	}
	return nil
}

func CheckBoxedShape(s *tlref.Schema, typeName string, rt reflect.Type) error {
	cs := s.ConstructorsOf(typeName)
	if !isSum(rt) {
		if len(cs) != 1 {
			return fmt.Errorf("type %s has %d constructors but Go type %v has no SumType", typeName, len(cs), rt)
		}
		return CheckObjectShape(s, cs[0], rt)
	}
	if rt.NumField() != len(cs)+1 {
		return fmt.Errorf("type %s has %d constructors, Go union %v has %d alternatives", typeName, len(cs), rt, rt.NumField()-1)
	}
	for i, c := range cs {
		if err := CheckObjectShape(s, c, rt.Field(i+1).Type); err != nil {
			return err
		}
	}
	return nil
}

// ToGo stores v (of TL type t) into dst, which must be settable.
func ToGo(s *tlref.Schema, t tlref.TypeExpr, v *tlref.Value, dst reflect.Value, o *Options) error {
	switch t.Kind {
	case tlref.KInt, tlref.KNat:
		if dst.Kind() == reflect.Int32 {
			dst.SetInt(int64(int32(uint32(v.N))))
		} else {
			dst.SetUint(uint64(uint32(v.N)))
		}
	case tlref.KLong:
		if dst.Kind() == reflect.Int64 {
			dst.SetInt(int64(v.N))
		} else {
			dst.SetUint(v.N)
		}
	case tlref.KInt256:
		reflect.Copy(dst, reflect.ValueOf(v.Bytes))
	case tlref.KBytes:
		dst.SetBytes(append([]byte{}, v.Bytes...))
	case tlref.KString:
		dst.SetString(string(v.Bytes))
	case tlref.KBool:
		dst.SetBool(v.Flag)
	case tlref.KVector:
		sl := reflect.MakeSlice(dst.Type(), len(v.Elems), len(v.Elems))
		for i, e := range v.Elems {
			if err := ToGo(s, *t.Elem, e, sl.Index(i), o); err != nil {
				return err
			}
		}
		dst.Set(sl)
	case tlref.KBare:
		return ObjectToGo(s, v, dst, o)
	case tlref.KBoxed:
		return BoxedToGo(s, t.Name, v, dst, o)
	default:
		return fmt.Errorf("cannot store TL type %s", t)
	}
	return nil
}

// ObjectToGo fills the constructor struct dst from the constructed value v.
func ObjectToGo(s *tlref.Schema, v *tlref.Value, dst reflect.Value, o *Options) error {
	c := v.Con
	idx, err := goFields(c, dst.Type())
	if err != nil {
		return err
	}
	for i, f := range c.Fields {
		if idx[i] < 0 {
			continue
		}
		fv, gf := v.Fields[i], dst.Field(idx[i])
		if fv == nil {
			if o != nil && o.Absent != nil {
				fv = o.Absent(f)
			}
			if fv == nil {
				continue
			}
		}
		if f.Cond != "" && gf.Kind() == reflect.Pointer {
			p := reflect.New(gf.Type().Elem())
			if err := ToGo(s, f.Type, fv, p.Elem(), o); err != nil {
				return err
			}
			gf.Set(p)
			continue
		}
		if err := ToGo(s, f.Type, fv, gf, o); err != nil {
			return err
		}
	}
	return nil
}

// BoxedToGo fills a union struct (or the struct of a single-constructor boxed type).
func BoxedToGo(s *tlref.Schema, typeName string, v *tlref.Value, dst reflect.Value, o *Options) error {
	if !isSum(dst.Type()) {
		return ObjectToGo(s, v, dst, o)
	}
	for i, c := range s.ConstructorsOf(typeName) {
		if c == v.Con {
			dst.Field(0).SetString(dst.Type().Field(i + 1).Name)
			return ObjectToGo(s, v, dst.Field(i+1), o)
		}
	}
	return fmt.Errorf("%s is not a constructor of %s", v.Con.Name, typeName)
}

// FromGo reads a value of TL type t out of src.
func FromGo(s *tlref.Schema, t tlref.TypeExpr, src reflect.Value) (*tlref.Value, error) {
	switch t.Kind {
	case tlref.KInt, tlref.KNat:
		if src.Kind() == reflect.Int32 {
			return &tlref.Value{Kind: t.Kind, N: uint64(uint32(src.Int()))}, nil
		}
		return &tlref.Value{Kind: t.Kind, N: src.Uint()}, nil
	case tlref.KLong:
		if src.Kind() == reflect.Int64 {
			return tlref.VLong(uint64(src.Int())), nil
		}
		return tlref.VLong(src.Uint()), nil
	case tlref.KInt256:
		b := make([]byte, 32)
		reflect.Copy(reflect.ValueOf(b), src)
		return tlref.VInt256(b), nil
	case tlref.KBytes:
		return tlref.VBytes(append([]byte{}, src.Bytes()...)), nil
	case tlref.KString:
		return tlref.VString([]byte(src.String())), nil
	case tlref.KBool:
		return tlref.VBool(src.Bool()), nil
	case tlref.KVector:
		out := &tlref.Value{Kind: tlref.KVector}
		for i := 0; i < src.Len(); i++ {
			e, err := FromGo(s, *t.Elem, src.Index(i))
			if err != nil {
				return nil, err
			}
			out.Elems = append(out.Elems, e)
		}
		return out, nil
	case tlref.KBare:
		return ObjectFromGo(s, s.Constructor(t.Name), src)
	case tlref.KBoxed:
		return BoxedFromGo(s, t.Name, src)
	}
	return nil, fmt.Errorf("cannot read TL type %s", t)
}

func isEmpty(v reflect.Value) bool {
	switch v.Kind() {
	case reflect.Pointer:
		return v.IsNil()
	case reflect.Slice:
		return v.Len() == 0
	}
	return v.IsZero()
}

// ObjectFromGo reads constructor c out of struct src. A conditional field whose bit is clear must hold
// nothing (nil pointer / empty slice); one whose bit is set must hold a value.
func ObjectFromGo(s *tlref.Schema, c *tlref.Combinator, src reflect.Value) (*tlref.Value, error) {
	idx, err := goFields(c, src.Type())
	if err != nil {
		return nil, err
	}
	v := &tlref.Value{Kind: tlref.KObject, Con: c, Fields: make([]*tlref.Value, len(c.Fields))}
	for i, f := range c.Fields {
		present := true
		if f.Cond != "" {
			j := c.CondIndex(i)
			present = uint32(v.Fields[j].N)>>uint(f.CondBit)&1 == 1
		}
		if idx[i] < 0 {
			if present {
				v.Fields[i] = tlref.VTrue()
			}
			continue
		}
		gf := src.Field(idx[i])
		if !present {
			if !isEmpty(gf) {
				return nil, fmt.Errorf("%s.%s holds a value although bit %d of %s is clear", c.Name, f.Name, f.CondBit, f.Cond)
			}
			continue
		}
		if f.Cond != "" && gf.Kind() == reflect.Pointer {
			if gf.IsNil() {
				return nil, fmt.Errorf("%s.%s is nil although bit %d of %s is set", c.Name, f.Name, f.CondBit, f.Cond)
			}
			gf = gf.Elem()
		}
		if v.Fields[i], err = FromGo(s, f.Type, gf); err != nil {
			return nil, err
		}
	}
	return v, nil
}

func BoxedFromGo(s *tlref.Schema, typeName string, src reflect.Value) (*tlref.Value, error) {
	cs := s.ConstructorsOf(typeName)
	if !isSum(src.Type()) {
		return ObjectFromGo(s, cs[0], src)
	}
	tag := src.Field(0).String()
	for i, c := range cs {
		if src.Type().Field(i+1).Name == tag {
			return ObjectFromGo(s, c, src.Field(i+1))
		}
	}
	return nil, fmt.Errorf("SumType %q names no alternative of %v", tag, src.Type())
}
