// Package ref holds the reference models of the harness. Nothing in this package imports the code under
// test (enforced by TestNoTongoImport in ref_test.go).
package ref

import (
	"math/big"
	"strings"
)

// Bits is R1, the ideal bit list.
type Bits []bool

func (b Bits) Clone() Bits { return append(Bits{}, b...) }

// AppendUint appends the n low bits of v, most significant first.
func (b Bits) AppendUint(v uint64, n int) Bits {
	for i := n - 1; i >= 0; i-- {
		bit := false
		if i < 64 {
			bit = v>>uint(i)&1 == 1
		}
		b = append(b, bit)
	}
	return b
}

// AppendBig appends v as an n-bit two's complement (or unsigned, the bits are the same) big-endian number.
func (b Bits) AppendBig(v *big.Int, n int) Bits {
	x := new(big.Int).Set(v)
	if x.Sign() < 0 {
		x.Add(x, new(big.Int).Lsh(big.NewInt(1), uint(n)))
	}
	for i := n - 1; i >= 0; i-- {
		b = append(b, x.Bit(i) == 1)
	}
	return b
}

func (b Bits) AppendInt(v int64, n int) Bits { return b.AppendBig(big.NewInt(v), n) }

func (b Bits) AppendBytes(p []byte) Bits {
	for _, x := range p {
		b = b.AppendUint(uint64(x), 8)
	}
	return b
}

// BigUint reads n bits at off as an unsigned number.
func (b Bits) BigUint(off, n int) *big.Int {
	x := new(big.Int)
	for i := 0; i < n; i++ {
		x.Lsh(x, 1)
		if b[off+i] {
			x.SetBit(x, 0, 1)
		}
	}
	return x
}

// BigInt reads n bits at off as a two's complement number.
func (b Bits) BigInt(off, n int) *big.Int {
	x := b.BigUint(off, n)
	if n > 0 && b[off] {
		x.Sub(x, new(big.Int).Lsh(big.NewInt(1), uint(n)))
	}
	return x
}

func (b Bits) Uint(off, n int) uint64 { return b.BigUint(off, n).Uint64() }
func (b Bits) Int(off, n int) int64   { return b.BigInt(off, n).Int64() }

// Packed returns the bits packed into bytes, unused low bits of the last byte zero.
func (b Bits) Packed() []byte {
	out := make([]byte, (len(b)+7)/8)
	for i, v := range b {
		if v {
			out[i/8] |= 1 << uint(7-i%8)
		}
	}
	return out
}

// PackedTagged returns the bits packed with the completion tag (a one followed by zeros) when the
// length is not a multiple of 8.
func (b Bits) PackedTagged() []byte {
	out := b.Packed()
	if len(b)%8 != 0 {
		out[len(out)-1] |= 1 << uint(7-len(b)%8)
	}
	return out
}

func BitsFromBytes(p []byte, n int) Bits {
	out := make(Bits, n)
	for i := range out {
		out[i] = p[i/8]>>uint(7-i%8)&1 == 1
	}
	return out
}

func (b Bits) Equal(o Bits) bool {
	if len(b) != len(o) {
		return false
	}
	for i := range b {
		if b[i] != o[i] {
			return false
		}
	}
	return true
}

func (b Bits) String() string {
	var sb strings.Builder
	for _, v := range b {
		if v {
			sb.WriteByte('1')
		} else {
			sb.WriteByte('0')
		}
	}
	return sb.String()
}

// FiftHex renders the bit list the way Fift prints slices: groups of four bits as upper-case hex digits;
// if the length is not a multiple of four, a one bit and zero bits complete the last group and "_" follows.
func (b Bits) FiftHex() string {
	const digits = "0123456789ABCDEF"
	x := b.Clone()
	tagged := len(x)%4 != 0
	if tagged {
		x = append(x, true)
		for len(x)%4 != 0 {
			x = append(x, false)
		}
	}
	var sb strings.Builder
	for i := 0; i < len(x); i += 4 {
		v := 0
		for j := 0; j < 4; j++ {
			v <<= 1
			if x[i+j] {
				v |= 1
			}
		}
		sb.WriteByte(digits[v])
	}
	if tagged {
		sb.WriteByte('_')
	}
	return sb.String()
}
