package ref

import (
	"errors"
	"fmt"
	"math/bits"
	"sort"
)

// R4 (dictionary part): reference encoder and decoder of TON Hashmap / HashmapE, written from the schema
//
//	hm_edge#_ {n:#} {X:Type} {l:#} {m:#} label:(HmLabel ~l n) {n = (~m) + l} node:(HashmapNode m X) = Hashmap n X;
//	hmn_leaf#_ {X:Type} value:X = HashmapNode 0 X;
//	hmn_fork#_ {n:#} {X:Type} left:^(Hashmap n X) right:^(Hashmap n X) = HashmapNode (n + 1) X;
//	hml_short$0 {m:#} {n:#} len:(Unary ~n) {n <= m} s:(n * Bit) = HmLabel ~n m;
//	hml_long$10 {m:#} n:(#<= m) s:(n * Bit) = HmLabel ~n m;
//	hml_same$11 {m:#} v:Bit n:(#<= m) = HmLabel ~n m;
//	hme_empty$0 / hme_root$1 root:^(Hashmap n X) = HashmapE n X;

// DictValue is what a leaf carries after its label: bits and references.
type DictValue struct {
	Bits Bits
	Refs []*RCell
}

type DictEntry struct {
	Key   Bits
	Value DictValue
}

const (
	LabelShort = 0
	LabelLong  = 1
	LabelSame  = 2
)

func limBits(m int) int { return bits.Len(uint(m)) }

// LabelForms lists the label encodings that are valid for a label s with m remaining key bits.
func LabelForms(s Bits, m int) []int {
	forms := []int{LabelShort, LabelLong}
	same := true
	for _, b := range s {
		if b != s[0] {
			same = false
		}
	}
	if same { // includes the empty label (n = 0, v arbitrary)
		forms = append(forms, LabelSame)
	}
	return forms
}

func encodeLabel(s Bits, m int, form int) Bits {
	var out Bits
	switch form {
	case LabelShort:
		out = append(out, false)
		for range s {
			out = append(out, true)
		}
		out = append(out, false)
		out = append(out, s...)
	case LabelLong:
		out = append(out, true, false)
		out = out.AppendUint(uint64(len(s)), limBits(m))
		out = append(out, s...)
	case LabelSame:
		out = append(out, true, true)
		v := false
		if len(s) > 0 {
			v = s[0]
		}
		out = append(out, v)
		out = out.AppendUint(uint64(len(s)), limBits(m))
	}
	return out
}

// ShortestForm returns the form with the fewest bits (ties: short, then long, then same), which is what
// the reference C++ implementation writes.
func ShortestForm(s Bits, m int) int {
	best, bestLen := LabelShort, 1<<30
	for _, f := range LabelForms(s, m) {
		if l := len(encodeLabel(s, m, f)); l < bestLen {
			best, bestLen = f, l
		}
	}
	return best
}

// EncodeHashmap builds the cell tree of a non-empty Hashmap n X. choose picks a label form among the valid
// ones for each edge (nil = canonical shortest). Keys must be distinct and n bits long.
func EncodeHashmap(entries []DictEntry, n int, choose func(s Bits, m int, forms []int) int) (*RCell, error) {
	if len(entries) == 0 {
		return nil, errors.New("empty Hashmap has no cell form")
	}
	es := append([]DictEntry{}, entries...)
	sort.Slice(es, func(i, j int) bool { return lessBits(es[i].Key, es[j].Key) })
	for i := range es {
		if len(es[i].Key) != n {
			return nil, fmt.Errorf("key %d has %d bits, want %d", i, len(es[i].Key), n)
		}
		if i > 0 && es[i].Key.Equal(es[i-1].Key) {
			return nil, errors.New("duplicate key")
		}
	}
	return encodeEdge(es, 0, n, choose)
}

func lessBits(a, b Bits) bool {
	for i := 0; i < len(a) && i < len(b); i++ {
		if a[i] != b[i] {
			return !a[i]
		}
	}
	return len(a) < len(b)
}

// encodeEdge encodes the sub-dictionary of es (sorted, sharing the first `pos` key bits) with m = n-pos bits left.
func encodeEdge(es []DictEntry, pos, n int, choose func(Bits, int, []int) int) (*RCell, error) {
	m := n - pos
	// common prefix of the remaining key bits
	first, last := es[0].Key[pos:], es[len(es)-1].Key[pos:]
	l := 0
	for l < len(first) && first[l] == last[l] {
		l++
	}
	label := Bits(first[:l]).Clone()
	// only forms that leave room for the payload of the node are valid choices
	payload := 0
	if len(es) == 1 {
		payload = len(es[0].Value.Bits)
	}
	var forms []int
	for _, f := range LabelForms(label, m) {
		if len(encodeLabel(label, m, f))+payload <= 1023 {
			forms = append(forms, f)
		}
	}
	form := ShortestForm(label, m)
	if choose != nil && len(forms) > 0 {
		form = choose(label, m, forms)
	}
	b := encodeLabel(label, m, form)
	if len(es) == 1 {
		if l != m {
			return nil, errors.New("internal: single entry with a partial label")
		}
		b = append(b, es[0].Value.Bits...)
		if len(b) > 1023 {
			return nil, errors.New("leaf does not fit into a cell")
		}
		return NewRCell(b, false, es[0].Value.Refs...), nil
	}
	// fork on bit pos+l
	split := sort.Search(len(es), func(i int) bool { return es[i].Key[pos+l] })
	left, err := encodeEdge(es[:split], pos+l+1, n, choose)
	if err != nil {
		return nil, err
	}
	right, err := encodeEdge(es[split:], pos+l+1, n, choose)
	if err != nil {
		return nil, err
	}
	return NewRCell(b, false, left, right), nil
}

// EncodeHashmapE wraps EncodeHashmap into the HashmapE form written into a parent cell: one bit and, when
// non-empty, one reference.
func EncodeHashmapE(entries []DictEntry, n int, choose func(Bits, int, []int) int) (Bits, []*RCell, error) {
	if len(entries) == 0 {
		return Bits{false}, nil, nil
	}
	root, err := EncodeHashmap(entries, n, choose)
	if err != nil {
		return nil, nil, err
	}
	return Bits{true}, []*RCell{root}, nil
}

// DecodeHashmap is the independent decoder: it returns the entries in the order of a left-to-right walk
// (ascending key bits for a valid dictionary) and validates the structure.
func DecodeHashmap(root *RCell, n int) ([]DictEntry, error) {
	var out []DictEntry
	err := decodeEdge(root, nil, n, &out, 0)
	return out, err
}

func decodeEdge(c *RCell, prefix Bits, m int, out *[]DictEntry, depth int) error {
	if depth > 1100 {
		return errors.New("dictionary too deep")
	}
	if c.Special {
		return errors.New("special cell inside a dictionary")
	}
	b := c.Bits()
	p := 0
	need := func(k int) error {
		if p+k > len(b) {
			return errors.New("label runs past the cell")
		}
		return nil
	}
	var label Bits
	if err := need(1); err != nil {
		return err
	}
	if !b[p] { // short
		p++
		k := 0
		for {
			if err := need(1); err != nil {
				return err
			}
			if !b[p] {
				p++
				break
			}
			p++
			k++
		}
		if err := need(k); err != nil {
			return err
		}
		label = b[p : p+k].Clone()
		p += k
	} else {
		if err := need(2); err != nil {
			return err
		}
		if !b[p+1] { // long
			p += 2
			w := limBits(m)
			if err := need(w); err != nil {
				return err
			}
			k := int(b.Uint(p, w))
			p += w
			if err := need(k); err != nil {
				return err
			}
			label = b[p : p+k].Clone()
			p += k
		} else { // same
			p += 2
			if err := need(1); err != nil {
				return err
			}
			v := b[p]
			p++
			w := limBits(m)
			if err := need(w); err != nil {
				return err
			}
			k := int(b.Uint(p, w))
			p += w
			label = make(Bits, k)
			for i := range label {
				label[i] = v
			}
		}
	}
	if len(label) > m {
		return fmt.Errorf("label of %d bits with %d key bits left", len(label), m)
	}
	key := append(prefix.Clone(), label...)
	rest := m - len(label)
	if rest == 0 {
		*out = append(*out, DictEntry{Key: key, Value: DictValue{Bits: b[p:].Clone(), Refs: c.Refs}})
		return nil
	}
	if len(c.Refs) != 2 || p != len(b) {
		return fmt.Errorf("fork node with %d refs and %d extra bits", len(c.Refs), len(b)-p)
	}
	if err := decodeEdge(c.Refs[0], append(key.Clone(), false), rest-1, out, depth+1); err != nil {
		return err
	}
	return decodeEdge(c.Refs[1], append(key.Clone(), true), rest-1, out, depth+1)
}

// DecodeLabel reads one HmLabel ~n m from the beginning of a cell's bits and returns the label and the
// bits after it.
func DecodeLabel(b Bits, m int) (label, rest Bits, ok bool) {
	p := 0
	has := func(k int) bool { return p+k <= len(b) }
	if !has(1) {
		return nil, nil, false
	}
	if !b[0] {
		p = 1
		k := 0
		for {
			if !has(1) {
				return nil, nil, false
			}
			if !b[p] {
				p++
				break
			}
			p++
			k++
		}
		if !has(k) {
			return nil, nil, false
		}
		label = b[p : p+k].Clone()
		p += k
	} else {
		if !has(2) {
			return nil, nil, false
		}
		w := limBits(m)
		if !b[1] {
			p = 2
			if !has(w) {
				return nil, nil, false
			}
			k := int(b.Uint(p, w))
			p += w
			if !has(k) {
				return nil, nil, false
			}
			label = b[p : p+k].Clone()
			p += k
		} else {
			p = 2
			if !has(1 + w) {
				return nil, nil, false
			}
			v := b[p]
			k := int(b.Uint(p+1, w))
			p += 1 + w
			label = make(Bits, k)
			for i := range label {
				label[i] = v
			}
		}
	}
	if len(label) > m {
		return nil, nil, false
	}
	return label, b[p:].Clone(), true
}

// EncodeHashmapAug builds a HashmapAug n X Y tree:
//
//	ahm_edge#_ label:(HmLabel ~l n) {n = (~m) + l} node:(HashmapAugNode m X Y) = HashmapAug n X Y;
//	ahmn_leaf#_ extra:Y value:X = HashmapAugNode 0 X Y;
//	ahmn_fork#_ left:^(HashmapAug n X Y) right:^(HashmapAug n X Y) extra:Y = HashmapAugNode (n + 1) X Y;
//
// leafExtra gives the extra of a leaf, forkExtra combines the extras of two children. It returns the root
// cell and the extra of the root (needed by HashmapAugE: ahme_root$1 root:^(...) extra:Y).
func EncodeHashmapAug(entries []DictEntry, n int, leafExtra func(DictEntry) Bits, forkExtra func(l, r Bits) Bits, choose func(Bits, int, []int) int) (*RCell, Bits, error) {
	if len(entries) == 0 {
		return nil, nil, errors.New("empty HashmapAug has no cell form")
	}
	es := append([]DictEntry{}, entries...)
	sort.Slice(es, func(i, j int) bool { return lessBits(es[i].Key, es[j].Key) })
	for i := range es {
		if len(es[i].Key) != n {
			return nil, nil, fmt.Errorf("key %d has %d bits, want %d", i, len(es[i].Key), n)
		}
	}
	var rec func(es []DictEntry, pos int) (*RCell, Bits, error)
	rec = func(es []DictEntry, pos int) (*RCell, Bits, error) {
		m := n - pos
		first, last := es[0].Key[pos:], es[len(es)-1].Key[pos:]
		l := 0
		for l < len(first) && first[l] == last[l] {
			l++
		}
		label := Bits(first[:l]).Clone()
		form := ShortestForm(label, m)
		if choose != nil {
			var forms []int
			for _, f := range LabelForms(label, m) {
				if len(encodeLabel(label, m, f)) <= 700 {
					forms = append(forms, f)
				}
			}
			if len(forms) > 0 {
				form = choose(label, m, forms)
			}
		}
		b := encodeLabel(label, m, form)
		if len(es) == 1 {
			x := leafExtra(es[0])
			b = append(append(b, x...), es[0].Value.Bits...)
			if len(b) > 1023 {
				return nil, nil, errors.New("leaf does not fit into a cell")
			}
			return NewRCell(b, false, es[0].Value.Refs...), x, nil
		}
		split := sort.Search(len(es), func(i int) bool { return es[i].Key[pos+l] })
		lc, lx, err := rec(es[:split], pos+l+1)
		if err != nil {
			return nil, nil, err
		}
		rc, rx, err := rec(es[split:], pos+l+1)
		if err != nil {
			return nil, nil, err
		}
		x := forkExtra(lx, rx)
		return NewRCell(append(b, x...), false, lc, rc), x, nil
	}
	return rec(es, 0)
}
