package ref

import (
	"encoding/binary"
	"hash/crc32"
)

// BocVariant selects one of the header/body variants a conforming BOC writer may produce.
type BocVariant struct {
	Magic      int  // 0 generic b5ee9c72, 1 legacy 68ff65f3 (index, no crc), 2 legacy acc3a728 (index, crc)
	Index      bool // generic only
	CRC        bool // generic only
	CacheBits  bool // generic only, with Index: offsets are stored as 2*off+flag
	ExtraSize  int  // widen the ref index size by this many bytes (total clamped to 4)
	ExtraOff   int  // widen the offset size by this many bytes (total clamped to 8)
	OrderSeed  uint64
	WithHashes bool // store hashes and depths in front of every cell's data
}

// bytesFor returns the minimal number of bytes to hold v, at least 1.
func bytesFor(v uint64) int {
	n := 1
	for v >= 256 {
		v >>= 8
		n++
	}
	return n
}

func putN(dst []byte, v uint64, n int) []byte {
	var b [8]byte
	binary.BigEndian.PutUint64(b[:], v)
	return append(dst, b[8-n:]...)
}

// topoOrder lists the distinct cells (by representation hash) reachable from roots so that every cell
// comes before all cells it references. The seed permutes among valid orders.
func topoOrder(roots []*RCell, seed uint64) []*RCell {
	// collect distinct cells
	byKey := map[string]*RCell{}
	var all []*RCell
	Walk(roots, func(c *RCell) {
		k := c.Key()
		if _, ok := byKey[k]; !ok {
			byKey[k] = c
			all = append(all, c)
		}
	})
	// Kahn's algorithm on the de-duplicated graph, choosing among ready cells with the seed
	indeg := map[string]int{}
	for _, c := range all {
		seen := map[string]bool{}
		for _, r := range c.Refs {
			k := r.Key()
			if !seen[k] {
				seen[k] = true
				indeg[k]++
			}
		}
	}
	var ready []*RCell
	for _, c := range all {
		if indeg[c.Key()] == 0 {
			ready = append(ready, c)
		}
	}
	s := seed
	next := func(n int) int {
		if seed == 0 {
			return 0
		}
		s += 0x9e3779b97f4a7c15
		z := s
		z = (z ^ (z >> 30)) * 0xbf58476d1ce4e5b9
		z = (z ^ (z >> 27)) * 0x94d049bb133111eb
		z ^= z >> 31
		return int(z % uint64(n))
	}
	var order []*RCell
	for len(ready) > 0 {
		i := next(len(ready))
		c := ready[i]
		ready = append(ready[:i], ready[i+1:]...)
		order = append(order, c)
		seen := map[string]bool{}
		for _, r := range c.Refs {
			k := r.Key()
			if seen[k] {
				continue
			}
			seen[k] = true
			indeg[k]--
			if indeg[k] == 0 {
				ready = append(ready, byKey[k])
			}
		}
	}
	return order
}

// CellRepr is the standard serialisation of one cell inside a BOC (descriptors, optional hashes, data,
// ref indices of refSize bytes).
func cellRepr(c *RCell, idx map[string]int, refSize int, withHashes bool) []byte {
	d1 := byte(len(c.Refs)) + 32*c.Mask()
	if c.Special {
		d1 += 8
	}
	if withHashes {
		d1 += 16
	}
	out := []byte{d1, c.d2()}
	if withHashes {
		var levels []int
		for l := 0; l <= 3; l++ {
			if l == 0 || c.Mask()>>uint(l-1)&1 == 1 {
				levels = append(levels, l)
			}
		}
		if c.Type() == TypePruned {
			levels = levels[len(levels)-1:]
			// a pruned branch has exactly one own hash, but the format stores hashes_count entries
			// for every significant level; real writers never store hashes for pruned cells. Keep it
			// simple: store every significant level using the cell's effective values.
			levels = nil
			for l := 0; l <= 3; l++ {
				if l == 0 || c.Mask()>>uint(l-1)&1 == 1 {
					levels = append(levels, l)
				}
			}
		}
		for _, l := range levels {
			out = append(out, c.Hash(l)...)
		}
		for _, l := range levels {
			out = putN(out, uint64(c.Depth(l)), 2)
		}
	}
	out = append(out, c.padded()...)
	for _, r := range c.Refs {
		out = putN(out, uint64(idx[r.Key()]), refSize)
	}
	return out
}

// SerializeBOC writes roots as a bag of cells in the requested variant.
func SerializeBOC(roots []*RCell, v BocVariant) []byte {
	order := topoOrder(roots, v.OrderSeed)
	idx := map[string]int{}
	for i, c := range order {
		idx[c.Key()] = i
	}
	refSize := bytesFor(uint64(len(order))) + v.ExtraSize
	if refSize > 4 {
		refSize = 4
	}
	var body []byte
	ends := make([]uint64, len(order))
	for i, c := range order {
		body = append(body, cellRepr(c, idx, refSize, v.WithHashes)...)
		ends[i] = uint64(len(body))
	}
	offSize := bytesFor(uint64(len(body))*2+1) + v.ExtraOff
	if !v.CacheBits || v.Magic != 0 {
		offSize = bytesFor(uint64(len(body))) + v.ExtraOff
	}
	if offSize > 8 {
		offSize = 8
	}
	var out []byte
	hasIdx, hasCRC := v.Index, v.CRC
	switch v.Magic {
	case 0:
		out = append(out, 0xb5, 0xee, 0x9c, 0x72)
		f := byte(refSize)
		if v.Index {
			f |= 128
		}
		if v.CRC {
			f |= 64
		}
		if v.CacheBits {
			f |= 32
		}
		out = append(out, f)
	case 1:
		out = append(out, 0x68, 0xff, 0x65, 0xf3, byte(refSize))
		hasIdx, hasCRC = true, false
	case 2:
		out = append(out, 0xac, 0xc3, 0xa7, 0x28, byte(refSize))
		hasIdx, hasCRC = true, true
	}
	out = append(out, byte(offSize))
	out = putN(out, uint64(len(order)), refSize)
	out = putN(out, uint64(len(roots)), refSize)
	out = putN(out, 0, refSize)
	out = putN(out, uint64(len(body)), offSize)
	for _, r := range roots {
		out = putN(out, uint64(idx[r.Key()]), refSize)
	}
	if hasIdx {
		for _, e := range ends {
			if v.Magic == 0 && v.CacheBits {
				e = e*2 + 0
			}
			out = putN(out, e, offSize)
		}
	}
	out = append(out, body...)
	if hasCRC {
		var c [4]byte
		binary.LittleEndian.PutUint32(c[:], crc32.Checksum(out, crc32.MakeTable(crc32.Castagnoli)))
		out = append(out, c[:]...)
	}
	return out
}
