package ref

import (
	"encoding/binary"
	"hash/crc32"
)

// BocVariant selects one of the header/body variants a conforming BOC writer may produce.
type BocVariant struct {
	Magic      int  // 0 generic b5ee9c72, 1 legacy 68ff65f3 (index, no crc), 2 legacy acc3a728 (index, crc)
	Index      bool // generic only
	CRC        bool // generic only
	CacheBits  bool // generic only, with Index: offsets are stored as 2*off+flag
	ExtraSize  int  // widen the ref index size by this many bytes (total clamped to 4)
	ExtraOff   int  // widen the offset size by this many bytes (total clamped to 8)
	OrderSeed  uint64
	WithHashes bool // store hashes and depths in front of every cell's data
}

// bytesFor returns the minimal number of bytes to hold v, at least 1.
func bytesFor(v uint64) int {
	n := 1
	for v >= 256 {
		v >>= 8
		n++
	}
	return n
}

func putN(dst []byte, v uint64, n int) []byte {
	var b [8]byte
	binary.BigEndian.PutUint64(b[:], v)
	return append(dst, b[8-n:]...)
}

// topoOrder lists the distinct cells (by representation hash) reachable from roots so that every cell
// comes before all cells it references. The seed permutes among valid orders.
func topoOrder(roots []*RCell, seed uint64) []*RCell {
	// collect distinct cells
	byKey := map[string]*RCell{}
	var all []*RCell
	Walk(roots, func(c *RCell) {
		k := c.Key()
		if _, ok := byKey[k]; !ok {
			byKey[k] = c
			all = append(all, c)
		}
	})
	// Kahn's algorithm on the de-duplicated graph, choosing among ready cells with the seed
	indeg := map[string]int{}
	for _, c := range all {
		seen := map[string]bool{}
		for _, r := range c.Refs {
			k := r.Key()
			if !seen[k] {
				seen[k] = true
				indeg[k]++
			}
		}
	}
	var ready []*RCell
	for _, c := range all {
		if indeg[c.Key()] == 0 {
			ready = append(ready, c)
		}
	}
	s := seed
	next := func(n int) int {
		if seed == 0 {
			return 0
		}
		s += 0x9e3779b97f4a7c15
		z := s
		z = (z ^ (z >> 30)) * 0xbf58476d1ce4e5b9
		z = (z ^ (z >> 27)) * 0x94d049bb133111eb
		z ^= z >> 31
		return int(z % uint64(n))
	}
	var order []*RCell
	for len(ready) > 0 {
		i := next(len(ready))
		c := ready[i]
		ready = append(ready[:i], ready[i+1:]...)
		order = append(order, c)
		seen := map[string]bool{}
		for _, r := range c.Refs {
			k := r.Key()
			if seen[k] {
				continue
			}
			seen[k] = true
			indeg[k]--
			if indeg[k] == 0 {
				ready = append(ready, byKey[k])
			}
		}
	}
	return order
}

// RawCell is one serialised cell, field by field, so that a test can lie in any single field.
type RawCell struct {
	D1, D2 byte
	Hashes []byte   // stored hashes and depths (present iff the writer sets the with-hashes bit)
	Data   []byte   // padded data bytes
	Refs   []uint64 // indices, written with the header's ref size
}

// RawBoc is a bag of cells field by field. Bytes() writes exactly what the fields say.
type RawBoc struct {
	Magic    []byte
	SizeByte byte // generic magic: flags|size ; legacy magics: size
	OffBytes byte
	Cells    uint64
	Roots    uint64
	Absent   uint64
	TotSize  uint64
	RootList []uint64
	HasIndex bool
	Index    []uint64
	CellList []RawCell
	HasCRC   bool
	CRCXor   uint32 // xored into the correct checksum (0 = correct)
	Trailing []byte
}

func (r *RawBoc) size() int {
	if len(r.Magic) == 4 && r.Magic[0] == 0xb5 {
		return int(r.SizeByte & 7)
	}
	return int(r.SizeByte)
}

func putWide(dst []byte, v uint64, n int) []byte {
	for n > 8 {
		dst = append(dst, 0)
		n--
	}
	return putN(dst, v, n)
}

func (c *RawCell) bytes(size int) []byte {
	out := []byte{c.D1, c.D2}
	out = append(out, c.Hashes...)
	out = append(out, c.Data...)
	for _, r := range c.Refs {
		out = putWide(out, r, size)
	}
	return out
}

// Body returns the concatenated cell data.
func (r *RawBoc) Body() []byte {
	var body []byte
	for i := range r.CellList {
		body = append(body, r.CellList[i].bytes(r.size())...)
	}
	return body
}

// Resize brings the total size, the offset width and the index in line with the cells as they are now.
func (r *RawBoc) Resize() {
	cache := len(r.Magic) == 4 && r.Magic[0] == 0xb5 && r.SizeByte&32 != 0
	tot := uint64(0)
	r.Index = r.Index[:0]
	for i := range r.CellList {
		tot += uint64(len(r.CellList[i].bytes(r.size())))
		if cache {
			r.Index = append(r.Index, tot*2)
		} else {
			r.Index = append(r.Index, tot)
		}
	}
	r.TotSize = tot
	need := bytesFor(tot)
	if cache {
		need = bytesFor(tot*2 + 1)
	}
	if int(r.OffBytes) < need {
		r.OffBytes = byte(need)
	}
}

func (r *RawBoc) Bytes() []byte {
	size, off := r.size(), int(r.OffBytes)
	out := append([]byte{}, r.Magic...)
	out = append(out, r.SizeByte, r.OffBytes)
	out = putWide(out, r.Cells, size)
	out = putWide(out, r.Roots, size)
	out = putWide(out, r.Absent, size)
	out = putWide(out, r.TotSize, off)
	for _, x := range r.RootList {
		out = putWide(out, x, size)
	}
	if r.HasIndex {
		for _, x := range r.Index {
			out = putWide(out, x, off)
		}
	}
	out = append(out, r.Body()...)
	if r.HasCRC {
		var c [4]byte
		binary.LittleEndian.PutUint32(c[:], crc32.Checksum(out, crc32.MakeTable(crc32.Castagnoli))^r.CRCXor)
		out = append(out, c[:]...)
	}
	return append(out, r.Trailing...)
}

func rawCell(c *RCell, idx map[string]int, withHashes bool) RawCell {
	d1 := byte(len(c.Refs)) + 32*c.Mask()
	if c.Special {
		d1 += 8
	}
	rc := RawCell{D2: c.d2(), Data: c.padded()}
	if withHashes {
		d1 += 16
		var levels []int
		for l := 0; l <= 3; l++ {
			if l == 0 || c.Mask()>>uint(l-1)&1 == 1 {
				levels = append(levels, l)
			}
		}
		for _, l := range levels {
			rc.Hashes = append(rc.Hashes, c.Hash(l)...)
		}
		for _, l := range levels {
			rc.Hashes = putN(rc.Hashes, uint64(c.Depth(l)), 2)
		}
	}
	rc.D1 = d1
	for _, r := range c.Refs {
		rc.Refs = append(rc.Refs, uint64(idx[r.Key()]))
	}
	return rc
}

// RawFromDag lays roots out as a truthful RawBoc in the requested variant.
func RawFromDag(roots []*RCell, v BocVariant) *RawBoc {
	order := topoOrder(roots, v.OrderSeed)
	idx := map[string]int{}
	for i, c := range order {
		idx[c.Key()] = i
	}
	refSize := bytesFor(uint64(len(order))) + v.ExtraSize
	if refSize > 4 {
		refSize = 4
	}
	r := &RawBoc{Cells: uint64(len(order)), Roots: uint64(len(roots))}
	var ends []uint64
	tot := uint64(0)
	for _, c := range order {
		rc := rawCell(c, idx, v.WithHashes)
		r.CellList = append(r.CellList, rc)
		tot += uint64(len(rc.bytes(refSize)))
		ends = append(ends, tot)
	}
	r.TotSize = tot
	cache := v.Magic == 0 && v.CacheBits
	offSize := bytesFor(tot) + v.ExtraOff
	if cache {
		offSize = bytesFor(tot*2+1) + v.ExtraOff
	}
	if offSize > 8 {
		offSize = 8
	}
	r.OffBytes = byte(offSize)
	switch v.Magic {
	case 0:
		r.Magic = []byte{0xb5, 0xee, 0x9c, 0x72}
		f := byte(refSize)
		if v.Index {
			f |= 128
		}
		if v.CRC {
			f |= 64
		}
		if v.CacheBits {
			f |= 32
		}
		r.SizeByte = f
		r.HasIndex, r.HasCRC = v.Index, v.CRC
	case 1:
		r.Magic = []byte{0x68, 0xff, 0x65, 0xf3}
		r.SizeByte = byte(refSize)
		r.HasIndex = true
	case 2:
		r.Magic = []byte{0xac, 0xc3, 0xa7, 0x28}
		r.SizeByte = byte(refSize)
		r.HasIndex, r.HasCRC = true, true
	}
	// block.tlb: only serialized_boc#b5ee9c72 has a root_list; serialized_boc_idx#68ff65f3 and
	// serialized_boc_idx_crc32c#acc3a728 have { roots = 1 }, no list, and the root is cell 0 (the
	// reference C++ reader sets has_roots for the generic magic only and refuses root_count != 1 otherwise)
	if v.Magic == 0 {
		for _, x := range roots {
			r.RootList = append(r.RootList, uint64(idx[x.Key()]))
		}
	} else if len(roots) != 1 || idx[roots[0].Key()] != 0 {
		panic("ref: the legacy containers hold exactly one root, stored first")
	}
	if r.HasIndex {
		for _, e := range ends {
			if cache {
				e = e * 2
			}
			r.Index = append(r.Index, e)
		}
	}
	return r
}

// SerializeBOC writes roots as a bag of cells in the requested variant.
func SerializeBOC(roots []*RCell, v BocVariant) []byte { return RawFromDag(roots, v).Bytes() }
