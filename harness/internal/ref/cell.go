package ref

// Independent reference: BOC parser + TON cell hashing. No tongo imports in this file.

import (
	"crypto/sha256"
	"encoding/binary"
	"errors"
	"fmt"
	"hash/crc32"
	"math/bits"
)

type RCell struct {
	Data    []byte // full bytes, unused low bits of last byte zero
	BitLen  int
	Refs    []*RCell
	Special bool
	// DeclMask is the level mask written in the descriptor byte when the cell was parsed from a BOC
	// (the reference model derives the mask from the structure and never trusts this value).
	DeclMask uint8
	Parsed   bool

	wf, wfDone bool
	maskDone   bool
	mask       uint8
	hashes     [4][]byte
	depths     [4]int
	done       [4]bool
}

func (c *RCell) Type() int {
	if !c.Special {
		return 0
	}
	if c.BitLen < 8 {
		return -1
	}
	return int(c.Data[0])
}

// kind is Type() for well-formed cells and -1 for ill-formed special cells; the hasher treats the latter
// like ordinary data (their hash is never compared with the implementation, it only has to exist so that
// ill-formed trees can be serialised and keyed).
func (c *RCell) kind() int {
	if !c.Special {
		return 0
	}
	if !c.wfDone {
		c.wf, c.wfDone = c.WellFormed() == nil, true
	}
	if !c.wf {
		return -1
	}
	return int(c.Data[0])
}

// Mask derives the level mask from structure.
func (c *RCell) Mask() uint8 {
	if c.maskDone {
		return c.mask
	}
	var m uint8
	switch c.kind() {
	case 0:
		for _, r := range c.Refs {
			m |= r.Mask()
		}
	case 1:
		m = c.Data[1]
	case 2:
		m = 0
	case 3, 4:
		for _, r := range c.Refs {
			m |= r.Mask()
		}
		m >>= 1
	}
	c.mask, c.maskDone = m, true
	return m
}

func (c *RCell) Level() int { return bits.Len8(c.Mask()) }

func applyMask(m uint8, level int) uint8 { return m & uint8((1<<uint(level))-1) }

func (c *RCell) d1(level int) byte {
	sp := 0
	if c.Special {
		sp = 8
	}
	return byte(len(c.Refs) + sp + 32*int(applyMask(c.Mask(), level)))
}

func (c *RCell) d2() byte { return byte(c.BitLen/8 + (c.BitLen+7)/8) }

func (c *RCell) padded() []byte {
	out := make([]byte, (c.BitLen+7)/8)
	copy(out, c.Data)
	if c.BitLen%8 != 0 {
		out[len(out)-1] |= 1 << uint(7-c.BitLen%8)
	}
	return out
}

// effective level: the highest significant level <= l
func (c *RCell) eff(l int) int {
	m := c.Mask()
	for l > 0 && (m>>(uint(l)-1))&1 == 0 {
		l--
	}
	return l
}

func (c *RCell) compute(l int) {
	l = c.eff(l)
	if c.done[l] {
		return
	}
	m := c.Mask()
	if c.kind() == 1 && l < c.Level() {
		// stored value: index = number of significant levels below or at l (popcount of applied mask)
		idx := bits.OnesCount8(applyMask(m, l))
		n := bits.OnesCount8(m)
		c.hashes[l] = c.Data[2+32*idx : 2+32*idx+32]
		c.depths[l] = int(binary.BigEndian.Uint16(c.Data[2+32*n+2*idx:]))
		c.done[l] = true
		return
	}
	h := sha256.New()
	h.Write([]byte{c.d1(l), c.d2()})
	if l == 0 || c.kind() == 1 {
		h.Write(c.padded())
	} else {
		// previous significant level
		pl := c.eff(l - 1)
		c.compute(pl)
		h.Write(c.hashes[pl])
	}
	cl := l
	if t := c.kind(); t == 3 || t == 4 {
		cl = l + 1
	}
	depth := 0
	for _, r := range c.Refs {
		d := r.Depth(cl)
		var b [2]byte
		binary.BigEndian.PutUint16(b[:], uint16(d))
		h.Write(b[:])
		if d+1 > depth {
			depth = d + 1
		}
	}
	for _, r := range c.Refs {
		h.Write(r.Hash(cl))
	}
	c.hashes[l] = h.Sum(nil)
	c.depths[l] = depth
	c.done[l] = true
}

func (c *RCell) Hash(l int) []byte {
	if l > 3 {
		l = 3
	}
	l = c.eff(l)
	c.compute(l)
	return c.hashes[l]
}

func (c *RCell) Depth(l int) int {
	if l > 3 {
		l = 3
	}
	l = c.eff(l)
	c.compute(l)
	return c.depths[l]
}

func (c *RCell) ReprHash() []byte { return c.Hash(3) }

func rdN(b []byte, n int) uint64 {
	var v uint64
	for i := 0; i < n; i++ {
		v = v<<8 | uint64(b[i])
	}
	return v
}

// ParseBOC is an independent parser for the generic and legacy BOC containers.
func ParseBOC(b []byte) ([]*RCell, error) {
	info, err := ParseBOCInfo(b)
	if err != nil {
		return nil, err
	}
	return info.Roots, nil
}

// BocInfo is what the reference parser learnt about a bag of cells.
type BocInfo struct {
	Magic                    uint32
	HasIdx, HasCRC, HasCache bool
	Size, Off                int
	Cells                    []*RCell // in serialisation order
	Roots                    []*RCell
	RootIdx                  []int
	// IndexErr is non-empty when an index entry is not the end offset of its cell. Kept as a remark,
	// not a parse error: bags written by some JavaScript libraries carry start offsets there and every
	// parser that ignores the index reads them fine. Checks of tongo's own output require it to be empty.
	IndexErr string
}

// ParseBOCInfo parses and validates a bag of cells: header, CRC32C, index entries (each must be the end
// offset of its cell, in the cache-bit form when that flag is set), forward-only references, no
// trailing bytes.
func ParseBOCInfo(b []byte) (*BocInfo, error) {
	if len(b) < 6 {
		return nil, errors.New("short")
	}
	magic := binary.BigEndian.Uint32(b)
	var hasIdx, hasCRC, hasCache bool
	var size int
	switch magic {
	case 0xb5ee9c72:
		f := b[4]
		hasIdx, hasCRC, hasCache = f&128 != 0, f&64 != 0, f&32 != 0
		size = int(f & 7)
	case 0x68ff65f3:
		hasIdx, size = true, int(b[4])
	case 0xacc3a728:
		hasIdx, hasCRC, size = true, true, int(b[4])
	default:
		return nil, errors.New("magic")
	}
	if size < 1 || size > 4 {
		return nil, errors.New("size")
	}
	off := int(b[5])
	if off < 1 || off > 8 {
		return nil, errors.New("off")
	}
	p := 6
	need := func(n int) error {
		if p+n > len(b) {
			return errors.New("truncated")
		}
		return nil
	}
	if err := need(3*size + off); err != nil {
		return nil, err
	}
	cells := int(rdN(b[p:], size))
	p += size
	roots := int(rdN(b[p:], size))
	p += size
	absent := int(rdN(b[p:], size))
	p += size
	tot := int(rdN(b[p:], off))
	p += off
	if tot < 0 || tot > len(b) || cells < 0 || cells > len(b) || roots < 0 || roots > len(b) {
		return nil, errors.New("counts exceed the input")
	}
	if absent != 0 || roots < 1 || cells < 1 { // the reference C++ writer emits duplicate roots, so roots may exceed cells
		return nil, errors.New("counts")
	}
	rootIdx := make([]int, roots)
	if magic == 0xb5ee9c72 {
		if err := need(roots * size); err != nil {
			return nil, err
		}
		for i := range rootIdx {
			rootIdx[i] = int(rdN(b[p:], size))
			p += size
		}
	} else if roots != 1 {
		// serialized_boc_idx / serialized_boc_idx_crc32c: { roots = 1 }, no root_list, the root is cell 0
		return nil, errors.New("legacy container with several roots")
	}
	var index []uint64
	if hasIdx {
		if err := need(cells * off); err != nil {
			return nil, err
		}
		for i := 0; i < cells; i++ {
			index = append(index, rdN(b[p+i*off:], off))
		}
		p += cells * off
	}
	if err := need(tot); err != nil {
		return nil, err
	}
	data := b[p : p+tot]
	p += tot
	if hasCRC {
		if err := need(4); err != nil {
			return nil, err
		}
		if crc32.Checksum(b[:p], crc32.MakeTable(crc32.Castagnoli)) != binary.LittleEndian.Uint32(b[p:]) {
			return nil, errors.New("crc")
		}
		p += 4
	}
	if p != len(b) {
		return nil, errors.New("trailing")
	}
	list := make([]*RCell, cells)
	indexErr := ""
	refIdx := make([][]int, cells)
	q := 0
	for i := 0; i < cells; i++ {
		if q+2 > len(data) {
			return nil, errors.New("cell hdr")
		}
		d1, d2 := data[q], data[q+1]
		q += 2
		nrefs := int(d1 & 7)
		special := d1&8 != 0
		withHashes := d1&16 != 0
		lm := d1 >> 5
		if nrefs > 4 {
			return nil, errors.New("refs>4")
		}
		if withHashes {
			n := bits.OnesCount8(lm) + 1
			q += n * 34
		}
		nbytes := int(d2>>1) + int(d2&1)
		if q+nbytes+nrefs*size > len(data) {
			return nil, errors.New("cell data")
		}
		c := &RCell{Special: special, DeclMask: lm, Parsed: true}
		c.Data = append([]byte{}, data[q:q+nbytes]...)
		c.BitLen = nbytes * 8
		if d2&1 != 0 {
			last := c.Data[nbytes-1]
			if last == 0 {
				return nil, errors.New("no tag")
			}
			tz := bits.TrailingZeros8(last)
			c.BitLen = nbytes*8 - tz - 1
			c.Data[nbytes-1] = last &^ (1 << uint(tz))
		}
		q += nbytes
		for j := 0; j < nrefs; j++ {
			refIdx[i] = append(refIdx[i], int(rdN(data[q:], size)))
			q += size
		}
		list[i] = c
		if hasIdx {
			e := index[i]
			if hasCache {
				e >>= 1
			}
			if e != uint64(q) && indexErr == "" {
				indexErr = fmt.Sprintf("index entry %d says %d, cell ends at %d", i, e, q)
			}
		}
	}
	if q != len(data) {
		return nil, fmt.Errorf("cell data residue %d", len(data)-q)
	}
	for i := cells - 1; i >= 0; i-- {
		for _, r := range refIdx[i] {
			if r <= i || r >= cells {
				return nil, errors.New("bad ref")
			}
			list[i].Refs = append(list[i].Refs, list[r])
		}
	}
	out := make([]*RCell, roots)
	for i, r := range rootIdx {
		if r >= cells {
			return nil, errors.New("bad root")
		}
		out[i] = list[r]
	}
	return &BocInfo{Magic: magic, HasIdx: hasIdx, HasCRC: hasCRC, HasCache: hasCache, Size: size, Off: off, Cells: list, Roots: out, RootIdx: rootIdx, IndexErr: indexErr}, nil
}

// ---------------------------------------------------------------------------------------------
// construction helpers

const (
	TypeOrdinary     = 0
	TypePruned       = 1
	TypeLibrary      = 2
	TypeMerkleProof  = 3
	TypeMerkleUpdate = 4
)

// NewRCell builds an ordinary or special cell from an ideal bit list.
func NewRCell(b Bits, special bool, refs ...*RCell) *RCell {
	return &RCell{Data: b.Packed(), BitLen: len(b), Refs: refs, Special: special}
}

func (c *RCell) Bits() Bits { return BitsFromBytes(c.Data, c.BitLen) }

// Key is the representation hash as a string, convenient as a map key.
func (c *RCell) Key() string { return string(c.ReprHash()) }

// PrunedFor returns a pruned-branch cell standing in for c with the given level mask (which must be a
// strict superset of c's mask bits it covers: for every set bit i of mask below the top one the stored
// value is c's hash/depth at level i; the cell's own top level is the highest bit of mask).
func PrunedFor(c *RCell, mask uint8) *RCell {
	var b Bits
	b = b.AppendUint(1, 8).AppendUint(uint64(mask), 8)
	var levels []int
	for l := 0; l < 3; l++ {
		if mask>>uint(l)&1 == 1 {
			levels = append(levels, l)
		}
	}
	for _, l := range levels {
		b = b.AppendBytes(c.Hash(l))
	}
	for _, l := range levels {
		b = b.AppendUint(uint64(c.Depth(l)), 16)
	}
	return NewRCell(b, true)
}

// MerkleProofOf wraps child into a Merkle proof cell.
func MerkleProofOf(child *RCell) *RCell {
	var b Bits
	b = b.AppendUint(3, 8).AppendBytes(child.Hash(0)).AppendUint(uint64(child.Depth(0)), 16)
	return NewRCell(b, true, child)
}

// MerkleUpdateOf wraps two children into a Merkle update cell.
func MerkleUpdateOf(from, to *RCell) *RCell {
	var b Bits
	b = b.AppendUint(4, 8).AppendBytes(from.Hash(0)).AppendBytes(to.Hash(0)).
		AppendUint(uint64(from.Depth(0)), 16).AppendUint(uint64(to.Depth(0)), 16)
	return NewRCell(b, true, from, to)
}

// WellFormed checks the exotic-cell rules a validating node applies (data layout and sizes).
func (c *RCell) WellFormed() error {
	if c.BitLen > 1023 || len(c.Refs) > 4 {
		return errors.New("cell too big")
	}
	if !c.Special {
		return nil
	}
	if c.BitLen < 8 {
		return errors.New("special cell without type byte")
	}
	switch c.Data[0] {
	case 1:
		if len(c.Refs) != 0 || c.BitLen < 16 {
			return errors.New("bad pruned branch")
		}
		m := c.Data[1]
		if m == 0 || m > 7 {
			return errors.New("bad pruned mask")
		}
		if c.BitLen != 16+bits.OnesCount8(m)*(256+16) {
			return errors.New("bad pruned size")
		}
	case 2:
		if c.BitLen != 8+256 || len(c.Refs) != 0 {
			return errors.New("bad library cell")
		}
	case 3:
		if c.BitLen != 8+256+16 || len(c.Refs) != 1 {
			return errors.New("bad merkle proof")
		}
	case 4:
		if c.BitLen != 8+2*(256+16) || len(c.Refs) != 2 {
			return errors.New("bad merkle update")
		}
	default:
		return errors.New("unknown special type")
	}
	return nil
}

// Walk visits every distinct cell (by pointer) once, parents before children; iterative.
func Walk(roots []*RCell, f func(*RCell)) {
	seen := map[*RCell]bool{}
	stack := append([]*RCell{}, roots...)
	for len(stack) > 0 {
		c := stack[len(stack)-1]
		stack = stack[:len(stack)-1]
		if seen[c] {
			continue
		}
		seen[c] = true
		f(c)
		for i := len(c.Refs) - 1; i >= 0; i-- {
			stack = append(stack, c.Refs[i])
		}
	}
}
