// Package core is the property-testing runtime shared by every check of the harness.
//
// A check is a function of a *Ctx. Every random choice the check makes goes through the Ctx, which
// (a) forwards it to rapid when the check runs under rapid.Check (so rapid shrinks it), or to a
// recorded tape when the check is replayed, enumerated or fuzzed, and (b) records the value drawn.
// The recorded tape IS the case: a replay file is {check, tape, blobs} and is executed by feeding the
// tape back, without rapid.
package core

import (
	"encoding/binary"
	"encoding/hex"
	"encoding/json"
	"flag"
	"fmt"
	"hash/fnv"
	"os"
	"path/filepath"
	"runtime"
	"runtime/debug"
	"sort"
	"strconv"
	"strings"
	"sync"
	"sync/atomic"
	"testing"
	"time"

	"pgregory.net/rapid"
)

// ---------------------------------------------------------------------------------------------
// sources of choices

type source interface {
	draw(label string, n uint64, uniform bool) uint64 // value in [0,n) ; n==0 -> any uint64
	blob(label string, maxLen int) []byte
}

type rapidSrc struct{ t *rapid.T }

var (
	idxMu    sync.Mutex
	idxCache = map[int][]int{}
)

func indices(n int) []int {
	idxMu.Lock()
	defer idxMu.Unlock()
	s, ok := idxCache[n]
	if !ok {
		s = make([]int, n)
		for i := range s {
			s[i] = i
		}
		idxCache[n] = s
	}
	return s
}

func (r rapidSrc) draw(label string, n uint64, uniform bool) uint64 {
	if n == 1 {
		return 0
	}
	if n == 0 {
		return rapid.Uint64().Draw(r.t, label)
	}
	if uniform && n <= 1<<16 {
		return uint64(rapid.SampledFrom(indices(int(n))).Draw(r.t, label))
	}
	return rapid.Uint64Range(0, n-1).Draw(r.t, label)
}

func (r rapidSrc) blob(label string, maxLen int) []byte {
	return rapid.SliceOfN(rapid.Byte(), 0, maxLen).Draw(r.t, label)
}

type tapeSrc struct {
	tape  []uint64
	blobs [][]byte
	i, j  int
}

func (s *tapeSrc) draw(label string, n uint64, uniform bool) uint64 {
	var v uint64
	if s.i < len(s.tape) {
		v = s.tape[s.i]
	}
	s.i++
	if n != 0 && v >= n {
		v %= n
	}
	return v
}

func (s *tapeSrc) blob(label string, maxLen int) []byte {
	var b []byte
	if s.j < len(s.blobs) {
		b = s.blobs[s.j]
	}
	s.j++
	if len(b) > maxLen {
		b = b[:maxLen]
	}
	return b
}

// ---------------------------------------------------------------------------------------------
// Ctx

type note struct {
	K string `json:"k"`
	V any    `json:"v"`
}

type Ctx struct {
	ck      *Check
	src     source
	tape    []uint64
	blobs   [][]byte
	notes   []note
	classes []string
	ntKey   uint64
	nt      bool
	known   []string
	rt      *rapid.T
}

// Intn draws a value in [0,n) with rapid's small/boundary-biased integer distribution.
func (c *Ctx) Intn(label string, n int) int {
	if n <= 0 {
		panic("core: Intn n<=0")
	}
	v := c.src.draw(label, uint64(n), false)
	c.tape = append(c.tape, v)
	return int(v)
}

// Choose draws an index in [0,n) uniformly (rapid.SampledFrom).
func (c *Ctx) Choose(label string, n int) int {
	if n <= 0 {
		panic("core: Choose n<=0")
	}
	v := c.src.draw(label, uint64(n), true)
	c.tape = append(c.tape, v)
	return int(v)
}

// Range draws an int in [lo,hi] (biased).
func (c *Ctx) Range(label string, lo, hi int) int { return lo + c.Intn(label, hi-lo+1) }

// URange draws uniformly from [lo,hi].
func (c *Ctx) URange(label string, lo, hi int) int { return lo + c.Choose(label, hi-lo+1) }

func (c *Ctx) Bool(label string) bool { return c.Intn(label, 2) == 1 }

// U64 draws any uint64 (biased toward small values and boundaries, as rapid does).
func (c *Ctx) U64(label string) uint64 {
	v := c.src.draw(label, 0, false)
	c.tape = append(c.tape, v)
	return v
}

// Weighted draws an index according to integer weights.
func (c *Ctx) Weighted(label string, weights ...int) int {
	tot := 0
	for _, w := range weights {
		tot += w
	}
	r := c.Choose(label, tot)
	for i, w := range weights {
		if r < w {
			return i
		}
		r -= w
	}
	return len(weights) - 1
}

// OneOf returns one of the given ints uniformly.
func (c *Ctx) OneOf(label string, vals ...int) int { return vals[c.Choose(label, len(vals))] }

// Blob draws an arbitrary byte string (rapid slice of bytes / fuzz input / recorded blob).
func (c *Ctx) Blob(label string, maxLen int) []byte {
	b := c.src.blob(label, maxLen)
	c.blobs = append(c.blobs, b)
	return b
}

// splitmix64: deterministic expansion of a drawn value into content bytes. Pure function of the tape.
type SplitMix struct{ s uint64 }

func NewSplitMix(seed uint64) *SplitMix { return &SplitMix{seed} }
func (m *SplitMix) Next() uint64 {
	m.s += 0x9e3779b97f4a7c15
	z := m.s
	z = (z ^ (z >> 30)) * 0xbf58476d1ce4e5b9
	z = (z ^ (z >> 27)) * 0x94d049bb133111eb
	return z ^ (z >> 31)
}
func (m *SplitMix) Intn(n int) int { return int(m.Next() % uint64(n)) }
func (m *SplitMix) Fill(b []byte) {
	for i := 0; i < len(b); i += 8 {
		var t [8]byte
		binary.LittleEndian.PutUint64(t[:], m.Next())
		copy(b[i:], t[:])
	}
}

// Content returns n bytes of content: all zero, all one, a repeated byte, or pseudo-random bytes
// expanded from one drawn word. Shrinks toward all-zero.
func (c *Ctx) Content(label string, n int) []byte {
	b := make([]byte, n)
	if n == 0 {
		return b
	}
	switch c.Weighted(label+".kind", 1, 1, 1, 9) {
	case 0:
	case 1:
		for i := range b {
			b[i] = 0xff
		}
	case 2:
		v := byte(c.Intn(label+".byte", 256))
		for i := range b {
			b[i] = v
		}
	default:
		NewSplitMix(c.U64(label + ".seed")).Fill(b)
	}
	return b
}

// Bits returns n pseudo-random bits as []bool.
func (c *Ctx) Bits(label string, n int) []bool {
	raw := c.Content(label, (n+7)/8)
	out := make([]bool, n)
	for i := range out {
		out[i] = raw[i/8]>>(7-uint(i%8))&1 == 1
	}
	return out
}

// Note attaches a human-readable description element to the case (kept in samples and replay files).
func (c *Ctx) Note(k string, v any) {
	if len(c.notes) < 64 {
		c.notes = append(c.notes, note{k, v})
	}
}

// Class counts the case under a histogram class.
func (c *Ctx) Class(name string) { c.classes = append(c.classes, name) }

// NonTrivial marks the case as non-trivial by the property's stated rule; key identifies the case for
// the distinct count (its fmt rendering is hashed).
func (c *Ctx) NonTrivial(key ...any) {
	h := fnv.New64a()
	fmt.Fprint(h, c.ck.Name, "|")
	for _, k := range key {
		switch v := k.(type) {
		case []byte:
			h.Write(v)
		case string:
			h.Write([]byte(v))
		default:
			fmt.Fprintf(h, "%v", v)
		}
		h.Write([]byte{0})
	}
	c.ntKey = h.Sum64()
	c.nt = true
}

// Known reports whether id is listed in known_findings.json as an unrepaired finding. A check calls it
// only after it has established that the current case fails in exactly the listed way; a true result
// means "count it and go on", false means the failure is reported as a violation.
func (c *Ctx) Known(id string) bool {
	if knownFindings()[id] {
		c.known = append(c.known, id)
		return true
	}
	return false
}

// Checkpoint persists the choices drawn so far, so that a fatal crash (stack overflow, OOM kill) of the
// code under test can still be turned into a replay file by the driver.
func (c *Ctx) Checkpoint() {
	if journalPath == "" {
		return
	}
	data, _ := json.Marshal(c.replayDoc("process died while executing this case (journal)"))
	tmp := journalPath + ".tmp"
	if os.WriteFile(tmp, data, 0o644) == nil {
		os.Rename(tmp, journalPath)
	}
}

func (c *Ctx) Logf(format string, args ...any) {
	if c.rt != nil {
		c.rt.Logf(format, args...)
	}
}

type replayDoc struct {
	Property string   `json:"property"`
	Check    string   `json:"check"`
	Tape     []uint64 `json:"tape"`
	Blobs    []string `json:"blobs,omitempty"`
	Notes    []note   `json:"notes,omitempty"`
	Error    string   `json:"error,omitempty"`
}

func (c *Ctx) replayDoc(errText string) replayDoc {
	d := replayDoc{Property: property, Check: c.ck.Name, Tape: append([]uint64{}, c.tape...), Notes: c.notes, Error: errText}
	for _, b := range c.blobs {
		d.Blobs = append(d.Blobs, hex.EncodeToString(b))
	}
	return d
}

// ---------------------------------------------------------------------------------------------
// checks and the per-process registry

type Check struct {
	Name     string
	Quick    int           // rapid cases on the quick tier (whole run, divided among shards)
	Thorough int           // rapid cases on the thorough tier
	Hang     time.Duration // watchdog per case; 0 = none
	Fn       func(c *Ctx) error
}

var (
	property    string
	tier               = "quick"
	seed        uint64 = 1
	shard, nshd        = 0, 1
	statsPath   string
	journalPath string
	replayDir   string
	knownPath   string
	registry    = map[string]*Check{}
	current     atomic.Pointer[Ctx]
)

func Tier() string      { return tier }
func Thorough() bool    { return tier == "thorough" }
func Seed() uint64      { return seed }
func Shard() (int, int) { return shard, nshd }

// Scale picks a size by tier.
func Scale(quick, thorough int) int {
	if tier == "thorough" {
		return thorough
	}
	return quick
}

func Register(cks ...*Check) {
	for _, ck := range cks {
		registry[ck.Name] = ck
	}
}

var (
	knownOnce sync.Once
	knownSet  map[string]bool
)

func knownFindings() map[string]bool {
	knownOnce.Do(func() {
		knownSet = map[string]bool{}
		data, err := os.ReadFile(knownPath)
		if err != nil {
			return
		}
		var doc struct {
			Findings []struct {
				ID     string `json:"id"`
				Status string `json:"status"`
			} `json:"findings"`
		}
		if json.Unmarshal(data, &doc) == nil {
			for _, f := range doc.Findings {
				if f.Status == "finding" {
					knownSet[f.ID] = true
				}
			}
		}
	})
	return knownSet
}

// Main is called from TestMain of every property package.
func Main(m *testing.M, prop string) {
	property = prop
	if v := os.Getenv("VERIF_TIER"); v == "thorough" {
		tier = v
	}
	if v, err := strconv.ParseUint(os.Getenv("VERIF_SEED"), 10, 64); err == nil && v != 0 {
		seed = v
	}
	if v := os.Getenv("VERIF_SHARD"); v != "" {
		fmt.Sscanf(v, "%d/%d", &shard, &nshd)
		if nshd < 1 {
			nshd = 1
		}
	}
	statsPath = os.Getenv("VERIF_STATS")
	journalPath = os.Getenv("VERIF_JOURNAL")
	if n, err := strconv.Atoi(os.Getenv("VERIF_DEFAULT_HANG")); err == nil && n > 0 {
		defaultHang = time.Duration(n) * time.Second
	}
	replayDir = os.Getenv("VERIF_REPLAY_DIR")
	knownPath = os.Getenv("VERIF_KNOWN")
	if knownPath == "" {
		knownPath = "/verif/known_findings.json"
	}
	flag.Parse()
	code := m.Run()
	flushStats()
	os.Exit(code)
}

// ---------------------------------------------------------------------------------------------
// statistics

type checkStats struct {
	Evaluations int64            `json:"evaluations"`
	NonTrivial  int64            `json:"nontrivial"`
	Classes     map[string]int64 `json:"classes"`
	Known       map[string]int64 `json:"known"`
	Samples     []any            `json:"samples"`
	Exhaustive  []string         `json:"exhaustive,omitempty"`
	Extra       map[string]any   `json:"extra,omitempty"`
	hashes      map[uint64]struct{}
}

var (
	statsMu sync.Mutex
	stats   = map[string]*checkStats{}
)

func statsFor(name string) *checkStats {
	s := stats[name]
	if s == nil {
		s = &checkStats{Classes: map[string]int64{}, Known: map[string]int64{}, hashes: map[uint64]struct{}{}, Extra: map[string]any{}}
		stats[name] = s
	}
	return s
}

// Extra records an informational measurement (e.g. number of real cells checked) in the evidence.
func Extra(check, key string, v any) {
	statsMu.Lock()
	defer statsMu.Unlock()
	statsFor(check).Extra[key] = v
}

// MarkExhaustive records that a finite sub-domain was enumerated completely.
func MarkExhaustive(check, what string) {
	statsMu.Lock()
	defer statsMu.Unlock()
	s := statsFor(check)
	s.Exhaustive = append(s.Exhaustive, what)
}

func (c *Ctx) account() {
	statsMu.Lock()
	defer statsMu.Unlock()
	s := statsFor(c.ck.Name)
	s.Evaluations++
	for _, cl := range c.classes {
		s.Classes[cl]++
	}
	for _, k := range c.known {
		s.Known[k]++
	}
	if c.nt {
		s.NonTrivial++
		if _, dup := s.hashes[c.ntKey]; !dup {
			s.hashes[c.ntKey] = struct{}{}
			n := len(s.hashes)
			// keep the first three and then a thinning sample of distinct non-trivial cases
			if len(s.Samples) < 8 && (n <= 3 || n == 10 || n == 50 || n == 200 || n == 1000 || n == 5000) {
				s.Samples = append(s.Samples, map[string]any{"check": c.ck.Name, "case": c.notes, "tape_len": len(c.tape)})
			}
		}
	}
}

func flushStats() {
	if statsPath == "" {
		return
	}
	statsMu.Lock()
	defer statsMu.Unlock()
	type out struct {
		Property string                 `json:"property"`
		Tier     string                 `json:"tier"`
		Seed     uint64                 `json:"seed"`
		Shard    string                 `json:"shard"`
		Checks   map[string]*checkStats `json:"checks"`
	}
	o := out{property, tier, seed, fmt.Sprintf("%d/%d", shard, nshd), stats}
	data, _ := json.Marshal(o)
	os.WriteFile(statsPath, data, 0o644)
	// distinct hashes as a flat binary file: 8 bytes check-name hash is already mixed into the key
	var keys []uint64
	for _, s := range stats {
		for h := range s.hashes {
			keys = append(keys, h)
		}
	}
	sort.Slice(keys, func(i, j int) bool { return keys[i] < keys[j] })
	buf := make([]byte, 8*len(keys))
	for i, k := range keys {
		binary.LittleEndian.PutUint64(buf[8*i:], k)
	}
	os.WriteFile(statsPath+".hashes", buf, 0o644)
}

// ---------------------------------------------------------------------------------------------
// execution

type PanicError struct {
	Val   any
	Stack string
}

func (p *PanicError) Error() string { return fmt.Sprintf("panic: %v\n%s", p.Val, p.Stack) }

func isRapidInternal(r any) bool {
	tn := fmt.Sprintf("%T", r)
	return tn == "rapid.invalidData" || tn == "rapid.stopTest"
}

// Protect runs f and converts a panic of the code under test into an error.
func Protect(f func() error) (err error) {
	defer func() {
		if r := recover(); r != nil {
			if isRapidInternal(r) {
				panic(r)
			}
			err = &PanicError{r, trimStack(string(debug.Stack()))}
		}
	}()
	return f()
}

func trimStack(s string) string {
	lines := strings.Split(s, "\n")
	if len(lines) > 40 {
		lines = lines[:40]
	}
	return strings.Join(lines, "\n")
}

// defaultHang is the per-case watchdog of checks that do not set one (0 = none).
var defaultHang time.Duration

func (c *Ctx) exec() (err error) {
	current.Store(c)
	var timer *time.Timer
	hang := c.ck.Hang
	if hang == 0 {
		hang = defaultHang // set by the driver for properties whose cases are pure computation
	}
	if hang > 0 {
		timer = time.AfterFunc(hang, func() { c.ck.Hang = hang; hangExit(c) })
	}
	defer func() {
		if timer != nil {
			timer.Stop()
		}
		current.Store(nil)
	}()
	err = Protect(func() error { return c.ck.Fn(c) })
	c.account()
	return err
}

func hangExit(c *Ctx) {
	buf := make([]byte, 1<<20)
	n := runtime.Stack(buf, true)
	// NOTE: c.tape is read racily here; the process is about to exit and the case is stuck.
	doc := c.replayDoc(fmt.Sprintf("case did not finish within %v (hang watchdog)\n%s", c.ck.Hang, buf[:n]))
	writeReplayDoc(doc)
	flushStats()
	fmt.Printf("VERIF-HANG check=%s\n", c.ck.Name)
	os.Exit(97)
}

func writeReplayDoc(doc replayDoc) string {
	if replayDir == "" {
		return ""
	}
	os.MkdirAll(replayDir, 0o755)
	name := fmt.Sprintf("%s-%s-s%d-%d.json", property, strings.ReplaceAll(doc.Check, "/", "_"), seed, shard)
	p := filepath.Join(replayDir, name)
	data, _ := json.MarshalIndent(doc, "", " ")
	os.WriteFile(p, data, 0o644)
	return p
}

func (c *Ctx) fail(err error) string {
	msg := err.Error()
	if len(msg) > 6000 {
		msg = msg[:6000] + "…"
	}
	return writeReplayDoc(c.replayDoc(msg))
}

func (ck *Check) count() int {
	n := ck.Quick
	if tier == "thorough" {
		n = ck.Thorough
	}
	if v := os.Getenv("VERIF_COUNT_SCALE"); v != "" { // set by the driver (thorough_scale)
		if f, err := strconv.ParseFloat(v, 64); err == nil {
			n = int(float64(n) * f)
		}
	}
	per := n / nshd
	// the remainder goes to consecutive shards starting at one derived from the check's name, so that
	// several checks with a budget of one case do not all land on shard 0
	first := int(hashName(ck.Name) % uint64(nshd))
	if (shard-first+nshd)%nshd < n%nshd {
		per++
	}
	return per
}

// Run executes the check under rapid with the tier's case budget. The shrunk failing case is written as
// a replay file (last writer is rapid's final re-run of the minimal case).
func Run(t *testing.T, ck *Check) {
	t.Helper()
	Register(ck)
	n := ck.count()
	if n <= 0 {
		return
	}
	flag.Set("rapid.checks", strconv.Itoa(n))
	flag.Set("rapid.seed", strconv.FormatUint(seed*1000+uint64(shard)+hashName(ck.Name)%997*1000000, 10))
	flag.Set("rapid.nofailfile", "true")
	if flag.Lookup("rapid.shrinktime") != nil && os.Getenv("VERIF_SHRINKTIME") != "" {
		flag.Set("rapid.shrinktime", os.Getenv("VERIF_SHRINKTIME"))
	}
	rapid.Check(t, func(rt *rapid.T) {
		c := &Ctx{ck: ck, src: rapidSrc{rt}, rt: rt}
		if err := c.exec(); err != nil {
			p := c.fail(err)
			rt.Fatalf("check %s failed (replay %s): %v", ck.Name, p, err)
		}
	})
}

func hashName(s string) uint64 {
	h := fnv.New64a()
	h.Write([]byte(s))
	return h.Sum64()
}

// RunTape executes the check once on an explicit tape (enumerations, regression inputs).
func RunTape(ck *Check, tape []uint64, blobs ...[]byte) error {
	c := &Ctx{ck: ck, src: &tapeSrc{tape: tape, blobs: blobs}}
	if err := c.exec(); err != nil {
		c.fail(err)
		return err
	}
	return nil
}

// RunEnum runs the check over an enumerated family of tapes; the first failure stops the enumeration.
// It returns the number of cases executed.
func RunEnum(t *testing.T, ck *Check, what string, each func(yield func(tape ...uint64) bool)) int {
	t.Helper()
	Register(ck)
	n := 0
	complete := true
	each(func(tape ...uint64) bool {
		if n%nshd != shard {
			n++
			return true
		}
		n++
		if err := RunTape(ck, tape); err != nil {
			shown := tape
			if len(shown) > 12 {
				shown = shown[:12]
			}
			t.Errorf("check %s failed on enumerated case %v…: %v", ck.Name, shown, err)
			complete = false
			return false
		}
		return true
	})
	if complete && what != "" {
		MarkExhaustive(ck.Name, fmt.Sprintf("%s (%d cases over all shards)", what, n))
	}
	if t.Failed() {
		t.FailNow()
	}
	return n
}

// RunBlobs runs the check on explicit byte inputs (corpus files, enumerated mutations).
func RunBlob(ck *Check, tape []uint64, blob []byte) error { return RunTape(ck, tape, blob) }

// Replay executes the replay file named by VERIF_REPLAY (or all files of VERIF_REGRESS_DIR) against the
// registered checks. No rapid involved.
func Replay(t *testing.T, cks ...*Check) {
	Register(cks...)
	var files []string
	if p := os.Getenv("VERIF_REPLAY"); p != "" {
		files = append(files, p)
	}
	if d := os.Getenv("VERIF_REGRESS_DIR"); d != "" {
		m, _ := filepath.Glob(filepath.Join(d, "*.json"))
		sort.Strings(m)
		files = append(files, m...)
	}
	for _, f := range files {
		data, err := os.ReadFile(f)
		if err != nil {
			t.Fatalf("replay: %v", err)
		}
		var doc replayDoc
		if err := json.Unmarshal(data, &doc); err != nil {
			t.Fatalf("replay %s: %v", f, err)
		}
		ck := registry[doc.Check]
		if ck == nil {
			t.Fatalf("replay %s: unknown check %q", f, doc.Check)
		}
		var blobs [][]byte
		for _, h := range doc.Blobs {
			b, _ := hex.DecodeString(h)
			blobs = append(blobs, b)
		}
		c := &Ctx{ck: ck, src: &tapeSrc{tape: doc.Tape, blobs: blobs}}
		if err := c.exec(); err != nil {
			t.Errorf("REPLAY-FAIL file=%s check=%s: %v", f, doc.Check, err)
		}
	}
}

// Fuzz wires a check that draws exactly one Blob into Go's native fuzzer. Extra tape words are zero.
func Fuzz(f *testing.F, ck *Check, seeds ...[]byte) {
	Register(ck)
	for _, s := range seeds {
		f.Add(s)
	}
	f.Fuzz(func(t *testing.T, data []byte) {
		c := &Ctx{ck: ck, src: &tapeSrc{blobs: [][]byte{data}}}
		if err := c.exec(); err != nil {
			p := c.fail(err)
			t.Fatalf("check %s failed (replay %s): %v", ck.Name, p, err)
		}
	})
}

// AllocDelta measures the bytes allocated by f (process-wide TotalAlloc delta; callers run one case at a
// time).
func AllocDelta(f func()) uint64 {
	var a, b runtime.MemStats
	runtime.ReadMemStats(&a)
	f()
	runtime.ReadMemStats(&b)
	return b.TotalAlloc - a.TotalAlloc
}

func Errf(format string, args ...any) error { return fmt.Errorf(format, args...) }
