package core

import (
	"fmt"
	"runtime"
	"runtime/debug"
	"sync"
)

// Parallel runs fn(w, r) for r = 0..rounds-1 on each of `workers` goroutines at the same time under the given
// GOMAXPROCS (0 = unchanged) and returns the first error by worker number. A panic inside fn is reported as an
// error of that goroutine. fn must only touch data that belongs to its worker.
func Parallel(workers, rounds, procs int, fn func(w, r int) error) error {
	if procs > 0 {
		prev := runtime.GOMAXPROCS(procs)
		defer runtime.GOMAXPROCS(prev)
	}
	errs := make([]error, workers)
	var wg sync.WaitGroup
	start := make(chan struct{})
	for w := 0; w < workers; w++ {
		wg.Add(1)
		go func(w int) {
			defer wg.Done()
			defer func() {
				if p := recover(); p != nil {
					errs[w] = fmt.Errorf("goroutine %d of %d: panic: %v\n%s", w, workers, p, debug.Stack())
				}
			}()
			<-start
			for r := 0; r < rounds; r++ {
				if err := fn(w, r); err != nil {
					errs[w] = fmt.Errorf("goroutine %d of %d, round %d: %w", w, workers, r, err)
					return
				}
			}
		}(w)
	}
	close(start)
	wg.Wait()
	for _, e := range errs {
		if e != nil {
			return e
		}
	}
	return nil
}
