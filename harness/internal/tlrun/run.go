// Package tlrun is the value-level oracle of C09's TL half. It runs INSIDE the scratch binary that was
// compiled from tongo's TL generator output: for every type and function of a schema it draws abstract
// values (tlref), maps them by field position into the generated Go types (tlbind) and compares
// MarshalTL / tl.Unmarshal / the generated client methods / the generated request-decoder table with the
// reference bytes; the reference bytes also arrive through readers that cut them into pieces, and proper
// prefixes of them must be refused (readers.go). The package is compiled and vetted as part of the harness and copied verbatim (import
// paths rewritten) into the scratch module.
package tlrun

import (
	"bytes"
	"context"
	"encoding/binary"
	"encoding/hex"
	"fmt"
	"hash/fnv"
	"reflect"
	"sort"

	"github.com/tonkeeper/tongo/tl"

	"verifharness/internal/tlbind"
	"verifharness/internal/tlref"
)

// Func describes one generated function binding.
type Func struct {
	Req  any                                                     // zero value of the <Function>Request struct
	Call func(ctx context.Context, req any) (res any, err error) // calls the generated client method
}

// Entry is what the per-schema package registers.
type Entry struct {
	Name         string
	Schema       string
	Types        map[string]any // constructor name (types with one constructor) or type name (unions) -> zero value
	Funcs        map[string]Func
	SetTransport func(func(q []byte) ([]byte, error)) // replaces the client's liteServerRequest
	Decode       func(b []byte) (uint32, *string, any, error)
}

type Result struct {
	Name       string         `json:"name"`
	Targets    int            `json:"targets"`
	Values     int            `json:"values"`
	NonTrivial int            `json:"nontrivial"`
	Distinct   int            `json:"distinct"`
	Calls      int            `json:"calls"`
	Pieces     int            `json:"pieces"`    // decodings of reference bytes through a reader that cuts them into pieces
	Prefixes   int            `json:"prefixes"`  // proper prefixes of reference bytes handed to a generated decoder
	Truncated  int            `json:"truncated"` // truncated answers handed to generated client methods, truncated requests to the decoder table
	Classes    map[string]int `json:"classes"`
	Failures   []string       `json:"failures"`
	NFailures  int            `json:"nfailures"`
}

type runner struct {
	e        Entry
	s        *tlref.Schema
	res      *Result
	seen     map[uint64]struct{}
	errorCon *tlref.Combinator
}

func (r *runner) fail(size int, format string, args ...any) {
	r.res.NFailures++
	msg := fmt.Sprintf(format, args...)
	if len(msg) > 1500 {
		msg = msg[:1500] + "…"
	}
	// keep the three failures with the smallest inputs (poor man's shrinking)
	r.res.Failures = append(r.res.Failures, fmt.Sprintf("%08d|%s", size, msg))
	sort.Strings(r.res.Failures)
	if len(r.res.Failures) > 3 {
		r.res.Failures = r.res.Failures[:3]
	}
}

func diffAt(a, b []byte) string {
	n := len(a)
	if len(b) < n {
		n = len(b)
	}
	i := 0
	for i < n && a[i] == b[i] {
		i++
	}
	cut := func(x []byte) string {
		lo, hi := i-8, i+16
		if lo < 0 {
			lo = 0
		}
		if hi > len(x) {
			hi = len(x)
		}
		if lo > hi {
			lo = hi
		}
		return hex.EncodeToString(x[lo:hi])
	}
	return fmt.Sprintf("lengths %d / %d, first difference at offset %d: …%s… / …%s…", len(a), len(b), i, cut(a), cut(b))
}

type target struct {
	name   string
	te     tlref.TypeExpr
	con    *tlref.Combinator // nil for unions
	boxed  bool
	goType reflect.Type
	fn     *Func
}

func (r *runner) encode(t *target, v *tlref.Value) ([]byte, error) {
	if t.boxed {
		return r.s.EncodeBoxed(nil, v)
	}
	return r.s.EncodeBare(nil, v)
}

func (r *runner) draw(t *target, rnd tlref.Rand) *tlref.Value {
	return r.drawWith(t, rnd, &tlref.GenOpts{MaxBytes: 600, Budget: 3000, MaxVec: 3})
}

func (r *runner) drawWith(t *target, rnd tlref.Rand, o *tlref.GenOpts) *tlref.Value {
	if t.con != nil {
		return r.s.DrawObject(rnd, t.con, o)
	}
	return r.s.Draw(rnd, t.te, o)
}

// How the empty byte strings and vectors of a value are represented in the Go value handed to the
// generated code. Go has two representations of an empty slice, nil (the zero value of the field: a
// struct literal that does not mention the field, `var x []T`, append to nothing) and non-nil with length
// 0 (make, what UnmarshalTL leaves behind). Both are the empty TL value: 4 zero bytes for bytes, count 0
// for a vector, present on the wire whenever the schema says the field is present.
const (
	slicesMade  = iota // every empty slice is non-nil (as tlbind builds them)
	slicesNil          // every empty slice is nil
	slicesMixed        // drawn per slice
)

// emptyForms is the number of all-empty values checked per target (one per slice form).
const emptyForms = 3

var sliceFormNames = [...]string{"non-nil", "nil", "nil or non-nil, drawn per slice"}

// setSliceForm rewrites the empty slices inside the Go value x (settable) according to form. It follows
// struct fields, non-nil pointers and the elements of non-empty slices. It returns how many empty slices
// became nil and how many stayed non-nil.
func setSliceForm(x reflect.Value, form int, rnd tlref.Rand) (nils, made int) {
	switch x.Kind() {
	case reflect.Struct:
		for i := 0; i < x.NumField(); i++ {
			a, b := setSliceForm(x.Field(i), form, rnd)
			nils, made = nils+a, made+b
		}
	case reflect.Pointer:
		if !x.IsNil() {
			return setSliceForm(x.Elem(), form, rnd)
		}
	case reflect.Slice:
		if x.Len() == 0 {
			if form == slicesNil || form == slicesMixed && rnd.Intn("slice.nil", 2) == 0 {
				x.Set(reflect.Zero(x.Type()))
				return 1, 0
			}
			if x.IsNil() { // a field tlbind left untouched (absent conditional field)
				x.Set(reflect.MakeSlice(x.Type(), 0, 0))
			}
			return 0, 1
		}
		if x.Type().Elem().Kind() == reflect.Uint8 {
			return 0, 0
		}
		for i := 0; i < x.Len(); i++ {
			a, b := setSliceForm(x.Index(i), form, rnd)
			nils, made = nils+a, made+b
		}
	}
	return nils, made
}

// emptyPresentCond counts, at any depth of v, the conditional bytes / vector fields that are present
// (flag bit set) and empty.
func emptyPresentCond(v *tlref.Value) int {
	if v == nil {
		return 0
	}
	n := 0
	switch v.Kind {
	case tlref.KVector:
		for _, e := range v.Elems {
			n += emptyPresentCond(e)
		}
	case tlref.KObject:
		for i, f := range v.Con.Fields {
			fv := v.Fields[i]
			if fv == nil {
				continue
			}
			if f.Cond != "" && (f.Type.Kind == tlref.KBytes && len(fv.Bytes) == 0 || f.Type.Kind == tlref.KVector && len(fv.Elems) == 0) {
				n++
			}
			n += emptyPresentCond(fv)
		}
	}
	return n
}

// codec checks MarshalTL and tl.Unmarshal of one value. It returns the reference bytes.
func (r *runner) codec(t *target, v *tlref.Value, stale func(tlref.Field) *tlref.Value, form int, formRnd, cutRnd tlref.Rand, withPrefixes bool) (want []byte, gv reflect.Value, ok bool) {
	want, err := r.encode(t, v)
	if err != nil {
		r.fail(0, "harness error: reference encoder on %s: %v", t.name, err)
		return nil, gv, false
	}
	gv = reflect.New(t.goType).Elem()
	if err := tlbind.ToGo(r.s, t.te, v, gv, &tlbind.Options{Absent: stale}); err != nil {
		r.fail(len(want), "harness error: populating %v: %v", t.goType, err)
		return nil, gv, false
	}
	nils, _ := setSliceForm(gv, form, formRnd)
	goForm := ""
	if nils > 0 {
		goForm = fmt.Sprintf("\nGo value: %d of its empty byte strings / vectors are nil slices (%s)", nils, sliceFormNames[form])
	}
	if m, isM := gv.Interface().(tl.MarshalerTL); isM {
		got, err := m.MarshalTL()
		if err != nil {
			r.fail(len(want), "%s: MarshalTL of %s: %v%s", t.name, v, err, goForm)
			return want, gv, false
		}
		if !bytes.Equal(got, want) {
			r.fail(len(want), "%s: MarshalTL differs from the layout the schema defines (generated code / reference): %s\nvalue %s%s", t.name, diffAt(got, want), v, goForm)
			return want, gv, false
		}
	} else if len(want) != 0 || t.fn == nil {
		r.fail(len(want), "%s: generated type %v has no MarshalTL", t.name, t.goType)
		return want, gv, false
	}
	for _, tail := range [][]byte{nil, followingBytes} {
		data := append(append([]byte{}, want...), tail...)
		p := reflect.New(t.goType)
		rd := bytes.NewReader(data)
		if err := tl.Unmarshal(rd, p.Interface()); err != nil {
			r.fail(len(want), "%s: tl.Unmarshal of the reference bytes (+%d following bytes): %v\nvalue %s\nbytes %x", t.name, len(tail), err, v, want)
			return want, gv, false
		}
		if rd.Len() != len(tail) {
			r.fail(len(want), "%s: tl.Unmarshal consumed %d bytes, the value has %d\nvalue %s", t.name, len(data)-rd.Len(), len(want), v)
			return want, gv, false
		}
		back, err := tlbind.FromGo(r.s, t.te, p.Elem())
		if err != nil || !tlref.Equal(back, v) {
			r.fail(len(want), "%s: tl.Unmarshal of the reference bytes gives\n  %s (%v)\nwant\n  %s", t.name, back, err, v)
			return want, gv, false
		}
	}
	// the same bytes through readers that cut them into pieces, and proper prefixes of them (readers.go)
	if !r.pieces(t, v, want, cutRnd) || withPrefixes && !r.prefixes(t, v, want, cutRnd) {
		return want, gv, false
	}
	return want, gv, true
}

// call drives the generated client method of function target t with request value v.
func (r *runner) call(t *target, v *tlref.Value, want []byte, gv reflect.Value, rnd, cutRnd tlref.Rand, results map[string]*target) {
	f := t.con
	req := binary.LittleEndian.AppendUint32(nil, f.ID)
	req = append(req, want...)
	// request decoder table
	tag, name, val, err := r.e.Decode(req)
	switch {
	case err != nil:
		r.fail(len(req), "%s: request decoder: %v", f.Name, err)
	case tag != f.ID || name == nil || *name != f.Name:
		n := "<nil>"
		if name != nil {
			n = *name
		}
		r.fail(len(req), "%s: request decoder names %q (tag %08x) for request %x", f.Name, n, tag, req)
	case val == nil || reflect.TypeOf(val) != t.goType:
		r.fail(len(req), "%s: request decoder returns a %T, want %v", f.Name, val, t.goType)
	default:
		back, err := tlbind.FromGo(r.s, t.te, reflect.ValueOf(val))
		if err != nil || !tlref.Equal(back, v) {
			r.fail(len(req), "%s: request decoder yields %s (%v), want %s", f.Name, back, err, v)
		}
	}
	// a request whose arguments are cut short is not a request of this function
	for _, c := range answerCuts(4, len(req), cutRnd) {
		r.res.Truncated++
		_, name, val, err := r.truncatedRequest(req[:c])
		if err == nil && name != nil && *name == f.Name {
			r.fail(c, "%s: the request decoder accepts the first %d of the %d bytes of a request as a request of this function with the arguments %v\nprefix %x\nthe whole request %x\narguments %s", f.Name, c, len(req), val, req[:c], req, v)
			break
		}
	}
	// the method, answered with a value of the result type / with liteServer.error / with an unknown id
	rt := results[f.Result]
	if rt == nil {
		r.fail(0, "harness error: no target for result type %s", f.Result)
		return
	}
	mode := rnd.Intn("answer", 8)
	var answer []byte
	var answerVal *tlref.Value
	switch {
	case mode == 0 && r.errorCon != nil:
		answerVal = r.s.DrawObject(rnd, r.errorCon, &tlref.GenOpts{MaxBytes: 300})
		answer, _ = r.s.EncodeBoxed(nil, answerVal)
	case mode == 1:
		answer = []byte{0xde, 0xc0, 0xad, 0x0b, 0, 0, 0, 0}
	default:
		answerVal = r.draw(rt, rnd)
		answer, _ = r.s.EncodeBoxed(nil, answerVal)
	}
	var sent []byte
	calls := 0
	r.e.SetTransport(func(q []byte) ([]byte, error) {
		calls++
		sent = append([]byte{}, q...)
		return answer, nil
	})
	r.res.Calls++
	res, err := t.fn.Call(context.Background(), gv.Interface())
	if calls != 1 {
		r.fail(len(req), "%s: the generated method sent %d requests", f.Name, calls)
		return
	}
	if !bytes.Equal(sent, req) {
		r.fail(len(req), "%s: the generated method sends (method / reference = function id + arguments): %s\nvalue %s", f.Name, diffAt(sent, req), v)
		return
	}
	switch {
	case mode == 0 && r.errorCon != nil:
		r.res.Classes["method answered with liteServer.error"]++
		if err == nil {
			r.fail(len(answer), "%s: the generated method returns no error for the answer liteServer.error %s", f.Name, answerVal)
			return
		}
		et := r.e.Types[r.errorCon.Name]
		if reflect.TypeOf(err) != reflect.TypeOf(et) {
			r.fail(len(answer), "%s: the generated method returns error %T (%v) for the answer liteServer.error", f.Name, err, err)
			return
		}
		back, e2 := tlbind.ObjectFromGo(r.s, r.errorCon, reflect.ValueOf(err))
		if e2 != nil || !tlref.Equal(back, answerVal) {
			r.fail(len(answer), "%s: the generated method returns error %s, the answer was %s", f.Name, back, answerVal)
			return
		}
		r.truncatedAnswers(t, gv, answer, answerVal, &answer, &calls, cutRnd)
	case mode == 1:
		r.res.Classes["method answered with an unknown constructor id"]++
		if err == nil {
			r.fail(len(answer), "%s: the generated method accepts an answer with unknown constructor id 0badc0de", f.Name)
		}
	default:
		r.res.Classes["method answered with a value"]++
		if err != nil {
			r.fail(len(answer), "%s: the generated method rejects the answer %s: %v\nbytes %x", f.Name, answerVal, err, answer)
			return
		}
		if res == nil || reflect.TypeOf(res) != rt.goType {
			r.fail(len(answer), "%s: the generated method returns a %T, want %v", f.Name, res, rt.goType)
			return
		}
		back, e2 := tlbind.FromGo(r.s, rt.te, reflect.ValueOf(res))
		if e2 != nil || !tlref.Equal(back, answerVal) {
			r.fail(len(answer), "%s: the generated method returns %s (%v), the answer was %s", f.Name, back, e2, answerVal)
			return
		}
		r.truncatedAnswers(t, gv, answer, answerVal, &answer, &calls, cutRnd)
	}
}

// truncatedRequest hands a request that was cut short to the generated decoder table.
func (r *runner) truncatedRequest(b []byte) (tag uint32, name *string, val any, err error) {
	defer func() {
		if x := recover(); x != nil {
			err = fmt.Errorf("panic: %v", x)
		}
	}()
	return r.e.Decode(b)
}

// truncatedAnswers calls the generated client method of t again and lets the transport answer with proper
// prefixes of an answer the method has just decoded: every one of them must come back as an error (and
// not as the liteServer.error value that a complete error answer would be).
func (r *runner) truncatedAnswers(t *target, gv reflect.Value, full []byte, fullVal *tlref.Value, answer *[]byte, calls *int, cutRnd tlref.Rand) {
	var errType reflect.Type
	if r.errorCon != nil {
		errType = reflect.TypeOf(r.e.Types[r.errorCon.Name])
	}
	for _, c := range answerCuts(0, len(full), cutRnd) {
		*answer = full[:c:c]
		*calls = 0
		r.res.Truncated++
		problem := func() (problem string) {
			defer func() {
				if x := recover(); x != nil {
					problem = fmt.Sprintf("panics: %v", x)
				}
			}()
			res, err := t.fn.Call(context.Background(), gv.Interface())
			switch {
			case err == nil:
				return fmt.Sprintf("returns no error and the result %+v", res)
			case errType != nil && reflect.TypeOf(err) == errType:
				return fmt.Sprintf("returns it as the complete liteServer.error %+v", err)
			}
			return ""
		}()
		if problem == "" && *calls != 1 {
			problem = fmt.Sprintf("sent %d requests", *calls)
		}
		if problem != "" {
			r.fail(c, "%s: answered with the first %d of the %d bytes of an answer, the generated method %s\nprefix %x\nthe whole answer %x\nis %s", t.name, c, len(full), problem, full[:c], full, fullVal)
			return
		}
	}
}

// RunEntry checks one schema package. perTarget values are drawn for every type and function.
func RunEntry(e Entry, seed uint64, perTarget int) (res Result) {
	res = Result{Name: e.Name, Classes: map[string]int{}}
	r := &runner{e: e, res: &res, seen: map[uint64]struct{}{}}
	defer func() {
		if p := recover(); p != nil {
			r.fail(0, "panic inside the generated code or the runner: %v", p)
		}
		for i, f := range res.Failures { // strip the sort key
			if len(f) > 9 {
				res.Failures[i] = f[9:]
			}
		}
		res.Distinct = len(r.seen)
	}()
	s, err := tlref.ParseSchema(e.Schema)
	if err != nil {
		r.fail(0, "harness error: reference parser rejects the schema: %v", err)
		return
	}
	r.s = s
	r.errorCon = s.Constructor("liteServer.error")
	var targets []*target
	results := map[string]*target{}
	for _, tn := range s.TypeNames() {
		cs := s.ConstructorsOf(tn)
		t := &target{}
		var zero any
		if len(cs) == 1 {
			t.name, t.con, t.te = cs[0].Name, cs[0], tlref.TypeExpr{Kind: tlref.KBare, Name: cs[0].Name}
			zero = e.Types[cs[0].Name]
		} else {
			t.name, t.boxed, t.te = tn, true, tlref.TypeExpr{Kind: tlref.KBoxed, Name: tn}
			zero = e.Types[tn]
		}
		if zero == nil {
			r.fail(0, "harness error: no Go type registered for %s", t.name)
			continue
		}
		t.goType = reflect.TypeOf(zero)
		var serr error
		if t.boxed {
			serr = tlbind.CheckBoxedShape(s, tn, t.goType)
		} else {
			serr = tlbind.CheckObjectShape(s, t.con, t.goType)
		}
		if serr != nil {
			r.fail(0, "%s: the generated type %v does not have the shape of the declaration: %v", t.name, t.goType, serr)
			continue
		}
		targets = append(targets, t)
		results[tn] = t
	}
	for _, f := range s.Funcs {
		fn, ok := e.Funcs[f.Name]
		if !ok {
			r.fail(0, "harness error: function %s not registered", f.Name)
			continue
		}
		t := &target{name: f.Name, con: f, te: tlref.TypeExpr{Kind: tlref.KBare, Name: f.Name}, goType: reflect.TypeOf(fn.Req), fn: &fn}
		if serr := tlbind.CheckObjectShape(s, f, t.goType); serr != nil {
			r.fail(0, "%s: the generated request type %v does not have the shape of the declaration: %v", f.Name, t.goType, serr)
			continue
		}
		targets = append(targets, t)
	}
	res.Targets = len(targets)
	for ti, t := range targets {
		// The last emptyForms values of a target are the all-empty ones: every flag bit used by a
		// conditional field set, every top-level byte string and vector empty, once per slice form.
		for k := 0; k < perTarget+emptyForms; k++ {
			rnd := tlref.NewSeedRand(seed ^ uint64(ti+1)*0x9e3779b97f4a7c15 ^ uint64(k+1)*0xbf58476d1ce4e5b9)
			// the slice forms have their own source, so that the drawn values do not depend on them
			formRnd := tlref.NewSeedRand(seed ^ uint64(ti+1)*0xd6e8feb86659fd93 ^ uint64(k+1)*0xa0761d6478bd642f ^ 0x5ce)
			var v *tlref.Value
			form := slicesMade
			if k < perTarget {
				v = r.draw(t, rnd)
				switch formRnd.Intn("slice.form", 4) {
				case 1, 2:
					form = slicesNil
				case 3:
					form = slicesMixed
				}
			} else {
				v = r.drawWith(t, rnd, &tlref.GenOpts{MaxBytes: 600, Budget: 3000, MaxVec: 3, AllBits: true, ForceLen: true, BytesLen: 0, ForceVec: true, VecLen: 0})
				form = [emptyForms]int{slicesNil, slicesMade, slicesMixed}[k-perTarget]
			}
			var stale func(tlref.Field) *tlref.Value
			if rnd.Intn("stale", 4) == 0 {
				stale = func(f tlref.Field) *tlref.Value {
					return s.Draw(rnd, f.Type, &tlref.GenOpts{MaxBytes: 20, MaxVec: 2})
				}
			}
			// so have the pieces and prefixes the reference bytes are handed over in
			cutRnd := tlref.NewSeedRand(seed ^ uint64(ti+1)*0x8ebc6af09c88c6e3 ^ uint64(k+1)*0x589965cc75374cc3 ^ 0xc075)
			// (prefixes: of every second drawn value and of the all-empty ones)
			want, gv, ok := r.codec(t, v, stale, form, formRnd, cutRnd, k%2 == 0 || k >= perTarget)
			res.Values++
			ft := s.Inspect(v)
			if ft.ModeBits > 0 {
				res.NonTrivial++
				res.Classes["value with a conditional field present"]++
				h := fnv.New64a()
				h.Write([]byte(t.name))
				h.Write(want)
				r.seen[h.Sum64()] = struct{}{}
			}
			if emptyPresentCond(v) > 0 {
				res.Classes["value with a present conditional bytes/vector field that is empty, Go slice "+sliceFormNames[form]]++
			}
			if ft.LongBytes > 0 {
				res.Classes["value with a byte string >= 254"]++
			}
			if ft.Vectors > 0 {
				res.Classes["value with a non-empty vector"]++
			}
			if ft.UnusedBits {
				res.Classes["value with unused flag bits set"]++
			}
			if t.boxed {
				res.Classes["union value"]++
			}
			if ok && t.fn != nil {
				r.call(t, v, want, gv, rnd, cutRnd, results)
			}
		}
	}
	return
}
