package tlrun

// How the reference bytes reach the generated decoders. The generated UnmarshalTL methods (and package tl
// below them) read from an io.Reader. The contract of io.Reader allows a Read to deliver fewer bytes than
// asked for without an error, to deliver its last bytes together with io.EOF, and (discouraged, but allowed)
// to deliver nothing and no error: a socket, a pipe, a chunked body, a bufio.Reader at the end of its buffer
// do so. The byte layout a schema defines does not know about pieces; the decoded value must therefore be
// the same however the reader cuts the bytes, and a proper prefix of an encoding is not an encoding: TL
// values are self-delimiting (every decoder step consumes a number of bytes that is fixed by the bytes
// before it), so a decoder that consumes exactly the N bytes of an encoding has to ask for a byte that is
// not there when it is handed only the first p < N of them, and that must come out as an error: not as a
// value, not as a panic.

import (
	"bytes"
	"fmt"
	"io"
	"reflect"
	"sort"

	"github.com/tonkeeper/tongo/tl"

	"verifharness/internal/tlbind"
	"verifharness/internal/tlref"
)

// pieceReader delivers data in pieces: a Read never crosses one of the cut offsets. At the offsets listed
// in idle one Read returns (0, nil) before the next piece is delivered (never two in a row). With eofLast
// the Read that delivers the last byte of data returns io.EOF together with it.
type pieceReader struct {
	data    []byte
	off     int
	cuts    []int // ascending offsets, 0 < cut < len(data)
	ci      int
	idle    map[int]bool
	eofLast bool
	reads   int
}

func (p *pieceReader) Read(b []byte) (int, error) {
	p.reads++
	if len(b) == 0 {
		return 0, nil
	}
	if p.off >= len(p.data) {
		return 0, io.EOF
	}
	if p.idle[p.off] {
		delete(p.idle, p.off)
		return 0, nil
	}
	for p.ci < len(p.cuts) && p.cuts[p.ci] <= p.off {
		p.ci++
	}
	end := len(p.data)
	if p.ci < len(p.cuts) {
		end = p.cuts[p.ci]
	}
	n := copy(b, p.data[p.off:end])
	p.off += n
	if p.eofLast && p.off == len(p.data) {
		return n, io.EOF
	}
	return n, nil
}

type piecePlan struct {
	how     string
	cuts    []int
	idle    map[int]bool
	eofLast bool
}

func clipInts(x []int, n int) string {
	if len(x) > n {
		return fmt.Sprintf("%v… (%d in all)", x[:n], len(x))
	}
	return fmt.Sprint(x)
}

// piecePlans draws the ways one encoding of n bytes (followed by tail other bytes) is cut.
func piecePlans(n, tail int, rnd tlref.Rand) []piecePlan {
	total := n + tail
	var plans []piecePlan
	// 1. one byte per Read
	all := make([]int, 0, total)
	for i := 1; i < total; i++ {
		all = append(all, i)
	}
	plans = append(plans, piecePlan{how: "one byte per Read", cuts: all, eofLast: tail == 0 && rnd.Intn("pieces.eof", 2) == 0})
	// 2. pieces of 1..5 bytes, now and then a Read that returns nothing
	var cuts, idles []int
	idle := map[int]bool{}
	for off := 0; ; {
		off += 1 + rnd.Intn("pieces.size", 5)
		if off >= total {
			break
		}
		cuts = append(cuts, off)
		if rnd.Intn("pieces.idle", 8) == 0 {
			idle[off] = true
			idles = append(idles, off)
		}
	}
	how := fmt.Sprintf("in pieces that end at the offsets %s", clipInts(cuts, 40))
	if len(idles) > 0 {
		how += fmt.Sprintf(", with one Read that returns (0, nil) at the offsets %s", clipInts(idles, 20))
	}
	eof := tail == 0 && rnd.Intn("pieces.eof", 2) == 0
	plans = append(plans, piecePlan{how: how, cuts: cuts, idle: idle, eofLast: eof})
	// 3. two pieces; the cut favours the first bytes (ids, flag words, length bytes) and the last ones (padding)
	if n > 1 {
		var c int
		switch rnd.Intn("pieces.two", 4) {
		case 0:
			c = 1 + rnd.Intn("pieces.cut", min(n-1, 7))
		case 1:
			c = n - 1 - rnd.Intn("pieces.cut", min(n-1, 7))
		default:
			c = 1 + rnd.Intn("pieces.cut", n-1)
		}
		plans = append(plans, piecePlan{how: fmt.Sprintf("in two pieces, cut at offset %d", c), cuts: []int{c}, eofLast: tail == 0})
	}
	for i := range plans {
		if plans[i].eofLast {
			plans[i].how += ", the last piece delivered together with io.EOF"
		}
	}
	return plans
}

var followingBytes = []byte{0xb5, 0x75, 0x72, 0x99, 1, 2, 3}

// pieces decodes the reference bytes of v through readers that cut them into pieces.
func (r *runner) pieces(t *target, v *tlref.Value, want []byte, rnd tlref.Rand) bool {
	if len(want) == 0 {
		return true
	}
	var tail []byte
	if rnd.Intn("pieces.tail", 2) == 0 {
		tail = followingBytes
	}
	data := append(append([]byte{}, want...), tail...)
	for _, plan := range piecePlans(len(want), len(tail), rnd) {
		pr := &pieceReader{data: data, cuts: plan.cuts, idle: plan.idle, eofLast: plan.eofLast}
		p := reflect.New(t.goType)
		r.res.Pieces++
		if err := tl.Unmarshal(pr, p.Interface()); err != nil {
			r.fail(len(want), "%s: tl.Unmarshal of the reference bytes (+%d following bytes), read %s: %v\n(the same bytes are decoded from a bytes.Reader)\nvalue %s\nbytes %x", t.name, len(tail), plan.how, err, v, want)
			return false
		}
		if pr.off != len(want) {
			r.fail(len(want), "%s: tl.Unmarshal, read %s, consumed %d bytes, the value has %d\nvalue %s", t.name, plan.how, pr.off, len(want), v)
			return false
		}
		back, err := tlbind.FromGo(r.s, t.te, p.Elem())
		if err != nil || !tlref.Equal(back, v) {
			r.fail(len(want), "%s: tl.Unmarshal of the reference bytes, read %s, gives\n  %s (%v)\nwant (and decoded from a bytes.Reader)\n  %s\nbytes %x", t.name, plan.how, back, err, v, want)
			return false
		}
	}
	return true
}

const allPrefixesUpTo = 24

// prefixCuts selects the lengths p < n of the proper prefixes that are tried: all of them for a short
// encoding, otherwise the first and the last ones and some drawn ones.
func prefixCuts(n int, rnd tlref.Rand) []int {
	if n <= allPrefixesUpTo {
		cuts := make([]int, n)
		for i := range cuts {
			cuts[i] = i
		}
		return cuts
	}
	set := map[int]bool{}
	for i := 0; i < 8; i++ {
		set[i] = true
		set[n-1-i] = true
	}
	for i := 0; i < 8; i++ {
		set[rnd.Intn("prefix.cut", n)] = true
	}
	cuts := make([]int, 0, len(set))
	for c := range set {
		cuts = append(cuts, c)
	}
	sort.Ints(cuts)
	return cuts
}

// refused hands data to the decoder of t and reports what came out other than an error.
func (r *runner) refused(t *target, rd io.Reader) (problem string) {
	p := reflect.New(t.goType)
	defer func() {
		if x := recover(); x != nil {
			problem = fmt.Sprintf("panics: %v", x)
		}
	}()
	if err := tl.Unmarshal(rd, p.Interface()); err == nil {
		back, e2 := tlbind.FromGo(r.s, t.te, p.Elem())
		if e2 != nil {
			return fmt.Sprintf("is accepted (no error; the Go value it leaves behind: %v)", e2)
		}
		return fmt.Sprintf("is accepted as the value %s", back)
	}
	return ""
}

// prefixes hands proper prefixes of the reference bytes of v to the decoder: each must be refused.
func (r *runner) prefixes(t *target, v *tlref.Value, want []byte, rnd tlref.Rand) bool {
	cuts := prefixCuts(len(want), rnd)
	for i, c := range cuts {
		r.res.Prefixes++
		if problem := r.refused(t, bytes.NewReader(want[:c])); problem != "" {
			r.fail(c, "%s: tl.Unmarshal of the first %d of the %d bytes of an encoding %s\nprefix %x\nthe whole encoding %x\nof the value %s", t.name, c, len(want), problem, want[:c], want, v)
			return false
		}
		// every third one also one byte per Read
		if i%3 == 0 {
			r.res.Prefixes++
			all := make([]int, 0, c)
			for k := 1; k < c; k++ {
				all = append(all, k)
			}
			if problem := r.refused(t, &pieceReader{data: want[:c], cuts: all}); problem != "" {
				r.fail(c, "%s: tl.Unmarshal of the first %d of the %d bytes of an encoding, read one byte per Read, %s\nprefix %x\nthe whole encoding %x\nof the value %s", t.name, c, len(want), problem, want[:c], want, v)
				return false
			}
		}
	}
	return true
}

// answerCuts selects the lengths of the truncated answers / requests that are tried: lo <= p < n.
func answerCuts(lo, n int, rnd tlref.Rand) []int {
	set := map[int]bool{}
	for _, c := range []int{lo, lo + 1, lo + 3, lo + 4, lo + 5, n - 1, n - 4} {
		if c >= lo && c < n {
			set[c] = true
		}
	}
	if n > lo {
		set[lo+rnd.Intn("answer.cut", n-lo)] = true
	}
	cuts := make([]int, 0, len(set))
	for c := range set {
		cuts = append(cuts, c)
	}
	sort.Ints(cuts)
	return cuts
}
