// C02 — cell hash, depth and level follow the TON representation-hash definition (reference model R2).
package c02

import (
	"bytes"
	"encoding/hex"
	"errors"
	"fmt"
	"math/bits"
	"testing"

	"github.com/tonkeeper/tongo/boc"

	"verifharness/internal/core"
	"verifharness/internal/gen"
	"verifharness/internal/realdata"
	"verifharness/internal/ref"
)

func TestMain(m *testing.M) { core.Main(m, "C02") }

// hashAllWays checks every hashing entry point of tongo on cell t against the reference value.
func hashAllWays(t *boc.Cell, r *ref.RCell, reused *boc.Hasher) error {
	want := r.ReprHash()
	h1, err := t.Hash()
	if err != nil {
		return fmt.Errorf("Hash: %v", err)
	}
	if !bytes.Equal(h1, want) {
		return fmt.Errorf("Hash()=%x want %x (cell %s, %d refs, special=%v, mask %03b)", h1, want, r.Bits().FiftHex(), len(r.Refs), r.Special, r.Mask())
	}
	h2, err := t.Hash256()
	if err != nil || !bytes.Equal(h2[:], want) {
		return fmt.Errorf("Hash256()=%x,%v want %x", h2, err, want)
	}
	hs, err := t.HashString()
	if err != nil || hs != hex.EncodeToString(want) {
		return fmt.Errorf("HashString()=%s,%v want %x", hs, err, want)
	}
	fresh := boc.NewHasher()
	h3, err := fresh.Hash(t)
	if err != nil || !bytes.Equal(h3, want) {
		return fmt.Errorf("fresh Hasher.Hash=%x,%v want %x", h3, err, want)
	}
	for i := 0; i < 2; i++ { // second round hits the cache
		h4, err := reused.Hash(t)
		if err != nil || !bytes.Equal(h4, want) {
			return fmt.Errorf("reused Hasher.Hash (round %d)=%x,%v want %x", i, h4, err, want)
		}
		s4, err := reused.HashString(t)
		if err != nil || s4 != hex.EncodeToString(want) {
			return fmt.Errorf("reused Hasher.HashString (round %d)=%s,%v want %x", i, s4, err, want)
		}
	}
	// a hash a caller was given stays that hash when the same hasher is asked about another cell
	kept, _ := reused.Hash(t)
	keptS, _ := reused.HashString(t)
	if _, err := reused.Hash(probeCell); err != nil {
		return fmt.Errorf("HARNESS: %v", err)
	}
	_, _ = reused.HashString(probeCell)
	if !bytes.Equal(kept, want) || keptS != hex.EncodeToString(want) {
		return fmt.Errorf("the hash handed out by a reused Hasher changed when another cell was hashed: %x / %s, it was %x", kept, keptS, want)
	}
	if t.Level() != r.Level() {
		return fmt.Errorf("Level()=%d want %d (mask %03b)", t.Level(), r.Level(), r.Mask())
	}
	return nil
}

var probeCell = func() *boc.Cell {
	c := boc.NewCell()
	_ = c.WriteUint(0x70726f6265, 40)
	return c
}()

// disturb moves the read cursors of a cell.
func disturb(c *core.Ctx, t *boc.Cell) {
	switch c.Intn("disturb", 5) {
	case 0:
	case 1:
		t.ReadUint(c.Intn("disturb.n", 65))
	case 2:
		t.NextRef()
	case 3:
		t.ReadRemainingBits()
		for {
			if _, err := t.NextRef(); err != nil {
				break
			}
		}
	case 4:
		t.Skip(c.Intn("disturb.skip", 1024))
		t.ReadBit()
	}
}

var dagCheck = &core.Check{Name: "c02/dag", Quick: 2500, Thorough: 200000, Fn: func(c *core.Ctx) error {
	n := 1 + c.Intn("nodes", 14)
	exotic := c.Intn("exotic", 4) != 0
	nodes := gen.Dag(c, gen.DagOpts{MaxNodes: n, Exotic: exotic, Shape: c.Weighted("shape", 6, 1, 1, 1)})
	root := nodes[len(nodes)-1]
	variant := ref.BocVariant{}
	if c.Bool("variant") {
		variant = ref.BocVariant{Index: c.Bool("idx"), CRC: c.Bool("crc"), OrderSeed: c.U64("order")}
	}
	data := ref.SerializeBOC([]*ref.RCell{root}, variant)
	c.Note("boc", hex.EncodeToString(data))
	if c.Intn("refusedFirst", 5) == 0 {
		// a refused operation (over-deep tree, broken checksum) just before must not change these hashes
		gen.RefuseFirst(c.Intn("refusedFirst.extra", 4))
		c.Class("after a refused operation")
	}
	roots, err := boc.DeserializeBoc(data)
	if err != nil {
		return fmt.Errorf("DeserializeBoc of a reference-serialised well-formed bag: %v", err)
	}
	if len(roots) != 1 {
		return fmt.Errorf("%d roots, want 1", len(roots))
	}
	reused := boc.NewHasher()
	ncells, hasExotic, hasOdd, maxLevel := 0, false, false, 0
	check := func(stage string) error {
		return gen.Pairs(roots[0], root, func(t *boc.Cell, r *ref.RCell) error {
			if err := hashAllWays(t, r, reused); err != nil {
				return fmt.Errorf("%s: %v", stage, err)
			}
			return nil
		})
	}
	if err := check("fresh from BOC"); err != nil {
		return err
	}
	gen.Pairs(roots[0], root, func(t *boc.Cell, r *ref.RCell) error {
		ncells++
		hasExotic = hasExotic || r.Special
		hasOdd = hasOdd || r.BitLen%8 != 0
		if r.Level() > maxLevel {
			maxLevel = r.Level()
		}
		disturb(c, t)
		return nil
	})
	reused = boc.NewHasher()
	if err := check("after moving read cursors"); err != nil {
		return err
	}
	// ordinary DAGs: the same structure built in memory hashes identically
	if !exotic || !anySpecial(root) {
		mem, err := gen.ToTongo(root, c.Bool("share"), 4000)
		if err == nil {
			h, err := mem.Hash()
			if err != nil || !bytes.Equal(h, root.ReprHash()) {
				return fmt.Errorf("cell built in memory: Hash()=%x,%v want %x", h, err, root.ReprHash())
			}
			if mem.Level() != 0 {
				return fmt.Errorf("cell built in memory: Level()=%d want 0", mem.Level())
			}
			c.Class("built in memory")
			// cells built in memory can grow: after a descendant got more data the hash of every cell above
			// it is the hash of the tree as it is now (asked directly, through the Hasher used before and
			// through a new one)
			warm := boc.NewHasher()
			if _, err := warm.Hash(mem); err != nil {
				return fmt.Errorf("cell built in memory: Hasher.Hash: %v", err)
			}
			var path []int
			cur, rcur := mem, root
			for len(rcur.Refs) > 0 && len(path) < 6 {
				k := c.Intn("grow.ref", len(rcur.Refs))
				path = append(path, k)
				cur, rcur = cur.Refs()[k], rcur.Refs[k]
			}
			if len(path) > 0 && rcur.BitLen < 1000 {
				extra := c.Bool("grow.bit")
				if err := cur.WriteBit(extra); err == nil {
					// the same change in the reference model: rebuild the cells along the path
					var rebuild func(x *ref.RCell, p []int) *ref.RCell
					rebuild = func(x *ref.RCell, p []int) *ref.RCell {
						if len(p) == 0 {
							return ref.NewRCell(append(x.Bits().Clone(), extra), false, x.Refs...)
						}
						kids := append([]*ref.RCell{}, x.Refs...)
						kids[p[0]] = rebuild(x.Refs[p[0]], p[1:])
						return ref.NewRCell(x.Bits(), false, kids...)
					}
					grown := rebuild(root, path)
					// with shared pointers the grown cell may occur at other places too: image the tree instead
					img, ierr := gen.FromTongo(mem, 100000)
					if ierr == nil {
						grown = img
					}
					want := grown.ReprHash()
					for name, f := range map[string]func() ([]byte, error){
						"Hash()":                 mem.Hash,
						"the Hasher used before": func() ([]byte, error) { return warm.Hash(mem) },
						"a new Hasher":           func() ([]byte, error) { return boc.NewHasher().Hash(mem) },
					} {
						if h, err := f(); err != nil || !bytes.Equal(h, want) {
							if name == "the Hasher used before" {
								// a caching hasher is documented to remember cells by pointer: not judged
								c.Class("warm hasher keeps the old hash of a grown tree (not judged)")
								continue
							}
							return fmt.Errorf("cell built in memory, after one bit was appended to the descendant at path %v: %s = %x,%v want %x", path, name, h, err, want)
						}
					}
					c.Class("descendant grew after the first hash")
				}
			}
		} else if !errors.Is(err, gen.ErrBudget) {
			return err
		}
	}
	c.Note("cells", ncells)
	c.Note("root_hash", hex.EncodeToString(root.ReprHash()))
	if hasExotic {
		c.Class("has exotic cell")
	}
	if maxLevel > 0 {
		c.Class(fmt.Sprintf("max level %d", maxLevel))
	}
	if hasExotic || hasOdd || maxLevel > 0 {
		c.NonTrivial(root.ReprHash())
	}
	return nil
}}

func anySpecial(root *ref.RCell) bool {
	any := false
	ref.Walk([]*ref.RCell{root}, func(x *ref.RCell) { any = any || x.Special })
	return any
}

// tape: bit length, number of children (0..2), content seed
var lengthCheck = &core.Check{Name: "c02/lengths", Fn: func(c *core.Ctx) error {
	n, kids := c.Intn("len", 1024), c.Intn("kids", 3)
	bits := make(ref.Bits, n)
	sm := core.NewSplitMix(c.U64("seed"))
	for i := range bits {
		bits[i] = sm.Next()&1 == 1
	}
	var rk []*ref.RCell
	for i := 0; i < kids; i++ {
		rk = append(rk, ref.NewRCell(bits[:n/(i+2)], false))
	}
	r := ref.NewRCell(bits, false, rk...)
	c.Note("len", n)
	c.Note("kids", kids)
	if n%8 != 0 {
		c.NonTrivial(n, kids)
	}
	t, err := gen.ToTongo(r, true, 10)
	if err != nil {
		return err
	}
	if err := hashAllWays(t, r, boc.NewHasher()); err != nil {
		return fmt.Errorf("in memory, %d bits: %v", n, err)
	}
	roots, err := boc.DeserializeBoc(ref.SerializeBOC([]*ref.RCell{r}, ref.BocVariant{}))
	if err != nil {
		return err
	}
	if err := hashAllWays(roots[0], r, boc.NewHasher()); err != nil {
		return fmt.Errorf("from BOC, %d bits: %v", n, err)
	}
	return nil
}}

// tape: depth of a chain, via BOC (1) or in memory (0)
var depthCheck = &core.Check{Name: "c02/depth", Fn: func(c *core.Ctx) error {
	depth, viaBoc := c.Intn("depth", 1100), c.Intn("boc", 2) == 1
	c.Note("depth", depth)
	c.Note("via_boc", viaBoc)
	if depth >= 256 {
		c.NonTrivial(depth, viaBoc)
	}
	// chain with `depth` edges: the root has depth `depth`
	r := ref.NewRCell(ref.Bits{true}, false)
	for i := 0; i < depth; i++ {
		r = ref.NewRCell(ref.Bits{}.AppendUint(uint64(i), 16), false, r)
	}
	var t *boc.Cell
	var err error
	if viaBoc {
		var roots []*boc.Cell
		roots, err = boc.DeserializeBoc(ref.SerializeBOC([]*ref.RCell{r}, ref.BocVariant{}))
		if err == nil {
			t = roots[0]
		}
	} else {
		t, err = gen.ToTongo(r, true, 2000)
	}
	if err != nil {
		if depth > 1024 {
			return nil // refusing an over-deep bag at parse time is fine
		}
		return fmt.Errorf("constructing a chain of depth %d: %v", depth, err)
	}
	h, err := t.Hash()
	if depth <= 1024 {
		if err != nil || !bytes.Equal(h, r.ReprHash()) {
			return fmt.Errorf("chain of depth %d: Hash()=%x,%v want %x", depth, h, err, r.ReprHash())
		}
		return nil
	}
	if err == nil {
		return fmt.Errorf("chain of depth %d (> 1024): Hash() returned %x without error", depth, h)
	}
	if !errors.Is(err, boc.ErrDepthIsTooBig) {
		return fmt.Errorf("chain of depth %d: error %v, want ErrDepthIsTooBig", depth, err)
	}
	if err := refusedAllWays(t); err != nil {
		return fmt.Errorf("chain of depth %d: %v", depth, err)
	}
	return nil
}}

// refusedAllWays: a cell that has no representation (some depth above 1024) is refused by every hashing entry
// point, every time it is asked, with and without a caching hasher.
func refusedAllWays(t *boc.Cell) error {
	reused := boc.NewHasher()
	for round := 0; round < 3; round++ {
		if h, err := t.Hash(); !errors.Is(err, boc.ErrDepthIsTooBig) {
			return fmt.Errorf("round %d: Hash() = %x, %v, want ErrDepthIsTooBig", round, h, err)
		}
		if h, err := t.HashString(); !errors.Is(err, boc.ErrDepthIsTooBig) {
			return fmt.Errorf("round %d: HashString() = %q, %v, want ErrDepthIsTooBig", round, h, err)
		}
		if h, err := reused.HashString(t); !errors.Is(err, boc.ErrDepthIsTooBig) {
			return fmt.Errorf("round %d: HashString on one reused Hasher = %q, %v, want ErrDepthIsTooBig", round, h, err)
		}
		if h, err := reused.Hash(t); !errors.Is(err, boc.ErrDepthIsTooBig) {
			return fmt.Errorf("round %d: Hash on one reused Hasher = %x, %v, want ErrDepthIsTooBig", round, h, err)
		}
		if h, err := boc.NewHasher().HashString(t); !errors.Is(err, boc.ErrDepthIsTooBig) {
			return fmt.Errorf("round %d: HashString on a fresh Hasher = %q, %v, want ErrDepthIsTooBig", round, h, err)
		}
	}
	return nil
}

// levelDepthCheck: the depth limit applies at every level. An ordinary cell stands over a pruned branch that
// stores, for one of its levels, a depth around the limit (and small depths for the others); the parent's
// depth at that level is the stored one plus one. tape: mask of the pruned branch 1..7, index of the stored
// level that carries the large depth, the large depth, whether a second (ordinary) child is present, seed.
var levelDepthCheck = &core.Check{Name: "c02/level-depth", Fn: func(c *core.Ctx) error {
	mask := uint8(1 + c.Intn("mask", 7))
	n := bits.OnesCount8(mask)
	at := c.Intn("at", 3) % n
	big := c.Intn("depth", 1<<16)
	second := c.Intn("second", 2) == 1
	seed := c.U64("seed")
	c.Note("pruned mask", mask)
	c.Note("stored depths", fmt.Sprintf("index %d of %d is %d, others small", at, n, big))
	c.NonTrivial(mask, at, big, second)
	var b ref.Bits
	b = b.AppendUint(1, 8).AppendUint(uint64(mask), 8)
	sm := core.NewSplitMix(seed)
	for i := 0; i < n; i++ {
		for k := 0; k < 4; k++ {
			b = b.AppendUint(sm.Next(), 64)
		}
	}
	for i := 0; i < n; i++ {
		d := 1 + i
		if i == at {
			d = big
		}
		b = b.AppendUint(uint64(d), 16)
	}
	pruned := ref.NewRCell(b, true)
	if err := pruned.WellFormed(); err != nil {
		return fmt.Errorf("INFRA: generated pruned branch is not well formed: %v", err)
	}
	children := []*ref.RCell{pruned}
	if second {
		children = append(children, ref.NewRCell(ref.Bits{true, false, true}, false, ref.NewRCell(ref.Bits{true}, false)))
	}
	parent := ref.NewRCell(ref.Bits{}.AppendUint(seed, 24), false, children...)
	worst := 0
	for l := 0; l <= 3; l++ {
		if d := parent.Depth(l); d > worst {
			worst = d
		}
	}
	parse := func(r *ref.RCell) (*boc.Cell, error) {
		roots, err := boc.DeserializeBoc(ref.SerializeBOC([]*ref.RCell{r}, ref.BocVariant{}))
		if err != nil {
			return nil, err
		}
		return roots[0], nil
	}
	t, err := parse(parent)
	if err != nil {
		if worst > 1024 {
			c.Class("over-deep cell refused at parse time")
			return nil
		}
		return fmt.Errorf("DeserializeBoc of an ordinary cell over a pruned branch (mask %03b, stored depth #%d = %d, depths per level %d/%d/%d/%d): %v",
			mask, at, big, parent.Depth(0), parent.Depth(1), parent.Depth(2), parent.Depth(3), err)
	}
	if worst > 1024 {
		c.Class("depth above the limit at some level")
		if parent.Depth(0) <= 1024 {
			c.Class("depth above the limit at a higher level only")
		}
		if err := refusedAllWays(t); err != nil {
			return fmt.Errorf("ordinary cell over a pruned branch (mask %03b) whose stored depth #%d is %d, depths of the cell per level %d/%d/%d/%d: %v",
				mask, at, big, parent.Depth(0), parent.Depth(1), parent.Depth(2), parent.Depth(3), err)
		}
		return nil
	}
	c.Class("all depths within the limit")
	if err := hashAllWays(t, parent, boc.NewHasher()); err != nil {
		return fmt.Errorf("ordinary cell over a pruned branch (mask %03b) whose stored depth #%d is %d: %v", mask, at, big, err)
	}
	// the depths of the cell enter the hash of a cell above it
	if worst < 1024 {
		grand := ref.NewRCell(ref.Bits{true, true}, false, parent)
		gt, err := parse(grand)
		if err != nil {
			return fmt.Errorf("constructing the cell above: %v", err)
		}
		if err := hashAllWays(gt, grand, boc.NewHasher()); err != nil {
			return fmt.Errorf("cell above an ordinary cell over a pruned branch (mask %03b) whose stored depth #%d is %d: %v", mask, at, big, err)
		}
	}
	return nil
}}

// proverCheck: cells produced by the library's proof builder hash like the reference says (shared with C18).
var proverCheck = &core.Check{Name: "c02/prover", Quick: 1500, Thorough: 100000, Fn: func(c *core.Ctx) error {
	n := 2 + c.Intn("nodes", 12)
	nodes := gen.Dag(c, gen.DagOpts{MaxNodes: n, Shape: c.Weighted("shape", 4, 1, 1)})
	root := nodes[len(nodes)-1]
	t, err := gen.ToTongo(root, c.Bool("share"), 3000)
	if err != nil {
		if errors.Is(err, gen.ErrBudget) {
			return nil
		}
		return err
	}
	prover, err := boc.NewMerkleProver(t)
	if err != nil {
		return fmt.Errorf("NewMerkleProver: %v", err)
	}
	cur := prover.Cursor()
	npr := c.Intn("prunes", 4)
	var paths [][]int
	for i := 0; i < npr; i++ {
		x, rx := cur, root
		var path []int
		for d := c.Intn("plen", 5); d >= 0 && len(rx.Refs) > 0; d-- {
			k := c.Intn("pref", len(rx.Refs))
			x, rx = x.Ref(k), rx.Refs[k]
			path = append(path, k)
		}
		if len(path) == 0 {
			continue
		}
		x.Prune()
		paths = append(paths, path)
	}
	c.Note("prune_paths", paths)
	data, err := prover.CreateProof(cur)
	if err != nil {
		return fmt.Errorf("CreateProof: %v", err)
	}
	rr, err := ref.ParseBOC(data)
	if err != nil {
		return fmt.Errorf("reference parser rejects the proof BOC: %v", err)
	}
	if len(rr) != 1 || rr[0].Type() != ref.TypeMerkleProof || rr[0].WellFormed() != nil {
		return fmt.Errorf("proof root is not a well-formed Merkle proof cell")
	}
	if !bytes.Equal(rr[0].Refs[0].Hash(0), root.ReprHash()) {
		return fmt.Errorf("level-0 hash of the pruned tree %x differs from the original root hash %x", rr[0].Refs[0].Hash(0), root.ReprHash())
	}
	tt, err := boc.DeserializeBoc(data)
	if err != nil {
		return err
	}
	reused := boc.NewHasher()
	if err := gen.Pairs(tt[0], rr[0], func(t *boc.Cell, r *ref.RCell) error { return hashAllWays(t, r, reused) }); err != nil {
		return fmt.Errorf("proof cells: %v", err)
	}
	if len(paths) > 0 {
		c.NonTrivial(rr[0].ReprHash())
	}
	// a proof of the proof: the body just parsed already holds pruned branches; pruning it again - at
	// positions that are pruned branches already, above them, or elsewhere - still commits to the same tree
	if len(paths) == 0 || !c.Bool("again") {
		return nil
	}
	body, rbody := tt[0].Refs()[0], rr[0].Refs[0]
	prover2, err := boc.NewMerkleProver(body)
	if err != nil {
		return fmt.Errorf("NewMerkleProver on the body of a proof: %v", err)
	}
	cur2 := prover2.Cursor()
	var paths2 [][]int
	onPruned := false
	for i, n2 := 0, 1+c.Intn("prunes2", 3); i < n2; i++ {
		x, rx := cur2, rbody
		var path []int
		for d := c.Intn("plen2", 5); d >= 0 && len(rx.Refs) > 0; d-- {
			k := c.Intn("pref2", len(rx.Refs))
			x, rx = x.Ref(k), rx.Refs[k]
			path = append(path, k)
		}
		if len(path) == 0 {
			continue
		}
		onPruned = onPruned || rx.Type() == ref.TypePruned
		x.Prune()
		paths2 = append(paths2, path)
	}
	c.Note("prune_paths_2", paths2)
	data2, err := prover2.CreateProof(cur2)
	if err != nil {
		return fmt.Errorf("CreateProof over the body of a proof (paths %v): %v", paths2, err)
	}
	rr2, err := ref.ParseBOC(data2)
	if err != nil {
		return fmt.Errorf("reference parser rejects the second proof: %v", err)
	}
	if len(rr2) != 1 || rr2[0].Type() != ref.TypeMerkleProof || rr2[0].WellFormed() != nil {
		return fmt.Errorf("second proof (paths %v) is not a well-formed Merkle proof cell", paths2)
	}
	if !bytes.Equal(rr2[0].Refs[0].Hash(0), root.ReprHash()) {
		return fmt.Errorf("second proof (paths %v): level-0 hash of the pruned tree %x differs from the original root hash %x", paths2, rr2[0].Refs[0].Hash(0), root.ReprHash())
	}
	tt2, err := boc.DeserializeBoc(data2)
	if err != nil {
		return err
	}
	if err := gen.Pairs(tt2[0], rr2[0], func(t *boc.Cell, r *ref.RCell) error { return hashAllWays(t, r, reused) }); err != nil {
		return fmt.Errorf("cells of the second proof: %v", err)
	}
	c.Class("proof of a proof")
	if onPruned {
		c.Class("pruned a position that held a pruned branch")
	}
	return nil
}}

func TestProp(t *testing.T) {
	t.Run("dag", func(t *testing.T) { core.Run(t, dagCheck) })
	t.Run("prover", func(t *testing.T) { core.Run(t, proverCheck) })
}

func TestEnum(t *testing.T) {
	core.RunEnum(t, lengthCheck, "ordinary cells of every bit length 0..1023 with 0, 1 and 2 children, in memory and through BOC", func(yield func(...uint64) bool) {
		for n := 0; n < 1024; n++ {
			for k := 0; k < 3; k++ {
				if !yield(uint64(n), uint64(k), uint64(n*3+k+1)) {
					return
				}
			}
		}
	})
	core.RunEnum(t, depthCheck, "chains of depth 0..8, 250..260 and 1018..1030, in memory and through BOC (limit 1024)", func(yield func(...uint64) bool) {
		var ds []int
		for d := 0; d <= 8; d++ {
			ds = append(ds, d)
		}
		for d := 250; d <= 260; d++ {
			ds = append(ds, d)
		}
		for d := 1018; d <= 1030; d++ {
			ds = append(ds, d)
		}
		for _, d := range ds {
			for b := 0; b < 2; b++ {
				if !yield(uint64(d), uint64(b)) {
					return
				}
			}
		}
	})
	core.RunEnum(t, levelDepthCheck, "ordinary cells over a pruned branch with every mask 1..7, each stored level carrying depth 0, 1, 1022..1025, 2000 or 65535, with and without a second child", func(yield func(...uint64) bool) {
		for mask := 0; mask < 7; mask++ {
			for at := 0; at < 3; at++ {
				for _, d := range []int{0, 1, 1022, 1023, 1024, 1025, 2000, 65535} {
					for second := 0; second < 2; second++ {
						if !yield(uint64(mask), uint64(at), uint64(d), uint64(second), uint64(mask*1000+at*100+d)) {
							return
						}
					}
				}
			}
		}
	})
}

// realCheck: tape = index of the harvested real BOC.
var realCheck = &core.Check{Name: "c02/real", Fn: func(c *core.Ctx) error {
	items := realdata.All()
	it := items[c.Intn("item", len(items))]
	c.Note("source", it.Name)
	// ground truth for the reference hasher itself: Merkle cells store their children's hashes
	merkle := 0
	var gtErr error
	ref.Walk(it.Roots, func(x *ref.RCell) {
		if x.Special && x.WellFormed() == nil {
			switch x.Type() {
			case ref.TypeMerkleProof:
				merkle++
				if !bytes.Equal(x.Data[1:33], x.Refs[0].Hash(0)) || int(x.Data[33])<<8|int(x.Data[34]) != x.Refs[0].Depth(0) {
					gtErr = fmt.Errorf("reference hasher disagrees with the hash stored in a real Merkle proof cell")
				}
			case ref.TypeMerkleUpdate:
				merkle++
				if !bytes.Equal(x.Data[1:33], x.Refs[0].Hash(0)) || !bytes.Equal(x.Data[33:65], x.Refs[1].Hash(0)) ||
					int(x.Data[65])<<8|int(x.Data[66]) != x.Refs[0].Depth(0) || int(x.Data[67])<<8|int(x.Data[68]) != x.Refs[1].Depth(0) {
					gtErr = fmt.Errorf("reference hasher disagrees with the hashes stored in a real Merkle update cell")
				}
			}
		}
	})
	if gtErr != nil {
		return fmt.Errorf("HARNESS-SELF-CHECK: %v (%s)", gtErr, it.Name)
	}
	roots, err := boc.DeserializeBoc(it.Bytes)
	if err != nil {
		return fmt.Errorf("DeserializeBoc(%s): %v", it.Name, err)
	}
	if len(roots) != len(it.Roots) {
		return fmt.Errorf("%s: %d roots want %d", it.Name, len(roots), len(it.Roots))
	}
	reused := boc.NewHasher()
	cells := 0
	for i := range roots {
		err := gen.Pairs(roots[i], it.Roots[i], func(t *boc.Cell, r *ref.RCell) error {
			cells++
			if cells > core.Scale(3000, 1<<30) && cells%7 != 0 {
				// quick tier: all hashing entry points on a seventh of the cells of big files, Hasher on all
				h, err := reused.Hash(t)
				if err != nil || !bytes.Equal(h, r.ReprHash()) {
					return fmt.Errorf("Hasher.Hash=%x,%v want %x", h, err, r.ReprHash())
				}
				return nil
			}
			return hashAllWays(t, r, reused)
		})
		if err != nil {
			return fmt.Errorf("%s root %d: %v", it.Name, i, err)
		}
	}
	c.Note("cells", cells)
	c.Note("merkle_cells_with_ground_truth", merkle)
	if cells >= 2 {
		c.NonTrivial(it.Name)
	}
	realCells += cells
	realMerkle += merkle
	return nil
}}

var realCells, realMerkle int

func TestReal(t *testing.T) {
	n := len(realdata.All())
	core.RunEnum(t, realCheck, fmt.Sprintf("every real BOC harvested from the tree under test (%d inputs)", n), func(yield func(...uint64) bool) {
		for i := 0; i < n; i++ {
			if !yield(uint64(i)) {
				return
			}
		}
	})
	core.Extra("c02/real", "real_cells_hashed", realCells)
	core.Extra("c02/real", "real_merkle_cells_validating_reference_hasher", realMerkle)
}

func TestReplay(t *testing.T) {
	core.Replay(t, dagCheck, lengthCheck, depthCheck, levelDepthCheck, proverCheck, realCheck, concurrentCheck)
}
