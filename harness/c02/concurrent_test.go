package c02

import (
	"bytes"
	"fmt"
	"runtime"
	"sync"
	"testing"

	"github.com/tonkeeper/tongo/boc"

	"verifharness/internal/core"
	"verifharness/internal/gen"
	"verifharness/internal/ref"
)

// c02/concurrent: the hash of a cell is a function of the cell; goroutines that hash their own, unrelated
// cells at the same time (each through Cell.Hash, its own Hasher, or a bag it parses and serialises itself)
// must all get the representation hash.
var concurrentCheck = &core.Check{Name: "c02/concurrent", Quick: 1, Thorough: 100, Fn: func(c *core.Ctx) error {
	workers := c.OneOf("goroutines", 2, 4, 8, 16)
	rounds := c.Range("rounds", 100, 600)
	procs := c.OneOf("gomaxprocs", 2, 4, 16)
	seed := c.U64("seed")
	c.Note("goroutines", workers)
	c.Note("rounds", rounds)
	c.NonTrivial(workers, rounds, procs, seed)
	prev := runtime.GOMAXPROCS(procs)
	defer runtime.GOMAXPROCS(prev)
	errs := make([]error, workers)
	var wg sync.WaitGroup
	start := make(chan struct{})
	for w := 0; w < workers; w++ {
		wg.Add(1)
		go func(w int) {
			defer wg.Done()
			defer func() {
				if r := recover(); r != nil {
					errs[w] = fmt.Errorf("goroutine %d (%d goroutines hashing their own cells at once): panic: %v", w, workers, r)
				}
			}()
			sm := core.NewSplitMix(seed ^ uint64(w+1)*0x9e3779b97f4a7c15)
			<-start
			for r := 0; r < rounds; r++ {
				// a small tree of ordinary cells: a root over 0..3 children, one of them with a child of its own
				leaf := func() *ref.RCell {
					n := sm.Intn(200)
					b := make(ref.Bits, n)
					for i := range b {
						b[i] = sm.Next()&1 == 1
					}
					return ref.NewRCell(b, false)
				}
				var kids []*ref.RCell
				for k := sm.Intn(4); k > 0; k-- {
					kid := leaf()
					if sm.Intn(2) == 0 {
						kid = ref.NewRCell(kid.Bits(), false, leaf())
					}
					kids = append(kids, kid)
				}
				root := ref.NewRCell(leaf().Bits(), false, kids...)
				want := root.ReprHash()
				var t *boc.Cell
				var err error
				if r%2 == 0 {
					t, err = gen.ToTongo(root, true, 100)
				} else {
					var roots []*boc.Cell
					roots, err = boc.DeserializeBoc(ref.SerializeBOC([]*ref.RCell{root}, ref.BocVariant{}))
					if err == nil {
						t = roots[0]
					}
				}
				if err != nil {
					errs[w] = fmt.Errorf("goroutine %d round %d: building the cell: %v", w, r, err)
					return
				}
				var got []byte
				how := ""
				switch r % 3 {
				case 0:
					how = "Cell.Hash"
					got, err = t.Hash()
				case 1:
					how = "its own Hasher"
					got, err = boc.NewHasher().Hash(t)
				default:
					how = "ToBoc + parse + Hash"
					var data []byte
					data, err = t.ToBoc()
					if err == nil {
						var back []*boc.Cell
						back, err = boc.DeserializeBoc(data)
						if err == nil {
							got, err = back[0].Hash()
						}
					}
				}
				if err != nil || !bytes.Equal(got, want) {
					errs[w] = fmt.Errorf("goroutine %d round %d (%d goroutines hashing their own cells at once): %s = %x, %v; the representation hash is %x", w, r, workers, how, got, err, want)
					return
				}
			}
		}(w)
	}
	close(start)
	wg.Wait()
	for _, e := range errs {
		if e != nil {
			return e
		}
	}
	return nil
}}

func TestConcurrent(t *testing.T) { core.Run(t, concurrentCheck) }
