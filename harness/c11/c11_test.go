// C11 — ADNL transport frames and handshake interoperate and detect corruption.
//
// The peer of tongo's liteclient.Connection is the independent reference server internal/adnlsrv (R6).
package c11

import (
	"bytes"
	"context"
	"crypto/aes"
	"crypto/cipher"
	"crypto/ed25519"
	"encoding/binary"
	"fmt"
	"hash/crc32"
	"strings"
	"sync"
	"sync/atomic"
	"testing"
	"time"

	"github.com/tonkeeper/tongo/liteclient"

	"verifharness/internal/adnlsrv"
	"verifharness/internal/core"
)

var inconclusive atomic.Int64 // connections on which no statement could be made (server write blocked after a fault)

func TestMain(m *testing.M) { core.Main(m, "C11") }

const (
	clientMaxLength = 8 << 20 // largest value of the length field the client claims to accept
	waitLimit       = 20 * time.Second
)

var (
	smallSizes = []int{0, 1, 3, 4, 12, 63, 64, 65, 1024}
	largeSizes = []int{65535, 65536}
)

// rare is true once in n: rapid's integer distributions favour small values, so a drawn word is hashed.
func rare(c *core.Ctx, label string, n int) bool {
	return core.NewSplitMix(c.U64(label)).Next()%uint64(n) == 0
}

// drawSize draws a payload size; big selects the sizes around the 8 MiB limit (payload = length - 64).
func drawSize(c *core.Ctx, label string, big bool) int {
	if big {
		return c.OneOf(label+".big", clientMaxLength-64-1, clientMaxLength-64, clientMaxLength-64+1)
	}
	if rare(c, label+".any", 8) {
		return c.Range(label+".n", 0, 3000)
	}
	if rare(c, label+".large", 10) {
		return largeSizes[c.Choose(label, len(largeSizes))]
	}
	return smallSizes[c.Choose(label, len(smallSizes))]
}

// Constructor ids of the tcp.* messages of the ADNL-over-TCP schema, derived from the declarations.
var (
	magicAuthentificate = crc32.ChecksumIEEE([]byte("tcp.authentificate nonce:bytes = tcp.Message"))
	magicAuthComplete   = crc32.ChecksumIEEE([]byte("tcp.authentificationComplete key:PublicKey signature:bytes = tcp.Message"))
)

// tcpIDs: what a generated payload may start with on purpose (weights in drawTCPPayload).
var tcpIDs = []struct {
	name string
	id   *uint32
}{
	{"tcp.pong", &adnlsrv.MagicPong},
	{"tcp.ping", &adnlsrv.MagicPing},
	{"tcp.authentificationNonce", &adnlsrv.MagicAuthNonce},
	{"tcp.authentificate", &magicAuthentificate},
	{"tcp.authentificationComplete", &magicAuthComplete},
}

// transportOwn reports whether a payload is a message that the receiving end of the transport handles itself
// instead of handing it on, so that the harness makes no statement about its delivery and keeps it out of the
// generated data:
//
//	server -> client: the well-formed tcp.pong (exactly 12 bytes: id, random_id), which the connection documents
//	    to consume; everything that starts with the id of tcp.authentificationNonce (the connection takes it for
//	    the server's half of the authentication exchange, whatever follows the id); and the well-formed 12-byte
//	    tcp.ping (a transport message a client may answer itself).
//	client -> server: the well-formed 12-byte tcp.ping (the connection sends its own keep-alive pings, which
//	    the reference server cannot tell from a scripted one).
//
// A payload that merely STARTS with the id of tcp.ping or tcp.pong but has another length is not such a
// message: it is data and has to arrive like any other payload.
func transportOwn(p []byte, fromServer bool) bool {
	if len(p) < 4 {
		return false
	}
	m := binary.LittleEndian.Uint32(p)
	if m == adnlsrv.MagicPing && len(p) == 12 {
		return true
	}
	if fromServer {
		return m == adnlsrv.MagicPong && len(p) == 12 || m == adnlsrv.MagicAuthNonce
	}
	return false
}

// drawTCPPayload draws a payload of 4..200 bytes that starts with the constructor id of a tcp.* message without
// being a message the transport keeps to itself (see transportOwn; such a draw is turned into a near miss of
// the id by changing its first byte).
func drawTCPPayload(c *core.Ctx, fromServer bool) []byte {
	k := c.Weighted("tcpid.which", 5, 2, 1, 1, 1)
	p := c.Content("payload", c.Range("tcpid.len", 4, 200))
	binary.LittleEndian.PutUint32(p, *tcpIDs[k].id)
	dir := "client"
	if fromServer {
		dir = "server"
	}
	if transportOwn(p, fromServer) {
		p[0] ^= 0x55
		c.Class(dir + " payload starts with a near miss of the id of " + tcpIDs[k].name)
	} else if len(p) < 12 {
		c.Class(fmt.Sprintf("%s payload of 4..11 bytes starts with the id of %s", dir, tcpIDs[k].name))
	} else {
		c.Class(fmt.Sprintf("%s payload of 12..200 bytes starts with the id of %s", dir, tcpIDs[k].name))
	}
	return p
}

func keyFromSeed(seed uint64) ed25519.PrivateKey {
	b := make([]byte, ed25519.SeedSize)
	core.NewSplitMix(seed).Fill(b)
	return ed25519.NewKeyFromSeed(b)
}

// drawOffset draws a stream offset with a bias towards the small fields of a frame.
func drawOffset(c *core.Ctx, label string, l adnlsrv.Layout, allowEnd bool) int {
	k := c.Choose(label+".frame", len(l))
	switch c.Weighted(label+".field", 3, 2, 3, 3, 1) {
	case 0:
		return l.Offset(k, adnlsrv.FieldLength, c.Choose(label+".rel", 4))
	case 1:
		return l.Offset(k, adnlsrv.FieldNonce, c.Choose(label+".rel", 32))
	case 2:
		if l[k] > 0 {
			return l.Offset(k, adnlsrv.FieldPayload, c.Intn(label+".rel", l[k]))
		}
		fallthrough
	case 3:
		return l.Offset(k, adnlsrv.FieldChecksum, c.Choose(label+".rel", 32))
	}
	if allowEnd && c.Bool(label+".end") {
		return l.Start(k + 1)
	}
	return l.Start(k)
}

// drawPlan draws segment boundaries and at most one fault for a stream with the given layout.
func drawPlan(c *core.Ctx, l adnlsrv.Layout, pauses bool) adnlsrv.Plan {
	var p adnlsrv.Plan
	for i, n := 0, c.Range("ncuts", 0, 12); i < n; i++ {
		cut := adnlsrv.Cut{Off: drawOffset(c, "cut", l, true)}
		if pauses && c.Intn("cut.pause", 3) == 0 {
			cut.Pause = time.Duration(c.Range("cut.us", 50, 1500)) * time.Microsecond
		}
		p.Cuts = append(p.Cuts, cut)
	}
	total := l.Total()
	switch c.Weighted("fault", 4, 2, 2, 1, 1) {
	case 1:
		p.Fault = adnlsrv.Fault{Kind: adnlsrv.FaultFlipBit, Off: drawOffset(c, "fault", l, false), Bit: uint(c.Choose("fault.bit", 8))}
	case 2:
		p.Fault = adnlsrv.Fault{Kind: adnlsrv.FaultReplace, Off: drawOffset(c, "fault", l, false), Mask: byte(1 + c.Choose("fault.mask", 255))}
	case 3:
		p.Fault = adnlsrv.Fault{Kind: adnlsrv.FaultTruncate, Off: drawOffset(c, "fault", l, true)}
	case 4:
		off := drawOffset(c, "fault", l, true)
		if off == 0 {
			off = 1
		}
		n := c.Range("fault.len", 1, 200)
		if c.Intn("fault.whole", 4) == 0 { // resend one whole frame
			if k, _, _ := l.Locate(off - 1); k < len(l) {
				off = l.Start(k + 1)
				n = adnlsrv.FrameOverhead + l[k]
			}
		}
		off = dupOffset(l, off)
		if n > off {
			n = off
		}
		if n > adnlsrv.MaxDup {
			n = adnlsrv.MaxDup
		}
		p.Fault = adnlsrv.Fault{Kind: adnlsrv.FaultDup, Off: off, Len: n}
	}
	if p.Fault.Off > total {
		p.Fault.Off = total
	}
	return p
}

// dupOffset keeps the position of a resend away from the last bytes of a frame. Bytes inserted r bytes before
// the end of a frame leave that frame intact when the r bytes that now end it happen to equal the r bytes they
// displaced (once in 256 for r = 1), and the harness cannot see the cipher text in advance: positions with
// 0 < r < 8 are moved to the end of the frame, where the resend hits the next frame for certain.
func dupOffset(l adnlsrv.Layout, off int) int {
	if k, _, _ := l.Locate(off); k < len(l) {
		if end := l.Start(k + 1); off != l.Start(k) && end-off < 8 {
			return end
		}
	}
	return off
}

func splitsInsideFrames(l adnlsrv.Layout, cuts []adnlsrv.Cut) int {
	n := 0
	for _, cut := range cuts {
		if _, f, rel := l.Locate(cut.Off); f != adnlsrv.FieldEnd && !(f == adnlsrv.FieldLength && rel == 0) {
			n++
		}
	}
	return n
}

func classifyPlan(c *core.Ctx, l adnlsrv.Layout, p adnlsrv.Plan) {
	if p.Fault.Kind == adnlsrv.FaultNone {
		c.Class("no fault")
	} else {
		_, f := p.Fault.FirstAffected(l)
		c.Class("fault " + p.Fault.Kind.String() + " in " + f.String())
	}
	for _, cut := range p.Cuts {
		if _, f, rel := l.Locate(cut.Off); f != adnlsrv.FieldEnd && !(f == adnlsrv.FieldLength && rel == 0) {
			c.Class("split inside " + f.String())
		}
	}
}

func describe(b []byte) string {
	if len(b) <= 24 {
		return fmt.Sprintf("%d bytes %x", len(b), b)
	}
	return fmt.Sprintf("%d bytes %x…%x", len(b), b[:12], b[len(b)-8:])
}

// ---------------------------------------------------------------------------------------------
// live connections

type srvFrame struct {
	payload []byte
	pong    bool // a well-formed tcp.pong: the connection documents that it consumes these itself
}

type connScript struct {
	keySeed uint64
	order   []bool // true = server->client packet, in drawn order
	server  []srvFrame
	client  [][]byte
	layout  adnlsrv.Layout // server->client stream: confirmation frame, then server frames
	plan    adnlsrv.Plan
	// connectMs > 0: NewConnection gets a context that expires after so many milliseconds, and the client
	// starts sending only after that moment (a connect timeout must not outlive the connect).
	connectMs int
	// cancelAfterConnect: the context given to NewConnection is cancelled as soon as NewConnection has returned
	// (the usual "ctx, cancel := ...; defer cancel()" around a connect), before any traffic of the client.
	cancelAfterConnect bool
	// With connectMs > 0 or cancelAfterConnect the server writes its frames from #holdFrom+1 on (holdFrom = 0:
	// everything but the confirmation) only after the connect context has ended; the end of the context that
	// was used to make the connection says nothing about packets the server sends later.
	holdFrom int
	// senders > 1: the client packets are handed to Send by that many goroutines at once (packet i by
	// goroutine i mod senders); the server must receive every packet intact, in any order.
	senders int
	// arena: the client payloads are consecutive pieces of one buffer (each slice has the following payloads in
	// its spare capacity); sending a packet must leave the caller's buffer as it was.
	arena bool
	// writeWait > 0 (enumerated limit cases only): how long the server may be stuck writing a stream that the
	// client is entitled to stop reading, before the connection is judged on what arrived so far.
	writeWait time.Duration
	// clientPk[i] != nil: client packet i is sent as that Packet value, which other sends of this or of another
	// connection of the case may use as well (one NewPacket call, several Send calls). nil or a short slice: a
	// fresh NewPacket for the send.
	clientPk []*sharedPacket
	// The consumer of Responses() starts reading consumerDelay after the connection was made and sleeps
	// consumerPause after every packet it took (pauseFirst > 0: only after each of the first so many packets).
	// Neither is ever a violation by itself: the packets have to arrive all the same, however long it takes
	// the consumer to pick them up.
	consumerDelay, consumerPause time.Duration
	pauseFirst                   int
}

// sharedPacket is one liteclient.Packet value (the result of one NewPacket call) that the scripts of a case
// hand to Connection.Send any number of times, on one connection or on several.
type sharedPacket struct {
	id      int
	payload []byte
	uses    int
	once    sync.Once
	pk      liteclient.Packet
	err     error
}

func (sp *sharedPacket) get() (liteclient.Packet, error) {
	sp.once.Do(func() { sp.pk, sp.err = liteclient.NewPacket(append([]byte{}, sp.payload...)) })
	return sp.pk, sp.err
}

// packetPool holds the Packet values of one case.
type packetPool struct{ items []*sharedPacket }

func (pp *packetPool) add(payload []byte) *sharedPacket {
	sp := &sharedPacket{id: len(pp.items), payload: payload, uses: 1}
	pp.items = append(pp.items, sp)
	return sp
}

const poolMaxPayload = 1 << 20 // larger packets are not sent a second time (cost only)

func (s *connScript) String() string {
	var sb strings.Builder
	fmt.Fprintf(&sb, "server key seed %#x; server->client stream = confirmation", s.keySeed)
	for i, f := range s.server {
		fmt.Fprintf(&sb, ", #%d %d bytes", i+1, len(f.payload))
		if f.pong {
			sb.WriteString(" (pong)")
		}
	}
	if s.senders > 1 {
		fmt.Fprintf(&sb, "; %d goroutines send concurrently", s.senders)
	}
	if s.arena {
		sb.WriteString("; client payloads are consecutive pieces of one buffer")
	}
	if s.connectMs > 0 {
		fmt.Fprintf(&sb, "; connect context expires after %d ms, client traffic and the server frames from #%d on start after that", s.connectMs, s.holdFrom+1)
	}
	if s.cancelAfterConnect {
		fmt.Fprintf(&sb, "; connect context cancelled right after NewConnection returned, client traffic and the server frames from #%d on start after that", s.holdFrom+1)
	}
	if s.consumerDelay > 0 {
		fmt.Fprintf(&sb, "; Responses() is read from %v after the connect on", s.consumerDelay)
	}
	if s.consumerPause > 0 {
		fmt.Fprintf(&sb, "; the reader of Responses() sleeps %v after every packet", s.consumerPause)
		if s.pauseFirst > 0 {
			fmt.Fprintf(&sb, " up to packet %d", s.pauseFirst)
		}
	}
	sb.WriteString("; client->server")
	for i, p := range s.client {
		fmt.Fprintf(&sb, " %d", len(p))
		if i < len(s.clientPk) && s.clientPk[i] != nil && s.clientPk[i].uses > 1 {
			fmt.Fprintf(&sb, "(Packet value %d, sent %d times in this case)", s.clientPk[i].id, s.clientPk[i].uses)
		}
	}
	sb.WriteString("; cuts")
	for _, cut := range s.plan.Cuts {
		k, f, rel := s.layout.Locate(cut.Off)
		fmt.Fprintf(&sb, " %d(frame %d %v+%d)", cut.Off, k, f, rel)
	}
	k, f := s.plan.Fault.FirstAffected(s.layout)
	fmt.Fprintf(&sb, "; fault: %v", s.plan.Fault)
	if s.plan.Fault.Kind != adnlsrv.FaultNone {
		fmt.Fprintf(&sb, " = frame %d %v", k, f)
	}
	return sb.String()
}

// drawConnScript draws one connection. pool (may be nil) collects the Packet values of the case: a client
// packet is, once in five, a Packet value that was sent before (on this connection or on an earlier one of
// the case). burst: many more packets, and a consumer of Responses() that starts late or reads slowly.
func drawConnScript(c *core.Ctx, big, burst bool, pool *packetPool) *connScript {
	s := &connScript{keySeed: c.U64("keyseed")}
	var n int
	if burst {
		n = c.Range("npackets.burst", 66, 300)
	} else {
		n = c.Range("npackets", 1, 40)
	}
	bigAt := -1
	if big {
		bigAt = c.Choose("bigat", n)
	}
	s.layout = adnlsrv.Layout{0}
	for i := 0; i < n; i++ {
		fromServer := c.Bool("dir")
		s.order = append(s.order, fromServer)
		if fromServer && rare(c, "pong", 10) {
			s.server = append(s.server, srvFrame{payload: adnlsrv.Pong(c.U64("pong.id")), pong: true})
			s.layout = append(s.layout, 12)
			continue
		}
		if !fromServer && pool != nil && len(pool.items) > 0 && i != bigAt && rare(c, "reuse", 5) {
			sp := pool.items[c.Choose("reuse.which", len(pool.items))]
			sp.uses++
			s.client = append(s.client, sp.payload)
			s.clientPk = append(s.clientPk, sp)
			continue
		}
		var p []byte
		if i != bigAt && rare(c, "tcpid", 8) {
			// data that looks like the start of a transport message: it has to arrive like any other payload
			p = drawTCPPayload(c, fromServer)
		} else {
			p = c.Content("payload", drawSize(c, "size", i == bigAt))
			if transportOwn(p, fromServer) {
				p[0] ^= 0x55 // keep generated data clear of what the receiving end consumes itself
			}
		}
		if fromServer {
			s.server = append(s.server, srvFrame{payload: p})
			s.layout = append(s.layout, len(p))
		} else {
			s.client = append(s.client, p)
			if pool != nil && len(p) <= poolMaxPayload {
				s.clientPk = append(s.clientPk, pool.add(p))
			} else {
				s.clientPk = append(s.clientPk, nil)
			}
		}
	}
	s.plan = drawPlan(c, s.layout, true)
	if burst {
		if c.Bool("consumer.late") {
			s.consumerDelay = time.Duration(c.Range("consumer.delay.ms", 100, 300)) * time.Millisecond
		} else {
			s.consumerPause = time.Duration(c.Range("consumer.pause.ms", 1, 3)) * time.Millisecond
		}
	}
	s.senders = 1
	if len(s.client) >= 2 && rare(c, "senders", 4) {
		s.senders = c.Range("senders.n", 2, 4)
		c.Class("concurrent senders on one connection")
	}
	if len(s.client) >= 2 && rare(c, "arena", 4) {
		s.arena = true
		c.Class("client payloads carved out of one buffer")
	}
	if s.plan.Fault.Kind == adnlsrv.FaultNone && len(s.client) > 0 && rare(c, "connect.deadline", 5) {
		s.connectMs = c.Range("connect.ms", 250, 700)
		c.Class("connection used after the deadline of its connect context")
	} else if s.plan.Fault.Kind == adnlsrv.FaultNone && len(s.client) > 0 && rare(c, "connect.cancel", 5) {
		s.cancelAfterConnect = true
		c.Class("connection used after its connect context was cancelled")
	}
	if (s.connectMs > 0 || s.cancelAfterConnect) && len(s.server) > 0 {
		s.holdFrom = c.Choose("connect.hold", len(s.server))
		c.Class("server frames written after the end of the connect context")
	}
	return s
}

// serverSide is what the reference server observed on the one scripted connection.
type serverSide struct {
	mu         sync.Mutex
	received   [][]byte
	pings      int
	readErr    error
	writeErr   error
	writerDone chan struct{}
	connUp     chan *adnlsrv.Conn
	release    chan struct{}
	resume     chan struct{} // closed when the held-back frames may be written (holdFrom)
	wrote      atomic.Bool
	readEnded  atomic.Bool
	confirmed  atomic.Bool // the confirmation frame of the scripted connection has been handed to the kernel
	connecting atomic.Bool // NewConnection has not returned yet
}

func (ss *serverSide) receivedCount() int {
	ss.mu.Lock()
	defer ss.mu.Unlock()
	return len(ss.received)
}

// connectHangLimit bounds the wait for NewConnection. The context handed to NewConnection expires after
// waitLimit at the latest, so only a call that ignores its context can get here.
const connectHangLimit = 3 * waitLimit

var redialsCompleted atomic.Int64 // connections made over a second dial after a damaged first confirmation

// redialOutcome looks at the server's log of the connections after the first one: how many of them the
// server brought up by the book (handshake accepted, confirmation written), and how many are still undecided.
func redialOutcome(srv *adnlsrv.Server) (confirmed, pending int) {
	state := map[int]int{} // 1 = accepted and being served, 2 = confirmed, 3 = ended without a confirmation
	for _, e := range srv.Events() {
		if e.Dial < 2 {
			continue
		}
		switch {
		case strings.HasPrefix(e.What, "accepted, plan serve"):
			if state[e.Dial] == 0 {
				state[e.Dial] = 1
			}
		case e.What == "established":
			state[e.Dial] = 2
		case strings.HasPrefix(e.What, "handshake read"), strings.HasPrefix(e.What, "handshake refused"), strings.HasPrefix(e.What, "confirmation:"):
			if state[e.Dial] != 2 {
				state[e.Dial] = 3
			}
		}
	}
	for _, st := range state {
		switch st {
		case 1:
			pending++
		case 2:
			confirmed++
		}
	}
	return
}

// awaitRedials gives the server up to two seconds to finish what it is doing with further connections of the
// client and returns how many it confirmed. Too short a wait can only lose a statement, never create one.
func awaitRedials(srv *adnlsrv.Server) int {
	for end := time.Now().Add(2 * time.Second); ; {
		confirmed, pending := redialOutcome(srv)
		if confirmed > 0 || pending == 0 || time.Now().After(end) {
			return confirmed
		}
		time.Sleep(500 * time.Microsecond)
	}
}

// afterIf is time.After(d) when on, and a channel that never fires otherwise.
func afterIf(d time.Duration, on bool) <-chan time.Time {
	if !on {
		return nil
	}
	return time.After(d)
}

func runConn(s *connScript) (err error) {
	priv := keyFromSeed(s.keySeed)
	affected, _ := s.plan.Fault.FirstAffected(s.layout)
	faulty := s.plan.Fault.Kind != adnlsrv.FaultNone
	for i, f := range s.server {
		// a frame beyond the size the client claims to accept ends the stream like a fault does
		if 64+len(f.payload) > clientMaxLength && i+1 < affected {
			affected, faulty = i+1, true
		}
	}
	ss := &serverSide{writerDone: make(chan struct{}), connUp: make(chan *adnlsrv.Conn, 1), release: make(chan struct{}), resume: make(chan struct{})}
	var releaseOnce, resumeOnce sync.Once
	release := func() { releaseOnce.Do(func() { close(ss.release) }) }
	resume := func() { resumeOnce.Do(func() { close(ss.resume) }) }
	defer release()
	firstBroken := faulty && affected == 0 // the confirmation of the scripted connection does not arrive intact
	held := s.connectMs > 0 || s.cancelAfterConnect

	srv, lerr := adnlsrv.Listen(priv, adnlsrv.Hooks{
		Dial: func(n int) adnlsrv.DialPlan {
			if n == 1 {
				return adnlsrv.DialPlan{Kind: adnlsrv.DialServeNoConfirm}
			}
			if firstBroken && ss.connecting.Load() {
				// The client dials again from inside NewConnection after the broken first attempt: this
				// connection is undamaged and served by the book (handshake checked, confirmation sent).
				return adnlsrv.DialPlan{Kind: adnlsrv.DialServe}
			}
			return adnlsrv.DialPlan{Kind: adnlsrv.DialTarpit} // a redial of the client after the scripted connection
		},
		Serve: func(cn *adnlsrv.Conn) {
			if cn.Dial != 1 {
				cn.Loop(nil) // until the client or the end of the case closes it; pings are answered
				return
			}
			cn.SetPlan(s.plan, nil)
			cn.SetAutoPong(false)
			ss.connUp <- cn
			readerDone := make(chan struct{})
			go func() {
				defer close(readerDone)
				e := cn.Loop(func(f adnlsrv.Frame) bool {
					if id, ok := adnlsrv.ParsePing(f.Payload); ok {
						ss.mu.Lock()
						ss.pings++
						ss.mu.Unlock()
						if ss.wrote.Load() && !faulty {
							cn.WriteFrame(adnlsrv.Pong(id))
						}
						return true
					}
					ss.mu.Lock()
					ss.received = append(ss.received, f.Payload)
					ss.mu.Unlock()
					return true
				})
				ss.mu.Lock()
				ss.readErr = e
				ss.mu.Unlock()
				ss.readEnded.Store(true)
			}()
			werr := cn.WriteFrameNonce(nil, [32]byte{0xc0})
			ss.confirmed.Store(werr == nil)
			for i := 0; werr == nil && i < len(s.server); i++ {
				if held && i == s.holdFrom {
					select { // the rest of the stream follows after the connect context has ended
					case <-ss.resume:
					case <-ss.release:
					case <-time.After(3 * waitLimit):
					}
				}
				werr = cn.WriteFrame(s.server[i].payload)
			}
			if werr == nil {
				werr = cn.FinishStream()
			}
			ss.mu.Lock()
			ss.writeErr = werr
			ss.mu.Unlock()
			ss.wrote.Store(true)
			close(ss.writerDone)
			if firstBroken {
				return // the client cannot have accepted the confirmation: end the connection
			}
			<-ss.release
			cn.Close()
			<-readerDone
		},
	})
	if lerr != nil {
		return fmt.Errorf("INFRA: listen: %v", lerr)
	}
	clientMade := false
	defer func() {
		if clientMade {
			srv.Retire(1)
		} else {
			srv.Close()
		}
	}()
	report := func(format string, args ...any) error {
		var ev strings.Builder
		for _, e := range srv.Events() {
			fmt.Fprintf(&ev, "\n    server: dial %d %s", e.Dial, e.What)
		}
		return fmt.Errorf("%s\n  script: %v%s", fmt.Sprintf(format, args...), s, ev.String())
	}

	connectLimit := waitLimit
	if s.connectMs > 0 {
		connectLimit = time.Duration(s.connectMs) * time.Millisecond
	}
	ctx, cancel := context.WithTimeout(context.Background(), connectLimit)
	defer cancel()
	// NewConnection runs in a goroutine of its own: the wait for it is bounded whatever the client does (a
	// client that dials more often than scripted may end up waiting for a connection nobody serves).
	type connectResult struct {
		conn *liteclient.Connection
		err  error
		bad  error // a panic inside NewConnection
	}
	connectCh := make(chan connectResult, 1)
	ss.connecting.Store(true)
	go func() {
		var r connectResult
		r.bad = core.Protect(func() error {
			r.conn, r.err = liteclient.NewConnection(ctx, []byte(srv.PublicKey()), srv.Addr())
			return nil
		})
		connectCh <- r
	}()
	var conn *liteclient.Connection
	var cerr error
	select {
	case r := <-connectCh:
		ss.connecting.Store(false)
		if r.bad != nil {
			return report("NewConnection: %v", r.bad)
		}
		conn, cerr = r.conn, r.err
	case <-time.After(connectHangLimit):
		ss.connecting.Store(false)
		if hs := srv.HandshakeErrors(); len(hs) > 0 {
			return report("the reference server refused the client's handshake: %v", hs[0])
		}
		// The deferred srv.Close() ends every connection of the server, which also ends the call.
		confirmedRedials, _ := redialOutcome(srv)
		switch {
		case !firstBroken && srv.Dials() == 1 && ss.confirmed.Load():
			return report("NewConnection did not return within %v although the reference server accepted the handshake and sent the confirmation intact on the only connection the client made", connectHangLimit)
		case firstBroken && confirmedRedials > 0:
			return report("NewConnection did not return within %v: after a first attempt whose confirmation was damaged in transit the client dialled again, and the reference server accepted that handshake and sent the confirmation over the undamaged connection", connectHangLimit)
		}
		inconclusive.Add(1) // the client waits on a connection that the script does not serve: no statement
		return nil
	}
	if s.connectMs > 0 {
		if cerr != nil && ctx.Err() != nil {
			inconclusive.Add(1) // the machine was too slow for the short connect timeout: no statement
			return nil
		}
		if cerr == nil {
			select {
			case <-ctx.Done():
			case <-time.After(waitLimit): // cannot happen: the context expires after connectMs
			}
			time.Sleep(40 * time.Millisecond)
		}
	}
	if s.cancelAfterConnect && cerr == nil {
		cancel()
		time.Sleep(20 * time.Millisecond) // let whatever watches the context act before the traffic starts
	}
	resume()
	if hs := srv.HandshakeErrors(); len(hs) > 0 {
		return report("the reference server refused the client's handshake: %v", hs[0])
	}
	if firstBroken {
		// The confirmation of the first attempt was damaged in transit: that attempt must not yield a
		// connection. Whether the client then gives up or dials again is its own business; but a second
		// attempt is a client connecting to a conforming server over an undamaged link, and has to complete.
		confirmedRedials := 0
		if srv.Dials() > 1 {
			confirmedRedials = awaitRedials(srv)
		}
		if cerr == nil {
			clientMade = true
			if confirmedRedials > 0 {
				redialsCompleted.Add(1)
				return nil // connected over the second attempt; the script was written for the first one
			}
			return report("NewConnection succeeded although the confirmation frame was altered in transit")
		}
		if confirmedRedials > 0 {
			return report("NewConnection failed (%v) although, after the first attempt whose confirmation was damaged in transit, the client dialled again and the reference server completed that handshake over an undamaged connection (handshake accepted, confirmation sent intact)", cerr)
		}
		return nil
	}
	if cerr != nil {
		return report("NewConnection failed against a conforming server: %v", cerr)
	}
	clientMade = true

	// what must come out of Responses(): the intact frames before the first affected one, pongs excepted
	var want [][]byte
	for i, f := range s.server {
		if i+1 >= affected {
			break
		}
		if !f.pong {
			want = append(want, f.payload)
		}
	}

	var gmu sync.Mutex
	var got [][]byte
	stop := make(chan struct{})
	consumerDone := make(chan struct{})
	go func() {
		defer close(consumerDone)
		if s.consumerDelay > 0 {
			select {
			case <-time.After(s.consumerDelay):
			case <-stop:
				return
			}
		}
		taken := 0
		for {
			select {
			case p := <-conn.Responses():
				gmu.Lock()
				got = append(got, p.Payload)
				gmu.Unlock()
				taken++
				if s.consumerPause > 0 && (s.pauseFirst == 0 || taken <= s.pauseFirst) {
					time.Sleep(s.consumerPause)
				}
			case <-stop:
				return
			}
		}
	}()
	defer func() { close(stop); <-consumerDone }()
	gotCount := func() int { gmu.Lock(); defer gmu.Unlock(); return len(got) }

	var sendMu sync.Mutex
	var sendErr error
	sendAt := -1
	senderDone := make(chan struct{})
	nSenders := s.senders
	if nSenders < 1 {
		nSenders = 1
	}
	var arena, arenaCopy []byte
	var arenaAt []int
	if s.arena {
		for _, p := range s.client {
			arenaAt = append(arenaAt, len(arena))
			arena = append(arena, p...)
		}
		arena = append(arena, make([]byte, 64)...) // room behind the last payload as well
		arenaCopy = append([]byte{}, arena...)
	}
	var sendWG sync.WaitGroup
	for g := 0; g < nSenders; g++ {
		sendWG.Add(1)
		go func(g int) {
			defer sendWG.Done()
			for i := g; i < len(s.client); i += nSenders {
				var pk liteclient.Packet
				var e error
				if i < len(s.clientPk) && s.clientPk[i] != nil && (s.clientPk[i].uses > 1 || !s.arena) {
					pk, e = s.clientPk[i].get() // one Packet value, possibly handed to Send before
				} else if s.arena {
					pk, e = liteclient.NewPacket(arena[arenaAt[i] : arenaAt[i]+len(s.client[i])])
				} else {
					pk, e = liteclient.NewPacket(append([]byte{}, s.client[i]...))
				}
				if e == nil {
					e = conn.Send(pk)
				}
				if e != nil {
					sendMu.Lock()
					if sendErr == nil {
						sendErr, sendAt = e, i
					}
					sendMu.Unlock()
					return
				}
			}
		}(g)
	}
	go func() { sendWG.Wait(); close(senderDone) }()

	deadline := time.Now().Add(waitLimit)
	waitFor := func(cond func() bool) bool {
		for !cond() {
			if time.Now().After(deadline) {
				return false
			}
			time.Sleep(500 * time.Microsecond)
		}
		return true
	}
	select {
	case <-senderDone:
	case <-time.After(waitLimit):
		return report("Connection.Send did not return within %v", waitLimit)
	}
	if s.arena && !bytes.Equal(arena, arenaCopy) {
		at := 0
		for at < len(arena) && arena[at] == arenaCopy[at] {
			at++
		}
		return report("sending the client packets changed the caller's buffer the payloads are pieces of (first changed byte at offset %d of %d)", at, len(arena))
	}
	if sendErr != nil {
		return report("Connection.Send of client packet %d (%s) failed on a healthy connection: %v", sendAt, describe(s.client[sendAt]), sendErr)
	}
	blocked := false
	select {
	case <-ss.writerDone:
	case <-afterIf(s.writeWait, faulty && s.writeWait > 0): // armed only for scripts that set writeWait
		// The stream holds a frame the client must refuse, so the client may have stopped reading and the rest
		// cannot be written. What must have arrived (the frames before it, the client's own packets) is
		// checked below, then the server ends the connection; a late delivery of the refused frame would
		// still be seen.
		blocked = true
	case <-afterIf(3*waitLimit, !(faulty && s.writeWait > 0)):
		if faulty {
			// a client that has detected the fault stops reading; the rest of a large stream then cannot be
			// written. Nothing was delivered wrongly so far (checked below on what did arrive): no statement.
			inconclusive.Add(1)
			return nil
		}
		return report("the reference server could not write its fault-free stream within %v: the client does not read it", 3*waitLimit)
	}
	if !waitFor(func() bool { return ss.receivedCount() >= len(s.client) || ss.readEnded.Load() }) || ss.receivedCount() < len(s.client) {
		ss.mu.Lock()
		n, rerr := len(ss.received), ss.readErr
		ss.mu.Unlock()
		return report("the server received %d of the %d packets the client sent (server read error: %v)", n, len(s.client), rerr)
	}
	// The wait for Responses() is measured from the last packet that came out: a consumer that is slow (by
	// script or because the machine is busy) is never a violation, only packets that do not come at all are.
	delivered := func() bool {
		last, lastAt := gotCount(), time.Now()
		for last < len(want) {
			time.Sleep(500 * time.Microsecond)
			if n := gotCount(); n != last {
				last, lastAt = n, time.Now()
			} else if time.Since(lastAt) > waitLimit+s.consumerDelay {
				return false
			}
		}
		return true
	}()
	if faulty {
		release() // end of stream: whatever the client still holds back must surface now
		if blocked {
			// the writer is stuck inside Serve: close the socket under it (only now, after the wait for the
			// intact frames, so that a reset cannot take undelivered intact data with it)
			select {
			case cn := <-ss.connUp:
				cn.Close()
				<-ss.writerDone
			default:
			}
		}
		time.Sleep(200 * time.Millisecond)
	} else {
		time.Sleep(10 * time.Millisecond)
	}

	// client -> server direction
	ss.mu.Lock()
	received := append([][]byte{}, ss.received...)
	rerr, werr := ss.readErr, ss.writeErr
	ss.mu.Unlock()
	if nSenders > 1 {
		// any order: compare as multisets
		left := map[string]int{}
		for _, p := range s.client {
			left[string(p)]++
		}
		for i, p := range received {
			if left[string(p)] == 0 {
				return report("with %d goroutines sending at once the server received packet #%d = %s, which no goroutine sent (or more often than it was sent)", nSenders, i, describe(p))
			}
			left[string(p)]--
		}
	} else {
		for i, p := range received {
			if i >= len(s.client) {
				return report("the server received a packet the client never sent: #%d %s", i, describe(p))
			}
			if !bytes.Equal(p, s.client[i]) {
				return report("client packet %d arrived at the server as %s, sent %s", i, describe(p), describe(s.client[i]))
			}
		}
	}
	if !faulty && rerr != nil {
		return report("the server could not parse what the client sent: %v", rerr)
	}
	if werr != nil && !blocked {
		return report("INFRA: server write: %v", werr)
	}

	// server -> client direction
	gmu.Lock()
	final := append([][]byte{}, got...)
	gmu.Unlock()
	for i, p := range final {
		if i >= len(want) {
			origin := "a payload that was never sent"
			for j, f := range s.server {
				if bytes.Equal(f.payload, p) {
					origin = fmt.Sprintf("equal to server frame #%d", j+1)
				}
			}
			return report("Responses() delivered packet %d = %s beyond the %d intact frames (%s)", i, describe(p), len(want), origin)
		}
		if !bytes.Equal(p, want[i]) {
			return report("Responses() packet %d = %s, the server sent %s", i, describe(p), describe(want[i]))
		}
	}
	if !delivered || len(final) < len(want) {
		return report("Responses() delivered %d of the %d packets that were sent intact; no further packet came for %v", len(final), len(want), waitLimit)
	}
	return nil
}

var connCheck = &core.Check{Name: "c11/conn", Quick: 100, Thorough: 6000, Fn: func(c *core.Ctx) error {
	n := c.Range("nconn", 1, 6)
	big := core.Thorough() && rare(c, "big", 60)
	if big {
		n = 1
	}
	burst := !big && core.Thorough() && rare(c, "burst", 40)
	if burst && n > 3 {
		n = 3
	}
	pool := &packetPool{}
	scripts := make([]*connScript, n)
	nontrivial := false
	var key []string
	packets, faults := 0, 0
	for i := range scripts {
		s := drawConnScript(c, big, burst, pool)
		scripts[i] = s
		classifyPlan(c, s.layout, s.plan)
		if len(s.order) >= 3 && splitsInsideFrames(s.layout, s.plan.Cuts) >= 1 || s.plan.Fault.Kind != adnlsrv.FaultNone {
			nontrivial = true
		}
		if s.plan.Fault.Kind != adnlsrv.FaultNone {
			faults++
		}
		packets += len(s.order)
	}
	for i, s := range scripts { // after all draws: the texts name the Packet values that are sent again later
		key = append(key, s.String())
		if i < 3 {
			c.Note(fmt.Sprintf("connection %d", i), s.String())
		}
	}
	c.Note("connections", n)
	if big {
		c.Class("8 MiB boundary packet")
	}
	if burst {
		c.Class("burst of packets, Responses() read late or slowly")
	}
	twice, across := false, false
	for _, sp := range pool.items {
		on := 0
		for _, s := range scripts {
			k := 0
			for _, q := range s.clientPk {
				if q == sp {
					k++
				}
			}
			if k > 0 {
				on++
			}
			if k > 1 {
				twice = true
			}
		}
		if on > 1 {
			across = true
		}
	}
	if twice {
		c.Class("one Packet value sent more than once on a connection")
	}
	if across {
		c.Class("one Packet value sent on several connections")
	}
	if nontrivial {
		c.NonTrivial(strings.Join(key, "|"))
	}
	c.Checkpoint()
	errs := make([]error, n)
	var wg sync.WaitGroup
	for i := range scripts {
		wg.Add(1)
		go func(i int) {
			defer wg.Done()
			errs[i] = core.Protect(func() error { return runConn(scripts[i]) })
		}(i)
	}
	wg.Wait()
	totalConns.Add(int64(n))
	totalPackets.Add(int64(packets))
	totalFaults.Add(int64(faults))
	for i, e := range errs {
		if e != nil {
			return fmt.Errorf("connection %d of %d: %v", i, n, e)
		}
	}
	return nil
}}

var totalConns, totalPackets, totalFaults atomic.Int64

// ---------------------------------------------------------------------------------------------
// ParsePacket on generated byte streams

type identity struct{}

func (identity) XORKeyStream(dst, src []byte) { copy(dst, src) }

func ctrStream(seed uint64) cipher.Stream {
	kiv := make([]byte, 48)
	core.NewSplitMix(seed).Fill(kiv)
	blk, err := aes.NewCipher(kiv[:32])
	if err != nil {
		panic(err)
	}
	return cipher.NewCTR(blk, kiv[32:])
}

// frameSpec is one element of a generated stream: a well-formed frame, or a frame whose length field
// lies outside what the client claims to accept (the body that follows is a well-formed empty frame
// body, so that only the length check can reject it).
type frameSpec struct {
	payload []byte
	liar    bool
	length  uint32
}

func buildStream(frames []frameSpec) (stream []byte, layout adnlsrv.Layout, firstBad int) {
	firstBad = len(frames)
	for i, f := range frames {
		var nonce [32]byte
		binary.LittleEndian.PutUint64(nonce[:], uint64(i)+1)
		nonce[31] = 0xa5
		fr := adnlsrv.BuildFrame(f.payload, nonce)
		if f.liar {
			binary.LittleEndian.PutUint32(fr, f.length)
			if i < firstBad {
				firstBad = i
			}
		} else if len(fr)-4 > clientMaxLength && i < firstBad {
			firstBad = i
		}
		stream = append(stream, fr...)
		layout = append(layout, len(f.payload))
	}
	return
}

// parseAll drives liteclient.ParsePacket over the segments until it reports an error.
func parseAll(segs adnlsrv.Segments, dec cipher.Stream, limit int) (payloads [][]byte, perr error) {
	r := &adnlsrv.SegmentReader{Segs: segs}
	for i := 0; i < limit; i++ {
		p, err := liteclient.ParsePacket(r, dec)
		if err != nil {
			return payloads, err
		}
		payloads = append(payloads, p.Payload)
	}
	return payloads, nil
}

func checkParse(frames []frameSpec, plan adnlsrv.Plan, useCTR bool, ctrSeed uint64) error {
	stream, layout, firstBad := buildStream(frames)
	wire := stream
	if useCTR {
		wire = make([]byte, len(stream))
		ctrStream(ctrSeed).XORKeyStream(wire, stream)
	}
	var segs adnlsrv.Segments
	sh := adnlsrv.NewShaper(&segs, plan)
	sh.Write(wire)
	sh.Finish()
	arrived := segs.Bytes()
	if !bytes.Equal(arrived, plan.Fault.Apply(wire)) {
		return fmt.Errorf("INFRA: shaper and fault definition disagree for %v", plan.Fault)
	}
	var dec, refDec cipher.Stream = identity{}, nil
	if useCTR {
		dec, refDec = ctrStream(ctrSeed), ctrStream(ctrSeed)
	}
	got, gerr := parseAll(segs, dec, len(frames)+8)
	if gerr == nil {
		return fmt.Errorf("ParsePacket returned %d packets without ever reporting the end of a %d-byte stream", len(got), len(arrived))
	}
	// differential: the reference reader on the same bytes
	ref, _ := adnlsrv.ParseStream(arrived, refDec, clientMaxLength)
	for i := 0; i < len(got) || i < len(ref); i++ {
		switch {
		case i >= len(ref):
			return fmt.Errorf("ParsePacket accepted packet %d (%s); the reference reader rejects the stream there (ParsePacket's final error: %v)", i, describe(got[i]), gerr)
		case i >= len(got):
			return fmt.Errorf("ParsePacket stopped with %q after %d packets; the reference reader accepts packet %d (%s)", gerr, len(got), i, describe(ref[i].Payload))
		case !bytes.Equal(got[i], ref[i].Payload):
			return fmt.Errorf("packet %d: ParsePacket %s, reference %s", i, describe(got[i]), describe(ref[i].Payload))
		}
	}
	// from first principles: intact frames before the first affected one, nothing else
	affected, _ := plan.Fault.FirstAffected(layout)
	if firstBad < affected {
		affected = firstBad
	}
	// Two situations in which an altered stream may legitimately parse further than the first affected
	// frame, so that only the differential comparison above applies: a resent stretch of an unencrypted
	// stream can be a well-formed frame again (the cipher stream is what prevents replays), and a bit
	// flip or byte change inside the length field of a frame whose length was out of range on purpose can
	// repair it (0 -> 64).
	replayPossible := plan.Fault.Kind == adnlsrv.FaultDup && !useCTR
	if fk, ff := plan.Fault.FirstAffected(layout); plan.Fault.Kind != adnlsrv.FaultNone && fk < len(frames) && frames[fk].liar && ff == adnlsrv.FieldLength {
		replayPossible = true
	}
	for i, p := range got {
		if i >= len(frames) || !bytes.Equal(p, frames[i].payload) {
			if replayPossible {
				break
			}
			return fmt.Errorf("packet %d delivered as %s: not what frame %d carried", i, describe(p), i)
		}
		if i >= affected && !replayPossible {
			return fmt.Errorf("packet %d (%s) delivered although the stream is altered from frame %d on", i, describe(p), affected)
		}
	}
	if len(got) < affected {
		return fmt.Errorf("only %d of the %d intact frames were delivered (error %q)", len(got), affected, gerr)
	}
	return nil
}

var parseCheck = &core.Check{Name: "c11/parse", Quick: 6000, Thorough: 600000, Fn: func(c *core.Ctx) error {
	n := c.Range("nframes", 1, 12)
	useCTR := c.Intn("ctr", 4) != 0
	var seed uint64
	if useCTR {
		seed = c.U64("ctr.seed")
	}
	bigAt := -1
	if rare(c, "big", core.Scale(300, 60)) {
		bigAt = c.Choose("bigat", n)
		c.Class("8 MiB boundary frame")
	}
	var frames []frameSpec
	var desc []string
	for i := 0; i < n; i++ {
		if rare(c, "liar", 12) {
			l := []uint32{0, 1, 31, 63, clientMaxLength + 1, 1 << 24, 0x7fffffff, 0x80000000, 0xffffffff}[c.Choose("liar.len", 9)]
			frames = append(frames, frameSpec{liar: true, length: l})
			desc = append(desc, fmt.Sprintf("length=%d!", l))
			c.Class("length field out of range")
			continue
		}
		p := c.Content("payload", drawSize(c, "size", i == bigAt))
		frames = append(frames, frameSpec{payload: p})
		desc = append(desc, fmt.Sprint(len(p)))
	}
	_, layout, _ := buildStream(frames)
	plan := drawPlan(c, layout, false)
	classifyPlan(c, layout, plan)
	if useCTR {
		c.Class("ctr decryptor")
	} else {
		c.Class("identity decryptor")
	}
	c.Note("frames", strings.Join(desc, " "))
	c.Note("ctr", useCTR)
	c.Note("cuts", fmt.Sprint(plan.Cuts))
	c.Note("fault", plan.Fault.String())
	if n >= 3 && splitsInsideFrames(layout, plan.Cuts) >= 1 || plan.Fault.Kind != adnlsrv.FaultNone {
		c.NonTrivial(desc, useCTR, seed, fmt.Sprint(plan))
	}
	return checkParse(frames, plan, useCTR, seed)
}}

// gridCheck: one fixed CTR-encrypted stream of four frames (payloads of 0, 5, 1 and 70 bytes, 350 stream
// bytes); tape = kind, offset, parameter.
//
//	kind 0: one split at offset          kind 1: flip bit parameter (0..7) of byte offset
//	kind 2: xor byte offset with parameter (1..255)     kind 3: truncate at offset
//	kind 4: resend the parameter (1..) bytes before offset
var gridFrames = func() []frameSpec {
	var out []frameSpec
	for i, n := range []int{0, 5, 1, 70} {
		p := make([]byte, n)
		core.NewSplitMix(uint64(77 + i)).Fill(p)
		out = append(out, frameSpec{payload: p})
	}
	return out
}()

const gridTotal = 4*adnlsrv.FrameOverhead + 76

var gridCheck = &core.Check{Name: "c11/grid", Fn: func(c *core.Ctx) error {
	kind := c.Intn("kind", 5)
	off := c.Intn("offset", gridTotal+1)
	par := c.Intn("parameter", 256)
	var plan adnlsrv.Plan
	switch kind {
	case 0:
		plan.Cuts = []adnlsrv.Cut{{Off: off}}
	case 1:
		plan.Fault = adnlsrv.Fault{Kind: adnlsrv.FaultFlipBit, Off: off % gridTotal, Bit: uint(par % 8)}
	case 2:
		plan.Fault = adnlsrv.Fault{Kind: adnlsrv.FaultReplace, Off: off % gridTotal, Mask: byte(par%255 + 1)}
	case 3:
		plan.Fault = adnlsrv.Fault{Kind: adnlsrv.FaultTruncate, Off: off}
	case 4:
		if off == 0 {
			off = 1
		}
		plan.Fault = adnlsrv.Fault{Kind: adnlsrv.FaultDup, Off: off, Len: 1 + par%off}
	}
	c.Note("plan", fmt.Sprint(plan))
	c.NonTrivial(kind, off, par)
	return checkParse(gridFrames, plan, true, 0xadd1)
}}

func TestProp(t *testing.T) {
	t.Run("parse", func(t *testing.T) { core.Run(t, parseCheck) })
	t.Run("conn", func(t *testing.T) {
		core.Run(t, connCheck)
		core.Extra(connCheck.Name, "connections", totalConns.Load())
		core.Extra(connCheck.Name, "packets", totalPackets.Load())
		core.Extra(connCheck.Name, "connections with a fault", totalFaults.Load())
	})
}

func TestEnum(t *testing.T) {
	core.RunEnum(t, gridCheck, fmt.Sprintf("one CTR stream of 4 frames (%d bytes): every single split point, every single-bit flip, byte xor with 01/80/ff, every truncation point, resend of up to 68 preceding bytes at every offset", gridTotal),
		func(yield func(...uint64) bool) {
			for off := 0; off <= gridTotal; off++ {
				if !yield(0, uint64(off), 0) || !yield(3, uint64(off), 0) {
					return
				}
				for _, n := range []uint64{0, 3, 67} {
					if off > 0 && !yield(4, uint64(off), n) {
						return
					}
				}
			}
			for off := 0; off < gridTotal; off++ {
				for bit := 0; bit < 8; bit++ {
					if !yield(1, uint64(off), uint64(bit)) {
						return
					}
				}
				for _, m := range []uint64{0, 0x7f, 0xfe} { // mask = m+1
					if !yield(2, uint64(off), m) {
						return
					}
				}
			}
		})
}

func TestReplay(t *testing.T) {
	core.Replay(t, parseCheck, connCheck, gridCheck, limitCheck, burstCheck, confirmCheck, redialCheck, keyShapeCheck, stallCheck, serverPingCheck)
}
