package c11

// The handshake confirmation (frame 0 of the server's stream, 68 bytes on the wire) damaged at every position.
// "A frame whose length, nonce, payload or checksum was altered in transit is never delivered as a valid
// packet" applies to the confirmation as to any other frame: a client that got a damaged confirmation has not
// completed the handshake on that connection. If the client answers the failure by dialling again from inside
// NewConnection, that second connection is undamaged and the reference server completes the handshake on it
// (see runConn): then NewConnection has to succeed, because "a client connecting to a server that implements
// the specification completes the handshake" holds for that attempt. A client that gives up after the first
// attempt (the unchanged library) has to return an error.

import (
	"fmt"
	"testing"

	"verifharness/internal/adnlsrv"
	"verifharness/internal/core"
)

// confirmCheck: tape = kind, offset, seed.
//
//	kind 0: the server's stream ends after offset bytes (0..68; 68 = the whole confirmation arrives and the
//	        connection must come up, the 5-byte packet behind it is lost)
//	kind 1: one bit (chosen by the seed) of byte offset (0..67) of the confirmation is inverted
//	kind 2: byte offset (0..67) is xored with a non-zero mask chosen by the seed
//	kind 3: the bytes before offset (1..60 and 68, at most 16 of them) are sent a second time (see dupOffset)
var confirmCheck = &core.Check{Name: "c11/confirm", Fn: func(c *core.Ctx) error {
	kind := c.Intn("kind", 4)
	off := c.Intn("offset", adnlsrv.FrameOverhead+1)
	seed := c.U64("seed")
	sm := core.NewSplitMix(seed ^ 0xc0f1)
	s := &connScript{keySeed: seed, senders: 1}
	s.server = []srvFrame{{payload: fillPayload(seed+1, 5)}}
	s.client = [][]byte{fillPayload(seed+2, 7)}
	s.order = []bool{true, false}
	s.layout = adnlsrv.Layout{0, 5}
	switch kind {
	case 0:
		s.plan.Fault = adnlsrv.Fault{Kind: adnlsrv.FaultTruncate, Off: off}
	case 1:
		s.plan.Fault = adnlsrv.Fault{Kind: adnlsrv.FaultFlipBit, Off: off % adnlsrv.FrameOverhead, Bit: uint(sm.Intn(8))}
	case 2:
		s.plan.Fault = adnlsrv.Fault{Kind: adnlsrv.FaultReplace, Off: off % adnlsrv.FrameOverhead, Mask: byte(1 + sm.Intn(255))}
	case 3:
		if off == 0 {
			off = 1
		}
		n := 1 + sm.Intn(16)
		if n > off {
			n = off
		}
		s.plan.Fault = adnlsrv.Fault{Kind: adnlsrv.FaultDup, Off: off, Len: n}
	}
	k, f := s.plan.Fault.FirstAffected(s.layout)
	c.Note("connection", s.String())
	if k == 0 {
		c.Class(fmt.Sprintf("confirmation: %v in %v", s.plan.Fault.Kind, f))
	} else {
		c.Class(fmt.Sprintf("confirmation intact, %v right behind it", s.plan.Fault.Kind))
	}
	c.NonTrivial(kind, off, seed)
	c.Checkpoint()
	totalConns.Add(1)
	totalPackets.Add(2)
	totalFaults.Add(1)
	return runConn(s)
}}

func TestConfirm(t *testing.T) {
	core.RunEnum(t, confirmCheck, fmt.Sprintf("the %d-byte handshake confirmation: cut after every number of bytes 0..%d, one bit inverted in every byte, every byte xored with a mask, a resend of up to 16 bytes before every offset but the last seven of the frame; server key, bit, mask and resend length from the run seed", adnlsrv.FrameOverhead, adnlsrv.FrameOverhead),
		func(yield func(...uint64) bool) {
			seeds := core.NewSplitMix(core.Seed() ^ 0xc0f1c11)
			for off := 0; off <= adnlsrv.FrameOverhead; off++ {
				for kind := 0; kind < 4; kind++ {
					if kind != 0 && kind != 3 && off == adnlsrv.FrameOverhead || kind == 3 && dupOffset(adnlsrv.Layout{0, 5}, off) != off || kind == 3 && off == 0 {
						continue
					}
					if !yield(uint64(kind), uint64(off), seeds.Next()) {
						return
					}
				}
			}
			core.Extra(confirmCheck.Name, "connections made over a second dial after a damaged confirmation", redialsCompleted.Load())
		})
}
