package c11

// A burst of server->client packets that reaches the client before the consumer of Responses() picks them up.
// "Every packet sent in either direction is received with exactly the payload that was sent" does not depend on
// how quickly the application reads: a packet that arrived intact has to come out of Responses(), after the
// packets sent before it and before the packets sent after it, whether the consumer was waiting for it or not.

import (
	"encoding/binary"
	"fmt"
	"testing"
	"time"

	"verifharness/internal/adnlsrv"
	"verifharness/internal/core"
)

// burstCheck: tape = mode, number of packets, milliseconds, seed.
//
//	mode 0: the consumer starts to read Responses() so many milliseconds after NewConnection returned
//	mode 1: the consumer reads from the start and sleeps so many milliseconds after each of the first 100
//	        packets (after that it reads as fast as it can)
//
// One live connection against the reference server, no cuts, no fault. Right after the confirmation the
// server writes the given number of packets back to back: packet i carries i in its first four bytes, then
// 4..123 content bytes; about one frame in sixteen more is a tcp.pong, which the connection keeps to itself.
// Meanwhile the client sends three small packets. All numbered packets must come out of Responses(), in the
// order sent and nothing else; the wait for them is measured from the last packet that did come out (see
// runConn), so the speed of the consumer or of the machine cannot fail the case.
var burstCheck = &core.Check{Name: "c11/burst", Fn: func(c *core.Ctx) error {
	mode := c.Intn("mode", 2)
	n := 1 + c.Intn("packets", 4096)
	ms := 1 + c.Intn("ms", 1000)
	seed := c.U64("seed")
	c.Note("mode", []string{"consumer starts late", "consumer reads slowly"}[mode])
	c.Note("packets from the server", n)
	c.Note("milliseconds", ms)
	c.Note("seed", seed)
	switch {
	case n <= 32:
		c.Class("burst of up to 32 packets")
	case n <= 150:
		c.Class("burst of 33..150 packets")
	default:
		c.Class("burst of more than 150 packets")
	}
	c.Class([]string{"consumer starts late", "consumer reads slowly"}[mode])
	c.NonTrivial(mode, n, ms, seed)

	s := &connScript{keySeed: seed, senders: 1}
	if mode == 0 {
		s.consumerDelay = time.Duration(ms) * time.Millisecond
	} else {
		s.consumerPause, s.pauseFirst = time.Duration(ms)*time.Millisecond, 100
	}
	sm := core.NewSplitMix(seed ^ 0xb0257)
	s.layout = adnlsrv.Layout{0}
	for i := 0; i < n; i++ {
		if sm.Intn(16) == 0 {
			s.server = append(s.server, srvFrame{payload: adnlsrv.Pong(sm.Next()), pong: true})
			s.layout = append(s.layout, 12)
			s.order = append(s.order, true)
		}
		p := make([]byte, 8+sm.Intn(120))
		sm.Fill(p)
		binary.LittleEndian.PutUint32(p, uint32(i)) // also keeps the first word clear of every tcp.* constructor id
		s.server = append(s.server, srvFrame{payload: p})
		s.layout = append(s.layout, len(p))
		s.order = append(s.order, true)
	}
	for i := 0; i < 3; i++ {
		s.client = append(s.client, fillPayload(seed+uint64(i)+1, 5+40*i))
		s.order = append(s.order, false)
	}
	c.Checkpoint()
	totalConns.Add(1)
	totalPackets.Add(int64(len(s.order)))
	if err := runConn(s); err != nil {
		return fmt.Errorf("%d packets from the server in one burst, %s: %v", n, c11BurstMode(s), err)
	}
	return nil
}}

func c11BurstMode(s *connScript) string {
	if s.consumerDelay > 0 {
		return fmt.Sprintf("Responses() read from %v after the connect on", s.consumerDelay)
	}
	return fmt.Sprintf("the reader of Responses() sleeps %v after each of the first %d packets", s.consumerPause, s.pauseFirst)
}

// burstCases: quick tier two cases, sizes from the run seed (33..150 packets to a consumer that starts 100..300
// ms late; 1000..2500 packets to a consumer that needs 2 ms for each of the first 100). The thorough tier
// adds the sizes around 32, 64, 128 packets, and larger bursts.
func burstCases(yield func(...uint64) bool) {
	seeds := core.NewSplitMix(core.Seed() ^ 0xb0257c11)
	r := func(lo, hi int) uint64 { return uint64(lo + seeds.Intn(hi-lo+1)) }
	// tape values are reduced modulo the range of the draw: packets = 1 + v%4096, ms = 1 + v%1000
	if !yield(0, r(33, 150)-1, r(100, 300)-1, seeds.Next()) {
		return
	}
	if !yield(1, r(1000, 2500)-1, 2-1, seeds.Next()) {
		return
	}
	if !core.Thorough() {
		return
	}
	for _, n := range []int{1, 32, 33, 34, 64, 65, 66, 128, 129, 150, 257, 600, 1025, 2500} {
		if !yield(0, uint64(n-1), r(100, 300)-1, seeds.Next()) {
			return
		}
	}
	for _, n := range []int{40, 80, 150, 400, 4000} {
		if !yield(1, uint64(n-1), r(1, 3)-1, seeds.Next()) {
			return
		}
	}
}

func TestBurst(t *testing.T) {
	core.RunEnum(t, burstCheck, "", burstCases)
}
