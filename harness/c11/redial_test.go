package c11

// What the client puts on the wire after a connection was lost and made again.
//
// The reference server completes the handshake, reads a drawn number of packets and then ends the connection
// (RST or FIN). The client keeps being handed numbered packets. Whatever the client does about the lost
// connection (fail the Send and reconnect in the background, redial inline, ...), the reference server serves
// every further connection of the same client by the book, ends the second one at another drawn point in some
// cases, and judges every byte it reads on any of them:
//
//   - "afterwards every packet sent in either direction is received with exactly the payload that was sent"
//     holds on the second and third connection as on the first. Every frame the server reads there has to be
//     a well-formed frame (length field in range, checksum over nonce and payload correct) - a frame that is
//     not cannot be anything the client was asked to send - and has to carry the connection's own 12-byte
//     tcp.ping or a payload that was handed to Connection.Send, once, in the order of the Send calls.
//   - A packet for which Send returned nil between two packets that arrived on one connection went into the
//     same byte stream between them, so it has to have arrived as well; and a packet accepted after one that
//     arrived on a connection which is still up at the end, while the client has made no newer one, was
//     written to that connection and has to arrive.
//   - What comes out of Responses() has to be what the server wrote (per connection in order, nothing twice,
//     nothing else); and what the server wrote on the last connection, if that is still up at the end and no
//     newer one was made, has to come out.
//
// No statement is made about packets for which Send returned an error, about packets accepted into a
// connection that was lost afterwards (the server ended it, or the client closed it), or about how long the
// client takes to come back: a client that is not back within the wait makes the case inconclusive.

import (
	"bytes"
	"context"
	"encoding/binary"
	"errors"
	"fmt"
	"strings"
	"sync"
	"sync/atomic"
	"testing"
	"time"

	"github.com/tonkeeper/tongo/liteclient"

	"verifharness/internal/adnlsrv"
	"verifharness/internal/core"
)

// redialDrop says where the server ends one connection.
type redialDrop struct {
	after   int  // data packets of the client read on this connection before it is ended (0: right after the confirmation)
	rst     bool // RST (data in flight may be lost) or an orderly close (FIN)
	delayUs int  // after == 0: pause between the confirmation (connection 1: the return of NewConnection) and the end
}

type redialScript struct {
	keySeed     uint64
	drops       []redialDrop // drops[n-1]: the fate of the n-th connection the client makes; later ones are kept
	sizes       []int        // payload size of client packet i = sizes[i % len(sizes)] (at least 8)
	contentSeed uint64
	paceUs      int  // pause between two Send calls
	tail        int  // the case ends when so many packets have arrived on connections the server keeps
	echoEvery   int  // the server writes one numbered frame for every echoEvery-th data packet it reads (0: never)
	idle        bool // the client is handed nothing between the loss of connection 1 and the next connection (keep-alive only)
}

func (s *redialScript) String() string {
	var sb strings.Builder
	fmt.Fprintf(&sb, "server key seed %#x; content seed %#x", s.keySeed, s.contentSeed)
	for i, d := range s.drops {
		kind := "closed (FIN)"
		if d.rst {
			kind = "reset (RST)"
		}
		if d.after == 0 {
			fmt.Fprintf(&sb, "; connection %d %s %d us after the handshake", i+1, kind, d.delayUs)
		} else {
			fmt.Fprintf(&sb, "; connection %d %s after %d packets of the client", i+1, kind, d.after)
		}
	}
	fmt.Fprintf(&sb, "; later connections kept; client payload sizes %v (cyclic), %d us between Send calls; ends after %d packets on a kept connection", s.sizes, s.paceUs, s.tail)
	if s.echoEvery > 0 {
		fmt.Fprintf(&sb, "; the server writes a frame for every %d. packet it reads", s.echoEvery)
	}
	if s.idle {
		sb.WriteString("; nothing is handed to Send between the loss of connection 1 and the client's next connection")
	}
	return sb.String()
}

// clientPayload is packet i of the case: its number, a tag of the case, then content from the seed.
func (s *redialScript) clientPayload(i int) []byte {
	n := s.sizes[i%len(s.sizes)]
	if n < 8 {
		n = 8
	}
	p := make([]byte, n)
	core.NewSplitMix(s.contentSeed + uint64(i)*0x9e3779b97f4a7c15).Fill(p)
	binary.LittleEndian.PutUint32(p, uint32(i)) // a small number: never the constructor id of a tcp.* message
	binary.LittleEndian.PutUint32(p[4:], uint32(s.contentSeed))
	return p
}

// serverPayload is the seq-th frame the server writes on its dial-th connection.
func (s *redialScript) serverPayload(dial, seq int) []byte {
	p := make([]byte, 8+(dial*7+seq*13)%90)
	core.NewSplitMix(s.contentSeed ^ uint64(dial)<<32 ^ uint64(seq) ^ 0x5e57).Fill(p)
	binary.LittleEndian.PutUint32(p, uint32(dial)) // small numbers again
	binary.LittleEndian.PutUint32(p[4:], uint32(seq))
	return p
}

// redialConn is what the server saw on one established connection.
type redialConn struct {
	dial    int
	data    []int // numbers of the client packets read, in order of arrival
	pings   int
	wrote   int   // frames written (WriteFrame returned nil)
	ended   bool  // the server's read loop is over
	dropped bool  // ... because the script ended the connection
	readErr error // ... because reading failed (io.EOF: the client closed at a frame boundary)
}

type redialState struct {
	mu        sync.Mutex
	conns     []*redialConn
	violation string // the first thing the server read that the client cannot have been asked to send
	keptData  int    // packets read on kept connections
}

func (st *redialState) fail(format string, args ...any) {
	if st.violation == "" {
		st.violation = fmt.Sprintf(format, args...)
	}
}

var (
	redialInconclusive atomic.Int64 // cases that ended without a packet on a kept connection (no statement beyond well-formedness)
	redialRemade       atomic.Int64 // connections of a client beyond its first on which the server read at least one packet
	redialCases        atomic.Int64
)

const (
	redialMaxPackets = 60000
	redialMaxDials   = 12
)

func runRedial(s *redialScript) error {
	priv := keyFromSeed(s.keySeed)
	st := &redialState{}
	connected := make(chan struct{}) // closed when NewConnection has returned
	release := make(chan struct{})   // closed at the end of the case
	var releaseOnce sync.Once
	endCase := func() { releaseOnce.Do(func() { close(release) }) }
	defer endCase()
	var handed atomic.Int64 // number of packets for which Send has been called (or is being called)

	srv, lerr := adnlsrv.Listen(priv, adnlsrv.Hooks{
		Dial: func(n int) adnlsrv.DialPlan {
			if n > redialMaxDials {
				return adnlsrv.DialPlan{Kind: adnlsrv.DialTarpit}
			}
			return adnlsrv.DialPlan{Kind: adnlsrv.DialServe}
		},
		Serve: func(cn *adnlsrv.Conn) {
			lg := &redialConn{dial: cn.Dial}
			st.mu.Lock()
			st.conns = append(st.conns, lg)
			st.mu.Unlock()
			var drop *redialDrop
			if cn.Dial <= len(s.drops) {
				drop = &s.drops[cn.Dial-1]
			}
			end := func() {
				if drop.rst {
					cn.Reset()
				} else {
					cn.Close()
				}
				st.mu.Lock()
				lg.ended, lg.dropped = true, true
				st.mu.Unlock()
			}
			if drop != nil && drop.after == 0 {
				if cn.Dial == 1 {
					select { // the first connection is ended only once the client has it
					case <-connected:
					case <-release:
						return
					}
				}
				select {
				case <-time.After(time.Duration(drop.delayUs) * time.Microsecond):
				case <-release:
				}
				end()
				return
			}
			stopped := false
			cn.SetAutoPong(false)
			err := cn.Loop(func(f adnlsrv.Frame) bool {
				if id, isPing := adnlsrv.ParsePing(f.Payload); isPing { // the connection's own keep-alive
					st.mu.Lock()
					lg.pings++
					st.mu.Unlock()
					cn.WriteFrame(adnlsrv.Pong(id))
					return true
				}
				st.mu.Lock()
				p := f.Payload
				ok := len(p) >= 8
				var i int
				if ok {
					i = int(binary.LittleEndian.Uint32(p))
					ok = int64(i) < handed.Load() && bytes.Equal(p, s.clientPayload(i))
				}
				if !ok {
					st.fail("connection %d of the client: frame %d (pings not counted) is well-formed and carries %s, which was never handed to Send", cn.Dial, len(lg.data), describe(p))
					st.mu.Unlock()
					return false
				}
				lg.data = append(lg.data, i)
				if len(lg.data) == 1 && cn.Dial > 1 {
					redialRemade.Add(1)
				}
				if drop == nil {
					st.keptData++
				}
				echo := s.echoEvery > 0 && len(lg.data)%s.echoEvery == 0
				seq := lg.wrote
				dropNow := drop != nil && len(lg.data) >= drop.after
				st.mu.Unlock()
				if echo && cn.WriteFrame(s.serverPayload(cn.Dial, seq)) == nil {
					st.mu.Lock()
					lg.wrote++
					st.mu.Unlock()
				}
				if dropNow {
					stopped = true
					end()
					return false
				}
				return true
			})
			if stopped {
				return
			}
			st.mu.Lock()
			switch {
			case errors.Is(err, adnlsrv.ErrLength), errors.Is(err, adnlsrv.ErrChecksum):
				// A conforming server ends the connection here (Serve returns).
				st.fail("connection %d of the client: after %d well-formed frames with data (and %d pings) the server read a frame that is not well-formed: %v", cn.Dial, len(lg.data), lg.pings, err)
			}
			lg.ended, lg.readErr = true, err
			st.mu.Unlock()
		},
	})
	if lerr != nil {
		return fmt.Errorf("INFRA: listen: %v", lerr)
	}
	clientMade := false
	defer func() {
		endCase()
		if clientMade {
			srv.Retire(1) // the client's next dial is parked for ever, see runConn
		} else {
			srv.Close()
		}
	}()
	report := func(format string, args ...any) error {
		var ev strings.Builder
		for _, e := range srv.Events() {
			fmt.Fprintf(&ev, "\n    server: dial %d %s", e.Dial, e.What)
		}
		return fmt.Errorf("%s\n  script: %v%s", fmt.Sprintf(format, args...), s, ev.String())
	}

	ctx, cancel := context.WithTimeout(context.Background(), waitLimit)
	defer cancel()
	var conn *liteclient.Connection
	var cerr error
	if bad := core.Protect(func() error {
		conn, cerr = liteclient.NewConnection(ctx, []byte(srv.PublicKey()), srv.Addr())
		return nil
	}); bad != nil {
		return report("NewConnection: %v", bad)
	}
	if cerr != nil {
		if ctx.Err() != nil {
			redialInconclusive.Add(1) // the machine was too slow: no statement
			return nil
		}
		return report("NewConnection failed against a conforming server: %v", cerr)
	}
	clientMade = true

	// the consumer of Responses() reads from the start to the end of the case
	var gmu sync.Mutex
	var got [][]byte
	stop := make(chan struct{})
	consumerDone := make(chan struct{})
	go func() {
		defer close(consumerDone)
		for {
			select {
			case p := <-conn.Responses():
				gmu.Lock()
				got = append(got, p.Payload)
				gmu.Unlock()
			case <-stop:
				return
			}
		}
	}()
	defer func() { close(stop); <-consumerDone }()
	close(connected)

	snapshot := func() (violation string, kept, dials int) {
		st.mu.Lock()
		defer st.mu.Unlock()
		return st.violation, st.keptData, len(st.conns)
	}

	sendOK := make([]bool, 0, 256) // sendOK[i]: Send of packet i returned nil
	start := time.Now()
	if s.idle {
		// Only the connection's own keep-alive notices the loss: wait for the client's next connection.
		for {
			v, _, dials := snapshot()
			if v != "" || dials > 1 || time.Since(start) > waitLimit {
				break
			}
			time.Sleep(2 * time.Millisecond)
		}
	}
	var sendBad error
	for i := 0; i < redialMaxPackets; i++ {
		v, kept, _ := snapshot()
		if v != "" || kept >= s.tail || time.Since(start) > 2*waitLimit {
			break
		}
		handed.Store(int64(i) + 1)
		var e error
		sendBad = core.Protect(func() error {
			pk, perr := liteclient.NewPacket(s.clientPayload(i))
			if perr != nil {
				return fmt.Errorf("NewPacket: %v", perr)
			}
			e = conn.Send(pk)
			return nil
		})
		if sendBad != nil {
			break
		}
		sendOK = append(sendOK, e == nil)
		pause := time.Duration(s.paceUs) * time.Microsecond
		if e != nil && pause < 300*time.Microsecond {
			pause = 300 * time.Microsecond // the connection is being made again: do not spin
		}
		if pause > 0 {
			time.Sleep(pause)
		}
	}
	if sendBad != nil {
		return report("Connection.Send of packet %d: %v", len(sendOK), sendBad)
	}

	// What is still owed: everything Send accepted after a packet that arrived on the newest connection, and
	// every frame the server wrote there - as long as that connection is up and remains the newest. The wait
	// is measured from the last sign of progress.
	type view struct {
		violation string
		conns     []redialConn
	}
	look := func() view {
		st.mu.Lock()
		defer st.mu.Unlock()
		v := view{violation: st.violation}
		for _, lg := range st.conns {
			cp := *lg
			cp.data = append([]int{}, lg.data...)
			v.conns = append(v.conns, cp)
		}
		return v
	}
	// owed returns the number of things still missing on the newest connection (0 when no statement applies).
	owed := func(v view, final [][]byte) (missingPackets []int, missingFrames int) {
		if len(v.conns) == 0 || srv.Dials() != len(v.conns) {
			return nil, 0 // a dial the server has not served (yet): the newest connection may not be the client's
		}
		last := v.conns[len(v.conns)-1]
		if last.ended || last.dial != srv.Dials() {
			return nil, 0
		}
		if len(last.data) > 0 {
			have := map[int]bool{}
			for _, i := range last.data {
				have[i] = true
			}
			for b := last.data[0] + 1; b < len(sendOK); b++ {
				if sendOK[b] && !have[b] {
					missingPackets = append(missingPackets, b)
				}
			}
		}
		fromLast := 0
		for _, p := range final {
			if len(p) >= 8 && int(binary.LittleEndian.Uint32(p)) == last.dial {
				fromLast++
			}
		}
		if fromLast < last.wrote {
			missingFrames = last.wrote - fromLast
		}
		return
	}
	finalGot := func() [][]byte { gmu.Lock(); defer gmu.Unlock(); return append([][]byte{}, got...) }
	progress := func(v view, nGot int) int {
		n := nGot
		for _, c := range v.conns {
			n += len(c.data) + 1
		}
		return n + srv.Dials()
	}
	lastProgress, lastAt, stalled := -1, time.Now(), false
	for {
		v := look()
		if v.violation != "" {
			break
		}
		final := finalGot()
		mp, mf := owed(v, final)
		if len(mp) == 0 && mf == 0 {
			break
		}
		if p := progress(v, len(final)); p != lastProgress {
			lastProgress, lastAt = p, time.Now()
		} else if time.Since(lastAt) > waitLimit {
			stalled = true
			break
		}
		time.Sleep(500 * time.Microsecond)
	}
	time.Sleep(5 * time.Millisecond) // anything the client still delivers although nothing is owed

	final := finalGot() // first: every frame in it was (being) written when the server is looked at
	v := look()
	if v.violation != "" {
		return report("%s", v.violation)
	}
	// per connection: the order of the Send calls, nothing twice, no accepted packet missing between two that arrived
	seen := map[int]int{}
	for _, c := range v.conns {
		for k, i := range c.data {
			if d, dup := seen[i]; dup {
				return report("packet %d, handed to Send once, arrived twice (connections %d and %d of the client)", i, d, c.dial)
			}
			seen[i] = c.dial
			if k > 0 && i < c.data[k-1] {
				return report("connection %d of the client: packet %d arrived after packet %d; Send was called for them in the other order", c.dial, i, c.data[k-1])
			}
		}
	}
	for _, c := range v.conns {
		for k := 1; k < len(c.data); k++ {
			for b := c.data[k-1] + 1; b < c.data[k]; b++ {
				if _, arrived := seen[b]; sendOK[b] && !arrived {
					return report("connection %d of the client: packets %d and %d arrived, packet %d (%s), for which Send returned nil between them, arrived on no connection", c.dial, c.data[k-1], c.data[k], b, describe(s.clientPayload(b)))
				}
			}
		}
	}
	// Responses(): only what the server wrote, per connection in order
	next := map[int]int{}
	wrote := map[int]int{}
	for _, c := range v.conns {
		wrote[c.dial] = c.wrote
	}
	for k, p := range final {
		okp := len(p) >= 8
		var dial, seq int
		if okp {
			dial, seq = int(binary.LittleEndian.Uint32(p)), int(binary.LittleEndian.Uint32(p[4:]))
			// wrote counts completed writes; a frame may come out while its write is still returning
			w, served := wrote[dial]
			okp = served && seq <= w && bytes.Equal(p, s.serverPayload(dial, seq))
		}
		if !okp {
			return report("Responses() delivered packet %d = %s, which the server sent on no connection", k, describe(p))
		}
		if seq != next[dial] {
			return report("Responses() delivered frame %d of connection %d where frame %d of that connection was due (packet %d of Responses())", seq, dial, next[dial], k)
		}
		next[dial]++
	}
	// Only after a wait that ended without progress: the state of the server first, then what came out.
	if mp, mf := owed(v, finalGot()); stalled && (len(mp) > 0 || mf > 0) {
		last := v.conns[len(v.conns)-1]
		if len(mp) > 0 {
			return report("connection %d of the client is up and is the newest one the client made; packet %d arrived on it; Send returned nil for %d later packets that did not arrive within %v (first: packet %d, %s)", last.dial, last.data[0], len(mp), waitLimit, mp[0], describe(s.clientPayload(mp[0])))
		}
		return report("connection %d of the client is up and is the newest one the client made; the server wrote %d frames on it, %d of them did not come out of Responses() within %v", last.dial, last.wrote, mf, waitLimit)
	}
	kept := 0
	for _, c := range v.conns {
		if c.dial > len(s.drops) {
			kept += len(c.data)
		}
	}
	if kept == 0 {
		redialInconclusive.Add(1) // the client did not come back in time (or the case was cut short)
	}
	return nil
}

var redialCheck = &core.Check{Name: "c11/redial", Quick: 48, Thorough: 1200, Fn: func(c *core.Ctx) error {
	s := &redialScript{keySeed: c.U64("keyseed"), contentSeed: c.U64("contentseed")}
	for n, i := 1+c.Weighted("drops", 3, 1), 0; i < n; i++ {
		d := redialDrop{rst: c.Weighted("drop.kind", 2, 1) == 0}
		if c.Weighted("drop.point", 2, 3) == 0 {
			d.delayUs = c.Range("drop.delay.us", 0, 3000)
		} else {
			d.after = c.Range("drop.after", 1, 4)
		}
		s.drops = append(s.drops, d)
	}
	for i, n := 0, c.Range("nsizes", 1, 6); i < n; i++ {
		if rare(c, "size.any", 4) {
			s.sizes = append(s.sizes, c.Range("size.n", 8, 3000))
		} else {
			s.sizes = append(s.sizes, c.OneOf("size", 8, 12, 63, 64, 65, 200, 1024))
		}
	}
	s.paceUs = c.OneOf("pace.us", 0, 100, 500, 2000)
	s.tail = c.Range("tail", 2, 6)
	if c.Bool("echo") {
		s.echoEvery = c.Range("echo.every", 1, 3)
	}
	if core.Thorough() && rare(c, "idle", 12) {
		s.idle = true
		s.drops[0].after = 0 // nothing is sent, so the connection can only be ended at once
		c.Class("the keep-alive ping is the first thing sent after the loss")
	}
	for i, d := range s.drops {
		kind := "closed"
		if d.rst {
			kind = "reset"
		}
		at := "right after the handshake"
		if d.after > 0 {
			at = "after packets of the client"
		}
		c.Class(fmt.Sprintf("connection %d %s %s", i+1, kind, at))
	}
	c.Class(fmt.Sprintf("connections ended by the server: %d", len(s.drops)))
	c.Note("script", s.String())
	c.NonTrivial(s.String())
	c.Checkpoint()
	redialCases.Add(1)
	return runRedial(s)
}}

func TestRedial(t *testing.T) {
	core.Run(t, redialCheck)
	core.Extra(redialCheck.Name, "cases", redialCases.Load())
	core.Extra(redialCheck.Name, "connections beyond a client's first on which the server read packets", redialRemade.Load())
	core.Extra(redialCheck.Name, "cases without a packet on a kept connection (no statement)", redialInconclusive.Load())
}
