package c11

import (
	"crypto/ed25519"
	"fmt"
	"testing"
	"time"

	"verifharness/internal/adnlsrv"
	"verifharness/internal/core"
)

// c11/key-shapes: the handshake works for every valid server key, also for the rare byte shapes of a public
// key (first and last byte at their extremes, the sign bit of x set or clear, encodings just below the field
// prime's first byte 0xed together with a last byte of 0x7f / 0xff). Keys of each shape are found by search
// from the run seed; with each one a client connects, sends one packet and receives one.
// tape: shape, search start.
var keyShapes = []struct {
	name string
	ok   func(pub ed25519.PublicKey) bool
}{
	{"last byte & 0x7f == 0x7f", func(p ed25519.PublicKey) bool { return p[31]&0x7f == 0x7f }},
	{"last byte & 0x7f == 0x7f and first byte >= 0xed", func(p ed25519.PublicKey) bool { return p[31]&0x7f == 0x7f && p[0] >= 0xed }},
	{"last byte 0xff", func(p ed25519.PublicKey) bool { return p[31] == 0xff }},
	{"last byte 0x00", func(p ed25519.PublicKey) bool { return p[31] == 0x00 }},
	{"last byte 0x80", func(p ed25519.PublicKey) bool { return p[31] == 0x80 }},
	{"first byte 0x00", func(p ed25519.PublicKey) bool { return p[0] == 0x00 }},
	{"first byte 0xff", func(p ed25519.PublicKey) bool { return p[0] == 0xff }},
	{"first byte 0xed .. 0xff", func(p ed25519.PublicKey) bool { return p[0] >= 0xed }},
	{"first and last byte 0x00 or 0xff", func(p ed25519.PublicKey) bool {
		return (p[0] == 0 || p[0] == 0xff) && (p[31]&0x7f == 0 || p[31]&0x7f == 0x7f)
	}},
}

var keyShapeCheck = &core.Check{Name: "c11/key-shapes", Fn: func(c *core.Ctx) error {
	shape := keyShapes[c.Intn("shape", len(keyShapes))]
	start := c.U64("start")
	seed, found := start, false
	for tries := 0; tries < 400000; tries++ {
		if shape.ok(keyFromSeed(seed).Public().(ed25519.PublicKey)) {
			found = true
			break
		}
		seed++
	}
	if !found {
		c.Class("no key of this shape found in 400000 tries")
		return nil
	}
	pub := keyFromSeed(seed).Public().(ed25519.PublicKey)
	c.Note("server public key", fmt.Sprintf("%x (%s)", []byte(pub), shape.name))
	c.NonTrivial(shape.name, seed)
	s := &connScript{keySeed: seed, senders: 1}
	s.server = []srvFrame{{payload: fillPayload(seed+1, 9)}}
	s.client = [][]byte{fillPayload(seed+2, 11)}
	s.order = []bool{true, false}
	s.layout = adnlsrv.Layout{0, 9}
	c.Note("connection", s.String())
	c.Checkpoint()
	totalConns.Add(1)
	totalPackets.Add(2)
	return runConn(s)
}}

func TestKeyShapes(t *testing.T) {
	core.RunEnum(t, keyShapeCheck, fmt.Sprintf("%d rare byte shapes of the server's public key x 2 keys each, found by search from the run seed", len(keyShapes)), func(yield func(...uint64) bool) {
		sm := core.NewSplitMix(core.Seed() ^ 0x6b657973)
		for i := range keyShapes {
			for k := 0; k < 2; k++ {
				if !yield(uint64(i), sm.Next()) {
					return
				}
			}
		}
	})
}

// c11/stall: a frame that arrives in two pieces with a long pause between them (a slow link, a server that
// stalls in the middle of a large answer) is one frame all the same. The pause is shorter than the 10 s of
// silence after which the client gives a connection up. tape: where the cut is (0 inside the length field,
// 1 inside the nonce, 2 inside the payload, 3 inside the checksum), pause in ms, key seed.
var stallCheck = &core.Check{Name: "c11/stall", Fn: func(c *core.Ctx) error {
	where := c.Intn("where", 4)
	pause := time.Duration(c.Intn("pause ms", 9000)) * time.Millisecond
	seed := c.U64("seed")
	s := &connScript{keySeed: seed, senders: 1}
	s.server = []srvFrame{{payload: fillPayload(seed+1, 40)}, {payload: fillPayload(seed+2, 600)}, {payload: fillPayload(seed+3, 25)}}
	s.client = [][]byte{fillPayload(seed+4, 7)}
	s.order = []bool{true, true, true, false}
	s.layout = adnlsrv.Layout{0, 40, 600, 25}
	start := 2*adnlsrv.FrameOverhead + 40 // first byte of the 600-byte frame
	off := start + []int{2, 4 + 17, 4 + 32 + 300, 4 + 32 + 600 + 11}[where]
	s.plan.Cuts = []adnlsrv.Cut{{Off: off, Pause: pause}}
	c.Note("connection", s.String())
	c.Note("stall", fmt.Sprintf("%v after stream byte %d (%s of the second packet)", pause, off, []string{"length field", "nonce", "payload", "checksum"}[where]))
	c.NonTrivial(where, int64(pause), seed)
	c.Checkpoint()
	totalConns.Add(1)
	totalPackets.Add(4)
	return runConn(s)
}}

func TestStall(t *testing.T) {
	core.RunEnum(t, stallCheck, "a 600-byte packet cut inside its length field, nonce, payload or checksum with a pause of 2.5 s or 6 s before the rest (key from the run seed)", func(yield func(...uint64) bool) {
		sm := core.NewSplitMix(core.Seed() ^ 0x57a11)
		for where := uint64(0); where < 4; where++ {
			for _, ms := range []uint64{2500, 6000} {
				if !yield(where, ms, sm.Next()) {
					return
				}
			}
		}
	})
}
