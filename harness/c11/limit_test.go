package c11

// The last bytes below the 8 MiB frame limit, enumerated. The limit applies to the value of the length field
// (nonce + payload + checksum), so the largest legal payload has 8 MiB - 64 bytes; the length field itself is
// not counted.

import (
	"fmt"
	"testing"
	"time"

	"verifharness/internal/adnlsrv"
	"verifharness/internal/core"
)

const maxPayload = clientMaxLength - 64 // 8388544

// limitDeltas: payload size = maxPayload + delta.
var limitDeltas = []int{0, -1, -2, -3, -4, -5, +1}

// fillPayload expands a seed into n content bytes that are not a message the transport keeps to itself.
func fillPayload(seed uint64, n int) []byte {
	p := make([]byte, n)
	core.NewSplitMix(seed).Fill(p)
	if transportOwn(p, true) || transportOwn(p, false) {
		p[0] ^= 0x55
	}
	return p
}

// limitCheck: tape = mode, index into limitDeltas, seed.
//
//	mode 0: one live connection against the reference server. Both directions carry a small packet, a packet
//	        of maxPayload+delta bytes and another small packet (the packets around the large one show that the
//	        cipher streams stayed in step). For delta > 0 only the server sends the oversize frame: the client
//	        must deliver the frame before it and never the oversize one; about a client that is asked to SEND
//	        more than the limit the property says nothing, so the client sends small packets only.
//	mode 1: ParsePacket over the same three frames, plaintext, in one segment.
//	mode 2: ParsePacket behind AES-CTR, the stream cut inside the large payload and inside the length field
//	        and checksum around it.
var limitCheck = &core.Check{Name: "c11/limit", Fn: func(c *core.Ctx) error {
	mode := c.Intn("mode", 3)
	delta := limitDeltas[c.Intn("delta", len(limitDeltas))]
	seed := c.U64("seed")
	size := maxPayload + delta
	c.Note("mode", []string{"live connection", "ParsePacket plaintext", "ParsePacket ctr + cuts"}[mode])
	c.Note("payload bytes", size)
	c.Note("length field", size+64)
	c.Note("seed", seed)
	if delta > 0 {
		c.Class("frame beyond the 8 MiB limit")
	} else {
		c.Class(fmt.Sprintf("length field = 8 MiB%+d", delta))
	}
	c.NonTrivial(mode, delta, seed)
	if mode == 0 {
		s := &connScript{keySeed: seed, senders: 1}
		s.server = []srvFrame{{payload: fillPayload(seed+1, 9)}, {payload: fillPayload(seed+2, size)}, {payload: fillPayload(seed+3, 5)}}
		s.client = [][]byte{fillPayload(seed+4, 7)}
		if delta <= 0 {
			s.client = append(s.client, fillPayload(seed+5, size), fillPayload(seed+6, 3))
		}
		s.order = []bool{true, false, true, false, true, false}[:len(s.server)+len(s.client)]
		s.layout = adnlsrv.Layout{0}
		for _, f := range s.server {
			s.layout = append(s.layout, len(f.payload))
		}
		if delta > 0 {
			// a client that has refused the frame stops reading: do not wait long for the rest to be written
			s.writeWait = 2 * time.Second
		}
		c.Note("connection", s.String())
		c.Checkpoint()
		totalConns.Add(1)
		totalPackets.Add(int64(len(s.order)))
		return runConn(s)
	}
	frames := []frameSpec{{payload: fillPayload(seed+1, 9)}, {payload: fillPayload(seed+2, size)}, {payload: fillPayload(seed+3, 5)}}
	var plan adnlsrv.Plan
	if mode == 2 {
		_, layout, _ := buildStream(frames)
		sm := core.NewSplitMix(seed + 7)
		plan.Cuts = []adnlsrv.Cut{
			{Off: layout.Offset(1, adnlsrv.FieldLength, 1+sm.Intn(3))},
			{Off: layout.Offset(1, adnlsrv.FieldPayload, sm.Intn(size))},
			{Off: layout.Offset(1, adnlsrv.FieldPayload, size-1-sm.Intn(64))},
			{Off: layout.Offset(1, adnlsrv.FieldChecksum, 1+sm.Intn(31))},
			{Off: layout.Offset(2, adnlsrv.FieldLength, 1+sm.Intn(3))},
		}
		c.Note("cuts", fmt.Sprint(plan.Cuts))
	}
	return checkParse(frames, plan, mode == 2, seed+8)
}}

func TestLimit(t *testing.T) {
	core.RunEnum(t, limitCheck, fmt.Sprintf("payloads of %d (the largest legal one), %d-1 .. %d-5 and %d+1 bytes: on a live connection in both directions (the oversize one from the server only), and through ParsePacket in plaintext and behind AES-CTR with cuts", maxPayload, maxPayload, maxPayload, maxPayload),
		func(yield func(...uint64) bool) {
			seeds := core.NewSplitMix(core.Seed() ^ 0xc11)
			for mode := 0; mode < 3; mode++ {
				for di := range limitDeltas {
					if !yield(uint64(mode), uint64(di), seeds.Next()) {
						return
					}
				}
			}
		})
}
