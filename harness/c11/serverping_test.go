package c11

// c11/server-pings: the server uses its right to ping the client while the client is busy sending.
//
// tcp.ping is not reserved to the client: a conforming server may send it at any time. What the client does
// with it is its own business (answer with tcp.pong, hand it to the application, drop it); the property only
// says that the client's packets keep arriving with exactly the payload that was sent, whatever else the
// connection is doing at that moment. The reference server therefore tolerates well-formed tcp.pong frames
// from the client (Conn.SetIgnorePongs) and judges only what the property promises: every frame it reads is
// well-formed (length in range, checksum correct), every data frame is a payload that was handed to Send, each
// once, the packets of one goroutine in the order of its Send calls, and all of them arrive. In the other
// direction the numbered frames the server mixes into its pings must come out of Responses() in order and
// nothing else may (12-byte tcp.ping frames excepted: a client may pass them on or keep them).

import (
	"bytes"
	"context"
	"encoding/binary"
	"errors"
	"fmt"
	"sync"
	"sync/atomic"
	"testing"
	"time"

	"github.com/tonkeeper/tongo/liteclient"

	"verifharness/internal/adnlsrv"
	"verifharness/internal/core"
)

var stormPings, stormPongs, stormPingsOut, stormPackets atomic.Int64

const (
	stormMinSize  = 64 << 10
	stormMaxSize  = 256 << 10
	stormFastPing = 3000 // after so many pings the server slows down to one ping per 100 ms
)

// serverPingCheck: tape = goroutines (1..4), packets (1..256), microseconds between two pings, seed.
//
// One live connection against the reference server. From the confirmation on the server writes a tcp.ping
// (random id) every so many microseconds, every eighth one followed by a small numbered data frame, until it has
// read all packets of the client (after 3000 pings it goes on at one ping per 100 ms, so the link is never
// silent). Meanwhile the given number of goroutines hand the packets (64..256 KiB each, content and sizes from
// the seed, packet i by goroutine i mod goroutines) to Connection.Send. No real-time verdict: every wait ends
// only after 20 s without any progress.
var serverPingCheck = &core.Check{Name: "c11/server-pings", Fn: func(c *core.Ctx) error {
	senders := 1 + c.Intn("goroutines", 4)
	n := 1 + c.Intn("packets", 256)
	gap := time.Duration(1+c.Intn("ping gap us", 5000)) * time.Microsecond
	seed := c.U64("seed")
	c.Note("goroutines calling Send", senders)
	c.Note("client packets of 64..256 KiB", n)
	c.Note("the server pings every", gap.String())
	c.Note("seed", seed)
	c.Class(fmt.Sprintf("server pings while %d goroutine(s) send large packets", senders))
	c.NonTrivial(senders, n, int64(gap), seed)
	c.Checkpoint()
	totalConns.Add(1)
	totalPackets.Add(int64(n))
	if err := runServerPings(senders, n, gap, seed); err != nil {
		return fmt.Errorf("the server pings the client every %v while %d goroutine(s) send %d packets of 64..256 KiB (seed %#x): %v", gap, senders, n, seed, err)
	}
	return nil
}}

func runServerPings(senders, n int, gap time.Duration, seed uint64) error {
	priv := keyFromSeed(seed)
	sm := core.NewSplitMix(seed ^ 0x91a6)
	// packet i: goroutine i%senders, its (i/senders)-th packet; both numbers lead the payload
	want := make([][]byte, n)
	for i := range want {
		p := make([]byte, stormMinSize+sm.Intn(stormMaxSize-stormMinSize+1))
		sm.Fill(p)
		binary.LittleEndian.PutUint32(p, uint32(i%senders))
		binary.LittleEndian.PutUint32(p[4:], uint32(i/senders))
		want[i] = p
	}
	numbered := func(i int) []byte { // server->client data frame i
		p := make([]byte, 8+i%90)
		core.NewSplitMix(seed + uint64(i)).Fill(p)
		binary.LittleEndian.PutUint32(p, uint32(i)) // small: clear of every tcp.* constructor id
		return p
	}

	var (
		mu        sync.Mutex
		next      = make([]int, senders)
		received  int
		bad       error // the first frame that is well-formed but not what was sent
		readErr   error
		readEnded bool
		pings     int
		written   int // numbered frames handed to the kernel
		writeErr  error
		pongs     int
	)
	stopPings, writerDone, release := make(chan struct{}), make(chan struct{}), make(chan struct{})
	var stopOnce, releaseOnce sync.Once
	stop := func() { stopOnce.Do(func() { close(stopPings) }) }
	letGo := func() { releaseOnce.Do(func() { close(release) }) }
	defer letGo()
	defer stop()

	srv, lerr := adnlsrv.Listen(priv, adnlsrv.Hooks{
		Dial: func(k int) adnlsrv.DialPlan {
			if k == 1 {
				return adnlsrv.DialPlan{Kind: adnlsrv.DialServe}
			}
			return adnlsrv.DialPlan{Kind: adnlsrv.DialTarpit} // a redial of the client: parked
		},
		Serve: func(cn *adnlsrv.Conn) {
			cn.SetIgnorePongs(true) // a client may answer our pings; its pongs are not data
			go func() {             // the pinger
				defer close(writerDone)
				ids := core.NewSplitMix(seed ^ 0x5e7)
				fail := func(e error) { mu.Lock(); writeErr = e; mu.Unlock() }
				for i := 0; ; i++ {
					select {
					case <-stopPings:
						// one last numbered frame behind all the pings
						mu.Lock()
						k := written
						mu.Unlock()
						if e := cn.WriteFrame(numbered(k)); e != nil {
							fail(e)
							return
						}
						mu.Lock()
						written++
						mu.Unlock()
						return
					default:
					}
					var e error
					if i%8 == 7 {
						mu.Lock()
						k := written
						mu.Unlock()
						if e = cn.WriteFrames(adnlsrv.Ping(ids.Next()), numbered(k)); e == nil {
							mu.Lock()
							written++
							mu.Unlock()
						}
					} else {
						e = cn.WriteFrame(adnlsrv.Ping(ids.Next()))
					}
					if e != nil {
						fail(e)
						return
					}
					mu.Lock()
					pings++
					mu.Unlock()
					d := gap
					if i >= stormFastPing {
						d = 100 * time.Millisecond
					}
					select {
					case <-time.After(d):
					case <-stopPings:
					}
				}
			}()
			e := cn.Loop(func(f adnlsrv.Frame) bool {
				p := f.Payload
				mu.Lock()
				defer mu.Unlock()
				idx := -1
				if len(p) >= 8 {
					g, k := int(binary.LittleEndian.Uint32(p)), int(binary.LittleEndian.Uint32(p[4:]))
					if g < senders && k < n && k*senders+g < n && bytes.Equal(p, want[k*senders+g]) {
						idx = k*senders + g
					}
				}
				switch {
				case idx < 0:
					bad = fmt.Errorf("after %d intact packets the server read a well-formed frame whose payload (%s) no goroutine handed to Send", received, describe(p))
				case idx/senders < next[idx%senders]:
					bad = fmt.Errorf("after %d intact packets the server read packet %d of goroutine %d a second time", received, idx/senders, idx%senders)
				case idx/senders > next[idx%senders]:
					bad = fmt.Errorf("after %d intact packets the server read packet %d of goroutine %d, but packet %d of that goroutine, handed to Send before it, has not arrived", received, idx/senders, idx%senders, next[idx%senders])
				}
				if bad != nil {
					return false
				}
				next[idx%senders]++
				received++
				if received == n {
					stop()
				}
				return true
			})
			mu.Lock()
			readErr, readEnded = e, true
			pongs = cn.IgnoredPongs()
			mu.Unlock()
			stop()
			<-writerDone
			<-release // the verdict is made on an open connection
		},
	})
	if lerr != nil {
		return fmt.Errorf("INFRA: listen: %v", lerr)
	}
	clientMade := false
	defer func() {
		letGo()
		if clientMade {
			srv.Retire(1) // an orphaned client that dials again stays parked
		} else {
			srv.Close()
		}
	}()
	report := func(format string, args ...any) error {
		mu.Lock()
		s := fmt.Sprintf("%s\n  server: %d pings written, %d numbered frames, %d of %d client packets read intact", fmt.Sprintf(format, args...), pings, written, received, n)
		mu.Unlock()
		for _, cn := range srv.Conns() {
			s += fmt.Sprintf(", %d tcp.pong frames of the client ignored", cn.IgnoredPongs())
		}
		for _, e := range srv.Events() {
			s += fmt.Sprintf("\n    server: dial %d %s", e.Dial, e.What)
		}
		return errors.New(s)
	}

	ctx, cancel := context.WithTimeout(context.Background(), waitLimit)
	defer cancel()
	type connectResult struct {
		conn *liteclient.Connection
		err  error
		bad  error
	}
	connectCh := make(chan connectResult, 1)
	go func() {
		var r connectResult
		r.bad = core.Protect(func() error {
			r.conn, r.err = liteclient.NewConnection(ctx, []byte(srv.PublicKey()), srv.Addr())
			return nil
		})
		connectCh <- r
	}()
	var conn *liteclient.Connection
	select {
	case r := <-connectCh:
		if r.bad != nil {
			return report("NewConnection: %v", r.bad)
		}
		if hs := srv.HandshakeErrors(); len(hs) > 0 {
			return report("the reference server refused the client's handshake: %v", hs[0])
		}
		if r.err != nil {
			return report("NewConnection failed against a conforming server: %v", r.err)
		}
		conn = r.conn
	case <-time.After(connectHangLimit):
		inconclusive.Add(1) // c11/conn makes the statement about a connect that does not return
		return nil
	}
	clientMade = true

	// the application: takes everything Responses() has
	var gmu sync.Mutex
	var got [][]byte
	pingsOut := 0
	quit, consumerDone := make(chan struct{}), make(chan struct{})
	go func() {
		defer close(consumerDone)
		for {
			select {
			case p := <-conn.Responses():
				gmu.Lock()
				if _, ok := adnlsrv.ParsePing(p.Payload); ok {
					pingsOut++ // a client may hand the server's ping on
				} else {
					got = append(got, p.Payload)
				}
				gmu.Unlock()
			case <-quit:
				return
			}
		}
	}()
	defer func() { close(quit); <-consumerDone }()
	gotCount := func() int { gmu.Lock(); defer gmu.Unlock(); return len(got) }

	var sendMu sync.Mutex
	var sendErr error
	sendAt := -1
	var sendWG sync.WaitGroup
	var returned atomic.Int64
	for g := 0; g < senders; g++ {
		sendWG.Add(1)
		go func(g int) {
			defer sendWG.Done()
			for i := g; i < n; i += senders {
				pk, e := liteclient.NewPacket(append([]byte{}, want[i]...))
				if e == nil {
					e = conn.Send(pk)
				}
				if e != nil {
					sendMu.Lock()
					if sendErr == nil {
						sendErr, sendAt = e, i
					}
					sendMu.Unlock()
					return
				}
				returned.Add(1)
			}
		}(g)
	}
	senderDone := make(chan struct{})
	go func() { sendWG.Wait(); close(senderDone) }()
	defer func() { // end the connection under senders that are still inside Send, then let them finish
		letGo()
		for _, cn := range srv.Conns() {
			cn.Close()
		}
		select {
		case <-senderDone:
		case <-time.After(waitLimit):
		}
	}()

	// Wait while anything moves: packets read by the server, Send calls that returned.
	type state struct {
		received  int
		returned  int64
		ended     bool
		sendsDone bool
	}
	snap := func() state {
		mu.Lock()
		defer mu.Unlock()
		st := state{received: received, returned: returned.Load(), ended: readEnded}
		select {
		case <-senderDone:
			st.sendsDone = true
		default:
		}
		return st
	}
	sendFailed := func() bool { sendMu.Lock(); defer sendMu.Unlock(); return sendErr != nil }
	last, lastAt := snap(), time.Now()
	for !(last.ended || last.received == n && last.sendsDone) {
		time.Sleep(time.Millisecond)
		if st := snap(); st != last {
			last, lastAt = st, time.Now()
		} else if idle := time.Since(lastAt); idle > waitLimit || idle > 2*time.Second && sendFailed() {
			break // (a failed Send ends that goroutine's packets: no point in waiting long for the rest)
		}
	}

	mu.Lock()
	badFrame, rerr, ended, nrecv, npongs := bad, readErr, readEnded, received, pongs
	mu.Unlock()
	sendMu.Lock()
	serr, sat := sendErr, sendAt
	sendMu.Unlock()
	switch {
	case badFrame != nil:
		return report("%v", badFrame)
	case ended && (errors.Is(rerr, adnlsrv.ErrLength) || errors.Is(rerr, adnlsrv.ErrChecksum)):
		return report("after %d intact packets (and %d tcp.pong frames) the server read a frame from the client that is not well-formed: %v", nrecv, npongs, rerr)
	case serr != nil:
		return report("Connection.Send of client packet %d (%d bytes) failed on a healthy connection: %v", sat, len(want[sat]), serr)
	case !last.sendsDone:
		return report("Connection.Send did not return: no Send call returned and no packet reached the server for %v", waitLimit)
	case nrecv < n:
		return report("every Send call returned nil, but the server received %d of the %d packets (server read error: %v); nothing further arrived for %v", nrecv, n, rerr, waitLimit)
	}

	// server -> client: the numbered frames, in order, nothing else
	select {
	case <-writerDone:
	case <-time.After(3 * waitLimit):
		return report("the reference server could not write its stream within %v: the client does not read it", 3*waitLimit)
	}
	mu.Lock()
	nwritten, werr, npings := written, writeErr, pings
	mu.Unlock()
	if werr != nil {
		return report("INFRA: server write: %v", werr)
	}
	for cnt, at := gotCount(), time.Now(); cnt < nwritten; {
		time.Sleep(500 * time.Microsecond)
		if k := gotCount(); k != cnt {
			cnt, at = k, time.Now()
		} else if time.Since(at) > waitLimit {
			break
		}
	}
	time.Sleep(10 * time.Millisecond)
	gmu.Lock()
	final, npingsOut := append([][]byte{}, got...), pingsOut
	gmu.Unlock()
	for i, p := range final {
		if i >= nwritten {
			return report("Responses() delivered packet %d = %s beyond the %d data frames the server wrote", i, describe(p), nwritten)
		}
		if w := numbered(i); !bytes.Equal(p, w) {
			return report("Responses() packet %d = %s, the server sent %s", i, describe(p), describe(w))
		}
	}
	if len(final) < nwritten {
		return report("Responses() delivered %d of the %d data frames the server wrote between its pings; no further packet came for %v", len(final), nwritten, waitLimit)
	}
	mu.Lock()
	npongs = pongs
	mu.Unlock()
	for _, cn := range srv.Conns() {
		npongs = cn.IgnoredPongs()
	}
	stormPings.Add(int64(npings))
	stormPongs.Add(int64(npongs))
	stormPingsOut.Add(int64(npingsOut))
	stormPackets.Add(int64(n))
	return nil
}

// serverPingCases: quick tier two cases (2 goroutines and 60..100 packets, 3..4 goroutines and 120..200 packets;
// ping gap, sizes and content from the run seed); the thorough tier adds 1..4 goroutines x 40, 100 and 200
// packets at ping gaps of 20 us, 200 us and 1 ms.
func serverPingCases(yield func(...uint64) bool) {
	seeds := core.NewSplitMix(core.Seed() ^ 0x5e7e791)
	r := func(lo, hi int) uint64 { return uint64(lo + seeds.Intn(hi-lo+1)) }
	// tape values are reduced modulo the range of the draw: goroutines = 1 + v%4, packets = 1 + v%256, gap = 1 + v%5000
	if !yield(2-1, r(60, 100)-1, r(20, 120)-1, seeds.Next()) {
		return
	}
	if !yield(r(3, 4)-1, r(120, 200)-1, r(50, 300)-1, seeds.Next()) {
		return
	}
	if !core.Thorough() {
		return
	}
	for g := 1; g <= 4; g++ {
		for k, n := range []int{40, 100, 200} {
			gap := []int{20, 200, 1000}[(g+k)%3]
			if !yield(uint64(g-1), uint64(n-1), uint64(gap-1), seeds.Next()) {
				return
			}
		}
	}
}

func TestServerPings(t *testing.T) {
	core.RunEnum(t, serverPingCheck, "the server pings the client (a few hundred to a few thousand tcp.ping frames, numbered data frames between them) while 1..4 goroutines push 40..200 packets of 64..256 KiB through Connection.Send", serverPingCases)
	core.Extra(serverPingCheck.Name, "client packets", stormPackets.Load())
	core.Extra(serverPingCheck.Name, "tcp.ping frames written by the server", stormPings.Load())
	core.Extra(serverPingCheck.Name, "tcp.pong answers of the client (tolerated, not required)", stormPongs.Load())
	core.Extra(serverPingCheck.Name, "server pings that came out of Responses() (tolerated, not required)", stormPingsOut.Load())
}
