package c04

import (
	"fmt"
	"math/big"
	"testing"

	"github.com/tonkeeper/tongo/boc"
	"github.com/tonkeeper/tongo/tlb"
	"github.com/tonkeeper/tongo/ton"

	"verifharness/internal/core"
	"verifharness/internal/gen"
	"verifharness/internal/ref"
	"verifharness/internal/tlbref"
)

// c04/external: the external-in envelope that ton.CreateExternalMessage builds around a signed body, against
// message$_ info:(ext_in_msg_info$10 src:addr_none dest:addr_std import_fee:Grams) init:(Maybe (Either
// StateInit ^StateInit)) body:(Either X ^X) with init and body behind references (the form the function
// chooses). The body cell may have been read before (read positions are not part of a cell's value).
var externalCheck = &core.Check{Name: "c04/external", Quick: 600, Thorough: 60000, Fn: func(c *core.Ctx) error {
	var acc ton.AccountID
	acc.Workchain = int32(int8(c.U64("wc")))
	copy(acc.Address[:], c.Content("address", 32))
	fee := new(big.Int)
	if !c.Bool("fee.zero") {
		fee.SetBytes(c.Content("fee", c.Range("fee.len", 1, 15)))
	}
	body := smallCell(c, "body", 2)
	rm := tlbref.Message{Body: body, BodyInRef: true}
	rm.Info.Kind = 1
	rm.Info.Src = tlbref.Addr{Kind: 0}
	rm.Info.Dest = tlbref.Addr{Kind: 2, WC: acc.Workchain, Hash: acc.Address}
	rm.Info.ImportFee = fee
	var init *tlb.StateInit
	if c.Bool("init") {
		var si tlbref.StateInit
		var ti tlb.StateInit
		if c.Bool("code") {
			si.Code = smallCell(c, "code", 1)
			tc, err := tongoCell(si.Code)
			if err != nil {
				return err
			}
			ti.Code.Exists, ti.Code.Value.Value = true, *tc
		}
		if c.Bool("data") {
			si.Data = smallCell(c, "data", 1)
			tc, err := tongoCell(si.Data)
			if err != nil {
				return err
			}
			ti.Data.Exists, ti.Data.Value.Value = true, *tc
		}
		rm.Init, rm.InitInRef = &si, true
		init = &ti
		c.Class("with state-init")
	}
	var b tlbref.B
	b.Message(rm)
	if !b.Fits() {
		c.Class("does not fit")
		return nil
	}
	want := b.Cell()
	tb, err := tongoCell(body)
	if err != nil {
		return err
	}
	switch c.Intn("body.read", 3) {
	case 1:
		tb.ReadUint(tb.BitsAvailableForRead() / 2)
		tb.NextRef()
		c.Class("body was partly read before")
	case 2:
		tb.ReadRemainingBits()
		for {
			if _, err := tb.NextRef(); err != nil {
				break
			}
		}
		c.Class("body was read to the end before")
	}
	msg, err := ton.CreateExternalMessage(acc, tb, init, tlb.VarUInteger16(*fee))
	if err != nil {
		return fmt.Errorf("CreateExternalMessage: %v", err)
	}
	cell := boc.NewCell()
	if err := tlb.Marshal(cell, msg); err != nil {
		return fmt.Errorf("Marshal of the message made by CreateExternalMessage: %v", err)
	}
	c.NonTrivial(want.ReprHash())
	c.Note("schema_cell", "x{"+want.Bits().FiftHex()+"}")
	if err := sameAsRef(cell, want, "CreateExternalMessage"); err != nil {
		return err
	}
	// the encoded message is a value of its own: a caller that goes on building in its body cell (more bits,
	// another reference) does not change the cell that was produced for the message before
	wrote := 0
	for i := 0; i < 9 && tb.BitsAvailableForWrite() > 0; i++ {
		if tb.WriteBit(true) != nil {
			break
		}
		wrote++
	}
	if tb.RefsSize() < 4 {
		if tb.AddRef(boc.NewCell()) == nil {
			wrote++
		}
	}
	if wrote > 0 {
		c.Class("caller wrote into its body cell after the encoding")
		if err := sameAsRef(cell, want, "CreateExternalMessage, after the caller went on writing into its own body cell,"); err != nil {
			return err
		}
	}
	return nil
}}

func TestExternal(t *testing.T) { core.Run(t, externalCheck) }

// c04/extern-limit: addr_extern$01 len:(## 9) external_address:(bits len) has room for 0..511 bits. Lengths up to
// 511 must give exactly that layout; a longer external address has no layout and must be refused, not written
// with a wrapped length. tape: length 505..520.
var externLimitCheck = &core.Check{Name: "c04/extern-limit", Fn: func(c *core.Ctx) error {
	n := 505 + c.Intn("len", 16)
	bits := make(ref.Bits, n)
	for i := range bits {
		bits[i] = (i*7+n)%3 == 0
	}
	bs := gen.BitString(bits)
	addr := tlb.MsgAddress{SumType: "AddrExtern", AddrExtern: &bs}
	c.Note("external address bits", n)
	c.NonTrivial(n)
	cell := boc.NewCell()
	err := tlb.Marshal(cell, addr)
	if n > 511 {
		if err == nil {
			return fmt.Errorf("an external address of %d bits was encoded without an error although len:(## 9) ends at 511: cell of %d bits", n, cell.BitSize())
		}
		c.Class("refused")
		return nil
	}
	if err != nil {
		return fmt.Errorf("an external address of %d bits is refused: %v", n, err)
	}
	var b tlbref.B
	b.Addr(tlbref.Addr{Kind: 1, Ext: bits})
	return sameAsRef(cell, b.Cell(), fmt.Sprintf("addr_extern of %d bits", n))
}}

func TestExternLimit(t *testing.T) {
	core.RunEnum(t, externLimitCheck, "external addresses of 505..520 bits", func(yield func(...uint64) bool) {
		for i := 0; i < 16; i++ {
			if !yield(uint64(i)) {
				return
			}
		}
	})
}
