// C04 — TL-B encodings are bit-exact with the TON schemas (reference writer R4 in internal/tlbref).
package c04

import (
	"bytes"
	"fmt"
	"math/big"
	"os"
	"path/filepath"
	"reflect"
	"regexp"
	"strconv"
	"strings"
	"testing"

	"github.com/tonkeeper/tongo/boc"
	"github.com/tonkeeper/tongo/tlb"

	"verifharness/internal/core"
	"verifharness/internal/gen"
	"verifharness/internal/realdata"
	"verifharness/internal/ref"
	"verifharness/internal/tlbgen"
	"verifharness/internal/tlbref"
	"verifharness/internal/typereg"
)

func TestMain(m *testing.M) { core.Main(m, "C04") }

var bigIntT = reflect.TypeOf(big.Int{})

// sameAsRef compares the cell tongo produced with the reference cell, recursively and bit-exactly.
func sameAsRef(got *boc.Cell, want *ref.RCell, what string) error {
	cp := *got
	cp.ResetCounters()
	if err := gen.SameCell(&cp, want); err != nil {
		img, _ := gen.FromTongo(&cp, 10000)
		have := "?"
		if img != nil {
			have = fmt.Sprintf("x{%s} +%d refs", img.Bits().FiftHex(), len(img.Refs))
		}
		return fmt.Errorf("%s: encoding differs from the schema: %v\ntongo root: %s\nschema root: x{%s} +%d refs", what, err, have, want.Bits().FiftHex(), len(want.Refs))
	}
	// the same bits and references hash to the same value (the hash is taken over the stored bytes, so bits
	// that sit behind the end of a cell's data in its buffer would show here and nowhere else)
	if h, err := cp.Hash(); err != nil || !bytes.Equal(h, want.ReprHash()) {
		return fmt.Errorf("%s: the produced cell reads as the schema prescribes (x{%s} +%d refs) but hashes to %x (%v), the prescribed cell to %x", what, want.Bits().FiftHex(), len(want.Refs), h, err, want.ReprHash())
	}
	return nil
}

// ---------------------------------------------------------------------------------------------
// (1) integer primitives: every generated integer type of the registry, exhaustive over boundary values

var intRe = regexp.MustCompile(`^(Uint|Int|VarUInteger|Bits)(\d+)$`)

type intType struct {
	t      reflect.Type
	family string
	n      int
}

var intTypes = func() []intType {
	var out []intType
	for _, t := range typereg.TLB {
		if !strings.HasSuffix(t.PkgPath(), "tongo/tlb") {
			continue
		}
		if m := intRe.FindStringSubmatch(t.Name()); m != nil {
			n, _ := strconv.Atoi(m[2])
			out = append(out, intType{t, m[1], n})
		}
	}
	return out
}()

func boundary(n int, signed bool) []*big.Int {
	one := big.NewInt(1)
	pow := func(k int) *big.Int { return new(big.Int).Lsh(one, uint(k)) }
	var out []*big.Int
	if signed {
		out = []*big.Int{big.NewInt(0), new(big.Int).Neg(pow(n - 1)), new(big.Int).Sub(pow(n-1), one)}
		if n >= 2 {
			out = append(out, big.NewInt(1), big.NewInt(-1), new(big.Int).Sub(pow(n-2), one), pow(n-2), new(big.Int).Neg(pow(n-2)))
		} else {
			out = append(out, big.NewInt(-1))
		}
	} else {
		out = []*big.Int{big.NewInt(0), new(big.Int).Sub(pow(n), one), pow(n - 1), new(big.Int).Sub(pow(n-1), one)}
		if n >= 2 {
			out = append(out, big.NewInt(1))
		}
	}
	return out
}

func setInt(v reflect.Value, x *big.Int) {
	t := v.Type()
	switch {
	case t.Kind() == reflect.Struct && t.ConvertibleTo(bigIntT):
		v.Set(reflect.ValueOf(*x).Convert(t))
	case t.Kind() >= reflect.Int && t.Kind() <= reflect.Int64:
		v.SetInt(x.Int64())
	default:
		v.SetUint(x.Uint64())
	}
}

func getInt(v reflect.Value) *big.Int {
	t := v.Type()
	switch {
	case t.Kind() == reflect.Struct && t.ConvertibleTo(bigIntT):
		x := v.Convert(bigIntT).Interface().(big.Int)
		return &x
	case t.Kind() >= reflect.Int && t.Kind() <= reflect.Int64:
		return big.NewInt(v.Int())
	default:
		return new(big.Int).SetUint64(v.Uint())
	}
}

// tape: type index, value selector (boundary index or 1000+k for pseudo-random), seed
var intCheck = &core.Check{Name: "c04/integers", Fn: func(c *core.Ctx) error {
	it := intTypes[c.Intn("type", len(intTypes))]
	sel := c.Intn("sel", 2000)
	name := it.t.Name()
	c.Note("type", name)
	var b tlbref.B
	v := reflect.New(it.t).Elem()
	switch it.family {
	case "Uint", "Int":
		signed := it.family == "Int"
		bs := boundary(it.n, signed)
		var x *big.Int
		if sel < len(bs) {
			x = bs[sel]
		} else {
			raw := make([]byte, (it.n+7)/8)
			core.NewSplitMix(c.U64("seed")).Fill(raw)
			x = new(big.Int).SetBytes(raw)
			x.And(x, new(big.Int).Sub(new(big.Int).Lsh(big.NewInt(1), uint(it.n)), big.NewInt(1)))
			if signed && x.Bit(it.n-1) == 1 {
				x.Sub(x, new(big.Int).Lsh(big.NewInt(1), uint(it.n)))
			}
		}
		setInt(v, x)
		b.Big(x, it.n)
		c.Note("value", x.String())
	case "VarUInteger":
		// sel = byte length (clamped), min or max of that length
		ln := sel % it.n
		x := new(big.Int)
		if ln > 0 {
			raw := make([]byte, ln)
			switch c.Intn("which", 3) {
			case 0:
				raw[0] = 1
			case 1:
				for i := range raw {
					raw[i] = 0xff
				}
			default:
				core.NewSplitMix(c.U64("seed")).Fill(raw)
				if raw[0] == 0 {
					raw[0] = 0x80
				}
			}
			x.SetBytes(raw)
		}
		setInt(v, x)
		b.VarUInt(x, it.n)
		c.Note("value", x.String())
	case "Bits":
		raw := make([]byte, it.n/8)
		core.NewSplitMix(c.U64("seed") + uint64(sel)).Fill(raw)
		reflect.Copy(v, reflect.ValueOf(raw))
		b.Bytes(raw)
	}
	c.NonTrivial(name, b.Bits.String())
	cell := boc.NewCell()
	if err := tlb.Marshal(cell, v.Interface()); err != nil {
		return fmt.Errorf("%s: Marshal of an in-range value failed: %v", name, err)
	}
	if err := sameAsRef(cell, b.Cell(), name); err != nil {
		return err
	}
	// the decoder must read the schema's bits as the same value (a symmetric mistake would pass a round trip)
	out := reflect.New(it.t)
	if err := tlb.Unmarshal(boc.NewCellWithBits(gen.BitString(b.Bits)), out.Interface()); err != nil {
		return fmt.Errorf("%s: the schema's encoding x{%s} does not decode: %v", name, b.Bits.FiftHex(), err)
	}
	if it.family == "Bits" {
		if !reflect.DeepEqual(out.Elem().Interface(), v.Interface()) {
			return fmt.Errorf("%s: decoding x{%s} gives %v", name, b.Bits.FiftHex(), out.Elem().Interface())
		}
	} else if getInt(out.Elem()).Cmp(getInt(v)) != 0 {
		return fmt.Errorf("%s: decoding x{%s} gives %v, want %v", name, b.Bits.FiftHex(), getInt(out.Elem()), getInt(v))
	}
	return nil
}}

// ---------------------------------------------------------------------------------------------
// (2) combinators and struct tags

type inner struct {
	X tlb.Uint7
	Y int16
}

type tagged struct {
	Magic tlb.Magic `tlb:"tagged#a5"`
	A     tlb.Uint13
	B     *tlb.Uint16 `tlb:"maybe"`
	C     *inner      `tlb:"maybe^"`
	D     tlb.Uint32  `tlb:"^"`
	E     tlb.Maybe[tlb.Uint5]
	F     tlb.Either[tlb.Int8, tlb.Ref[tlb.Uint8]]
	G     tlb.EitherRef[tlb.Uint16]
	H     tlb.Unary
	I     bool
	J     [3]byte
	K     int8
	L     uint64
	M     tlb.Maybe[tlb.Ref[inner]]
	N     tlb.Grams
	O     tlb.VarUInteger7
}

var comboCheck = &core.Check{Name: "c04/combinators", Quick: 4000, Thorough: 300000, Fn: func(c *core.Ctx) error {
	var v tagged
	var b tlbref.B
	b.U(0xa5, 8)
	a := c.U64("A") & 0x1fff
	v.A = tlb.Uint13(a)
	b.U(a, 13)
	if c.Bool("B") {
		x := tlb.Uint16(c.U64("Bv"))
		v.B = &x
		b.Bit(true).U(uint64(x), 16)
	} else {
		b.Bit(false)
	}
	if c.Bool("C") {
		in := inner{X: tlb.Uint7(c.Intn("Cx", 128)), Y: int16(c.U64("Cy"))}
		v.C = &in
		b.Bit(true).Ref((&tlbref.B{}).U(uint64(in.X), 7).I(int64(in.Y), 16).Cell())
	} else {
		b.Bit(false)
	}
	d := uint32(c.U64("D"))
	v.D = tlb.Uint32(d)
	b.Ref((&tlbref.B{}).U(uint64(d), 32).Cell())
	if c.Bool("E") {
		v.E.Exists, v.E.Value = true, tlb.Uint5(c.Intn("Ev", 32))
		b.Bit(true).U(uint64(v.E.Value), 5)
	} else {
		b.Bit(false)
	}
	if c.Bool("F") {
		v.F.IsRight = true
		v.F.Right.Value = tlb.Uint8(c.Intn("Fr", 256))
		b.Bit(true).Ref((&tlbref.B{}).U(uint64(v.F.Right.Value), 8).Cell())
	} else {
		v.F.Left = tlb.Int8(int8(c.U64("Fl")))
		b.Bit(false).I(int64(v.F.Left), 8)
	}
	v.G.Value = tlb.Uint16(c.U64("G"))
	if c.Bool("Gr") {
		v.G.IsRight = true
		b.Bit(true).Ref((&tlbref.B{}).U(uint64(v.G.Value), 16).Cell())
	} else {
		b.Bit(false).U(uint64(v.G.Value), 16)
	}
	v.H = tlb.Unary(c.Range("H", 0, 40))
	if c.Intn("H.long", 5) == 0 {
		v.H = tlb.Unary(c.OneOf("H.v", 62, 63, 64, 65, 66, 127, 128, 129, 300, 600))
		c.Class("unary value of 62 or more")
	}
	b.Unary(int(v.H))
	v.I = c.Bool("I")
	b.Bit(v.I)
	copy(v.J[:], c.Content("J", 3))
	b.Bytes(v.J[:])
	v.K = int8(c.U64("K"))
	b.I(int64(v.K), 8)
	v.L = c.U64("L")
	b.U(v.L, 64)
	// a fourth reference would overflow together with C, D, F, G: M uses a ref only when one is free
	if len(b.Refs) < 4 && c.Bool("M") {
		in := inner{X: tlb.Uint7(c.Intn("Mx", 128)), Y: int16(c.U64("My"))}
		v.M.Exists, v.M.Value.Value = true, in
		b.Bit(true).Ref((&tlbref.B{}).U(uint64(in.X), 7).I(int64(in.Y), 16).Cell())
	} else {
		b.Bit(false)
	}
	v.N = tlb.Grams(c.U64("N"))
	b.Grams(new(big.Int).SetUint64(uint64(v.N)))
	o := new(big.Int).SetBytes(c.Content("O", c.Range("On", 0, 6)))
	v.O = tlb.VarUInteger7(*o)
	b.VarUInt(o, 7)
	c.Note("value", fmt.Sprintf("%+v", v))
	c.NonTrivial(b.Bits.String(), len(b.Refs))
	cell := boc.NewCell()
	err := tlb.Marshal(cell, v)
	if !b.Fits() {
		if err == nil {
			return fmt.Errorf("value needs %d bits / %d refs but Marshal reported no error", len(b.Bits), len(b.Refs))
		}
		c.Class("does not fit")
		return nil
	}
	if err != nil {
		return fmt.Errorf("Marshal: %v", err)
	}
	if err := sameAsRef(cell, b.Cell(), "struct with every tag and combinator"); err != nil {
		return err
	}
	// decode the schema's cell
	data := ref.SerializeBOC([]*ref.RCell{b.Cell()}, ref.BocVariant{})
	cells, _ := boc.DeserializeBoc(data)
	var back tagged
	if err := tlb.Unmarshal(cells[0], &back); err != nil {
		return fmt.Errorf("the schema's encoding does not decode: %v", err)
	}
	if err := tlbgen.Equal(reflect.ValueOf(v), reflect.ValueOf(back)); err != nil {
		return fmt.Errorf("decoding the schema's encoding: %v", err)
	}
	return nil
}}

// ---------------------------------------------------------------------------------------------
// (3) constructor tags of every union in the registry

type unionCtor struct {
	t    reflect.Type
	k    int
	name string
	tag  string
}

var unionCtors = func() []unionCtor {
	var out []unionCtor
	for _, t := range typereg.All() {
		if ok, _ := tlbgen.IsTLBType(t); !ok || tlbgen.HasEncoder(t) {
			continue
		}
		names, tags := tlbgen.UnionCtors(t)
		for i := range names {
			out = append(out, unionCtor{t, i, names[i], tags[i]})
		}
	}
	return out
}()

// tape: constructor index, then pseudo-random words for the payload
var tagCheck = &core.Check{Name: "c04/tags", Fn: func(c *core.Ctx) error {
	u := unionCtors[c.Intn("ctor", len(unionCtors))]
	what := fmt.Sprintf("%s.%s (%s)", strings.ReplaceAll(u.t.String(), "github.com/tonkeeper/tongo/", ""), u.name, u.tag)
	c.Note("constructor", what)
	nbits, val, err := tlbgen.SumTag(u.tag)
	if err != nil {
		return fmt.Errorf("%s: tag text not understood by the harness: %v", what, err)
	}
	g := &tlbgen.G{C: c}
	v, gerr := g.ValueWithCtor(u.t, u.k, 3)
	if gerr != nil {
		c.Class("payload not generated")
		return nil
	}
	cell := boc.NewCell()
	var merr error
	if perr := core.Protect(func() error { merr = tlb.Marshal(cell, v.Interface()); return nil }); perr != nil {
		return fmt.Errorf("%s: Marshal panicked: %v", what, perr)
	}
	if merr != nil {
		c.Class("encode error")
		return nil
	}
	bitsGot := gen.BitsOf(cell.RawBitString())
	want := ref.Bits{}.AppendUint(val, nbits)
	if len(bitsGot) < nbits || !ref.Bits(bitsGot[:nbits]).Equal(want) {
		return fmt.Errorf("%s: encoding starts with %s, the schema tag is %s", what, ref.Bits(bitsGot).String()[:min(len(bitsGot), nbits+8)], want)
	}
	if nbits > 0 {
		c.NonTrivial(what)
	}
	return nil
}}

func min(a, b int) int {
	if a < b {
		return a
	}
	return b
}

// ---------------------------------------------------------------------------------------------
// (4) core block.tlb structures over random values

func drawAddr(c *core.Ctx, label string, kinds ...int) (tlbref.Addr, tlb.MsgAddress) {
	k := kinds[c.Choose(label+".kind", len(kinds))]
	a := tlbref.Addr{Kind: k}
	var m tlb.MsgAddress
	anycast := func() tlb.Maybe[tlb.Anycast] {
		var mb tlb.Maybe[tlb.Anycast]
		if c.Intn(label+".any", 3) == 0 {
			d := c.Range(label+".depth", 1, 30)
			p := c.U64(label+".pfx") & (1<<uint(d) - 1)
			a.Anycast = &tlbref.Anycast{Depth: d, Prefix: p}
			mb.Exists, mb.Value = true, tlb.Anycast{Depth: uint32(d), RewritePfx: uint32(p)}
		}
		return mb
	}
	switch k {
	case 0:
		m.SumType = "AddrNone"
	case 1:
		n := c.OneOf(label+".elen", 0, 1, 8, 9, 255, 511)
		a.Ext = ref.Bits(c.Bits(label+".ext", n))
		bs := gen.BitString(a.Ext)
		m.SumType, m.AddrExtern = "AddrExtern", &bs
	case 2:
		m.SumType = "AddrStd"
		m.AddrStd.Anycast = anycast()
		a.WC = int32(int8(c.U64(label + ".wc")))
		copy(a.Hash[:], c.Content(label+".hash", 32))
		m.AddrStd.WorkchainId, m.AddrStd.Address = int8(a.WC), a.Hash
	case 3:
		m.SumType = "AddrVar"
		mb := anycast()
		n := c.OneOf(label+".vlen", 0, 7, 256, 300, 511)
		a.Ext = ref.Bits(c.Bits(label+".var", n))
		a.WC = int32(c.U64(label + ".wc32"))
		m.AddrVar = &struct {
			Anycast     tlb.Maybe[tlb.Anycast]
			AddrLen     tlb.Uint9
			WorkchainId int32
			Address     boc.BitString
		}{mb, tlb.Uint9(n), a.WC, gen.BitString(a.Ext)}
	}
	return a, m
}

func drawGrams(c *core.Ctx, label string) *big.Int {
	switch c.Choose(label+".k", 5) {
	case 0:
		return new(big.Int)
	case 1:
		return new(big.Int).SetUint64(1<<64 - 1)
	case 2:
		return new(big.Int).SetUint64(1 << 63)
	case 3:
		return big.NewInt(int64(c.Intn(label+".small", 1000)))
	}
	return new(big.Int).SetUint64(c.U64(label + ".v"))
}

func smallCell(c *core.Ctx, label string, depth int) *ref.RCell {
	n := c.Range(label+".bits", 0, 60)
	var refs []*ref.RCell
	if depth > 0 {
		for i := c.Weighted(label+".refs", 5, 2, 1); i > 0; i-- {
			refs = append(refs, smallCell(c, label+".r", depth-1))
		}
	}
	return ref.NewRCell(ref.Bits(c.Bits(label+".data", n)), false, refs...)
}

// tongoCell: ordinary trees are built through the construction API, a tree with an exotic cell has to come
// out of a bag of cells (written by the reference serialiser).
func tongoCell(r *ref.RCell) (*boc.Cell, error) {
	if !r.Special {
		return gen.ToTongo(r, true, 100)
	}
	roots, err := boc.DeserializeBoc(ref.SerializeBOC([]*ref.RCell{r}, ref.BocVariant{}))
	if err != nil {
		return nil, fmt.Errorf("HARNESS: %v", err)
	}
	return roots[0], nil
}

var messageCheck = &core.Check{Name: "c04/message", Quick: 4000, Thorough: 300000, Fn: func(c *core.Ctx) error {
	var rm tlbref.Message
	var tm tlb.Message
	kind := c.Choose("kind", 3)
	rm.Info.Kind = kind
	switch kind {
	case 0:
		src, tsrc := drawAddr(c, "src", 0, 2, 3)
		dst, tdst := drawAddr(c, "dst", 2, 3)
		rm.Info.Src, rm.Info.Dest = src, dst
		rm.Info.IhrDisabled, rm.Info.Bounce, rm.Info.Bounced = c.Bool("ihr"), c.Bool("bounce"), c.Bool("bounced")
		rm.Info.Value, rm.Info.IhrFee, rm.Info.FwdFee = drawGrams(c, "value"), drawGrams(c, "ihrfee"), drawGrams(c, "fwdfee")
		rm.Info.CreatedLt, rm.Info.CreatedAt = c.U64("lt"), uint32(c.U64("at"))
		tm.Info.SumType = "IntMsgInfo"
		tm.Info.IntMsgInfo = &struct {
			IhrDisabled bool
			Bounce      bool
			Bounced     bool
			Src         tlb.MsgAddress
			Dest        tlb.MsgAddress
			Value       tlb.CurrencyCollection
			IhrFee      tlb.Grams
			FwdFee      tlb.Grams
			CreatedLt   uint64
			CreatedAt   uint32
		}{rm.Info.IhrDisabled, rm.Info.Bounce, rm.Info.Bounced, tsrc, tdst, tlb.CurrencyCollection{Grams: tlb.Grams(rm.Info.Value.Uint64())}, tlb.Grams(rm.Info.IhrFee.Uint64()), tlb.Grams(rm.Info.FwdFee.Uint64()), rm.Info.CreatedLt, rm.Info.CreatedAt}
	case 1:
		src, tsrc := drawAddr(c, "src", 0, 1)
		dst, tdst := drawAddr(c, "dst", 2, 3)
		rm.Info.Src, rm.Info.Dest = src, dst
		rm.Info.ImportFee = drawGrams(c, "importfee")
		tm.Info.SumType = "ExtInMsgInfo"
		tm.Info.ExtInMsgInfo = &struct {
			Src       tlb.MsgAddress
			Dest      tlb.MsgAddress
			ImportFee tlb.VarUInteger16
		}{tsrc, tdst, tlb.VarUInteger16(*rm.Info.ImportFee)}
	case 2:
		src, tsrc := drawAddr(c, "src", 2, 3)
		dst, tdst := drawAddr(c, "dst", 0, 1)
		rm.Info.Src, rm.Info.Dest = src, dst
		rm.Info.CreatedLt, rm.Info.CreatedAt = c.U64("lt"), uint32(c.U64("at"))
		tm.Info.SumType = "ExtOutMsgInfo"
		tm.Info.ExtOutMsgInfo = &struct {
			Src       tlb.MsgAddress
			Dest      tlb.MsgAddress
			CreatedLt uint64
			CreatedAt uint32
		}{tsrc, tdst, rm.Info.CreatedLt, rm.Info.CreatedAt}
	}
	if c.Bool("init") {
		var si tlbref.StateInit
		var ti tlb.StateInit
		if c.Bool("split") {
			d := uint8(c.Intn("splitv", 32))
			si.SplitDepth = &d
			// set through reflection: the check must still build (and judge the layout) when the declared
			// width of the field is changed
			ti.SplitDepth.Exists = true
			reflect.ValueOf(&ti.SplitDepth.Value).Elem().SetUint(uint64(d))
		}
		if c.Bool("special") {
			sp := [2]bool{c.Bool("tick"), c.Bool("tock")}
			si.Special = &sp
			ti.Special.Exists, ti.Special.Value = true, tlb.TickTock{Tick: sp[0], Tock: sp[1]}
		}
		if c.Bool("code") {
			si.Code = smallCell(c, "code", 1)
			if c.Intn("code.library", 4) == 0 {
				// code kept in a library: the reference holds a library cell (exotic, type 2, hash of the code)
				si.Code = ref.NewRCell(ref.Bits{}.AppendUint(2, 8).AppendBytes(c.Content("code.libhash", 32)), true)
				c.Class("state-init code is a library cell")
			}
			tc, err := tongoCell(si.Code)
			if err != nil {
				return err
			}
			ti.Code.Exists, ti.Code.Value.Value = true, *tc
		}
		if c.Bool("data") {
			si.Data = smallCell(c, "data", 1)
			if c.Intn("data.library", 8) == 0 {
				si.Data = ref.NewRCell(ref.Bits{}.AppendUint(2, 8).AppendBytes(c.Content("data.libhash", 32)), true)
				c.Class("state-init data is a library cell")
			}
			tc, err := tongoCell(si.Data)
			if err != nil {
				return err
			}
			ti.Data.Exists, ti.Data.Value.Value = true, *tc
		}
		rm.Init, rm.InitInRef = &si, c.Bool("initref")
		tm.Init.Exists, tm.Init.Value.IsRight, tm.Init.Value.Value = true, rm.InitInRef, ti
		c.Class("with state-init")
	}
	rm.Body, rm.BodyInRef = smallCell(c, "body", 1), c.Bool("bodyref")
	tb, _ := gen.ToTongo(rm.Body, true, 100)
	tm.Body.IsRight, tm.Body.Value = rm.BodyInRef, tlb.Any(*tb)
	var b tlbref.B
	b.Message(rm)
	cell := boc.NewCell()
	err := tlb.Marshal(cell, tm)
	if !b.Fits() {
		if err == nil {
			return fmt.Errorf("message needs %d bits / %d refs but Marshal reported no error", len(b.Bits), len(b.Refs))
		}
		c.Class("does not fit")
		return nil
	}
	if err != nil {
		return fmt.Errorf("Marshal(Message): %v", err)
	}
	c.Class([]string{"internal", "external-in", "external-out"}[kind])
	c.NonTrivial(b.Cell().ReprHash())
	c.Note("schema_cell", "x{"+b.Bits.FiftHex()+"}")
	if err := sameAsRef(cell, b.Cell(), "Message"); err != nil {
		return err
	}
	// decode the schema's cell and compare the fields that are observable
	cells, _ := boc.DeserializeBoc(ref.SerializeBOC([]*ref.RCell{b.Cell()}, ref.BocVariant{}))
	var back tlb.Message
	if err := tlb.Unmarshal(cells[0], &back); err != nil {
		return fmt.Errorf("the schema's Message encoding does not decode: %v", err)
	}
	if err := tlbgen.Equal(reflect.ValueOf(tm), reflect.ValueOf(back)); err != nil {
		return fmt.Errorf("decoding the schema's Message encoding: %v", err)
	}
	// the decoded message, after a caller has read from its external addresses (read cursors are not part
	// of an address), must encode to the schema's cell again
	for _, info := range []*tlb.MsgAddress{addrOf(&back, true), addrOf(&back, false)} {
		if info != nil && info.SumType == "AddrExtern" && info.AddrExtern != nil {
			info.AddrExtern.ReadBit()
			info.AddrExtern.ReadUint(7)
		}
	}
	cell2 := boc.NewCell()
	if err := tlb.Marshal(cell2, back); err != nil {
		return fmt.Errorf("Marshal of the decoded Message: %v", err)
	}
	return sameAsRef(cell2, b.Cell(), "decoded Message encoded again")
}}

func addrOf(m *tlb.Message, src bool) *tlb.MsgAddress {
	switch m.Info.SumType {
	case "IntMsgInfo":
		if src {
			return &m.Info.IntMsgInfo.Src
		}
		return &m.Info.IntMsgInfo.Dest
	case "ExtInMsgInfo":
		if src {
			return &m.Info.ExtInMsgInfo.Src
		}
		return &m.Info.ExtInMsgInfo.Dest
	case "ExtOutMsgInfo":
		if src {
			return &m.Info.ExtOutMsgInfo.Src
		}
		return &m.Info.ExtOutMsgInfo.Dest
	}
	return nil
}

// ---------------------------------------------------------------------------------------------
// (5) real chain data: decode and encode again

func hasNonEmptyDict(v reflect.Value, depth int) bool {
	if depth > 12 {
		return false
	}
	t := v.Type()
	n := t.Name()
	if strings.HasPrefix(n, "Hashmap") && strings.HasSuffix(t.PkgPath(), "tongo/tlb") {
		m := v.MethodByName("Keys")
		if !m.IsValid() && v.CanAddr() {
			m = v.Addr().MethodByName("Keys")
		}
		if m.IsValid() {
			return m.Call(nil)[0].Len() > 0
		}
		return true
	}
	switch v.Kind() {
	case reflect.Struct:
		if t == reflect.TypeOf(boc.Cell{}) || t == reflect.TypeOf(tlb.Any{}) {
			return false
		}
		if st := v.FieldByName("SumType"); st.IsValid() && st.Kind() == reflect.String && st.String() != "" {
			if f := v.FieldByName(st.String()); f.IsValid() {
				return hasNonEmptyDict(f, depth+1)
			}
		}
		for i := 0; i < v.NumField(); i++ {
			if t.Field(i).IsExported() && hasNonEmptyDict(v.Field(i), depth+1) {
				return true
			}
		}
	case reflect.Pointer:
		if !v.IsNil() {
			return hasNonEmptyDict(v.Elem(), depth+1)
		}
	}
	return false
}

var realStats = map[string]int{}

func reencode(kind string, v any, srcHash []byte) error {
	cell := boc.NewCell()
	var merr error
	if perr := core.Protect(func() error { merr = tlb.Marshal(cell, v); return nil }); perr != nil {
		return fmt.Errorf("%s: Marshal of a decoded real record panicked: %v", kind, perr)
	}
	if merr != nil {
		realStats[kind+": encode error ("+short(merr.Error())+")"]++
		return nil
	}
	img, err := gen.FromTongo(cell, 1<<20)
	if err != nil {
		return err
	}
	if bytes.Equal(img.ReprHash(), srcHash) {
		realStats[kind+": re-encoded to the source hash"]++
		return nil
	}
	if hasNonEmptyDict(reflect.ValueOf(v), 0) {
		// dictionary labels admit several encodings; tongo's writer does not use the same-bit form
		realStats[kind+": contains a non-empty dictionary (encoding not unique), hash differs"]++
		return nil
	}
	return fmt.Errorf("%s: decoded from a real cell with hash %x, encodes to %x although the value holds no dictionary", kind, srcHash, img.ReprHash())
}

func short(s string) string {
	if len(s) > 40 {
		return s[:40]
	}
	return s
}

var realCheck = &core.Check{Name: "c04/real", Fn: func(c *core.Ctx) error {
	files, _ := filepath.Glob(filepath.Join(realdata.Repo(), "tlb/testdata/block-*/block.bin"))
	if len(files) == 0 {
		return fmt.Errorf("HARNESS: no real blocks found")
	}
	f := files[c.Intn("file", len(files))]
	c.Note("file", f)
	data, err := os.ReadFile(f)
	if err != nil {
		return err
	}
	cells, err := boc.DeserializeBoc(data)
	if err != nil {
		return err
	}
	var block tlb.Block
	if err := tlb.NewDecoder().Unmarshal(cells[0], &block); err != nil {
		return fmt.Errorf("real block does not decode: %v", err)
	}
	n := 0
	for _, tx := range block.AllTransactions() {
		h := tx.Hash()
		if err := reencode("Transaction", *tx, h[:]); err != nil {
			return err
		}
		n++
		if tx.Msgs.InMsg.Exists {
			m := tx.Msgs.InMsg.Value.Value
			mh := m.Hash(false)
			if err := reencode("Message", m, mh[:]); err != nil {
				return err
			}
			n++
		}
		for _, m := range tx.Msgs.OutMsgs.Values() {
			mh := m.Value.Hash(false)
			if err := reencode("Message", m.Value, mh[:]); err != nil {
				return err
			}
			n++
		}
	}
	c.Note("records", n)
	c.NonTrivial(f)
	return nil
}}

func pseudoTape(seed uint64, first ...uint64) []uint64 {
	sm := core.NewSplitMix(seed)
	tape := append([]uint64{}, first...)
	for i := 0; i < 400; i++ {
		tape = append(tape, sm.Next())
	}
	return tape
}

// tape: array width in bytes (1..127), seed. A fixed byte array is `bits (8*n)`; the type is built with
// reflect.ArrayOf so that widths the library itself does not declare are covered as well.
var arrayCheck = &core.Check{Name: "c04/bytearrays", Fn: func(c *core.Ctx) error {
	n := 1 + c.Intn("width", 127)
	raw := make([]byte, n)
	core.NewSplitMix(c.U64("seed")).Fill(raw)
	st := reflect.StructOf([]reflect.StructField{
		{Name: "A", Type: reflect.TypeOf(tlb.Uint5(0))},
		{Name: "B", Type: reflect.ArrayOf(n, reflect.TypeOf(byte(0)))},
		{Name: "C", Type: reflect.TypeOf(tlb.Uint2(0))},
	})
	v := reflect.New(st).Elem()
	v.Field(0).SetUint(0x15)
	reflect.Copy(v.Field(1), reflect.ValueOf(raw))
	v.Field(2).SetUint(2)
	var b tlbref.B
	b.U(0x15, 5).Bytes(raw).U(2, 2)
	c.Note("width_bytes", n)
	c.NonTrivial(n)
	cell := boc.NewCell()
	err := tlb.Marshal(cell, v.Interface())
	if !b.Fits() {
		if err == nil {
			return fmt.Errorf("[%d]byte between two small fields needs %d bits but Marshal reported no error", n, len(b.Bits))
		}
		return nil
	}
	if err != nil {
		return fmt.Errorf("[%d]byte: Marshal: %v", n, err)
	}
	if err := sameAsRef(cell, b.Cell(), fmt.Sprintf("struct{uint5; [%d]byte; uint2}", n)); err != nil {
		return err
	}
	out := reflect.New(st)
	if err := tlb.Unmarshal(boc.NewCellWithBits(gen.BitString(b.Bits)), out.Interface()); err != nil {
		return fmt.Errorf("[%d]byte: the schema's encoding does not decode: %v", n, err)
	}
	if !reflect.DeepEqual(out.Elem().Interface(), v.Interface()) {
		return fmt.Errorf("[%d]byte: decoding the schema's encoding gives another value", n)
	}
	return nil
}}

func TestProp(t *testing.T) {
	t.Run("combinators", func(t *testing.T) { core.Run(t, comboCheck) })
	t.Run("message", func(t *testing.T) { core.Run(t, messageCheck) })
}

func TestEnum(t *testing.T) {
	rnd := core.Scale(8, 200)
	core.RunEnum(t, intCheck, fmt.Sprintf("every generated integer/bits type (%d) x boundary values {0, 1, -1, min, max, 2^(n-1), 2^(n-2)...} and every VarUInteger byte length, plus %d pseudo-random values each", len(intTypes), rnd), func(yield func(...uint64) bool) {
		for ti, it := range intTypes {
			switch it.family {
			case "VarUInteger":
				for ln := 0; ln < it.n; ln++ {
					for w := 0; w < 3; w++ {
						if !yield(uint64(ti), uint64(ln), uint64(w), uint64(ti*131+ln*7+w+1)) {
							return
						}
					}
				}
			case "Bits":
				for k := 0; k < rnd; k++ {
					if !yield(uint64(ti), uint64(k), uint64(ti*977+k+1)) {
						return
					}
				}
			default:
				nb := len(boundary(it.n, it.family == "Int"))
				for k := 0; k < nb+rnd; k++ {
					sel := k
					if k >= nb {
						sel = 1000 + k
					}
					if !yield(uint64(ti), uint64(sel), uint64(ti*7919+k+1)) {
						return
					}
				}
			}
		}
	})
	core.RunEnum(t, arrayCheck, "fixed byte arrays of every width 1..127 bytes between two unaligned fields", func(yield func(...uint64) bool) {
		for n := 0; n < 127; n++ {
			if !yield(uint64(n), uint64(n)*2654435761+1) {
				return
			}
		}
	})
	per := core.Scale(3, 60)
	core.RunEnum(t, tagCheck, fmt.Sprintf("every constructor of every union type encoded by the reflection codec (%d constructors) x %d payloads", len(unionCtors), per), func(yield func(...uint64) bool) {
		for ci := range unionCtors {
			for k := 0; k < per; k++ {
				if !yield(pseudoTape(uint64(ci)*31+uint64(k)+core.Seed()*65537, uint64(ci))...) {
					return
				}
			}
		}
	})
}

func TestReal(t *testing.T) {
	files, _ := filepath.Glob(filepath.Join(realdata.Repo(), "tlb/testdata/block-*/block.bin"))
	core.RunEnum(t, realCheck, fmt.Sprintf("every transaction and message of the %d real blocks in tlb/testdata", len(files)), func(yield func(...uint64) bool) {
		for i := range files {
			if !yield(uint64(i)) {
				return
			}
		}
	})
	for k, v := range realStats {
		core.Extra("c04/real", k, v)
	}
}

func TestReplay(t *testing.T) {
	core.Replay(t, intCheck, comboCheck, tagCheck, messageCheck, realCheck, arrayCheck, externalCheck, externLimitCheck)
}
