package c18

import (
	"fmt"
	"testing"

	"github.com/tonkeeper/tongo/boc"
	"github.com/tonkeeper/tongo/tlb"

	"verifharness/internal/core"
	"verifharness/internal/ref"
)

// c18/inline: a (Hashmap n X) stored inline shares its root cell with the fields in front of it and behind it
// (the validator-list layout). The caller reads the fields in front and hands the cell over with the read
// position at the dictionary; the lookup starts there. The proof is a proof of the enclosing cell.
var inlineProof = &core.Check{Name: "c18/inline", Quick: 300, Thorough: 30000, Fn: func(c *core.Ctx) error {
	n := c.OneOf("keybits", 8, 16, 32, 64)
	entries := drawEntries(c, n)
	var choose func(ref.Bits, int, []int) int
	if c.Bool("forms") {
		choose = func(s ref.Bits, m int, forms []int) int { return forms[c.Choose("form", len(forms))] }
	}
	root, err := ref.EncodeHashmap(entries, n, choose)
	if err != nil {
		return fmt.Errorf("HARNESS: %v", err)
	}
	front := ref.Bits(c.Bits("front", c.Range("front.n", 1, 64)))
	behind := ref.Bits(c.Bits("behind", c.Range("behind.n", 0, 32)))
	bits := append(append(front.Clone(), root.Bits()...), behind...)
	refs := append([]*ref.RCell{}, root.Refs...)
	if c.Bool("ref.behind") {
		refs = append(refs, ref.NewRCell(ref.Bits{}.AppendUint(0xbe, 8), false))
	}
	if len(bits) > 1023 || len(refs) > 4 {
		c.Class("does not fit")
		return nil
	}
	outer := ref.NewRCell(bits, false, refs...)
	cells, err := boc.DeserializeBoc(ref.SerializeBOC([]*ref.RCell{outer}, ref.BocVariant{}))
	if err != nil {
		return fmt.Errorf("HARNESS: %v", err)
	}
	cell := cells[0]
	prover, err := boc.NewMerkleProver(cell)
	if err != nil {
		return fmt.Errorf("NewMerkleProver: %v", err)
	}
	if _, err := cell.ReadBits(len(front)); err != nil {
		return fmt.Errorf("HARNESS: %v", err)
	}
	e := entries[c.Choose("pick", len(entries))]
	keyBS, keyHow, _ := keyCarrier(c, "key", e.Key)
	c.Note("layout", fmt.Sprintf("%d bits in front, Hashmap %d with %d entries, %d bits behind, %d references", len(front), n, len(entries), len(behind), len(refs)))
	val, proof, err := tlb.ProveKeyInHashmap[tlb.Uint32](prover, cell, keyBS)
	if err != nil {
		return fmt.Errorf("ProveKeyInHashmap for the present key %s (passed as %s) of an inline Hashmap %d with %d entries behind %d other bits of its cell, read position at the dictionary: %v", e.Key, keyHow, n, len(entries), len(front), err)
	}
	if uint64(val) != e.Value.Bits.Uint(0, 32) {
		return fmt.Errorf("ProveKeyInHashmap on an inline dictionary returned value %d for key %s, the dictionary holds %d", val, e.Key, e.Value.Bits.Uint(0, 32))
	}
	if _, _, err := validateProof(proof, outer); err != nil {
		return fmt.Errorf("proof for key %s of an inline dictionary: %v", e.Key, err)
	}
	if len(entries) >= 2 {
		c.NonTrivial(outer.ReprHash(), e.Key.String())
	}
	return nil
}}

func TestInline(t *testing.T) { core.Run(t, inlineProof) }
