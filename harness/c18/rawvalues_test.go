package c18

// Raw-cell value kinds of c18/values (added in round 14): dictionaries whose value type is "the rest of the leaf":
// tlb.Any, boc.Cell, or a struct that ends in a tlb.Any after a field behind a reference. The decoder of such a
// type takes the leaf's remaining bits and references as they are, without walking them; the cells the value
// refers to (1..3 children, with children and grandchildren of their own) belong to the value all the same, so
// the value decoded from the proof must have them - nothing under the proven leaf may be pruned.

import (
	"bytes"
	"fmt"

	"github.com/tonkeeper/tongo/boc"
	"github.com/tonkeeper/tongo/tlb"

	"verifharness/internal/core"
	"verifharness/internal/gen"
	"verifharness/internal/ref"
)

type vTail struct { // a number, a field behind the first reference, and whatever else the leaf holds
	N    tlb.Uint16
	A    tlb.Uint32 `tlb:"^"`
	Rest tlb.Any
}

// wantRaw is the expected value of a raw-cell kind: the bits and the child cells the value consists of (for
// vTail preceded by a number and a referenced number).
type wantRaw struct {
	lead bool
	n, a uint64
	bits ref.Bits
	subs []*ref.RCell
}

// rawChild is a child cell of a raw value: 0..40 bits and 0..3 references to small trees or leaves, so that the
// value has grandchildren and great-grandchildren.
func rawChild(r *core.SplitMix) *ref.RCell {
	var refs []*ref.RCell
	for i, k := 0, r.Intn(4); i < k; i++ {
		if r.Intn(2) == 0 {
			refs = append(refs, valueTree(r))
		} else {
			refs = append(refs, leafCell(r.Next()&0xffff, 16))
		}
	}
	w := []int{0, 1, 8, 32, 40}[r.Intn(5)]
	return ref.NewRCell(ref.Bits{}.AppendUint(field(r, w), w), false, refs...)
}

// unreadPart images what a reader of the cell would still get: the bits and references behind its read cursors
// (public accessors only). A tlb.Any is a fresh cell read from its start; a boc.Cell decoded out of a leaf is the
// leaf itself with the cursors behind the label.
func unreadPart(x *boc.Cell) (ref.Bits, []*boc.Cell, error) {
	all := gen.BitsOf(x.RawBitString())
	left := x.BitsAvailableForRead()
	refs := x.Refs()
	rleft := x.RefsAvailableForRead()
	if left < 0 || left > len(all) || rleft < 0 || rleft > len(refs) {
		return nil, nil, fmt.Errorf("a cell with %d of %d bits and %d of %d references left to read", left, len(all), rleft, len(refs))
	}
	return all[len(all)-left:], refs[len(refs)-rleft:], nil
}

// sameRaw compares the rest-of-the-leaf value the library handed out with the stored one, child cells by
// representation hash.
func sameRaw(x *boc.Cell, w wantRaw) error {
	bits, refs, err := unreadPart(x)
	if err != nil {
		return err
	}
	if !bits.Equal(w.bits) || len(refs) != len(w.subs) {
		return fmt.Errorf("a raw value of %d bits x{%s} and %d references, the dictionary holds %d bits x{%s} and %d references", len(bits), bits.FiftHex(), len(refs), len(w.bits), w.bits.FiftHex(), len(w.subs))
	}
	for k, ch := range refs {
		img, err := gen.FromTongo(ch, 20000)
		if err != nil {
			return fmt.Errorf("child cell %d of the raw value cannot be imaged: %v", k, err)
		}
		if bytes.Equal(img.ReprHash(), w.subs[k].ReprHash()) {
			continue
		}
		if img.Special && img.Type() == ref.TypePruned {
			return fmt.Errorf("child cell %d of the raw value is a pruned branch, the dictionary holds there an ordinary cell hashing to %x (depth %d): the cells the value refers to are not revealed", k, w.subs[k].ReprHash(), w.subs[k].Depth(0))
		}
		return fmt.Errorf("child cell %d of the raw value hashes to %x (depth %d), the dictionary holds one hashing to %x (depth %d)", k, img.ReprHash(), img.Depth(0), w.subs[k].ReprHash(), w.subs[k].Depth(0))
	}
	return nil
}

func decodeWidths[T any](proofRoot *boc.Cell, n int) ([]ref.Bits, []any, bool, error) {
	switch n {
	case 8:
		return decodeProof[tlb.Uint8, T](proofRoot, func(k tlb.Uint8) ref.Bits { return ref.Bits{}.AppendUint(uint64(k), 8) })
	case 16:
		return decodeProof[tlb.Uint16, T](proofRoot, func(k tlb.Uint16) ref.Bits { return ref.Bits{}.AppendUint(uint64(k), 16) })
	case 32:
		return decodeProof[tlb.Uint32, T](proofRoot, func(k tlb.Uint32) ref.Bits { return ref.Bits{}.AppendUint(uint64(k), 32) })
	case 64:
		return decodeProof[tlb.Uint64, T](proofRoot, func(k tlb.Uint64) ref.Bits { return ref.Bits{}.AppendUint(uint64(k), 64) })
	case 256:
		return decodeProof[tlb.Bits256, T](proofRoot, func(k tlb.Bits256) ref.Bits { return ref.BitsFromBytes(k[:], 256) })
	}
	return nil, nil, false, nil
}

// newRawKind makes the value kind for value type T; rest returns the raw cell inside a decoded T after checking
// the fields in front of it. lead: the value starts with 16 bits and a referenced 32-bit number (vTail).
func newRawKind[T any](name string, lead bool, rest func(v *T, w wantRaw) (*boc.Cell, error)) *valKind {
	k := &valKind{name: name}
	k.draw = func(c *core.Ctx, label string, deep *ref.RCell) (ref.DictValue, any) {
		r := core.NewSplitMix(c.U64(label))
		w := wantRaw{lead: lead}
		var v ref.DictValue
		if lead {
			w.n, w.a = field(r, 16), field(r, 32)
			v.Bits = ref.Bits{}.AppendUint(w.n, 16)
			v.Refs = []*ref.RCell{leafCell(w.a, 32)}
		}
		nb := []int{0, 1, 8, 24, 64, 100}[r.Intn(6)]
		for i := 0; i < nb; i += 50 {
			part := nb - i
			if part > 50 {
				part = 50
			}
			w.bits = w.bits.AppendUint(field(r, part), part)
		}
		// one to three child cells (one or two behind the referenced number); once in eight none at all
		most := 3
		if lead {
			most = 2
		}
		kids := 1 + r.Intn(most)
		if r.Intn(8) == 0 {
			kids = 0
		}
		for i := 0; i < kids; i++ {
			if deep != nil && i == 0 {
				w.subs = append(w.subs, deep)
			} else {
				w.subs = append(w.subs, rawChild(r))
			}
		}
		v.Bits = append(v.Bits, w.bits...)
		v.Refs = append(v.Refs, w.subs...)
		return v, w
	}
	k.prove = func(p *boc.MerkleProver, cell *boc.Cell, key boc.BitString) (any, []byte, error) {
		v, proof, err := tlb.ProveKeyInHashmap[T](p, cell, key)
		return v, proof, err
	}
	k.decode = func(proofRoot *boc.Cell, n int) ([]ref.Bits, []any, bool, error) { return decodeWidths[T](proofRoot, n) }
	k.same = func(got, want any) error {
		g, ok := got.(T)
		if !ok {
			return fmt.Errorf("a value of type %T", got)
		}
		w := want.(wantRaw)
		x, err := rest(&g, w)
		if err != nil {
			return err
		}
		return sameRaw(x, w)
	}
	return k
}

func init() {
	valueKinds = append(valueKinds,
		newRawKind("raw cell (tlb.Any) with child cells", false, func(v *tlb.Any, _ wantRaw) (*boc.Cell, error) {
			return (*boc.Cell)(v), nil
		}),
		newRawKind("raw cell (boc.Cell) with child cells", false, func(v *boc.Cell, _ wantRaw) (*boc.Cell, error) {
			return v, nil
		}),
		newRawKind("16 bits, a reference and a raw rest (tlb.Any) with child cells", true, func(v *vTail, w wantRaw) (*boc.Cell, error) {
			if uint64(v.N) != w.n || uint64(v.A) != w.a {
				return nil, fmt.Errorf("N = %d, A = %d, the dictionary holds %d, %d", v.N, v.A, w.n, w.a)
			}
			return (*boc.Cell)(&v.Rest), nil
		}),
	)
}
