// C18 — generated Merkle proofs commit to the original tree and reveal the value.
package c18

import (
	"bytes"
	"errors"
	"fmt"
	"sort"
	"strings"
	"testing"

	"github.com/tonkeeper/tongo/boc"
	"github.com/tonkeeper/tongo/tlb"

	"verifharness/internal/core"
	"verifharness/internal/gen"
	"verifharness/internal/ref"
)

func TestMain(m *testing.M) { core.Main(m, "C18") }

func drawEntries(c *core.Ctx, n int) []ref.DictEntry {
	count := 1 + c.Intn("nkeys", core.Scale(12, 40))
	if c.Intn("big", 30) == 0 {
		count = core.Scale(100, 600)
	}
	seen := map[string]bool{}
	var out []ref.DictEntry
	shape := c.Choose("shape", 4)
	base := ref.Bits(c.Bits("base", n))
	for i := 0; i < count; i++ {
		var k ref.Bits
		switch shape {
		case 0:
			k = ref.Bits(c.Bits("key", n))
		case 1: // long common prefix
			k = base.Clone()
			for b := 0; b < 4 && b < n; b++ {
				k[n-1-b] = (i>>uint(b))&1 == 1
			}
		case 2: // runs of equal bits
			k = make(ref.Bits, n)
			v := c.Bool("run")
			for j := range k {
				k[j] = v
			}
			k[c.Choose("flip", n)] = !v
		default: // dense
			k = ref.Bits{}.AppendUint(uint64(i), n)
			if n > 64 {
				k = append(make(ref.Bits, n-64), ref.Bits{}.AppendUint(uint64(i), 64)...)
			}
		}
		if !seen[k.String()] {
			seen[k.String()] = true
			out = append(out, ref.DictEntry{Key: k, Value: ref.DictValue{Bits: ref.Bits{}.AppendUint(c.U64("val")&0xffffffff, 32)}})
		}
	}
	return out
}

// checkProofTree walks the original and the pruned tree in parallel.
func checkProofTree(orig, pruned *ref.RCell, path string, prunedCount *int) error {
	if pruned.Special {
		if pruned.Type() != ref.TypePruned {
			return fmt.Errorf("%s: unexpected special cell of type %d inside the proof", path, pruned.Type())
		}
		if err := pruned.WellFormed(); err != nil {
			return fmt.Errorf("%s: ill-formed pruned branch: %v", path, err)
		}
		if pruned.Data[1] != 1 {
			return fmt.Errorf("%s: pruned branch with mask %03b, want 001", path, pruned.Data[1])
		}
		if !bytes.Equal(pruned.Data[2:34], orig.Hash(0)) {
			return fmt.Errorf("%s: pruned branch stores hash %x, the subtree it replaces hashes to %x", path, pruned.Data[2:34], orig.Hash(0))
		}
		if d := int(pruned.Data[34])<<8 | int(pruned.Data[35]); d != orig.Depth(0) {
			return fmt.Errorf("%s: pruned branch stores depth %d, the subtree it replaces has depth %d", path, d, orig.Depth(0))
		}
		*prunedCount++
		return nil
	}
	if !pruned.Bits().Equal(orig.Bits()) || len(pruned.Refs) != len(orig.Refs) {
		return fmt.Errorf("%s: proof cell x{%s} with %d refs differs from the original x{%s} with %d refs", path, pruned.Bits().FiftHex(), len(pruned.Refs), orig.Bits().FiftHex(), len(orig.Refs))
	}
	for i := range orig.Refs {
		if err := checkProofTree(orig.Refs[i], pruned.Refs[i], fmt.Sprintf("%s/%d", path, i), prunedCount); err != nil {
			return err
		}
	}
	return nil
}

// validateProof checks the bag of cells returned as a proof against the original root.
func validateProof(proof []byte, origRoot *ref.RCell) (*ref.RCell, int, error) {
	info, err := ref.ParseBOCInfo(proof)
	if err != nil {
		return nil, 0, fmt.Errorf("reference parser rejects the proof BOC: %v", err)
	}
	rr := info.Roots
	if len(rr) != 1 {
		return nil, 0, fmt.Errorf("proof has %d roots", len(rr))
	}
	mp := rr[0]
	if mp.Type() != ref.TypeMerkleProof || mp.WellFormed() != nil {
		return nil, 0, fmt.Errorf("proof root is not a well-formed Merkle proof cell")
	}
	if mp.Level() != 0 {
		return nil, 0, fmt.Errorf("Merkle proof cell has level %d, want 0", mp.Level())
	}
	if !bytes.Equal(mp.Data[1:33], origRoot.ReprHash()) {
		return nil, 0, fmt.Errorf("Merkle proof cell stores hash %x, the original root hashes to %x", mp.Data[1:33], origRoot.ReprHash())
	}
	if d := int(mp.Data[33])<<8 | int(mp.Data[34]); d != origRoot.Depth(0) {
		return nil, 0, fmt.Errorf("Merkle proof cell stores depth %d, the original root has depth %d", d, origRoot.Depth(0))
	}
	if !bytes.Equal(mp.Refs[0].Hash(0), origRoot.ReprHash()) {
		return nil, 0, fmt.Errorf("the pruned tree hashes (at level 0) to %x, not to the original root hash %x", mp.Refs[0].Hash(0), origRoot.ReprHash())
	}
	if d := mp.Refs[0].Depth(0); d != origRoot.Depth(0) {
		return nil, 0, fmt.Errorf("the pruned tree has level-0 depth %d, the original root has depth %d", d, origRoot.Depth(0))
	}
	n := 0
	if err := checkProofTree(origRoot, mp.Refs[0], "root", &n); err != nil {
		return nil, 0, err
	}
	// the level masks tongo wrote into the descriptor bytes are the ones the content of the cells gives
	if err := declaredMasks(info); err != nil {
		return nil, 0, err
	}
	// tongo's own parser and hasher agree on the proof
	tt, err := boc.DeserializeBoc(proof)
	if err != nil || len(tt) != 1 {
		return nil, 0, fmt.Errorf("tongo cannot parse the proof it produced: %v", err)
	}
	h, err := tt[0].Hash()
	if err != nil || !bytes.Equal(h, mp.ReprHash()) {
		return nil, 0, fmt.Errorf("tongo hashes its proof to %x (%v), the reference to %x", h, err, mp.ReprHash())
	}
	return mp, n, nil
}

var dictProof = &core.Check{Name: "c18/dict", Quick: 1200, Thorough: 100000, Fn: func(c *core.Ctx) error {
	n := c.OneOf("keybits", 8, 9, 15, 16, 32, 64, 256)
	if c.Bool("anywidth") {
		n = c.Range("keybits.r", 8, 256)
	}
	entries := drawEntries(c, n)
	c.Note("key_bits", n)
	c.Note("entries", len(entries))
	// dictionary written either by the reference encoder with drawn label forms or canonically
	var choose func(ref.Bits, int, []int) int
	if c.Bool("forms") {
		choose = func(s ref.Bits, m int, forms []int) int { return forms[c.Choose("form", len(forms))] }
	}
	root, err := ref.EncodeHashmap(entries, n, choose)
	if err != nil {
		return fmt.Errorf("HARNESS: %v", err)
	}
	data := ref.SerializeBOC([]*ref.RCell{root}, ref.BocVariant{})
	// The dictionary as the caller holds it when the prover is made: fresh from the parser, or READ before -
	// decoded with tlb.Unmarshal to learn its keys, or walked so that the read cursors of its cells stand
	// anywhere. ProveKeyInHashmap reads from the root's cursor, so the root is reset (ResetCounters is not
	// recursive: the cells below keep their cursors) - before the prover is made, or only after.
	readHow := ""
	load := func(label string) (*boc.Cell, *boc.MerkleProver, error) {
		cells, err := boc.DeserializeBoc(data)
		if err != nil {
			return nil, nil, err
		}
		readHow = "dictionary not read before"
		if c.Intn(label+".decode", 3) == 0 && decodeDict(cells[0], n) {
			readHow = "dictionary decoded with tlb.Unmarshal before the prover was made"
			c.Class("dictionary decoded with tlb.Unmarshal before the prover is made")
		} else if how := readTree(c, label+".read", cells[0]); how != "tree not read" {
			readHow = how
			c.Class("dictionary cells read before the prover is made")
		}
		late := c.Intn(label+".reset.late", 3) == 0
		if !late {
			cells[0].ResetCounters()
		}
		p, err := boc.NewMerkleProver(cells[0])
		if late {
			readHow += ", root reset after NewMerkleProver"
			cells[0].ResetCounters()
		}
		return cells[0], p, err
	}
	// a present key
	e := entries[c.Choose("pick", len(entries))]
	cell, prover, err := load("load")
	if err != nil {
		return fmt.Errorf("NewMerkleProver: %v", err)
	}
	firstRead := readHow
	c.Note("read", firstRead)
	keyBS, keyHow, keyKind := keyCarrier(c, "key", e.Key)
	c.Note("key carrier", keyHow)
	c.Class("requested key in: " + keyKind)
	val, proof, err := tlb.ProveKeyInHashmap[tlb.Uint32](prover, cell, keyBS)
	if err != nil {
		return fmt.Errorf("ProveKeyInHashmap for a present key %s (dictionary of %d entries, %d-bit keys; key passed as %s; %s): %v", e.Key, len(entries), n, keyHow, firstRead, err)
	}
	if uint64(val) != e.Value.Bits.Uint(0, 32) {
		return fmt.Errorf("ProveKeyInHashmap returned value %d for key %s, the dictionary holds %d", val, e.Key, e.Value.Bits.Uint(0, 32))
	}
	mp, npruned, err := validateProof(proof, root)
	if err != nil {
		return fmt.Errorf("proof for key %s (%s): %v", e.Key, firstRead, err)
	}
	// the value can be decoded from the proof: with the reference dictionary decoder on the unpruned path ...
	if got, ok := lookupInPruned(mp.Refs[0], e.Key); !ok || !got.Equal(e.Value.Bits) {
		return fmt.Errorf("the proven key %s cannot be read from the proof with the reference decoder (found=%v value=%s)", e.Key, ok, got)
	}
	// ... and through tongo's own MerkleProof decoder
	tt, _ := boc.DeserializeBoc(proof)
	var decoded tlb.MerkleProof[tlb.Hashmap[bitsKey, tlb.Uint32]]
	_ = decoded
	if err := decodeWithTongo(tt[0], n, e); err != nil {
		return err
	}
	// the body of the proof is a partial dictionary (as a client holds it after a liteserver proof): proving the
	// same key from it gives a proof of the ORIGINAL dictionary again - same header hash and depth (the siblings
	// that are pruned branches already often stand for the deepest part), same pruned positions
	if c.Intn("reprove", 3) == 0 {
		fresh, ferr := boc.DeserializeBoc(proof)
		if ferr != nil || len(fresh) != 1 {
			return fmt.Errorf("tongo cannot parse the proof it produced: %v", ferr)
		}
		body := fresh[0].Refs()
		if len(body) != 1 {
			return fmt.Errorf("tongo reads its proof cell with %d references", len(body))
		}
		readTree(c, "reprove.read", body[0])
		prover2, err := boc.NewMerkleProver(body[0])
		if err != nil {
			return fmt.Errorf("NewMerkleProver on the dictionary inside a proof: %v", err)
		}
		body[0].ResetCounters()
		key2, _, _ := keyCarrier(c, "reprove.key", e.Key)
		val2, proof2, err := tlb.ProveKeyInHashmap[tlb.Uint32](prover2, body[0], key2)
		if err != nil {
			return fmt.Errorf("ProveKeyInHashmap for key %s on the dictionary inside its own proof: %v", e.Key, err)
		}
		if uint64(val2) != e.Value.Bits.Uint(0, 32) {
			return fmt.Errorf("ProveKeyInHashmap on the dictionary inside a proof returned value %d for key %s, the dictionary holds %d", val2, e.Key, e.Value.Bits.Uint(0, 32))
		}
		mp2, _, err := validateProof(proof2, root)
		if err != nil {
			return fmt.Errorf("proof for key %s made from the dictionary inside the first proof (%d pruned branches, depth as it is %d, original depth %d): %v", e.Key, npruned, mp.Refs[0].Depth(3), root.Depth(0), err)
		}
		if !bytes.Equal(mp2.ReprHash(), mp.ReprHash()) {
			return fmt.Errorf("proof for key %s made from the dictionary inside the first proof differs from the first proof (%x, first %x)", e.Key, mp2.ReprHash(), mp.ReprHash())
		}
		c.Class("key proven again from the dictionary inside its proof")
		if mp.Refs[0].Depth(3) < root.Depth(0) {
			c.Class("key proven again, pruned siblings hide the deepest part")
		}
	}
	if len(entries) >= 3 || npruned >= 2 {
		c.NonTrivial(root.ReprHash(), e.Key.String())
	}
	c.Class(fmt.Sprintf("pruned subtrees: %d", min(npruned, 6)))
	// one prover used for a sequence of requests: a present key, an absent key (the walk is abandoned with
	// an error), another present key. Every returned proof must stand on its own.
	if len(entries) >= 2 {
		cellS, proverS, err := load("loadS")
		if err != nil {
			return err
		}
		readS := readHow
		e2 := entries[c.Choose("pick2", len(entries))]
		absent := e.Key.Clone()
		absent[c.Choose("absent.flip", n)] = !absent[c.Choose("absent.flip2", n)]
		isPresent := false
		for _, x := range entries {
			isPresent = isPresent || x.Key.Equal(absent)
		}
		steps := []ref.DictEntry{e, {Key: absent}, e2}
		for si, st := range steps {
			if si == 1 && isPresent {
				continue
			}
			cellS.ResetCounters()
			keyS, keySHow, _ := keyCarrier(c, "reuse.key", st.Key)
			v, pr, perr := tlb.ProveKeyInHashmap[tlb.Uint32](proverS, cellS, keyS)
			if si == 1 {
				if perr == nil {
					return fmt.Errorf("reused prover: a proof was produced for the absent key %s (passed as %s)", st.Key, keySHow)
				}
				continue
			}
			if perr != nil {
				return fmt.Errorf("reused prover, request %d (key %s passed as %s; %s): %v", si+1, st.Key, keySHow, readS, perr)
			}
			if uint64(v) != st.Value.Bits.Uint(0, 32) {
				return fmt.Errorf("reused prover, request %d: value %d for key %s, the dictionary holds %d", si+1, v, st.Key, st.Value.Bits.Uint(0, 32))
			}
			mp2, _, verr := validateProof(pr, root)
			if verr != nil {
				return fmt.Errorf("reused prover, request %d (key %s; %s): %v", si+1, st.Key, readS, verr)
			}
			if got, ok := lookupInPruned(mp2.Refs[0], st.Key); !ok || !got.Equal(st.Value.Bits) {
				return fmt.Errorf("reused prover, request %d: key %s cannot be read from its proof (an earlier request on the same prover proved %s, then the absent key %s was asked for)", si+1, st.Key, e.Key, absent)
			}
		}
		c.Class("prover reused for present/absent/present")
	}
	// absent keys: flip the first, a middle and the last bit of a present key
	for _, pos := range []int{0, n / 2, n - 1} {
		k := e.Key.Clone()
		k[pos] = !k[pos]
		present := false
		for _, x := range entries {
			if x.Key.Equal(k) {
				present = true
			}
		}
		if present {
			continue
		}
		cell, prover, err := load("loadA")
		if err != nil {
			return err
		}
		keyA, keyAHow, _ := keyCarrier(c, "absent.key", k)
		var perr error
		var aproof []byte
		if p := core.Protect(func() error {
			_, aproof, perr = tlb.ProveKeyInHashmap[tlb.Uint32](prover, cell, keyA)
			return nil
		}); p != nil {
			return fmt.Errorf("ProveKeyInHashmap panicked for an absent key %s (passed as %s): %v", k, keyAHow, p)
		}
		if perr == nil {
			return fmt.Errorf("ProveKeyInHashmap produced a proof (%d bytes) for key %s (passed as %s), which is not in the dictionary", len(aproof), k, keyAHow)
		}
		c.Class("absent key refused")
	}
	return nil
}}

type bitsKey = tlb.Bits256

func min(a, b int) int {
	if a < b {
		return a
	}
	return b
}

// lookupInPruned follows key through a dictionary tree in which subtrees may be pruned.
func lookupInPruned(root *ref.RCell, key ref.Bits) (ref.Bits, bool) {
	c, pos := root, 0
	for depth := 0; depth < 1100; depth++ {
		if c.Special {
			return nil, false
		}
		// decode this single edge with the reference decoder by presenting it as a dictionary whose
		// children are replaced by leaves: simpler to decode the label by hand through DecodeHashmap on a stub
		label, rest, ok := ref.DecodeLabel(c.Bits(), len(key)-pos)
		if !ok {
			return nil, false
		}
		for i, b := range label {
			if pos+i >= len(key) || key[pos+i] != b {
				return nil, false
			}
		}
		pos += len(label)
		if pos == len(key) {
			return rest, true
		}
		if len(c.Refs) != 2 {
			return nil, false
		}
		if key[pos] {
			c = c.Refs[1]
		} else {
			c = c.Refs[0]
		}
		pos++
	}
	return nil, false
}

// decodeWithTongo decodes the proof through tlb.MerkleProof for the key widths that have a key type.
func decodeWithTongo(proofRoot *boc.Cell, n int, e ref.DictEntry) error {
	check := func(keys []ref.Bits, vals []tlb.Uint32, err error) error {
		if err != nil {
			return fmt.Errorf("tlb.MerkleProof[Hashmap] cannot decode the proof: %v", err)
		}
		for i, k := range keys {
			if k.Equal(e.Key) {
				if uint64(vals[i]) != e.Value.Bits.Uint(0, 32) {
					return fmt.Errorf("value decoded from the proof for key %s is %d, want %d", e.Key, vals[i], e.Value.Bits.Uint(0, 32))
				}
				return nil
			}
		}
		return fmt.Errorf("the proven key %s is not among the %d keys decoded from the proof", e.Key, len(keys))
	}
	switch n {
	case 8:
		var p tlb.MerkleProof[tlb.Hashmap[tlb.Uint8, tlb.Uint32]]
		err := tlb.Unmarshal(proofRoot, &p)
		var ks []ref.Bits
		for _, k := range p.VirtualRoot.Keys() {
			ks = append(ks, ref.Bits{}.AppendUint(uint64(k), 8))
		}
		return check(ks, p.VirtualRoot.Values(), err)
	case 16:
		var p tlb.MerkleProof[tlb.Hashmap[tlb.Uint16, tlb.Uint32]]
		err := tlb.Unmarshal(proofRoot, &p)
		var ks []ref.Bits
		for _, k := range p.VirtualRoot.Keys() {
			ks = append(ks, ref.Bits{}.AppendUint(uint64(k), 16))
		}
		return check(ks, p.VirtualRoot.Values(), err)
	case 32:
		var p tlb.MerkleProof[tlb.Hashmap[tlb.Uint32, tlb.Uint32]]
		err := tlb.Unmarshal(proofRoot, &p)
		var ks []ref.Bits
		for _, k := range p.VirtualRoot.Keys() {
			ks = append(ks, ref.Bits{}.AppendUint(uint64(k), 32))
		}
		return check(ks, p.VirtualRoot.Values(), err)
	case 64:
		var p tlb.MerkleProof[tlb.Hashmap[tlb.Uint64, tlb.Uint32]]
		err := tlb.Unmarshal(proofRoot, &p)
		var ks []ref.Bits
		for _, k := range p.VirtualRoot.Keys() {
			ks = append(ks, ref.Bits{}.AppendUint(uint64(k), 64))
		}
		return check(ks, p.VirtualRoot.Values(), err)
	case 256:
		var p tlb.MerkleProof[tlb.Hashmap[tlb.Bits256, tlb.Uint32]]
		err := tlb.Unmarshal(proofRoot, &p)
		var ks []ref.Bits
		for _, k := range p.VirtualRoot.Keys() {
			ks = append(ks, ref.BitsFromBytes(k[:], 256))
		}
		return check(ks, p.VirtualRoot.Values(), err)
	}
	return nil
}

// cursor API on arbitrary trees
var cursorProof = &core.Check{Name: "c18/cursor", Quick: 1500, Thorough: 120000, Fn: func(c *core.Ctx) error {
	nodes := gen.Dag(c, gen.DagOpts{MaxNodes: 2 + c.Intn("nodes", 14), Shape: c.Weighted("shape", 4, 1, 1, 1)})
	root := nodes[len(nodes)-1]
	t, err := gen.ToTongo(root, c.Bool("share"), 5000)
	if err != nil {
		if errors.Is(err, gen.ErrBudget) {
			return nil
		}
		return err
	}
	// the tree may have been read before the prover is made (read cursors of its cells anywhere, the root is
	// reset or not): it is the same tree
	readHow := readTree(c, "read", t)
	if readHow != "tree not read" {
		if c.Bool("read.reset") {
			t.ResetCounters()
			readHow += ", root reset"
		}
		c.Class("tree read before the prover is made")
	}
	c.Note("read", readHow)
	prover, err := boc.NewMerkleProver(t)
	if err != nil {
		return fmt.Errorf("NewMerkleProver (%s): %v", readHow, err)
	}
	cur := prover.Cursor()
	np := c.Intn("prunes", 5)
	pruned := 0
	type held struct {
		cur  *boc.Cursor
		path []int
	}
	var holds []held
	// cursors are first collected (children of one cursor are taken side by side and kept), then pruned
	// in a drawn order: the API hands out independent positions
	for i := 0; i < np; i++ {
		x, rx := cur, root
		var path []int
		for d := c.Intn("plen", 6); d >= 0 && len(rx.Refs) > 0; d-- {
			k := c.Intn("pref", len(rx.Refs))
			if c.Bool("siblings") { // take all children of this cursor, keep them, continue with the k-th
				var kids []*boc.Cursor
				for j := range rx.Refs {
					kids = append(kids, x.Ref(j))
				}
				for j, kc := range kids {
					if j != k && c.Intn("keep", 3) == 0 {
						holds = append(holds, held{kc, append(append([]int{}, path...), j)})
					}
				}
				x = kids[k]
			} else {
				x = x.Ref(k)
			}
			rx = rx.Refs[k]
			path = append(path, k)
		}
		if len(path) > 0 {
			holds = append(holds, held{x, path})
		}
	}
	wantPruned := map[string]bool{}
	for len(holds) > 0 {
		i := c.Choose("order", len(holds))
		h := holds[i]
		holds = append(holds[:i], holds[i+1:]...)
		if c.Intn("skip", 4) == 0 {
			continue
		}
		h.cur.Prune()
		wantPruned[fmt.Sprint(h.path)] = true
		pruned++
	}
	// ... or is read while the prover exists
	if c.Intn("read.late", 4) == 0 {
		if how := readTree(c, "read2", t); how != "tree not read" {
			readHow += "; " + strings.Replace(how, "before", "between NewMerkleProver and CreateProof", 1)
			c.Class("tree read between NewMerkleProver and CreateProof")
		}
	}
	proof, err := prover.CreateProof(cur)
	if err != nil {
		return fmt.Errorf("CreateProof (%s): %v", readHow, err)
	}
	_, n, err := validateProof(proof, root)
	if err != nil {
		return fmt.Errorf("proof with %d pruned paths (%s): %v", pruned, readHow, err)
	}
	// a proof can be narrowed further: the pruned tree of the first proof is the source of a second prover,
	// positions are pruned in it (possibly positions that already are pruned branches), and the second
	// proof must still commit to the ORIGINAL root
	if c.Bool("narrow") {
		first, perr := boc.DeserializeBoc(proof)
		if perr != nil {
			return perr
		}
		body, berr := first[0].NextRef()
		if berr != nil {
			return berr
		}
		rrFirst, _ := ref.ParseBOC(proof)
		bodyRef := rrFirst[0].Refs[0]
		read2 := readTree(c, "narrow.read", body)
		prover2, perr := boc.NewMerkleProver(body)
		if perr != nil {
			return fmt.Errorf("NewMerkleProver on the pruned tree of a proof (%s): %v", read2, perr)
		}
		cur2 := prover2.Cursor()
		pr2 := 0
		for i, np2 := 0, 1+c.Intn("narrow.n", 3); i < np2; i++ {
			x, rx := cur2, bodyRef
			steps := 0
			for d := c.Intn("narrow.len", 6); d >= 0 && len(rx.Refs) > 0; d-- {
				k := c.Intn("narrow.ref", len(rx.Refs))
				x, rx = x.Ref(k), rx.Refs[k]
				steps++
			}
			if steps > 0 {
				x.Prune()
				pr2++
				if rx.Special {
					c.Class("pruned a position that already was a pruned branch")
				}
			}
		}
		proof2, perr := prover2.CreateProof(cur2)
		if perr != nil {
			return fmt.Errorf("CreateProof on a narrowed proof: %v", perr)
		}
		rr2, perr := ref.ParseBOC(proof2)
		if perr != nil || len(rr2) != 1 || rr2[0].Type() != ref.TypeMerkleProof || rr2[0].WellFormed() != nil {
			return fmt.Errorf("narrowed proof is not a well-formed Merkle proof (%v)", perr)
		}
		if !bytes.Equal(rr2[0].Refs[0].Hash(0), root.ReprHash()) {
			return fmt.Errorf("narrowed proof (%d more positions pruned): its tree hashes at level 0 to %x, the original root hashes to %x", pr2, rr2[0].Refs[0].Hash(0), root.ReprHash())
		}
		if !bytes.Equal(rr2[0].Data[1:33], root.ReprHash()) {
			return fmt.Errorf("narrowed proof stores root hash %x, the original root hashes to %x", rr2[0].Data[1:33], root.ReprHash())
		}
		// header depth, every pruned branch (old ones that stay and new ones) and the declared level masks
		if _, _, verr := validateProof(proof2, root); verr != nil {
			return fmt.Errorf("narrowed proof (first proof pruned %d positions, %d more positions pruned in its body; %s): %v", pruned, pr2, read2, verr)
		}
		c.Class("narrowed proof")
	}
	if pruned > 0 && n == 0 {
		return fmt.Errorf("%d cursors were pruned but the proof contains no pruned branch", pruned)
	}
	// the pruned branches of the proof are exactly at the positions pruned through the cursor API
	// (a position below an already pruned one does not appear on its own)
	rr, _ := ref.ParseBOC(proof)
	got := map[string]bool{}
	var walk func(x *ref.RCell, path []int)
	walk = func(x *ref.RCell, path []int) {
		if x.Special {
			got[fmt.Sprint(path)] = true
			return
		}
		for i, r := range x.Refs {
			walk(r, append(append([]int{}, path...), i))
		}
	}
	walk(rr[0].Refs[0], nil)
	covered := func(p string, set map[string]bool) bool {
		// p is covered when itself or one of its prefixes is in the set
		var ints []int
		fmt.Sscan(strings.NewReplacer("[", "", "]", "").Replace(p))
		_ = ints
		if set[p] {
			return true
		}
		fields := strings.Fields(strings.Trim(p, "[]"))
		for k := len(fields) - 1; k >= 1; k-- {
			if set["["+strings.Join(fields[:k], " ")+"]"] {
				return true
			}
		}
		return false
	}
	for p := range wantPruned {
		if !covered(p, got) {
			return fmt.Errorf("position %s was pruned through its cursor but the proof still contains it in full (pruned branches are at %v)", p, keys(got))
		}
	}
	for p := range got {
		if !covered(p, wantPruned) {
			return fmt.Errorf("the proof has a pruned branch at %s, which was not pruned through the cursor API (pruned: %v)", p, keys(wantPruned))
		}
	}
	if n >= 2 {
		c.NonTrivial(root.ReprHash(), proof)
	}
	c.Class(fmt.Sprintf("pruned subtrees: %d", min(n, 6)))
	return nil
}}

func TestProp(t *testing.T) {
	t.Run("dict", func(t *testing.T) { core.Run(t, dictProof) })
	t.Run("cursor", func(t *testing.T) { core.Run(t, cursorProof) })
}

func TestReplay(t *testing.T) { core.Replay(t, dictProof, cursorProof, partialProof, merkleProof, replaceProof, inlineProof, valuesProof, deepProof) }

func keys(m map[string]bool) []string {
	var out []string
	for k := range m {
		out = append(out, k)
	}
	sort.Strings(out)
	return out
}
