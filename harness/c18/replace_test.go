package c18

// Sequences on ONE root variable. A proof is a function of the tree as it is when the prover is made: a caller
// who keeps "the current dictionary" in one boc.Cell variable and refreshes that variable IN PLACE
// (`*state = *newRoot`, Cell.UnmarshalJSON / json.Unmarshal into it, writing more bits or one more reference to
// the root, replacing the content of a cell below the root) and then makes a new prover for it must get proofs
// of what the variable holds NOW: the Merkle-proof cell carries the hash and depth of the current root, the
// pruned tree hashes to it, every pruned branch stands for the current subtree, the value read from the proof
// is the current value, and a key that was present in an earlier content but is not any more is refused.
// Nothing the library saw at an earlier NewMerkleProver call for the same pointer may show up in the proof.
//
// The content of the variable after every step is imaged through the public accessors (gen.FromTongo: bits,
// references, exotic flag of every cell) - that image, hashed by the reference model, is "the original tree".

import (
	"bytes"
	"encoding/hex"
	"encoding/json"
	"fmt"
	"strings"
	"testing"

	"github.com/tonkeeper/tongo/boc"
	"github.com/tonkeeper/tongo/tlb"

	"verifharness/internal/core"
	"verifharness/internal/gen"
	"verifharness/internal/ref"
)

// putRoot replaces the content of the variable by the tree root (ordinary cells only) and says how.
func putRoot(c *core.Ctx, label string, state *boc.Cell, root *ref.RCell) (string, error) {
	how := c.Weighted(label+".how", 3, 2, 2, 2)
	if how == 1 {
		t, err := gen.ToTongo(root, c.Bool(label+".share"), 5000)
		if err == nil {
			*state = *t
			return "*state = *root (cells made with NewCell / AddRef)", nil
		}
		how = 0
	}
	data := ref.SerializeBOC([]*ref.RCell{root}, ref.BocVariant{})
	switch how {
	case 2:
		return "state.UnmarshalJSON", state.UnmarshalJSON([]byte(`"` + hex.EncodeToString(data) + `"`))
	case 3:
		return "json.Unmarshal(.., state)", json.Unmarshal([]byte(`"`+hex.EncodeToString(data)+`"`), state)
	}
	cells, err := boc.DeserializeBoc(data)
	if err != nil || len(cells) != 1 {
		return "", fmt.Errorf("tongo cannot parse the reference-made bag: %v", err)
	}
	*state = *cells[0]
	return "*state = *root (root returned by DeserializeBoc)", nil
}

// dictPath follows key through a dictionary of the reference model: reference indices down to the leaf.
func dictPath(root *ref.RCell, key ref.Bits) ([]int, *ref.RCell, bool) {
	x, pos := root, 0
	var path []int
	for depth := 0; depth < 1100; depth++ {
		if x.Special {
			return nil, nil, false
		}
		label, _, ok := ref.DecodeLabel(x.Bits(), len(key)-pos)
		if !ok {
			return nil, nil, false
		}
		for i, b := range label {
			if pos+i >= len(key) || key[pos+i] != b {
				return nil, nil, false
			}
		}
		pos += len(label)
		if pos == len(key) {
			return path, x, true
		}
		if len(x.Refs) != 2 {
			return nil, nil, false
		}
		k := 0
		if key[pos] {
			k = 1
		}
		path = append(path, k)
		x = x.Refs[k]
		pos++
	}
	return nil, nil, false
}

// cellAt walks the tongo tree along reference indices.
func cellAt(root *boc.Cell, path []int) *boc.Cell {
	x := root
	for _, k := range path {
		refs := x.Refs()
		if k >= len(refs) {
			return nil
		}
		x = refs[k]
	}
	return x
}

func hasSpecial(root *ref.RCell) bool {
	found := false
	ref.Walk([]*ref.RCell{root}, func(x *ref.RCell) {
		if x.Special {
			found = true
		}
	})
	return found
}

func plainDict(entries []ref.DictEntry) bool {
	for _, e := range entries {
		if len(e.Value.Bits) != 32 || len(e.Value.Refs) != 0 {
			return false
		}
	}
	return len(entries) > 0
}

func hasKey(entries []ref.DictEntry, k ref.Bits) bool {
	for _, e := range entries {
		if e.Key.Equal(k) {
			return true
		}
	}
	return false
}

var replaceProof = &core.Check{Name: "c18/replace", Quick: 200, Thorough: 30000, Fn: func(c *core.Ctx) error {
	dict := c.Weighted("kind", 3, 2) == 0
	n := 0
	if dict {
		n = c.OneOf("keybits", 8, 16, 32, 64, 256)
		if c.Intn("anywidth", 4) == 0 {
			n = c.Range("keybits.r", 8, 256)
		}
		c.Note("key_bits", n)
		c.Class("one variable holds a dictionary")
	} else {
		c.Class("one variable holds an ordinary tree")
	}
	var choose func(ref.Bits, int, []int) int
	if dict && c.Bool("forms") {
		choose = func(s ref.Bits, m int, forms []int) int { return forms[c.Choose("form", len(forms))] }
	}
	drawTree := func(label string) *ref.RCell {
		nodes := gen.Dag(c, gen.DagOpts{MaxNodes: 2 + c.Intn(label+".nodes", 10), Shape: c.Weighted(label+".shape", 4, 1, 1, 1)})
		return nodes[len(nodes)-1]
	}

	// THE variable
	var state *boc.Cell
	if c.Bool("holder.newcell") {
		state = boc.NewCell()
	} else {
		state = new(boc.Cell)
	}

	var (
		versions   []*ref.RCell    // content of the variable after every step
		atProver   [][]byte        // content hashes the library was shown at earlier NewMerkleProver calls
		oldKeys    []ref.Bits      // keys of earlier contents
		entries    []ref.DictEntry // current dictionary
		hist       []string
		truth      *ref.RCell
		nontrivial bool
		roomy      bool // the root cell of the variable was made with NewCell: its bit string has room for 1023 bits
	)
	nver := 2 + c.Intn("versions", 3)
	for v := 0; v < nver; v++ {
		// ---- 1. the content of the variable is replaced in place
		var want *ref.RCell
		step := ""
		switch {
		case v == 0 && dict:
			es := drawEntries(c, n)
			r, err := ref.EncodeHashmap(es, n, choose)
			if err != nil {
				return fmt.Errorf("HARNESS: %v", err)
			}
			want = r
		case v == 0:
			want = drawTree("tree")
		case dict:
			op := c.Weighted("dict.op", 3, 2, 2, 2, 2, 1, 3)
			if op == 2 && len(entries) < 2 {
				op = 0
			}
			es := append([]ref.DictEntry{}, entries...)
			newVal := func(old ref.Bits) ref.DictValue {
				x := c.U64("newval") & 0xffffffff
				if x == 0 {
					x = 1
				}
				return ref.DictValue{Bits: ref.Bits{}.AppendUint(old.Uint(0, 32)^x, 32)}
			}
			switch op {
			case 0:
				i := c.Choose("dict.which", len(es))
				es[i] = ref.DictEntry{Key: es[i].Key, Value: newVal(es[i].Value.Bits)}
				step = "one value changed, "
			case 1:
				for i := range es {
					es[i] = ref.DictEntry{Key: es[i].Key, Value: newVal(es[i].Value.Bits)}
				}
				step = "all values changed, "
			case 2:
				i := c.Choose("dict.which", len(es))
				es = append(es[:i:i], es[i+1:]...)
				step = "one entry removed, "
			case 3:
				k := es[c.Choose("dict.which", len(es))].Key.Clone()
				if c.Bool("dict.anykey") {
					k = ref.Bits(c.Bits("dict.newkey", n))
				} else {
					i := c.Choose("dict.flip", n)
					k[i] = !k[i]
				}
				if !hasKey(es, k) {
					es = append(es, ref.DictEntry{Key: k, Value: ref.DictValue{Bits: ref.Bits{}.AppendUint(c.U64("val")&0xffffffff, 32)}})
				}
				step = "one entry added, "
			case 4:
				es = drawEntries(c, n)
				step = "another dictionary, "
			case 5:
				want = versions[c.Choose("again", len(versions))]
				step = "an earlier content again, "
			case 6:
				// the leaf of one key is replaced in place: `*leaf = *newLeaf` (for a single entry the leaf is the root)
				e := es[c.Choose("dict.which", len(es))]
				path, leaf, ok := dictPath(truth, e.Key)
				x := cellAt(state, path)
				if !ok || x == nil || leaf.BitLen < 32 || len(leaf.Refs) != 0 {
					return nil
				}
				bits := leaf.Bits().Clone()
				i := len(bits) - 1 - c.Intn("leaf.bit", 32)
				bits[i] = !bits[i]
				t, err := gen.ToTongo(ref.NewRCell(bits, false), false, 10)
				if err != nil {
					return fmt.Errorf("HARNESS: %v", err)
				}
				*x = *t
				step = fmt.Sprintf("*leaf = *newLeaf at position %q (value of key %s changed)", pathStr(path), e.Key)
				c.Class("replaced in place: a leaf cell below the root")
			}
			if op <= 4 {
				r, err := ref.EncodeHashmap(es, n, choose)
				if err != nil {
					return fmt.Errorf("HARNESS: %v", err)
				}
				want = r
			}
		default:
			op := c.Weighted("tree.op", 3, 2, 1, 3, 2)
			switch op {
			case 0:
				want = drawTree(fmt.Sprintf("tree%d", v))
				step = "another tree, "
			case 1:
				bits := truth.Bits().Clone()
				if len(bits) == 0 || c.Intn("root.rewrite", 4) == 0 {
					bits = ref.Bits(c.Bits("root.bits", c.Range("root.len", 0, 64)))
				} else {
					i := c.Choose("root.flip", len(bits))
					bits[i] = !bits[i]
				}
				want = ref.NewRCell(bits, false, truth.Refs...)
				step = "other root bits over the same references, "
			case 2:
				want = versions[c.Choose("again", len(versions))]
				step = "an earlier content again, "
			case 3:
				// the content of a cell below the root is replaced in place
				path, at := randomPath(c, "inner", truth, 6)
				x := cellAt(state, path)
				if len(path) == 0 || x == nil {
					want = drawTree(fmt.Sprintf("tree%d", v))
					step = "another tree, "
					break
				}
				var repl *ref.RCell
				if at.BitLen > 0 && c.Weighted("inner.kind", 3, 2) == 0 {
					bits := at.Bits().Clone()
					i := c.Choose("inner.flip", len(bits))
					bits[i] = !bits[i]
					repl = ref.NewRCell(bits, false, at.Refs...)
				} else {
					repl = smallTree(c, "inner.sub", 4)
				}
				t, err := gen.ToTongo(repl, c.Bool("inner.share"), 5000)
				if err != nil {
					return nil
				}
				*x = *t
				step = fmt.Sprintf("*inner = *newCell at position %q", pathStr(path))
				c.Class("replaced in place: a cell below the root")
			case 4:
				// the root is written to: more bits (only into a root made with NewCell - writing past the capacity
				// of a parsed cell's bit string is a matter of other properties), one more reference
				k := c.Range("append.bits", 0, 24)
				if !roomy {
					k = 0
				}
				wrote, added := 0, false
				for _, b := range c.Bits("append.data", k) {
					if state.BitSize() >= 1023 || state.WriteBit(b) != nil {
						break
					}
					wrote++
				}
				if state.RefsSize() < 4 && (wrote == 0 || c.Bool("append.ref")) {
					if t, err := gen.ToTongo(smallTree(c, "append.sub", 4), false, 5000); err == nil {
						added = state.AddRef(t) == nil
					}
				}
				step = fmt.Sprintf("root appended to in place (%d bits written, reference added: %v)", wrote, added)
				c.Class("replaced in place: root written to")
			}
		}
		if want != nil {
			how, err := putRoot(c, fmt.Sprintf("put%d", v), state, want)
			if err != nil {
				c.Class("replacing the content failed (not judged here)")
				return nil
			}
			step += how
			roomy = strings.Contains(how, "NewCell")
			if v > 0 {
				c.Class("replaced in place: " + how)
			}
		}
		hist = append(hist, fmt.Sprintf("[%d] %s", v, step))
		var err error
		truth, err = gen.FromTongo(state, 20000)
		if err != nil || hasSpecial(truth) {
			return nil
		}
		if want != nil && !bytes.Equal(truth.ReprHash(), want.ReprHash()) {
			c.Class("the variable does not hold the intended content (not judged here)")
			return nil
		}
		if dict {
			for _, e := range entries {
				oldKeys = append(oldKeys, e.Key)
			}
			entries, err = ref.DecodeHashmap(truth, n)
			if err != nil || !plainDict(entries) {
				c.Class("the variable does not hold a dictionary (not judged here)")
				return nil
			}
		}
		versions = append(versions, truth)
		curHash := truth.ReprHash()
		changed, shown := false, false
		for _, h := range atProver {
			shown = true
			if !bytes.Equal(h, curHash) {
				changed = true
			}
		}

		// ---- 2. a new prover for the variable, proofs through it
		act := c.Weighted("act", 1, 2, 6)
		if v == nver-1 {
			act = 2
		}
		if act == 0 {
			hist[v] += "; no prover"
			continue
		}
		story := func() string { return strings.Join(hist, " | ") }
		if dict && c.Intn("reset.early", 3) != 0 {
			state.ResetCounters()
		}
		var prover *boc.MerkleProver
		for i, np := 0, 1+c.Intn("provers", 2); i < np; i++ {
			if perr := core.Protect(func() error {
				prover, err = boc.NewMerkleProver(state)
				return nil
			}); perr != nil {
				return fmt.Errorf("NewMerkleProver panicked on a variable whose content was replaced in place (%s): %v", story(), perr)
			}
			if err != nil {
				return fmt.Errorf("NewMerkleProver on a variable whose content was replaced in place (%s): %v", story(), err)
			}
			atProver = append(atProver, curHash)
		}
		hist[v] += "; NewMerkleProver(state)"
		if act == 1 {
			continue
		}
		if shown && changed {
			c.Class("proof after the content changed since an earlier prover for the same variable")
		} else if shown {
			c.Class("proof with the same content as at every earlier prover")
		}

		if dict {
			e := entries[c.Choose("pick", len(entries))]
			state.ResetCounters()
			keyBS, keyHow, _ := keyCarrier(c, "key", e.Key)
			var val tlb.Uint32
			var proof []byte
			if perr := core.Protect(func() error {
				val, proof, err = tlb.ProveKeyInHashmap[tlb.Uint32](prover, state, keyBS)
				return nil
			}); perr != nil {
				return fmt.Errorf("ProveKeyInHashmap panicked for the present key %s of the dictionary the variable holds now (%s): %v", e.Key, story(), perr)
			}
			if err != nil {
				return fmt.Errorf("ProveKeyInHashmap for the present key %s (passed as %s) of the dictionary the variable holds now (%d entries, %d-bit keys; %s): %v", e.Key, keyHow, len(entries), n, story(), err)
			}
			if uint64(val) != e.Value.Bits.Uint(0, 32) {
				return fmt.Errorf("ProveKeyInHashmap returned value %d for key %s, the dictionary the variable holds now has %d (%s)", val, e.Key, e.Value.Bits.Uint(0, 32), story())
			}
			mp, _, verr := validateProof(proof, truth)
			if verr != nil {
				return fmt.Errorf("proof for key %s of the dictionary the variable holds now (root hash %x; %s): %v", e.Key, curHash, story(), verr)
			}
			if got, ok := lookupInPruned(mp.Refs[0], e.Key); !ok || !got.Equal(e.Value.Bits) {
				return fmt.Errorf("the proven key %s cannot be read from the proof with its current value %s (found=%v value=%s; %s)", e.Key, e.Value.Bits, ok, got, story())
			}
			tt, derr := boc.DeserializeBoc(proof)
			if derr != nil || len(tt) != 1 {
				return fmt.Errorf("tongo cannot parse the proof it produced: %v", derr)
			}
			if err := decodeWithTongo(tt[0], n, e); err != nil {
				return fmt.Errorf("%v (%s)", err, story())
			}
			hist[v] += "; key proven"
			if shown && changed {
				nontrivial = true
				c.NonTrivial(curHash, e.Key.String())
			}
			// a key that is not in the dictionary any more (it was, in an earlier content), or never was
			var absent ref.Bits
			for i := len(oldKeys) - 1; i >= 0 && absent == nil; i-- {
				if !hasKey(entries, oldKeys[i]) {
					absent = oldKeys[i]
					c.Class("absent key: present in an earlier content of the variable")
				}
			}
			if absent == nil {
				k := e.Key.Clone()
				i := c.Choose("absent.flip", n)
				k[i] = !k[i]
				if !hasKey(entries, k) {
					absent = k
				}
			}
			if absent != nil {
				if c.Bool("absent.newprover") {
					if prover, err = boc.NewMerkleProver(state); err != nil {
						return fmt.Errorf("NewMerkleProver (%s): %v", story(), err)
					}
					atProver = append(atProver, curHash)
				}
				state.ResetCounters()
				keyA, keyAHow, _ := keyCarrier(c, "absent.key", absent)
				var aproof []byte
				var aerr error
				if perr := core.Protect(func() error {
					_, aproof, aerr = tlb.ProveKeyInHashmap[tlb.Uint32](prover, state, keyA)
					return nil
				}); perr != nil {
					return fmt.Errorf("ProveKeyInHashmap panicked for the key %s (passed as %s), which the dictionary the variable holds now does not contain (%s): %v", absent, keyAHow, story(), perr)
				}
				if aerr == nil {
					return fmt.Errorf("ProveKeyInHashmap produced a proof (%d bytes) for key %s, which the dictionary the variable holds now does not contain (%s)", len(aproof), absent, story())
				}
				c.Class("absent key refused")
			}
		}

		// the cursor API on the same variable
		if !dict || c.Bool("cursor.too") {
			if dict || c.Bool("cursor.newprover") {
				if prover, err = boc.NewMerkleProver(state); err != nil {
					return fmt.Errorf("NewMerkleProver (%s): %v", story(), err)
				}
				atProver = append(atProver, curHash)
			}
			set := map[string]bool{}
			var proof []byte
			if perr := core.Protect(func() error {
				cur := prover.Cursor()
				for i, np := 0, c.Intn("prunes", 4); i < np; i++ {
					p, _ := randomPath(c, "prune", truth, 6)
					if len(p) == 0 {
						continue
					}
					x := cur
					for _, k := range p {
						x = x.Ref(k)
					}
					x.Prune()
					set[pathStr(p)] = true
				}
				proof, err = prover.CreateProof(cur)
				return nil
			}); perr != nil {
				return fmt.Errorf("the cursor API panicked on positions %v of the tree the variable holds now (%s): %v", sortedKeys(set), story(), perr)
			}
			if err != nil {
				return fmt.Errorf("CreateProof pruning %v of the tree the variable holds now (%s): %v", sortedKeys(set), story(), err)
			}
			mp, _, verr := validateProof(proof, truth)
			if verr != nil {
				return fmt.Errorf("proof pruning %v of the tree the variable holds now (root hash %x; %s): %v", sortedKeys(set), curHash, story(), verr)
			}
			expected := ref.MerkleProofOf(pruneRef(truth, "", topmost(set)))
			if !bytes.Equal(mp.ReprHash(), expected.ReprHash()) {
				got := map[string]bool{}
				budget := 20000
				prunedPositions(mp.Refs[0], "", got, &budget)
				return fmt.Errorf("proof of the tree the variable holds now (%s): pruned branches at %v, expected exactly %v", story(), sortedKeys(got), sortedKeys(topmost(set)))
			}
			hist[v] += "; cursor proof"
			if shown && changed {
				nontrivial = true
				c.NonTrivial(curHash, proof)
			}
		}
	}
	c.Note("steps", strings.Join(hist, " | "))
	if !nontrivial {
		c.Class("no proof after a changed content (trivial)")
	}
	return nil
}}

func TestReplace(t *testing.T) { core.Run(t, replaceProof) }
