package c18

// Trees that CONTAIN a Merkle cell, handed to the prover: the Merkle-proof cell of an earlier proof (the root as
// DeserializeBoc returns it - a caller who wants to narrow a proof he received holds exactly this), a Merkle-update
// cell, or an ordinary cell with such a cell below it. The references of a Merkle cell are hashed one level up, so
// a level-1 pruned branch below it does not stand for what the Merkle cell commits to. Whatever the prover does
// with such a tree, it must not hand out a proof that does not commit to it: either an error (the unchanged
// library refuses with "unsupported cell type"), or a proof that passes the whole validation - header hash and
// depth of the tree given, level-0 hash and depth of the pruned tree equal to them, every pruned branch storing
// the hashes and depths (at every level it stands for) of the subtree it replaces, every other cell unchanged,
// declared level masks as the content gives them, tongo's own parser and hasher agreeing.

import (
	"bytes"
	"errors"
	"fmt"
	"strings"
	"testing"

	"github.com/tonkeeper/tongo/boc"

	"verifharness/internal/core"
	"verifharness/internal/gen"
	"verifharness/internal/ref"
)

// walkGeneral compares the tree given to the prover with the pruned tree of the proof; Merkle cells may occur.
func walkGeneral(orig, got *ref.RCell, path string, prunedAt map[string]bool, budget *int) error {
	*budget--
	if *budget < 0 {
		return nil
	}
	where := fmt.Sprintf("position %q", path)
	if got.Special && got.Type() == ref.TypePruned {
		prunedAt[path] = true
		if err := got.WellFormed(); err != nil {
			return fmt.Errorf("%s: ill-formed pruned branch: %v", where, err)
		}
		if orig.Special && orig.BitLen == got.BitLen && bytes.Equal(orig.Data, got.Data) {
			return nil // a pruned branch of the tree given, kept as it is
		}
		for l := 0; l < got.Level(); l++ {
			if !bytes.Equal(got.Hash(l), orig.Hash(l)) {
				return fmt.Errorf("%s: pruned branch (mask %03b) stores for level %d the hash %x, the subtree it replaces has %x", where, got.Data[1], l, got.Hash(l), orig.Hash(l))
			}
			if got.Depth(l) != orig.Depth(l) {
				return fmt.Errorf("%s: pruned branch (mask %03b) stores for level %d the depth %d, the subtree it replaces has %d", where, got.Data[1], l, got.Depth(l), orig.Depth(l))
			}
		}
		return nil
	}
	if got.Special != orig.Special || !got.Bits().Equal(orig.Bits()) || len(got.Refs) != len(orig.Refs) {
		return fmt.Errorf("%s: proof cell (special=%v) x{%s} with %d refs differs from the cell of the tree (special=%v) x{%s} with %d refs", where, got.Special, got.Bits().FiftHex(), len(got.Refs), orig.Special, orig.Bits().FiftHex(), len(orig.Refs))
	}
	for i := range orig.Refs {
		if err := walkGeneral(orig.Refs[i], got.Refs[i], path+string(rune('0'+i)), prunedAt, budget); err != nil {
			return err
		}
	}
	return nil
}

// validateGeneralProof is validateProof for a tree that may contain Merkle cells (level 0 as a whole).
func validateGeneralProof(proof []byte, orig *ref.RCell) (map[string]bool, error) {
	info, err := ref.ParseBOCInfo(proof)
	if err != nil {
		return nil, fmt.Errorf("reference parser rejects the proof BOC: %v", err)
	}
	if len(info.Roots) != 1 {
		return nil, fmt.Errorf("proof has %d roots", len(info.Roots))
	}
	mp := info.Roots[0]
	if mp.Type() != ref.TypeMerkleProof || mp.WellFormed() != nil {
		return nil, fmt.Errorf("proof root is not a well-formed Merkle proof cell")
	}
	if mp.Level() != 0 {
		return nil, fmt.Errorf("Merkle proof cell has level %d, want 0", mp.Level())
	}
	if !bytes.Equal(mp.Data[1:33], orig.Hash(0)) {
		return nil, fmt.Errorf("Merkle proof cell stores hash %x, the root of the tree given hashes to %x", mp.Data[1:33], orig.Hash(0))
	}
	if d := int(mp.Data[33])<<8 | int(mp.Data[34]); d != orig.Depth(0) {
		return nil, fmt.Errorf("Merkle proof cell stores depth %d, the root of the tree given has depth %d", d, orig.Depth(0))
	}
	body := mp.Refs[0]
	if !bytes.Equal(body.Hash(0), orig.Hash(0)) {
		return nil, fmt.Errorf("the pruned tree hashes (at level 0) to %x, not to the hash %x of the tree given, which the header promises", body.Hash(0), orig.Hash(0))
	}
	if body.Depth(0) != orig.Depth(0) {
		return nil, fmt.Errorf("the pruned tree has level-0 depth %d, the tree given has depth %d", body.Depth(0), orig.Depth(0))
	}
	at := map[string]bool{}
	budget := 50000
	if err := walkGeneral(orig, body, "", at, &budget); err != nil {
		return nil, err
	}
	if err := declaredMasks(info); err != nil {
		return nil, err
	}
	tt, err := boc.DeserializeBoc(proof)
	if err != nil || len(tt) != 1 {
		return nil, fmt.Errorf("tongo cannot parse the proof it produced: %v", err)
	}
	h, err := tt[0].Hash()
	if err != nil || !bytes.Equal(h, mp.ReprHash()) {
		return nil, fmt.Errorf("tongo hashes its proof to %x (%v), the reference to %x", h, err, mp.ReprHash())
	}
	return at, nil
}

// smallTree draws an ordinary tree with at least one reference at the root when possible.
func smallTree(c *core.Ctx, label string, maxNodes int) *ref.RCell {
	nodes := gen.Dag(c, gen.DagOpts{MaxNodes: 2 + c.Intn(label+".nodes", maxNodes), Shape: c.Weighted(label+".shape", 4, 2, 1, 1)})
	root := nodes[len(nodes)-1]
	for i := len(nodes) - 1; i >= 0 && len(root.Refs) == 0; i-- {
		root = nodes[i]
	}
	return root
}

// somePartial prunes up to two drawn positions of an ordinary tree with the reference model.
func somePartial(c *core.Ctx, label string, root *ref.RCell) (*ref.RCell, map[string]bool) {
	old := map[string]bool{}
	if len(root.Refs) > 0 {
		for i, n := 0, c.Intn(label+".n", 3); i < n; i++ {
			p, _ := randomPath(c, label, root, 6)
			if len(p) > 0 {
				old[pathStr(p)] = true
			}
		}
	}
	old = topmost(old)
	return pruneRef(root, "", old), old
}

var merkleProof = &core.Check{Name: "c18/merkle", Quick: 300, Thorough: 40000, Fn: func(c *core.Ctx) error {
	root := smallTree(c, "tree", 12)
	partial, old := somePartial(c, "old", root)
	if !bytes.Equal(partial.Hash(0), root.ReprHash()) || partial.Depth(0) != root.Depth(0) {
		return fmt.Errorf("HARNESS: reference partial tree does not stand for the original tree")
	}
	kind := c.Weighted("kind", 6, 2, 2, 1)
	var given *ref.RCell // the tree handed to the prover, reference model
	var tongoGiven *boc.Cell
	what := ""
	switch kind {
	case 0:
		given = ref.MerkleProofOf(partial)
		what = "the Merkle-proof cell of an earlier proof"
	case 1:
		root2 := smallTree(c, "tree2", 6)
		partial2, _ := somePartial(c, "old2", root2)
		given = ref.MerkleUpdateOf(partial, partial2)
		what = "a Merkle-update cell"
	default:
		var m *ref.RCell
		if kind == 2 {
			m = ref.MerkleProofOf(partial)
			what = "an ordinary cell with a Merkle-proof cell below it"
		} else {
			root2 := smallTree(c, "tree2", 6)
			partial2, _ := somePartial(c, "old2", root2)
			m = ref.MerkleUpdateOf(partial, partial2)
			what = "an ordinary cell with a Merkle-update cell below it"
		}
		refs := []*ref.RCell{m}
		for i, n := 0, c.Intn("wrap.sides", 3); i < n; i++ {
			side := smallTree(c, fmt.Sprintf("wrap.side%d", i), 4)
			if c.Bool("wrap.left") {
				refs = append([]*ref.RCell{side}, refs...)
			} else {
				refs = append(refs, side)
			}
		}
		given = ref.NewRCell(ref.Bits(c.Bits("wrap.bits", c.Range("wrap.len", 0, 40))), false, refs...)
		if c.Bool("wrap.twice") {
			given = ref.NewRCell(ref.Bits(c.Bits("wrap2.bits", c.Range("wrap2.len", 0, 40))), false, given)
		}
	}
	if given.Level() != 0 {
		return fmt.Errorf("HARNESS: the tree built has level %d", given.Level())
	}
	var bad error
	ref.Walk([]*ref.RCell{given}, func(x *ref.RCell) {
		if err := x.WellFormed(); err != nil {
			bad = err
		}
	})
	if bad != nil {
		return fmt.Errorf("HARNESS: ill-formed cell in the tree built: %v", bad)
	}
	c.Class("tree given: " + what)

	// the tree as tongo holds it: parsed from a bag written by the reference model, or - for the proof cell - the
	// root tongo's parser returns for a proof tongo made itself
	if kind == 0 && c.Bool("first.by.tongo") {
		t, err := gen.ToTongo(root, c.Bool("share"), 5000)
		if err != nil {
			if errors.Is(err, gen.ErrBudget) {
				return nil
			}
			return err
		}
		p1, err := boc.NewMerkleProver(t)
		if err != nil {
			return fmt.Errorf("NewMerkleProver: %v", err)
		}
		cur1 := p1.Cursor()
		for _, p := range sortedPlain(old) {
			x := cur1
			for _, ch := range p {
				x = x.Ref(int(ch - '0'))
			}
			x.Prune()
		}
		proof1, err := p1.CreateProof(cur1)
		if err != nil {
			return fmt.Errorf("CreateProof: %v", err)
		}
		mp1, _, err := validateProof(proof1, root)
		if err != nil {
			return fmt.Errorf("first proof (pruned %v): %v", sortedKeys(old), err)
		}
		if !bytes.Equal(mp1.ReprHash(), given.ReprHash()) {
			return fmt.Errorf("first proof (pruned %v) is not the original tree with exactly these positions replaced by pruned branches", sortedKeys(old))
		}
		cells, err := boc.DeserializeBoc(proof1)
		if err != nil || len(cells) != 1 {
			return fmt.Errorf("tongo cannot parse the proof it produced: %v", err)
		}
		tongoGiven = cells[0]
		what += " made by tongo (root as DeserializeBoc returns it)"
		c.Class("tree given: parsed from a proof made by tongo")
	} else {
		data := ref.SerializeBOC([]*ref.RCell{given}, ref.BocVariant{})
		cells, err := boc.DeserializeBoc(data)
		if err != nil || len(cells) != 1 {
			return fmt.Errorf("HARNESS: tongo cannot parse the reference-made bag: %v", err)
		}
		tongoGiven = cells[0]
	}
	readHow := readTree(c, "read", tongoGiven)
	if readHow != "tree not read" && c.Bool("read.reset") {
		tongoGiven.ResetCounters()
	}

	prover, err := boc.NewMerkleProver(tongoGiven)
	if err != nil {
		c.Class("NewMerkleProver refuses the tree")
		return nil
	}
	cur := prover.Cursor()
	fresh := map[string]bool{}
	for i, n := 0, c.Weighted("new.n", 1, 4, 3, 2); i < n; i++ {
		p, _ := randomPath(c, "new", given, 7)
		if len(p) == 0 {
			continue
		}
		x := cur
		for _, k := range p {
			x = x.Ref(k)
		}
		x.Prune()
		fresh[pathStr(p)] = true
	}
	// does a new pruned position lie below a Merkle cell and replace something that is not a pruned branch yet?
	below := false
	for p := range topmost(fresh) {
		x, underMerkle := given, false
		for _, ch := range p {
			if t := x.Type(); t == ref.TypeMerkleProof || t == ref.TypeMerkleUpdate {
				underMerkle = true
			}
			x = x.Refs[int(ch-'0')]
		}
		if underMerkle && !x.Special {
			below = true
		}
	}
	describe := fmt.Sprintf("tree given to NewMerkleProver: %s (pruned branches in it at %v; %s), pruning %v", what, prunedIn(given), readHow, sortedKeys(fresh))
	c.Note("case", describe)
	proof, err := prover.CreateProof(cur)
	if err != nil {
		msg := err.Error()
		if i := strings.IndexByte(msg, ':'); i > 0 {
			msg = msg[:i]
		}
		c.Class("CreateProof refuses: " + msg)
		if below {
			c.NonTrivial(given.ReprHash(), fmt.Sprint(sortedKeys(fresh)))
		}
		return nil
	}
	at, err := validateGeneralProof(proof, given)
	if err != nil {
		return fmt.Errorf("%s: a proof was handed out, but: %v", describe, err)
	}
	// pruned branches exactly where the tree had them or where the cursor API put them
	have := map[string]bool{}
	budget := 50000
	prunedBranches(given, "", have, &budget)
	want := topmost(union(have, fresh))
	if fmt.Sprint(sortedKeys(at)) != fmt.Sprint(sortedKeys(want)) {
		return fmt.Errorf("%s: the proof has pruned branches at %v, expected exactly %v", describe, sortedKeys(at), sortedKeys(want))
	}
	c.Class("a proof is made and is valid")
	if below {
		c.Class("a valid proof with a new pruned branch below a Merkle cell")
		c.NonTrivial(given.ReprHash(), fmt.Sprint(sortedKeys(fresh)))
	}
	return nil
}}

// prunedBranches lists the positions of the pruned-branch cells of a tree that may contain other special cells.
func prunedBranches(x *ref.RCell, path string, out map[string]bool, budget *int) {
	if *budget <= 0 {
		return
	}
	*budget--
	if x.Special && x.Type() == ref.TypePruned {
		out[path] = true
		return
	}
	for i, r := range x.Refs {
		prunedBranches(r, path+string(rune('0'+i)), out, budget)
	}
}

func prunedIn(x *ref.RCell) []string {
	have := map[string]bool{}
	budget := 50000
	prunedBranches(x, "", have, &budget)
	return sortedKeys(have)
}

func TestMerkle(t *testing.T) { core.Run(t, merkleProof) }
