package c18

// Two things a caller does that have nothing to do with the CONTENT of the tree or of the key, and therefore must
// not change any proof:
//
//   - the tree is READ before (or after) the prover is made - the dictionary is decoded to learn its keys, cells
//     are walked with NextRef / ReadBits - so that the read cursors (bits and references) of its cells stand
//     anywhere; the proof commits to the tree, and a cell is the same cell wherever its cursors stand;
//   - the requested key arrives in a bit string with spare capacity (a bigger NewBitString, the bit string of a
//     cell, a grown one) or in one that was sliced out of a longer one; the key is the bits written to it.

import (
	"fmt"

	"github.com/tonkeeper/tongo/boc"
	"github.com/tonkeeper/tongo/tlb"

	"verifharness/internal/core"
	"verifharness/internal/gen"
	"verifharness/internal/ref"
)

// readTree moves the read cursors of the cells of a tongo tree the way an earlier reader leaves them and returns
// a description. Nothing is drawn per cell (one seed drives the amounts), so big trees stay cheap on the tape.
//   - 0: untouched
//   - 1: every cell read to its end (all bits, all references taken)
//   - 2: every cell read by an amount derived from one drawn seed (bits 0..len, references 0..n)
//   - 3: one path from the root read (label-like: a few bits, then one or two references), as a lookup does
//
// NextRef resets the counters of the cell it returns, so a cell is read AFTER its parent took the reference.
func readTree(c *core.Ctx, label string, root *boc.Cell) string {
	mode := c.Weighted(label+".mode", 3, 3, 3, 1)
	if mode == 0 {
		return "tree not read"
	}
	rnd := core.NewSplitMix(c.U64(label + ".seed"))
	seen := map[*boc.Cell]bool{}
	budget := 20000
	moved := 0
	var walk func(x *boc.Cell, onPath bool)
	walk = func(x *boc.Cell, onPath bool) {
		if x == nil || seen[x] || budget <= 0 {
			return
		}
		seen[x] = true
		budget--
		kids := x.Refs()
		take, bits := 0, 0
		avail := x.BitsAvailableForRead()
		switch mode {
		case 1:
			take, bits = len(kids), avail
		case 2:
			take, bits = rnd.Intn(len(kids)+1), rnd.Intn(avail+1)
			if rnd.Intn(4) == 0 {
				bits = avail
			}
		case 3:
			if onPath {
				take, bits = rnd.Intn(len(kids)+1), rnd.Intn(avail+1)
			}
		}
		if bits > 0 {
			if err := x.Skip(bits); err == nil {
				moved++
			}
		}
		for i := 0; i < take; i++ {
			if _, err := x.NextRef(); err != nil {
				break
			}
			moved++
		}
		next := -1
		if mode == 3 && onPath && len(kids) > 0 {
			next = rnd.Intn(len(kids))
		}
		for i, k := range kids {
			walk(k, mode != 3 || i == next)
		}
	}
	walk(root, true)
	return fmt.Sprintf("tree read before (mode %d, %d cursor moves)", mode, moved)
}

// decodeDict reads a dictionary the way a caller learns its keys: tlb.Unmarshal into the library's Hashmap for
// the key widths that have a key type. It reports whether it did; the outcome of the decoding is not judged here.
func decodeDict(root *boc.Cell, n int) bool {
	var err error
	switch n {
	case 8:
		var h tlb.Hashmap[tlb.Uint8, tlb.Uint32]
		err = tlb.Unmarshal(root, &h)
	case 16:
		var h tlb.Hashmap[tlb.Uint16, tlb.Uint32]
		err = tlb.Unmarshal(root, &h)
	case 32:
		var h tlb.Hashmap[tlb.Uint32, tlb.Uint32]
		err = tlb.Unmarshal(root, &h)
	case 64:
		var h tlb.Hashmap[tlb.Uint64, tlb.Uint32]
		err = tlb.Unmarshal(root, &h)
	case 256:
		var h tlb.Hashmap[tlb.Bits256, tlb.Uint32]
		err = tlb.Unmarshal(root, &h)
	default:
		return false
	}
	return err == nil
}

// keyCarrier puts the key bits into a tongo bit string of a drawn make. Every carrier holds exactly the key bits,
// read cursor at 0 (verified here with the reference bit list; a carrier that does not is replaced by the plain
// one, that is a matter of other properties).
func keyCarrier(c *core.Ctx, label string, key ref.Bits) (bs boc.BitString, what string, kind string) {
	n := len(key)
	plain := gen.BitString(key)
	const exact = "exactly sized bit string"
	switch c.Weighted(label+".carrier", 4, 4, 3, 2, 2, 1, 1) {
	case 0:
		return plain, exact, exact
	case 1:
		extra := c.OneOf(label+".room", 1, 7, 8, 9, 63, 64, 224, 767)
		if c.Bool(label + ".room.any") {
			extra = c.Range(label+".room.r", 1, 1023)
		}
		bs = boc.NewBitString(n + extra)
		_ = bs.WriteBitArray(key)
		what, kind = fmt.Sprintf("bit string with %d bits of spare capacity", extra), "bit string with spare capacity"
	case 2:
		cell := boc.NewCell()
		_ = cell.WriteBitString(plain)
		bs = cell.RawBitString()
		what, kind = "bit string of a cell (RawBitString)", "bit string of a cell"
	case 3:
		bs = gen.BitString(key)
		g := c.Range(label+".grow", 1, 300)
		bs.Grow(g)
		what, kind = fmt.Sprintf("exactly sized bit string, then Grow(%d)", g), "grown bit string"
	case 4:
		// sliced out of a longer bit string with ReadBits (byte-aligned and unaligned start)
		pre := c.Range(label+".pre", 0, 40)
		post := c.Range(label+".post", 0, 40)
		long := boc.NewBitString(pre + n + post)
		_ = long.WriteBitArray(c.Bits(label+".pre.bits", pre))
		_ = long.WriteBitArray(key)
		_ = long.WriteBitArray(c.Bits(label+".post.bits", post))
		if err := long.Skip(pre); err != nil {
			return plain, exact, exact
		}
		got, err := long.ReadBits(n)
		if err != nil {
			return plain, exact, exact
		}
		bs = got
		what, kind = fmt.Sprintf("ReadBits(%d) at offset %d of a longer bit string", n, pre), "sliced with ReadBits"
	case 5:
		room := boc.NewBitString(n + c.Range(label+".copy.room", 1, 600))
		_ = room.WriteBitArray(key)
		bs = room.Copy()
		what, kind = "Copy() of a bit string with spare capacity", "copy of a roomy bit string"
	default:
		p, err := boc.BitStringFromFiftHex(key.FiftHex())
		if err != nil || p == nil {
			return plain, exact, exact
		}
		bs = *p
		what, kind = "BitStringFromFiftHex", "parsed from Fift hex"
	}
	if bs.BitsAvailableForRead() != n || !gen.BitsOf(bs).Equal(key) {
		return plain, exact, exact
	}
	bs.ResetCounter()
	return bs, what, kind
}
