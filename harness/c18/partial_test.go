package c18

// Proofs made from PARTIAL trees: the tree handed to NewMerkleProver already contains pruned branches (it is the
// body of an earlier proof, as a client holds it). The new proof must still commit to the ORIGINAL tree: header
// hash and depth are the level-0 hash and depth, old pruned branches that stay in the proof keep their level.

import (
	"bytes"
	"errors"
	"fmt"
	"sort"
	"strings"
	"testing"

	"github.com/tonkeeper/tongo/boc"

	"verifharness/internal/core"
	"verifharness/internal/gen"
	"verifharness/internal/ref"
)

// pathStr writes a position the way the walk below names it: one digit per reference index.
func pathStr(p []int) string {
	var sb strings.Builder
	for _, k := range p {
		sb.WriteByte(byte('0' + k))
	}
	return sb.String()
}

// topmost removes the positions that lie below another position of the set.
func topmost(set map[string]bool) map[string]bool {
	out := map[string]bool{}
	for p := range set {
		covered := false
		for k := 0; k < len(p); k++ {
			if set[p[:k]] {
				covered = true
			}
		}
		if !covered {
			out[p] = true
		}
	}
	return out
}

// pruneRef builds, with the reference model only, the tree in which the subtree at every position of set is
// replaced by a level-1 pruned branch for the ORIGINAL (level-0) subtree. Cells off the pruned paths are shared.
func pruneRef(x *ref.RCell, path string, set map[string]bool) *ref.RCell {
	if set[path] {
		return ref.PrunedFor(x, 1)
	}
	below := false
	for p := range set {
		if len(p) > len(path) && strings.HasPrefix(p, path) {
			below = true
		}
	}
	if !below {
		return x
	}
	refs := make([]*ref.RCell, len(x.Refs))
	for i, r := range x.Refs {
		refs[i] = pruneRef(r, path+string(rune('0'+i)), set)
	}
	return ref.NewRCell(x.Bits(), false, refs...)
}

// prunedPositions lists the positions of the pruned branches of a tree.
func prunedPositions(x *ref.RCell, path string, out map[string]bool, budget *int) {
	if *budget <= 0 {
		return
	}
	*budget--
	if x.Special {
		out[path] = true
		return
	}
	for i, r := range x.Refs {
		prunedPositions(r, path+string(rune('0'+i)), out, budget)
	}
}

func sortedKeys(m map[string]bool) []string {
	var out []string
	for k := range m {
		out = append(out, fmt.Sprintf("%q", k))
	}
	sort.Strings(out)
	return out
}

// declaredMasks compares, for every cell of a bag written by tongo, the level mask in the descriptor byte with
// the mask the reference model derives from the cell's content (pruned branch: its mask byte; ordinary cell:
// union of its references; Merkle cell: that union shifted).
func declaredMasks(info *ref.BocInfo) error {
	for i, x := range info.Cells {
		if x.DeclMask != x.Mask() {
			what := "ordinary cell"
			switch x.Type() {
			case ref.TypePruned:
				what = "pruned-branch cell"
			case ref.TypeMerkleProof:
				what = "Merkle-proof cell"
			}
			return fmt.Errorf("cell #%d of the proof (%s, %d refs, %d data bits) is written with level mask %03b in its descriptor byte, its content gives %03b: a reader that follows the descriptor computes other hashes than the proof commits to", i, what, len(x.Refs), x.BitLen, x.DeclMask, x.Mask())
		}
	}
	return nil
}

// deepestPath follows, from the root, a child of maximal depth; ties are broken by the drawn value.
func deepestPath(c *core.Ctx, root *ref.RCell) []int {
	var path []int
	x := root
	for len(x.Refs) > 0 {
		best := -1
		var cands []int
		for i, r := range x.Refs {
			if d := r.Depth(0); d > best {
				best, cands = d, []int{i}
			} else if d == best {
				cands = append(cands, i)
			}
		}
		k := cands[c.Intn("deep.tie", len(cands))]
		path = append(path, k)
		x = x.Refs[k]
	}
	return path
}

func randomPath(c *core.Ctx, label string, root *ref.RCell, maxLen int) ([]int, *ref.RCell) {
	var path []int
	x := root
	for d := c.Intn(label+".len", maxLen); d >= 0 && len(x.Refs) > 0; d-- {
		k := c.Intn(label+".ref", len(x.Refs))
		path = append(path, k)
		x = x.Refs[k]
	}
	return path, x
}

var partialProof = &core.Check{Name: "c18/partial", Quick: 400, Thorough: 60000, Fn: func(c *core.Ctx) error {
	// the original, complete tree; a spine shape (chain with short side branches) makes "the deepest part"
	// a single path often
	var root *ref.RCell
	if c.Weighted("tree", 3, 2) == 0 {
		nodes := gen.Dag(c, gen.DagOpts{MaxNodes: 3 + c.Intn("nodes", 14), Shape: c.Weighted("shape", 4, 2, 1, 1)})
		root = nodes[len(nodes)-1]
		for i := len(nodes) - 1; i >= 0 && len(root.Refs) == 0; i-- {
			root = nodes[i]
		}
	} else {
		n := 2 + c.Intn("spine", 8)
		cur := ref.NewRCell(ref.Bits(c.Bits("leaf", c.Range("leaf.len", 0, 40))), false)
		for i := 0; i < n; i++ {
			refs := []*ref.RCell{cur}
			for s, ns := 0, c.Weighted("sides", 3, 3, 1); s < ns; s++ {
				side := ref.NewRCell(ref.Bits(c.Bits("side", c.Range("side.len", 0, 40))), false)
				if c.Intn("side.deep", 3) == 0 {
					side = ref.NewRCell(ref.Bits(c.Bits("side2", c.Range("side2.len", 0, 40))), false, side)
				}
				if c.Bool("side.left") {
					refs = append([]*ref.RCell{side}, refs...)
				} else {
					refs = append(refs, side)
				}
			}
			cur = ref.NewRCell(ref.Bits(c.Bits("node", c.Range("node.len", 0, 40))), false, refs...)
		}
		root = cur
	}
	if len(root.Refs) == 0 {
		c.Class("single cell (nothing to prune)")
		return nil
	}
	fullDepth := root.Depth(0)

	// positions pruned by the EARLIER proof
	old := map[string]bool{}
	kind := c.Weighted("old.kind", 5, 2, 2)
	if kind == 0 || kind == 2 {
		dp := deepestPath(c, root)
		old[pathStr(dp[:1+c.Intn("old.cut", len(dp))])] = true
	}
	if kind == 1 || kind == 2 {
		for i, n := 0, 1+c.Intn("old.n", 2); i < n; i++ {
			p, _ := randomPath(c, "old", root, 6)
			old[pathStr(p)] = true
		}
	}
	old = topmost(old)
	partial := pruneRef(root, "", old)
	if !bytes.Equal(partial.Hash(0), root.ReprHash()) || partial.Depth(0) != fullDepth || partial.Level() != 1 {
		return fmt.Errorf("HARNESS: reference partial tree does not stand for the original tree")
	}
	hidesDeepest := partial.Depth(3) < fullDepth

	// the partial tree as tongo holds it: body of a proof made by the reference model, or body of a proof made
	// by tongo itself from the complete tree
	var body *boc.Cell
	if c.Bool("first.by.tongo") {
		t, err := gen.ToTongo(root, c.Bool("share"), 5000)
		if err != nil {
			if errors.Is(err, gen.ErrBudget) {
				return nil
			}
			return err
		}
		readTree(c, "first.read", t)
		p1, err := boc.NewMerkleProver(t)
		if err != nil {
			return fmt.Errorf("NewMerkleProver: %v", err)
		}
		cur1 := p1.Cursor()
		for _, p := range sortedPlain(old) {
			x := cur1
			for _, ch := range p {
				x = x.Ref(int(ch - '0'))
			}
			x.Prune()
		}
		proof1, err := p1.CreateProof(cur1)
		if err != nil {
			return fmt.Errorf("CreateProof: %v", err)
		}
		mp1, _, err := validateProof(proof1, root)
		if err != nil {
			return fmt.Errorf("first proof (pruned %v): %v", sortedKeys(old), err)
		}
		if !bytes.Equal(mp1.Refs[0].ReprHash(), partial.ReprHash()) {
			return fmt.Errorf("first proof (pruned %v) is not the original tree with exactly these positions replaced by pruned branches", sortedKeys(old))
		}
		cells, err := boc.DeserializeBoc(proof1)
		if err != nil || len(cells) != 1 || len(cells[0].Refs()) != 1 {
			return fmt.Errorf("tongo cannot parse the proof it produced: %v", err)
		}
		body = cells[0].Refs()[0]
		c.Class("partial tree: body of a proof made by tongo")
	} else {
		data := ref.SerializeBOC([]*ref.RCell{ref.MerkleProofOf(partial)}, ref.BocVariant{})
		cells, err := boc.DeserializeBoc(data)
		if err != nil || len(cells) != 1 || len(cells[0].Refs()) != 1 {
			return fmt.Errorf("HARNESS: tongo cannot parse the reference-made proof: %v", err)
		}
		body = cells[0].Refs()[0]
		c.Class("partial tree: body of a proof made by the reference model")
	}

	// the second proof: prune nothing, prune elsewhere (old pruned branches survive), or prune anywhere
	readHow := readTree(c, "read", body)
	if readHow != "tree not read" {
		if c.Bool("read.reset") {
			body.ResetCounters()
			readHow += ", root reset"
		}
		c.Class("partial tree read before the prover is made")
	}
	prover, err := boc.NewMerkleProver(body)
	if err != nil {
		return fmt.Errorf("NewMerkleProver on a partial tree (pruned branches at %v; %s): %v", sortedKeys(old), readHow, err)
	}
	cur := prover.Cursor()
	fresh := map[string]bool{}
	mode := c.Weighted("new.kind", 3, 5, 3)
	if mode != 0 {
		for i, n := 0, 1+c.Intn("new.n", 3); i < n; i++ {
			p, at := randomPath(c, "new", partial, 6)
			ps := pathStr(p)
			if mode == 1 {
				// keep clear of the old pruned branches: neither on one nor above one
				clash := at.Special
				for o := range old {
					if strings.HasPrefix(o, ps) {
						clash = true
					}
				}
				if clash {
					continue
				}
			}
			x := cur
			for _, k := range p {
				x = x.Ref(k)
			}
			x.Prune()
			fresh[ps] = true
		}
	}
	proof, err := prover.CreateProof(cur)
	if err != nil {
		return fmt.Errorf("CreateProof on a partial tree (pruned branches at %v, now pruning %v): %v", sortedKeys(old), sortedKeys(fresh), err)
	}
	describe := fmt.Sprintf("partial tree with pruned branches at %v (level-0 depth %d, depth as it is %d; %s), now pruning %v", sortedKeys(old), fullDepth, partial.Depth(3), readHow, sortedKeys(fresh))
	c.Note("case", describe)

	// header, level-0 hash of the body, every pruned branch, declared level masks, tongo's own reading
	mp, npruned, err := validateProof(proof, root)
	if err != nil {
		return fmt.Errorf("%s: %v", describe, err)
	}
	// the header also is the level-0 hash / depth of the partial tree the prover was given (reference model:
	// Depth(0) of a partial tree comes from the depths stored in its pruned branches)
	if d := int(mp.Data[33])<<8 | int(mp.Data[34]); d != partial.Depth(0) || !bytes.Equal(mp.Data[1:33], partial.Hash(0)) {
		return fmt.Errorf("%s: header says hash %x depth %d, the partial tree has level-0 hash %x depth %d", describe, mp.Data[1:33], d, partial.Hash(0), partial.Depth(0))
	}
	if d := mp.Refs[0].Depth(0); d != fullDepth {
		return fmt.Errorf("%s: the pruned tree of the proof has level-0 depth %d, the original tree %d", describe, d, fullDepth)
	}
	// exact shape: the original tree with pruned branches at the old and the new positions and nowhere else,
	// every cell's representation recomputed by the reference hasher
	want := topmost(union(old, fresh))
	expected := ref.MerkleProofOf(pruneRef(root, "", want))
	if !bytes.Equal(mp.ReprHash(), expected.ReprHash()) {
		got := map[string]bool{}
		budget := 20000
		prunedPositions(mp.Refs[0], "", got, &budget)
		return fmt.Errorf("%s: the proof has pruned branches at %v, expected exactly %v; its representation hash is %x, the expected proof cell hashes to %x", describe, sortedKeys(got), sortedKeys(want), mp.ReprHash(), expected.ReprHash())
	}

	survives := false
	for o := range old {
		if want[o] && !fresh[o] {
			survives = true
		}
	}
	switch mode {
	case 0:
		c.Class("second proof prunes nothing")
	case 1:
		c.Class("second proof prunes elsewhere")
	default:
		c.Class("second proof prunes anywhere")
	}
	if survives {
		c.Class("an old pruned branch survives into the new proof")
	} else {
		c.Class("every old pruned branch is pruned again or covered")
	}
	if hidesDeepest {
		c.Class("old pruned branch hides the deepest part (depth as it is < level-0 depth)")
		if survives {
			c.Class("old pruned branch hides the deepest part and survives")
		}
	}
	if survives || hidesDeepest {
		c.NonTrivial(proof)
	}
	_ = npruned
	return nil
}}

func union(a, b map[string]bool) map[string]bool {
	out := map[string]bool{}
	for k := range a {
		out[k] = true
	}
	for k := range b {
		out[k] = true
	}
	return out
}

func sortedPlain(m map[string]bool) []string {
	var out []string
	for k := range m {
		out = append(out, k)
	}
	sort.Strings(out)
	return out
}

func TestPartial(t *testing.T) { core.Run(t, partialProof) }
