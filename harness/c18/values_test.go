package c18

// Two families the other checks of the package do not reach (added in round 11):
//
//   - c18/values: dictionaries whose values are not a bare integer. The leaf of a dictionary carries, after its
//     label, whatever the value type writes: more bits, zero to four references, or nothing but one reference
//     (a value stored behind a reference). A leaf is the place where the label has used up the key - not "a cell
//     with fewer than two references". Every present key is proven with ProveKeyInHashmap[T] for the matching T.
//   - c18/deep: pruned positions whose subtree is DEEP (255, 256, 257 ... 1000 levels; the format stores the
//     depth in two bytes and allows 1024): a long chain under a cursor position, or a dictionary whose values
//     reference such a chain, so that the pruned sibling of the proven key is that deep.

import (
	"bytes"
	"errors"
	"fmt"
	"reflect"
	"strings"
	"testing"

	"github.com/tonkeeper/tongo/boc"
	"github.com/tonkeeper/tongo/tlb"

	"verifharness/internal/core"
	"verifharness/internal/gen"
	"verifharness/internal/ref"
)

// dictKey repeats the method set the library asks of a dictionary key type, so that helpers generic in the key
// type can name tlb.Hashmap[K, T].
type dictKey interface {
	FixedSize() int
	Equal(other any) bool
	Compare(other any) (int, bool)
}

// value types (the T of ProveKeyInHashmap[T]); what is stored for them is written by the reference model
type vBits struct { // 80 further bits, no reference
	A tlb.Uint16
	B tlb.Uint64
}
type vEmpty struct{} // nothing after the label
type vBig struct {   // 576 further bits
	A tlb.Bits256
	B tlb.Bits256
	C tlb.Uint64
}
type vRef1 struct {
	N tlb.Uint16
	A tlb.Uint32 `tlb:"^"`
}
type vRef2 struct { // like code + data
	N tlb.Uint16
	A tlb.Uint32 `tlb:"^"`
	B tlb.Uint64 `tlb:"^"`
}
type vRef3 struct {
	N tlb.Uint8
	A tlb.Uint32 `tlb:"^"`
	B tlb.Uint64 `tlb:"^"`
	C tlb.Uint16 `tlb:"^"`
}
type vRef4 struct {
	N tlb.Uint8
	A tlb.Uint32 `tlb:"^"`
	B tlb.Uint64 `tlb:"^"`
	C tlb.Uint16 `tlb:"^"`
	D tlb.Uint8  `tlb:"^"`
}
type vBehind struct { // the whole value behind one reference, no bits after the label
	V vBits `tlb:"^"`
}
type vBehind2 struct { // behind a reference a cell that itself has two references
	V vRef2 `tlb:"^"`
}
type vRefs2Only struct { // two references and no bits: the leaf looks exactly like a fork
	A tlb.Uint32 `tlb:"^"`
	B tlb.Uint64 `tlb:"^"`
}
type vMaybe struct { // zero or one reference, entry by entry
	N tlb.Uint8
	M tlb.Maybe[tlb.Ref[tlb.Uint32]]
}
type vCell struct { // a subtree behind a reference
	N tlb.Uint32
	C boc.Cell `tlb:"^"`
}
type vCell2 struct { // two subtrees
	N tlb.Uint16
	C boc.Cell `tlb:"^"`
	D boc.Cell `tlb:"^"`
}
type vDict struct { // a dictionary inside the value
	N tlb.Uint8
	D tlb.HashmapE[tlb.Uint8, tlb.Uint16]
}

// valKind is one value type: how its stored form is drawn (reference model) together with the Go value the
// library must return, and the library calls instantiated for it.
type valKind struct {
	name   string
	draw   func(c *core.Ctx, label string, deep *ref.RCell) (ref.DictValue, any)
	prove  func(p *boc.MerkleProver, cell *boc.Cell, key boc.BitString) (any, []byte, error)
	decode func(proofRoot *boc.Cell, n int) (keys []ref.Bits, vals []any, supported bool, err error)
	same   func(got, want any) error
}

// field draws an unsigned value of w bits: zero, all ones or anything.
func field(r *core.SplitMix, w int) uint64 {
	mask := ^uint64(0)
	if w < 64 {
		mask = 1<<uint(w) - 1
	}
	switch r.Intn(6) {
	case 0:
		return 0
	case 1:
		return mask
	}
	return r.Next() & mask
}

func leafCell(v uint64, w int) *ref.RCell { return ref.NewRCell(ref.Bits{}.AppendUint(v, w), false) }

// valueTree is a cell with 0..4 references to leaves (a value subtree that looks like a fork or more).
func valueTree(r *core.SplitMix) *ref.RCell {
	var refs []*ref.RCell
	for i, k := 0, r.Intn(5); i < k; i++ {
		refs = append(refs, leafCell(r.Next()&0xffff, 16))
	}
	return ref.NewRCell(ref.Bits{}.AppendUint(r.Next()&0xffffff, 24), false, refs...)
}

func decodeProof[K dictKey, T any](proofRoot *boc.Cell, bitsOf func(K) ref.Bits) ([]ref.Bits, []any, bool, error) {
	var p tlb.MerkleProof[tlb.Hashmap[K, T]]
	if err := tlb.Unmarshal(proofRoot, &p); err != nil {
		return nil, nil, true, err
	}
	var keys []ref.Bits
	var vals []any
	vs := p.VirtualRoot.Values()
	for i, k := range p.VirtualRoot.Keys() {
		keys = append(keys, bitsOf(k))
		if i < len(vs) {
			vals = append(vals, vs[i])
		} else {
			vals = append(vals, nil)
		}
	}
	return keys, vals, true, nil
}

func newKind[T any](name string, draw func(r *core.SplitMix, deep *ref.RCell) (ref.DictValue, T), same func(got, want T) error) *valKind {
	k := &valKind{name: name}
	k.draw = func(c *core.Ctx, label string, deep *ref.RCell) (ref.DictValue, any) {
		v, t := draw(core.NewSplitMix(c.U64(label)), deep)
		return v, t
	}
	k.prove = func(p *boc.MerkleProver, cell *boc.Cell, key boc.BitString) (any, []byte, error) {
		v, proof, err := tlb.ProveKeyInHashmap[T](p, cell, key)
		return v, proof, err
	}
	k.decode = func(proofRoot *boc.Cell, n int) ([]ref.Bits, []any, bool, error) {
		switch n {
		case 8:
			return decodeProof[tlb.Uint8, T](proofRoot, func(k tlb.Uint8) ref.Bits { return ref.Bits{}.AppendUint(uint64(k), 8) })
		case 16:
			return decodeProof[tlb.Uint16, T](proofRoot, func(k tlb.Uint16) ref.Bits { return ref.Bits{}.AppendUint(uint64(k), 16) })
		case 32:
			return decodeProof[tlb.Uint32, T](proofRoot, func(k tlb.Uint32) ref.Bits { return ref.Bits{}.AppendUint(uint64(k), 32) })
		case 64:
			return decodeProof[tlb.Uint64, T](proofRoot, func(k tlb.Uint64) ref.Bits { return ref.Bits{}.AppendUint(uint64(k), 64) })
		case 256:
			return decodeProof[tlb.Bits256, T](proofRoot, func(k tlb.Bits256) ref.Bits { return ref.BitsFromBytes(k[:], 256) })
		}
		return nil, nil, false, nil
	}
	k.same = func(got, want any) error {
		g, ok := got.(T)
		if !ok {
			return fmt.Errorf("a value of type %T, want %T", got, want)
		}
		w := want.(T)
		if same != nil {
			return same(g, w)
		}
		if !reflect.DeepEqual(g, w) {
			return fmt.Errorf("%+v, the dictionary holds %+v", g, w)
		}
		return nil
	}
	return k
}

// sameSubtree compares a cell the library handed out with the reference subtree it must be.
func sameSubtree(what string, got *boc.Cell, want *ref.RCell) error {
	img, err := gen.FromTongo(got, 20000)
	if err != nil {
		return fmt.Errorf("%s: cannot be imaged: %v", what, err)
	}
	if !bytes.Equal(img.ReprHash(), want.ReprHash()) {
		return fmt.Errorf("%s: a subtree hashing to %x (depth %d), the dictionary holds one hashing to %x (depth %d)", what, img.ReprHash(), img.Depth(0), want.ReprHash(), want.Depth(0))
	}
	return nil
}

// wantCell is the expected value of the cell-valued kinds: the number and the reference subtrees.
type wantCell struct {
	n    uint64
	subs []*ref.RCell
}

var valueKinds = []*valKind{
	newKind("80 bits, no reference", func(r *core.SplitMix, _ *ref.RCell) (ref.DictValue, vBits) {
		a, b := field(r, 16), field(r, 64)
		return ref.DictValue{Bits: ref.Bits{}.AppendUint(a, 16).AppendUint(b, 64)}, vBits{tlb.Uint16(a), tlb.Uint64(b)}
	}, nil),
	newKind("empty value", func(r *core.SplitMix, _ *ref.RCell) (ref.DictValue, vEmpty) {
		return ref.DictValue{}, vEmpty{}
	}, nil),
	newKind("576 bits, no reference", func(r *core.SplitMix, _ *ref.RCell) (ref.DictValue, vBig) {
		var v vBig
		r.Fill(v.A[:])
		r.Fill(v.B[:])
		if r.Intn(4) == 0 {
			v.A = tlb.Bits256{}
		}
		c := field(r, 64)
		v.C = tlb.Uint64(c)
		return ref.DictValue{Bits: ref.Bits{}.AppendBytes(v.A[:]).AppendBytes(v.B[:]).AppendUint(c, 64)}, v
	}, nil),
	newKind("16 bits and one reference", func(r *core.SplitMix, _ *ref.RCell) (ref.DictValue, vRef1) {
		n, a := field(r, 16), field(r, 32)
		return ref.DictValue{Bits: ref.Bits{}.AppendUint(n, 16), Refs: []*ref.RCell{leafCell(a, 32)}}, vRef1{tlb.Uint16(n), tlb.Uint32(a)}
	}, nil),
	newKind("16 bits and two references", func(r *core.SplitMix, _ *ref.RCell) (ref.DictValue, vRef2) {
		n, a, b := field(r, 16), field(r, 32), field(r, 64)
		return ref.DictValue{Bits: ref.Bits{}.AppendUint(n, 16), Refs: []*ref.RCell{leafCell(a, 32), leafCell(b, 64)}}, vRef2{tlb.Uint16(n), tlb.Uint32(a), tlb.Uint64(b)}
	}, nil),
	newKind("8 bits and three references", func(r *core.SplitMix, _ *ref.RCell) (ref.DictValue, vRef3) {
		n, a, b, x := field(r, 8), field(r, 32), field(r, 64), field(r, 16)
		return ref.DictValue{Bits: ref.Bits{}.AppendUint(n, 8), Refs: []*ref.RCell{leafCell(a, 32), leafCell(b, 64), leafCell(x, 16)}}, vRef3{tlb.Uint8(n), tlb.Uint32(a), tlb.Uint64(b), tlb.Uint16(x)}
	}, nil),
	newKind("8 bits and four references", func(r *core.SplitMix, _ *ref.RCell) (ref.DictValue, vRef4) {
		n, a, b, x, y := field(r, 8), field(r, 32), field(r, 64), field(r, 16), field(r, 8)
		return ref.DictValue{Bits: ref.Bits{}.AppendUint(n, 8), Refs: []*ref.RCell{leafCell(a, 32), leafCell(b, 64), leafCell(x, 16), leafCell(y, 8)}}, vRef4{tlb.Uint8(n), tlb.Uint32(a), tlb.Uint64(b), tlb.Uint16(x), tlb.Uint8(y)}
	}, nil),
	newKind("value behind a reference", func(r *core.SplitMix, _ *ref.RCell) (ref.DictValue, vBehind) {
		a, b := field(r, 16), field(r, 64)
		return ref.DictValue{Refs: []*ref.RCell{ref.NewRCell(ref.Bits{}.AppendUint(a, 16).AppendUint(b, 64), false)}}, vBehind{vBits{tlb.Uint16(a), tlb.Uint64(b)}}
	}, nil),
	newKind("value behind a reference, with two references of its own", func(r *core.SplitMix, _ *ref.RCell) (ref.DictValue, vBehind2) {
		n, a, b := field(r, 16), field(r, 32), field(r, 64)
		return ref.DictValue{Refs: []*ref.RCell{ref.NewRCell(ref.Bits{}.AppendUint(n, 16), false, leafCell(a, 32), leafCell(b, 64))}}, vBehind2{vRef2{tlb.Uint16(n), tlb.Uint32(a), tlb.Uint64(b)}}
	}, nil),
	newKind("two references, no bits", func(r *core.SplitMix, _ *ref.RCell) (ref.DictValue, vRefs2Only) {
		a, b := field(r, 32), field(r, 64)
		return ref.DictValue{Refs: []*ref.RCell{leafCell(a, 32), leafCell(b, 64)}}, vRefs2Only{tlb.Uint32(a), tlb.Uint64(b)}
	}, nil),
	newKind("9 bits and maybe a reference", func(r *core.SplitMix, _ *ref.RCell) (ref.DictValue, vMaybe) {
		n := field(r, 8)
		v := ref.DictValue{Bits: ref.Bits{}.AppendUint(n, 8)}
		w := vMaybe{N: tlb.Uint8(n)}
		if r.Intn(2) == 0 {
			a := field(r, 32)
			v.Bits = append(v.Bits, true)
			v.Refs = []*ref.RCell{leafCell(a, 32)}
			w.M.Exists = true
			w.M.Value.Value = tlb.Uint32(a)
		} else {
			v.Bits = append(v.Bits, false)
		}
		return v, w
	}, nil),
	kindCell,
	kindCell2,
	newKind("8 bits and a dictionary", func(r *core.SplitMix, _ *ref.RCell) (ref.DictValue, vDict) {
		n := field(r, 8)
		var es []ref.DictEntry
		var ks []tlb.Uint8
		var vs []tlb.Uint16
		seen := map[uint64]bool{}
		for i, cnt := 0, r.Intn(4); i < cnt; i++ {
			k := field(r, 8)
			if seen[k] {
				continue
			}
			seen[k] = true
			x := field(r, 16)
			es = append(es, ref.DictEntry{Key: ref.Bits{}.AppendUint(k, 8), Value: ref.DictValue{Bits: ref.Bits{}.AppendUint(x, 16)}})
			ks, vs = append(ks, tlb.Uint8(k)), append(vs, tlb.Uint16(x))
		}
		hb, hr, err := ref.EncodeHashmapE(es, 8, nil)
		if err != nil {
			panic("HARNESS: " + err.Error())
		}
		return ref.DictValue{Bits: append(ref.Bits{}.AppendUint(n, 8), hb...), Refs: hr}, vDict{tlb.Uint8(n), tlb.NewHashmapE(ks, vs)}
	}, func(got, want vDict) error {
		if got.N != want.N {
			return fmt.Errorf("N = %d, the dictionary holds %d", got.N, want.N)
		}
		gk, gv := got.D.Keys(), got.D.Values()
		if len(gk) != len(want.D.Keys()) || len(gv) != len(gk) {
			return fmt.Errorf("inner dictionary with %d keys and %d values, the dictionary holds one with %d entries", len(gk), len(gv), len(want.D.Keys()))
		}
		for i, k := range gk {
			w, ok := want.D.Get(k)
			if !ok || w != gv[i] {
				return fmt.Errorf("inner dictionary has %d -> %d, the stored one has %d (present=%v)", k, gv[i], w, ok)
			}
		}
		return nil
	}),
}

// Values that hold whole subtrees: a small tree or (when deep is given) a long chain. The expected Go value cannot
// be written down as a struct literal (a boc.Cell); it carries the number and the reference subtrees instead.
var kindCell = &valKind{name: "32 bits and a subtree"}
var kindCell2 = &valKind{name: "16 bits and two subtrees"}

func init() {
	decodeBy := func(n int, proofRoot *boc.Cell, two bool) ([]ref.Bits, []any, bool, error) {
		if two {
			switch n {
			case 8:
				return decodeProof[tlb.Uint8, vCell2](proofRoot, func(k tlb.Uint8) ref.Bits { return ref.Bits{}.AppendUint(uint64(k), 8) })
			case 16:
				return decodeProof[tlb.Uint16, vCell2](proofRoot, func(k tlb.Uint16) ref.Bits { return ref.Bits{}.AppendUint(uint64(k), 16) })
			case 32:
				return decodeProof[tlb.Uint32, vCell2](proofRoot, func(k tlb.Uint32) ref.Bits { return ref.Bits{}.AppendUint(uint64(k), 32) })
			case 64:
				return decodeProof[tlb.Uint64, vCell2](proofRoot, func(k tlb.Uint64) ref.Bits { return ref.Bits{}.AppendUint(uint64(k), 64) })
			case 256:
				return decodeProof[tlb.Bits256, vCell2](proofRoot, func(k tlb.Bits256) ref.Bits { return ref.BitsFromBytes(k[:], 256) })
			}
			return nil, nil, false, nil
		}
		switch n {
		case 8:
			return decodeProof[tlb.Uint8, vCell](proofRoot, func(k tlb.Uint8) ref.Bits { return ref.Bits{}.AppendUint(uint64(k), 8) })
		case 16:
			return decodeProof[tlb.Uint16, vCell](proofRoot, func(k tlb.Uint16) ref.Bits { return ref.Bits{}.AppendUint(uint64(k), 16) })
		case 32:
			return decodeProof[tlb.Uint32, vCell](proofRoot, func(k tlb.Uint32) ref.Bits { return ref.Bits{}.AppendUint(uint64(k), 32) })
		case 64:
			return decodeProof[tlb.Uint64, vCell](proofRoot, func(k tlb.Uint64) ref.Bits { return ref.Bits{}.AppendUint(uint64(k), 64) })
		case 256:
			return decodeProof[tlb.Bits256, vCell](proofRoot, func(k tlb.Bits256) ref.Bits { return ref.BitsFromBytes(k[:], 256) })
		}
		return nil, nil, false, nil
	}
	kindCell.draw = func(c *core.Ctx, label string, deep *ref.RCell) (ref.DictValue, any) {
		r := core.NewSplitMix(c.U64(label))
		n := field(r, 32)
		sub := deep
		if sub == nil {
			sub = valueTree(r)
		}
		return ref.DictValue{Bits: ref.Bits{}.AppendUint(n, 32), Refs: []*ref.RCell{sub}}, wantCell{n, []*ref.RCell{sub}}
	}
	kindCell.prove = func(p *boc.MerkleProver, cell *boc.Cell, key boc.BitString) (any, []byte, error) {
		v, proof, err := tlb.ProveKeyInHashmap[vCell](p, cell, key)
		return v, proof, err
	}
	kindCell.decode = func(proofRoot *boc.Cell, n int) ([]ref.Bits, []any, bool, error) { return decodeBy(n, proofRoot, false) }
	kindCell.same = func(got, want any) error {
		g, ok := got.(vCell)
		if !ok {
			return fmt.Errorf("a value of type %T", got)
		}
		w := want.(wantCell)
		if uint64(g.N) != w.n {
			return fmt.Errorf("N = %d, the dictionary holds %d", g.N, w.n)
		}
		return sameSubtree("field C", &g.C, w.subs[0])
	}
	kindCell2.draw = func(c *core.Ctx, label string, deep *ref.RCell) (ref.DictValue, any) {
		r := core.NewSplitMix(c.U64(label))
		n := field(r, 16)
		a, b := valueTree(r), valueTree(r)
		if deep != nil {
			if r.Intn(2) == 0 {
				a = deep
			} else {
				b = deep
			}
		}
		return ref.DictValue{Bits: ref.Bits{}.AppendUint(n, 16), Refs: []*ref.RCell{a, b}}, wantCell{n, []*ref.RCell{a, b}}
	}
	kindCell2.prove = func(p *boc.MerkleProver, cell *boc.Cell, key boc.BitString) (any, []byte, error) {
		v, proof, err := tlb.ProveKeyInHashmap[vCell2](p, cell, key)
		return v, proof, err
	}
	kindCell2.decode = func(proofRoot *boc.Cell, n int) ([]ref.Bits, []any, bool, error) { return decodeBy(n, proofRoot, true) }
	kindCell2.same = func(got, want any) error {
		g, ok := got.(vCell2)
		if !ok {
			return fmt.Errorf("a value of type %T", got)
		}
		w := want.(wantCell)
		if uint64(g.N) != w.n {
			return fmt.Errorf("N = %d, the dictionary holds %d", g.N, w.n)
		}
		if err := sameSubtree("field C", &g.C, w.subs[0]); err != nil {
			return err
		}
		return sameSubtree("field D", &g.D, w.subs[1])
	}
}

// lookupLeaf follows key through a dictionary tree in which subtrees may be pruned and returns the leaf cell and
// the bits behind its label. A leaf is where the labels have used up the key, whatever references it has.
func lookupLeaf(root *ref.RCell, key ref.Bits) (*ref.RCell, ref.Bits, bool) {
	c, pos := root, 0
	for depth := 0; depth < 1100; depth++ {
		if c.Special {
			return nil, nil, false
		}
		label, rest, ok := ref.DecodeLabel(c.Bits(), len(key)-pos)
		if !ok {
			return nil, nil, false
		}
		for i, b := range label {
			if pos+i >= len(key) || key[pos+i] != b {
				return nil, nil, false
			}
		}
		pos += len(label)
		if pos == len(key) {
			return c, rest, true
		}
		if len(c.Refs) != 2 || len(rest) != 0 {
			return nil, nil, false
		}
		if key[pos] {
			c = c.Refs[1]
		} else {
			c = c.Refs[0]
		}
		pos++
	}
	return nil, nil, false
}

// maxPrunedDepth returns the largest depth stored in a (level-1) pruned branch of a proof body, -1 if none.
func maxPrunedDepth(x *ref.RCell) int {
	best := -1
	ref.Walk([]*ref.RCell{x}, func(c *ref.RCell) {
		if c.Special && c.Type() == ref.TypePruned && c.BitLen >= 8*36 {
			if d := int(c.Data[34])<<8 | int(c.Data[35]); d > best {
				best = d
			}
		}
	})
	return best
}

// valueDict is a dictionary of one value kind, written by the reference model.
type valueDict struct {
	n       int
	kind    *valKind
	entries []ref.DictEntry
	wants   []any
	root    *ref.RCell
	data    []byte
}

func (d *valueDict) describe() string {
	return fmt.Sprintf("dictionary of %d entries, %d-bit keys, values: %s", len(d.entries), d.n, d.kind.name)
}

func (d *valueDict) present(k ref.Bits) bool {
	for _, e := range d.entries {
		if e.Key.Equal(k) {
			return true
		}
	}
	return false
}

// load parses the dictionary and makes a prover; the tree may have been read before.
func (d *valueDict) load(c *core.Ctx, label string) (*boc.Cell, *boc.MerkleProver, string, error) {
	cells, err := boc.DeserializeBoc(d.data)
	if err != nil || len(cells) != 1 {
		return nil, nil, "", fmt.Errorf("HARNESS: tongo cannot parse the reference-made dictionary: %v", err)
	}
	how := "dictionary not read before"
	if c.Intn(label+".readit", 3) == 0 {
		if h := readTree(c, label+".read", cells[0]); h != "tree not read" {
			how = h
			c.Class("dictionary cells read before the prover is made")
		}
	}
	cells[0].ResetCounters()
	p, err := boc.NewMerkleProver(cells[0])
	if err != nil {
		return nil, nil, how, fmt.Errorf("NewMerkleProver (%s; %s): %v", d.describe(), how, err)
	}
	return cells[0], p, how, nil
}

// proveOne proves entry i and validates everything the property says about the proof and the value.
func (d *valueDict) proveOne(c *core.Ctx, label string, i int, cell *boc.Cell, prover *boc.MerkleProver, how string) (*ref.RCell, error) {
	e := d.entries[i]
	keyBS, keyHow, _ := keyCarrier(c, label+".key", e.Key)
	where := fmt.Sprintf("%s; key %s passed as %s; %s", d.describe(), e.Key, keyHow, how)
	cell.ResetCounters()
	val, proof, err := d.kind.prove(prover, cell, keyBS)
	if err != nil {
		return nil, fmt.Errorf("ProveKeyInHashmap for a present key whose leaf holds %d further bits and %d references (%s): %v", len(e.Value.Bits), len(e.Value.Refs), where, err)
	}
	if err := d.kind.same(val, d.wants[i]); err != nil {
		return nil, fmt.Errorf("ProveKeyInHashmap returned for key %s %v (%s)", e.Key, err, where)
	}
	mp, _, err := validateProof(proof, d.root)
	if err != nil {
		return nil, fmt.Errorf("proof (%s): %v", where, err)
	}
	// the stored value can be read from the proof: reference decoder on the unpruned path ...
	leaf, rest, ok := lookupLeaf(mp.Refs[0], e.Key)
	if !ok {
		return nil, fmt.Errorf("the proven key cannot be reached in the proof with the reference decoder (%s)", where)
	}
	if !rest.Equal(e.Value.Bits) || len(leaf.Refs) != len(e.Value.Refs) {
		return nil, fmt.Errorf("the leaf of the proven key holds in the proof %d bits x{%s} and %d references, the dictionary holds %d bits x{%s} and %d references (%s)", len(rest), rest.FiftHex(), len(leaf.Refs), len(e.Value.Bits), e.Value.Bits.FiftHex(), len(e.Value.Refs), where)
	}
	for k, r := range leaf.Refs {
		if !bytes.Equal(r.ReprHash(), e.Value.Refs[k].ReprHash()) {
			return nil, fmt.Errorf("reference %d of the proven value is in the proof a cell hashing to %x, the dictionary holds %x (%s)", k, r.ReprHash(), e.Value.Refs[k].ReprHash(), where)
		}
	}
	// ... and tongo's own MerkleProof / Hashmap decoder, for the key widths that have a key type
	tt, err := boc.DeserializeBoc(proof)
	if err != nil || len(tt) != 1 {
		return nil, fmt.Errorf("tongo cannot parse the proof it produced: %v", err)
	}
	keys, vals, supported, err := d.kind.decode(tt[0], d.n)
	if supported {
		if err != nil {
			return nil, fmt.Errorf("tlb.MerkleProof[Hashmap] cannot decode the proof (%s): %v", where, err)
		}
		found := false
		for k := range keys {
			if keys[k].Equal(e.Key) {
				found = true
				if err := d.kind.same(vals[k], d.wants[i]); err != nil {
					return nil, fmt.Errorf("the value decoded from the proof for key %s is %v (%s)", e.Key, err, where)
				}
			}
		}
		if !found {
			return nil, fmt.Errorf("the proven key is not among the %d keys decoded from the proof (%s)", len(keys), where)
		}
		c.Class("value decoded from the proof by tlb.MerkleProof[Hashmap]")
	}
	c.Class(fmt.Sprintf("proven leaf: %d references", len(e.Value.Refs)))
	if len(e.Value.Bits) == 0 {
		c.Class("proven leaf: no bits behind the label")
	}
	return mp, nil
}

// refuseAbsent asks for keys next to a present one; none may get a proof.
func (d *valueDict) refuseAbsent(c *core.Ctx, near ref.Bits) error {
	for _, pos := range []int{0, d.n / 2, d.n - 1} {
		k := near.Clone()
		k[pos] = !k[pos]
		if d.present(k) {
			continue
		}
		cell, prover, _, err := d.load(c, "loadA")
		if err != nil {
			return err
		}
		keyA, keyAHow, _ := keyCarrier(c, "absent.key", k)
		var perr error
		var aproof []byte
		if p := core.Protect(func() error {
			_, aproof, perr = d.kind.prove(prover, cell, keyA)
			return nil
		}); p != nil {
			return fmt.Errorf("ProveKeyInHashmap panicked for an absent key %s (passed as %s; %s): %v", k, keyAHow, d.describe(), p)
		}
		if perr == nil {
			return fmt.Errorf("ProveKeyInHashmap produced a proof (%d bytes) for key %s (passed as %s), which is not in the dictionary (%s)", len(aproof), k, keyAHow, d.describe())
		}
		c.Class("absent key refused")
	}
	return nil
}

func (d *valueDict) encode(c *core.Ctx) error {
	var choose func(ref.Bits, int, []int) int
	if c.Bool("forms") {
		choose = func(s ref.Bits, m int, forms []int) int { return forms[c.Choose("form", len(forms))] }
	}
	root, err := ref.EncodeHashmap(d.entries, d.n, choose)
	if err != nil {
		return fmt.Errorf("HARNESS: %v", err)
	}
	d.root = root
	d.data = ref.SerializeBOC([]*ref.RCell{root}, ref.BocVariant{})
	return nil
}

var valuesProof = &core.Check{Name: "c18/values", Quick: 200, Thorough: 30000, Fn: func(c *core.Ctx) error {
	d := &valueDict{n: c.OneOf("keybits", 8, 16, 32, 64, 256)}
	if c.Intn("anywidth", 4) == 0 {
		d.n = c.Range("keybits.r", 8, 256)
	}
	d.kind = valueKinds[c.Choose("kind", len(valueKinds))]
	d.entries = drawEntries(c, d.n)
	for i := range d.entries {
		v, w := d.kind.draw(c, "value", nil)
		d.entries[i].Value = v
		d.wants = append(d.wants, w)
	}
	c.Note("dictionary", d.describe())
	c.Class("values: " + d.kind.name)
	if err := d.encode(c); err != nil {
		return err
	}
	// one to three present keys, through one prover or a new one each
	var cell *boc.Cell
	var prover *boc.MerkleProver
	how := ""
	reuse := c.Bool("reuse")
	first := -1
	for k, picks := 0, 1+c.Intn("picks", 3); k < picks; k++ {
		i := c.Choose("pick", len(d.entries))
		if first < 0 {
			first = i
		}
		if prover == nil || !reuse {
			var err error
			if cell, prover, how, err = d.load(c, "load"); err != nil {
				return err
			}
		} else {
			c.Class("prover reused for another key")
		}
		if _, err := d.proveOne(c, "prove", i, cell, prover, how); err != nil {
			return err
		}
		if len(d.entries) >= 2 {
			c.NonTrivial(d.root.ReprHash(), d.entries[i].Key.String())
		}
	}
	return d.refuseAbsent(c, d.entries[first].Key)
}}

// chain builds a chain whose head has depth exactly d: d cells above a leaf, a few of them with a side leaf.
// idx[j] is the reference index that leads from chain cell j (0 = head) to the next one.
func chain(r *core.SplitMix, d int) (*ref.RCell, []int) {
	cur := ref.NewRCell(ref.Bits{}.AppendUint(r.Next()&0xffffffff, 32), false)
	idx := make([]int, d)
	for j := d - 1; j >= 0; j-- {
		refs := []*ref.RCell{cur}
		if r.Intn(8) == 0 {
			side := leafCell(r.Next()&0xff, 8)
			if r.Intn(2) == 0 {
				refs = []*ref.RCell{side, cur}
				idx[j] = 1
			} else {
				refs = append(refs, side)
			}
		}
		cur = ref.NewRCell(ref.Bits{}.AppendUint(uint64(j), 16), false, refs...)
	}
	return cur, idx
}

func drawDepth(c *core.Ctx, label string) int {
	d := c.OneOf(label, 255, 256, 257, 300, 511, 512, 513, 700, 768, 1000)
	if c.Intn(label+".any", 3) == 0 {
		d = c.URange(label+".r", 200, 1000)
	}
	return d
}

func depthClass(d int) string {
	switch {
	case d < 0:
		return "no pruned subtree"
	case d < 255:
		return "deepest pruned subtree: depth < 255"
	case d == 255:
		return "deepest pruned subtree: depth 255"
	case d == 256:
		return "deepest pruned subtree: depth 256"
	case d < 512:
		return "deepest pruned subtree: depth 257..511"
	case d < 768:
		return "deepest pruned subtree: depth 512..767"
	}
	return "deepest pruned subtree: depth 768..1024"
}

// existsIn reports whether the position can be reached in the (partial) tree; it may end on a pruned branch.
func existsIn(x *ref.RCell, path []int) bool {
	for _, k := range path {
		if x.Special || k >= len(x.Refs) {
			return false
		}
		x = x.Refs[k]
	}
	return true
}

var deepProof = &core.Check{Name: "c18/deep", Quick: 40, Thorough: 3000, Fn: func(c *core.Ctx) error {
	if c.Weighted("mode", 3, 2) == 1 {
		return deepDict(c)
	}
	d := drawDepth(c, "depth")
	levels := 1 + c.Intn("levels", 3)
	if c.Intn("to the limit", 4) == 0 {
		// the deepest tree a proof can be made of: depth 1023 (the Merkle proof cell above it has depth 1024,
		// the largest depth that can be hashed), and one and two levels less
		d = 1023 - levels - c.Weighted("below the limit", 3, 1, 1)
		c.Class("tree at the depth limit")
	}
	head, idx := chain(core.NewSplitMix(c.U64("chain")), d)
	if head.Depth(0) != d {
		return fmt.Errorf("HARNESS: chain of depth %d, want %d", head.Depth(0), d)
	}
	// one to three ordinary cells above the head of the chain, with short side branches
	r := core.NewSplitMix(c.U64("top"))
	root := head
	var headPath []int
	for lv := 0; lv < levels; lv++ {
		refs := []*ref.RCell{root}
		at := 0
		for s, ns := 0, c.Intn("sides", 4); s < ns; s++ {
			side := valueTree(r)
			if r.Intn(2) == 0 {
				refs = append([]*ref.RCell{side}, refs...)
				at++
			} else {
				refs = append(refs, side)
			}
		}
		root = ref.NewRCell(ref.Bits{}.AppendUint(r.Next()&0xffff, 16), false, refs...)
		headPath = append([]int{at}, headPath...)
	}
	fullDepth := root.Depth(0)
	chainPos := func(j int) []int { return append(append([]int{}, headPath...), idx[:j]...) }

	set := map[string]bool{}
	var positions [][]int
	for i, np := 0, 1+c.Intn("prunes", 3); i < np; i++ {
		var p []int
		switch c.Weighted("pos.kind", 4, 4, 2, 1) {
		case 0:
			p = chainPos(0)
		case 1:
			j := c.OneOf("pos.j", 1, 2, d-257, d-256, d-255, d-254, d/2, d-1)
			if c.Bool("pos.j.any") {
				j = c.URange("pos.j.r", 1, d)
			}
			if j < 1 {
				j = 1
			}
			p = chainPos(j)
		case 2:
			p, _ = randomPath(c, "pos.side", root, 3)
		default:
			p = chainPos(d - c.Intn("pos.bottom", 3))
		}
		if len(p) == 0 {
			continue
		}
		positions = append(positions, p)
		set[pathStr(p)] = true
	}
	if len(positions) == 0 {
		positions = append(positions, chainPos(0))
		set[pathStr(chainPos(0))] = true
	}

	var t *boc.Cell
	if c.Bool("via.boc") {
		cells, err := boc.DeserializeBoc(ref.SerializeBOC([]*ref.RCell{root}, ref.BocVariant{}))
		if err != nil || len(cells) != 1 {
			return fmt.Errorf("HARNESS: tongo cannot parse the reference-made tree of depth %d: %v", fullDepth, err)
		}
		t = cells[0]
		c.Class("tree parsed from a bag of cells")
	} else {
		var err error
		if t, err = gen.ToTongo(root, c.Bool("share"), 20000); err != nil {
			if errors.Is(err, gen.ErrBudget) {
				return nil
			}
			return err
		}
		c.Class("tree built in memory")
	}
	readHow := "tree not read"
	if c.Intn("readit", 4) == 0 {
		readHow = readTree(c, "read", t)
	}
	prover, err := boc.NewMerkleProver(t)
	if err != nil {
		return fmt.Errorf("NewMerkleProver on a tree of depth %d (%s): %v", fullDepth, readHow, err)
	}
	cur := prover.Cursor()
	for _, p := range positions {
		x := cur
		for _, k := range p {
			x = x.Ref(k)
		}
		x.Prune()
	}
	proof, err := prover.CreateProof(cur)
	if err != nil {
		return fmt.Errorf("CreateProof on a tree of depth %d, %d positions pruned (%s): %v", fullDepth, len(positions), readHow, err)
	}
	want := topmost(set)
	var lens []string
	for _, p := range sortedPlain(want) {
		lens = append(lens, fmt.Sprintf("position of length %d", len(p)))
	}
	describe := fmt.Sprintf("tree of depth %d (a chain of depth %d under position %q), pruned: %s; %s", fullDepth, d, pathStr(headPath), strings.Join(lens, ", "), readHow)
	c.Note("case", describe)
	mp, _, err := validateProof(proof, root)
	if err != nil {
		return fmt.Errorf("%s: %v", describe, err)
	}
	partial := pruneRef(root, "", want)
	if exp := ref.MerkleProofOf(partial); !bytes.Equal(mp.ReprHash(), exp.ReprHash()) {
		return fmt.Errorf("%s: the proof cell hashes to %x, the original tree with exactly these positions replaced by pruned branches gives %x", describe, mp.ReprHash(), exp.ReprHash())
	}
	deepest := maxPrunedDepth(mp.Refs[0])
	c.Class(depthClass(deepest))
	if deepest >= 256 {
		c.NonTrivial(proof)
	}

	// the body of this proof is a partial tree whose pruned branches store those depths; a second proof made from
	// it (nothing more pruned, or one more position) still commits to the ORIGINAL tree
	if c.Bool("again") {
		cells, err := boc.DeserializeBoc(proof)
		if err != nil || len(cells) != 1 || len(cells[0].Refs()) != 1 {
			return fmt.Errorf("tongo cannot parse the proof it produced: %v", err)
		}
		body := cells[0].Refs()[0]
		prover2, err := boc.NewMerkleProver(body)
		if err != nil {
			return fmt.Errorf("%s: NewMerkleProver on the body of the proof: %v", describe, err)
		}
		cur2 := prover2.Cursor()
		set2 := union(want, nil)
		more := "nothing more pruned"
		var p2 []int
		switch c.Choose("again.kind", 3) {
		case 1:
			p2, _ = randomPath(c, "again.side", partial, 3)
		case 2:
			p2 = chainPos(c.Intn("again.j", 3))
		}
		if len(p2) > 0 && existsIn(partial, p2) {
			x := cur2
			for _, k := range p2 {
				x = x.Ref(k)
			}
			x.Prune()
			set2[pathStr(p2)] = true
			more = fmt.Sprintf("position of length %d pruned in addition", len(p2))
		}
		proof2, err := prover2.CreateProof(cur2)
		if err != nil {
			return fmt.Errorf("%s: CreateProof on the body of the proof (%s): %v", describe, more, err)
		}
		mp2, _, err := validateProof(proof2, root)
		if err != nil {
			return fmt.Errorf("%s: second proof made from the body of the first (%s): %v", describe, more, err)
		}
		if exp := ref.MerkleProofOf(pruneRef(root, "", topmost(set2))); !bytes.Equal(mp2.ReprHash(), exp.ReprHash()) {
			return fmt.Errorf("%s: second proof made from the body of the first (%s): the proof cell hashes to %x, expected %x", describe, more, mp2.ReprHash(), exp.ReprHash())
		}
		c.Class("second proof from a body with deep pruned branches")
	}
	return nil
}}

// deepDict: a small dictionary whose values reference subtrees; some of them are long chains, so that the pruned
// sibling of a proven key is as deep as the chain. Every present key is proven.
func deepDict(c *core.Ctx) error {
	d := &valueDict{n: c.OneOf("keybits", 8, 16, 32, 64, 256)}
	if c.Intn("anywidth", 4) == 0 {
		d.n = c.Range("keybits.r", 8, 256)
	}
	d.kind = kindCell
	if c.Bool("two") {
		d.kind = kindCell2
	}
	count := 2 + c.Intn("entries", 4)
	base := ref.Bits(c.Bits("base", d.n))
	seen := map[string]bool{}
	deepLeft := 3
	var depths []int
	for i := 0; i < count; i++ {
		var k ref.Bits
		if c.Bool("near") { // differs from the base key only in the last bits
			k = base.Clone()
			for b := 0; b < 3 && b < d.n; b++ {
				k[d.n-1-b] = c.Bool("near.bit")
			}
		} else {
			k = ref.Bits(c.Bits("key", d.n))
		}
		if seen[k.String()] {
			continue
		}
		seen[k.String()] = true
		var deep *ref.RCell
		if deepLeft > 0 && (len(depths) == 0 || c.Bool("deep")) {
			dd := drawDepth(c, "depth")
			deep, _ = chain(core.NewSplitMix(c.U64("chain")), dd)
			if deep.Depth(0) != dd {
				return fmt.Errorf("HARNESS: chain of depth %d, want %d", deep.Depth(0), dd)
			}
			depths = append(depths, dd)
			deepLeft--
		}
		v, w := d.kind.draw(c, "value", deep)
		d.entries = append(d.entries, ref.DictEntry{Key: k, Value: v})
		d.wants = append(d.wants, w)
	}
	c.Note("dictionary", d.describe())
	c.Note("chain depths", fmt.Sprint(depths))
	c.Class("dictionary with deep values")
	if err := d.encode(c); err != nil {
		return err
	}
	cell, prover, how, err := d.load(c, "load")
	if err != nil {
		return err
	}
	reuse := c.Bool("reuse")
	for i := range d.entries {
		if i > 0 && !reuse {
			if cell, prover, how, err = d.load(c, "load"); err != nil {
				return err
			}
		}
		mp, err := d.proveOne(c, "prove", i, cell, prover, how+fmt.Sprintf("; values reference chains of depths %v", depths))
		if err != nil {
			return err
		}
		deepest := maxPrunedDepth(mp.Refs[0])
		c.Class(depthClass(deepest))
		if deepest >= 256 {
			c.NonTrivial(d.root.ReprHash(), d.entries[i].Key.String())
		}
	}
	return d.refuseAbsent(c, d.entries[c.Choose("absent.near", len(d.entries))].Key)
}

func TestValues(t *testing.T) { core.Run(t, valuesProof) }
func TestDeep(t *testing.T)   { core.Run(t, deepProof) }
