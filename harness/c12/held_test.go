// C12, calls that keep coming while the client is inside a handshake the server does not finish.
//
// "A call whose answer never arrives returns a timeout error by its deadline" is a statement about every
// call, whatever state the connection it is handed to is in, and the property quantifies over connection
// drops "mid-request, idle, during reconnect". The other outage scenarios refuse the client's redials at once
// (RST, FIN, FIN after the handshake bytes): a redial attempt then lasts microseconds, and the state "the
// client is in the middle of a dial / handshake" is practically never met by a call. Here the server accepts
// the redial, reads the handshake bytes and then holds the handshake for many client timeouts: it writes the
// confirmation late, or stays silent and finally closes (FIN or RST); with an authenticating client the late
// confirmation may be followed by an authentication nonce that is withheld in the same way (a third of the
// stretch). 2..4 callers go on calling at a steady pace from before the
// close, through the held handshake(s), until after the server serves again. Every call has to come back by
// its deadline + slack, with its own answer or with a client error (judge); afterwards the self-recovery is
// verified as everywhere.
//
// The hold is measured in calls, not in seconds: it ends when the callers have completed a scripted number of
// calls since it began (on a client that fails fast: 1.5..3 s), at the latest after 8..10 s, and in one
// case of four only when all callers have finished (a server that never answers, as far as the callers can
// tell). A client whose calls wait for the handshake therefore shows calls that are 7 s and more overdue
// (or callers that never return), which no scheduling delay the lag guards tolerate can explain; a slow
// machine only makes the hold longer.
package c12

import (
	"fmt"
	"strings"
	"time"

	"verifharness/internal/adnlsrv"
	"verifharness/internal/core"
)

type holdKind int

const (
	holdConfirm holdKind = iota // the confirmation frame is written when the hold ends, the connection is served
	holdFIN                     // silence, then the connection is closed (FIN) without a confirmation
	holdRST                     // silence, then RST
	holdNonce                   // (second stage, client with an authentication key) the nonce is sent when the hold ends
)

var holdNames = [...]string{"confirmation written at the end", "silence, then FIN", "silence, then RST", "authentication nonce sent at the end"}

// holdPlan scripts one held handshake.
type holdPlan struct {
	kind  holdKind
	calls int           // the hold ends when the callers have completed this many calls since it began
	max   time.Duration // ... at the latest after max (0: no limit) ...
	// ... and in any case when all callers have returned
	// then (holdConfirm on a client with an authentication key): after the late confirmation the
	// authentication nonce is withheld in the same way
	then *holdPlan
}

func (h *holdPlan) String() string {
	lim := "or all callers have returned"
	if h.max > 0 {
		lim = fmt.Sprintf("or %v have passed, %s", h.max, lim)
	}
	s := fmt.Sprintf("handshake held (%s) until the callers have completed %d further calls %s", holdNames[h.kind], h.calls, lim)
	if h.then != nil {
		s += fmt.Sprintf(", then authentication nonce withheld for %d further calls", h.then.calls)
	}
	return s
}

func (h *holdPlan) dialPlan() adnlsrv.DialPlan {
	if h.kind == holdFIN || h.kind == holdRST {
		return adnlsrv.DialPlan{Kind: adnlsrv.DialServeNoConfirm}
	}
	return adnlsrv.DialPlan{Kind: adnlsrv.DialServe}
}

// holdRun is a hold in progress (or over) on one accepted connection.
type holdRun struct {
	plan         *holdPlan
	began, ended time.Time
	why          string
}

func (st *srvState) holdFor(dial int) *holdRun {
	st.mu.Lock()
	defer st.mu.Unlock()
	return st.holds[dial]
}

// heldSilent: the connection is (or was) held without a confirmation; it never counts as established.
func (st *srvState) heldSilent(cn *adnlsrv.Conn) bool {
	h := st.holdFor(cn.Dial)
	return h != nil && (h.plan.kind == holdFIN || h.plan.kind == holdRST)
}

// wait blocks the server goroutine of the connection until the hold is over.
func (st *srvState) wait(h *holdRun, cn *adnlsrv.Conn) {
	now := time.Now()
	st.mu.Lock()
	h.began = now
	st.mu.Unlock()
	cn.Note("%v: begins", h.plan)
	target := st.completed.Load() + int64(h.plan.calls)
	var limit <-chan time.Time
	if h.plan.max > 0 {
		t := time.NewTimer(h.plan.max)
		defer t.Stop()
		limit = t.C
	}
	tick := time.NewTicker(2 * time.Millisecond)
	defer tick.Stop()
	why := ""
	for why == "" {
		select {
		case <-st.callersDone:
			why = "all callers have returned"
		case <-limit:
			why = fmt.Sprintf("%v have passed", h.plan.max)
		case <-tick.C:
			if st.completed.Load() >= target {
				why = fmt.Sprintf("the callers have completed %d further calls", h.plan.calls)
			}
		}
	}
	now = time.Now()
	st.mu.Lock()
	h.ended, h.why = now, why
	st.noteFault() // the server kept the client from reconnecting until now
	st.mu.Unlock()
	cn.Note("hold ends after %v: %s", now.Sub(h.began).Round(time.Millisecond), why)
}

// holdHandshake (Hooks.Handshake): the confirmation frame follows when this returns.
func (st *srvState) holdHandshake(cn *adnlsrv.Conn) {
	if h := st.holdFor(cn.Dial); h != nil && h.plan.kind == holdConfirm && cn.HS.Err == nil {
		st.wait(h, cn)
	}
}

// holdThenClose (start of Hooks.Serve on a connection that got no confirmation): silence, then the close.
func (st *srvState) holdThenClose(cn *adnlsrv.Conn) bool {
	h := st.holdFor(cn.Dial)
	if h == nil || (h.plan.kind != holdFIN && h.plan.kind != holdRST) {
		return false
	}
	st.mu.Lock()
	st.scripted[cn] = true
	st.mu.Unlock()
	st.wait(h, cn)
	if h.plan.kind == holdRST {
		cn.Reset()
	} else {
		cn.Close()
	}
	return true
}

// holdNonceFor: the tcp.authentificate of a connection with a nonce hold waits here before it is answered.
func (st *srvState) holdNonceFor(cn *adnlsrv.Conn) {
	st.mu.Lock()
	h := st.nonceHolds[cn.Dial]
	st.mu.Unlock()
	if h != nil {
		st.wait(h, cn)
	}
}

// c12/handshake-hold: one client (1..2 connections, deadline 0.3..0.5 s, a third with an authentication
// key), 2..4 callers that call every 50..100 ms. The server closes (FIN or RST) the connection on which the
// n-th query arrives (n in 2..20), or all connections. Every closed connection's redials are treated, in a
// row: (one case in three) one refusal at once; a held handshake; (after a hold that ended with a close, one
// case in three) a second held handshake. The callers have enough calls to go on until about a second after
// the server serves again. One scenario per case; real time dominates (5-8 s).
var heldCheck = &core.Check{Name: "c12/handshake-hold", Quick: 1, Thorough: 24, Fn: func(c *core.Ctx) error {
	sc := &scenario{id: 3000 + c.Intn("id", 1000), keySeed: c.U64("keyseed"), workers: c.Range("connections", 1, 2)}
	sc.timeout = time.Duration(c.OneOf("timeout.ms", 300, 400, 500)) * time.Millisecond
	callers := c.Range("callers", 2, 4)
	gap := time.Duration(c.URange("gap.ms", 50, 100)) * time.Millisecond
	f := closeFault{atQuery: c.Range("close.at", 2, 20), rst: c.Bool("close.rst")}
	f.all = sc.workers > 1 && c.Bool("close.all")
	sc.closes = []closeFault{f}
	drawAuth(c, sc, 3)
	closed := 1
	if f.all {
		closed = sc.workers // the redial plans are shared by the connections that redial
	}
	// for ever: the holds end only when all callers have returned
	forever := c.Weighted("hold.limit", 3, 1) == 1
	refusals := []adnlsrv.DialKind{adnlsrv.DialReset, adnlsrv.DialCloseNow, adnlsrv.DialCloseAfterHello}
	var away time.Duration // how long a closed connection stays away on a client that fails fast
	for k := 0; k < closed; k++ {
		var mine time.Duration
		if c.Weighted("refusal.first", 2, 1) == 1 {
			sc.redial = append(sc.redial, adnlsrv.DialPlan{Kind: refusals[c.Choose("refusal.kind", len(refusals))]})
			sc.redialHold = append(sc.redialHold, nil)
			mine += time.Second
		}
		for n := 0; n < 2; n++ {
			h := &holdPlan{kind: holdKind(c.Choose("hold.kind", 3))}
			target := time.Duration(c.URange("hold.ms", 1500, 3000)) * time.Millisecond
			if n > 0 {
				target /= 2
			}
			h.calls = callers * int(target/gap)
			if !forever {
				h.max = time.Duration(c.URange("hold.max.ms", 8000, 10000)) * time.Millisecond
			}
			if sc.auth && h.kind == holdConfirm && c.Bool("hold.nonce") {
				// the same stretch of calls, two thirds of it inside the handshake and a third inside the authentication
				h.then = &holdPlan{kind: holdNonce, calls: h.calls / 3, max: h.max}
				h.calls -= h.then.calls
				c.Class("hold: " + holdNames[holdNonce])
			}
			sc.redial = append(sc.redial, h.dialPlan())
			sc.redialHold = append(sc.redialHold, h)
			mine += target
			c.Class("hold: " + holdNames[h.kind])
			if h.kind == holdConfirm {
				break
			}
			mine += time.Second // the client sleeps a second after a failed attempt
			if n > 0 || c.Weighted("hold.second", 2, 1) == 0 {
				break
			}
			c.Class("two held handshakes in a row on one connection")
		}
		if mine > away {
			away = mine
		}
	}
	// calls per caller: its share of the calls before the close, then one per pause (gap on average) while
	// the closed connection is away and a second more
	per := f.atQuery/callers + int((away+time.Second)/gap) + 4
	for i := 0; i < callers; i++ {
		sc.calls = append(sc.calls, expandSteadyCaller(c.U64("caller.seed"), per, gap))
	}
	script := fmt.Sprintf("%v; callers pause %v (+-20%%) before every call", sc, gap)
	c.Note("scenario", script)
	c.NonTrivial(script)
	c.Class(fmt.Sprintf("%d connection(s)", sc.workers))
	if sc.auth {
		c.Class("client with an authentication key")
	}
	if f.all {
		c.Class("all connections closed")
	}
	if forever {
		c.Class("holds end only when all callers have returned")
	} else {
		c.Class("holds end after a number of calls, at the latest after 8..10 s")
	}
	c.Checkpoint()

	var o *outcome
	if err := core.Protect(func() error { o = runScenario(sc); return nil }); err != nil {
		return err
	}
	totalScenarios.Add(1)
	totalCalls.Add(int64(len(o.calls)))
	// what the callers met (histogram and notes only)
	if o.st != nil {
		st := o.st
		st.mu.Lock()
		var firstFault, lastEnd time.Time
		if len(st.faultAt) > 0 {
			firstFault = st.faultAt[0]
		}
		var runs []*holdRun
		all := make([]*holdRun, 0, 2*len(st.holds))
		for _, h := range st.holds {
			all = append(all, h)
		}
		for _, h := range st.nonceHolds {
			all = append(all, h)
		}
		for _, h := range all {
			runs = append(runs, h)
			if h.ended.After(lastEnd) {
				lastEnd = h.ended
			}
		}
		before, during, after, begun := 0, 0, 0, 0
		for i := range o.calls {
			r := &o.calls[i]
			if r.end.IsZero() {
				continue
			}
			if !firstFault.IsZero() && r.end.Before(firstFault) {
				before++
			}
			if r.err == nil && !lastEnd.IsZero() && r.start.After(lastEnd) {
				after++
			}
			for _, h := range runs {
				if !h.began.IsZero() && !h.ended.IsZero() && r.start.After(h.began) && r.start.Before(h.ended) {
					during++
					break
				}
			}
		}
		for _, h := range runs {
			if !h.began.IsZero() {
				begun++
				if !h.ended.IsZero() {
					o.notef("%v: lasted %v (%s)", h.plan, h.ended.Sub(h.began).Round(time.Millisecond), h.why)
				} else {
					o.notef("%v: still in progress", h.plan)
				}
			}
		}
		st.mu.Unlock()
		o.notef("calls: %d returned before the close, %d began while a handshake was held, %d were answered after the last hold", before, during, after)
		switch {
		case begun == 0:
			c.Class("no held handshake was reached")
		case during >= 10:
			c.Class(">= 10 calls began while a handshake was held")
		default:
			c.Class("< 10 calls began while a handshake was held")
		}
		if before > 0 && during > 0 && after > 0 {
			c.Class("calls before, during and after the held handshake")
		}
	}
	if v := o.judge(c); v != "" {
		if isAuthNonceDeadlock(v) && c.Known(knownAuthNonceDeadlock) {
			return nil
		}
		return failure(o, v, script)
	}
	if !o.healthy {
		c.Class("recovery not judged (process stalled)")
	}
	c.Note("log", strings.Join(o.notes, " | "))
	return nil
}}
