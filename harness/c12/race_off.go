//go:build !race

package c12

const raceEnabled = false
