// C12, calls that keep coming while the server is away.
//
// "A call whose answer never arrives returns a timeout error by its deadline" holds for every call, also for
// the one call whose write is the first to fail on a connection the server has closed, and also while the
// server cannot be reached for much longer than the client timeout. The other outage scenarios let their
// callers make a few calls and then wait idle for the client to come back; here 2..4 callers go on calling at
// a steady pace (every 50..100 ms) from before the close until after the server serves again, so that user
// calls (and not only the 3 s keep-alive ping) meet every state the connection goes through: the dead socket
// that still accepts one write, the failing write that starts the redial, the redial loop, the fresh
// connection. Every one of these calls has to come back, with its own answer or with a client error, within
// its deadline + slack.
package c12

import (
	"fmt"
	"strings"
	"time"

	"verifharness/internal/adnlsrv"
	"verifharness/internal/core"
)

// expandSteadyCaller: n calls, each preceded by a pause of gap -20%..+20%, nearly all answered at once.
func expandSteadyCaller(seed uint64, n int, gap time.Duration) []callScript {
	r := core.NewSplitMix(seed)
	out := make([]callScript, n)
	us := int(gap / time.Microsecond)
	for i := range out {
		q := &out[i]
		q.pre, q.preUS = 2, us*4/5+r.Intn(us*2/5+1)
		if r.Intn(10) == 0 {
			q.kind, q.delay = kDelay, time.Duration(1+r.Intn(40))*time.Millisecond
		}
		if r.Intn(40) == 0 {
			q.size = 242 + r.Intn(2000)
		} else {
			q.size = r.Intn(40)
		}
	}
	return out
}

// c12/outage-steady: one client (1..2 connections, deadline 0.3..0.5 s), 2..4 callers that call every
// 50..100 ms. The server closes (FIN or RST) the connection on which the n-th query arrives, or all
// connections, and refuses the next 4..6 redials of each closed connection (RST, FIN at once, FIN after the
// handshake bytes): the client retries once per second, so the server is away for 8..20 client timeouts.
// The callers have enough calls to go on until about a second after the server serves again. judge applies to
// every call: own answer or client error, errors within deadline + 1 s (a late return is excused by a stalled
// process only as far as the stall explains it, see judge); then the self-recovery is verified as everywhere.
// One scenario per case; real time dominates (7-9 s).
var steadyCheck = &core.Check{Name: "c12/outage-steady", Quick: 1, Thorough: 24, Fn: func(c *core.Ctx) error {
	sc := &scenario{id: 4000 + c.Intn("id", 1000), keySeed: c.U64("keyseed"), workers: c.Range("connections", 1, 2)}
	sc.timeout = time.Duration(c.OneOf("timeout.ms", 300, 400, 500)) * time.Millisecond
	callers := c.Range("callers", 2, 4)
	gap := time.Duration(c.URange("gap.ms", 50, 100)) * time.Millisecond
	f := closeFault{atQuery: c.Range("close.at", 2, 40), rst: c.Bool("close.rst")}
	f.all = sc.workers > 1 && c.Bool("close.all")
	sc.closes = []closeFault{f}
	perConn := c.Range("outage.redials", 4, 6)
	closed := 1
	if f.all {
		closed = sc.workers // the redial plans are shared by the connections that redial
	}
	kinds := []adnlsrv.DialKind{adnlsrv.DialReset, adnlsrv.DialCloseNow, adnlsrv.DialCloseAfterHello}
	kind := kinds[c.Choose("outage.kind", len(kinds))]
	for i := 0; i < perConn*closed; i++ {
		sc.redial = append(sc.redial, adnlsrv.DialPlan{Kind: kind})
	}
	// calls per caller: its share of the calls before the close, then one per pause (gap on average) for the
	// length of the outage (1 s per refused redial) and a second more
	per := f.atQuery/callers + int((time.Duration(perConn)*time.Second+time.Second)/gap) + 4
	for i := 0; i < callers; i++ {
		sc.calls = append(sc.calls, expandSteadyCaller(c.U64("caller.seed"), per, gap))
	}
	if drawAuth(c, sc, 3); sc.auth {
		c.Class("client with an authentication key")
	}
	script := fmt.Sprintf("%v; callers pause %v (+-20%%) before every call", sc, gap)
	c.Note("scenario", script)
	c.NonTrivial(script)
	c.Class(fmt.Sprintf("%d connection(s)", sc.workers))
	c.Class(fmt.Sprintf("outage of %d refused redials per connection (%v)", perConn, kind))
	if f.all {
		c.Class("all connections closed")
	}
	c.Checkpoint()

	var o *outcome
	if err := core.Protect(func() error { o = runScenario(sc); return nil }); err != nil {
		return err
	}
	totalScenarios.Add(1)
	totalCalls.Add(int64(len(o.calls)))
	// what the callers met (histogram only; the verdict does not depend on error texts)
	sendFailed, refused, timedOut, afterUp := 0, 0, 0, 0
	var up time.Time
	if o.st != nil {
		for _, e := range o.st.srv.Events() {
			if e.Dial > sc.workers && e.What == "established" && (up.IsZero() || e.At.Before(up)) {
				up = e.At
			}
		}
	}
	for i := range o.calls {
		r := &o.calls[i]
		switch {
		case r.err == nil:
			if !up.IsZero() && r.start.After(up) {
				afterUp++
			}
		case strings.Contains(r.err.Error(), "send() failed"):
			sendFailed++
		case strings.Contains(r.err.Error(), "not connected"):
			refused++
		case strings.Contains(r.err.Error(), "timeout"):
			timedOut++
		}
	}
	o.notef("calls: %d met a failing write, %d were refused while the client was redialling, %d timed out, %d were answered on a re-established connection", sendFailed, refused, timedOut, afterUp)
	if sendFailed > 0 {
		c.Class("a user call met the failing write")
	} else {
		c.Class("no user call met the failing write")
	}
	if refused >= 10 {
		c.Class(">= 10 calls while the client was redialling")
	}
	if afterUp > 0 {
		c.Class("callers still calling when the server served again")
	}
	if v := o.judge(c); v != "" {
		if isAuthNonceDeadlock(v) && c.Known(knownAuthNonceDeadlock) {
			return nil
		}
		return failure(o, v, script)
	}
	if !o.healthy {
		c.Class("recovery not judged (process stalled)")
	}
	c.Note("log", strings.Join(o.notes, " | "))
	return nil
}}
