// C12, two further families of cases.
//
// deadline edge: "a call whose answer never arrives returns a timeout error by its deadline" and "each call
// returns the answer the server produced" meet at one point: an answer that reaches the client at the very
// moment the call's deadline expires. Either outcome is right for that call; what must not happen is that
// the collision damages the client (a reader goroutine that stays blocked on the answer of a caller that
// has just left): every later call on that connection would time out although the server answers it.
//
// authenticated connections: a Connection created with an authentication key runs the
// tcp.authentificate / tcp.authentificationNonce / tcp.authentificationComplete exchange on every
// (re)connect. "After the server closes the connection the client reconnects by itself within a bounded
// time and later calls succeed" holds for such connections as for any other, for every generation of the
// connection.
package c12

import (
	"bytes"
	"crypto/ed25519"
	"fmt"
	"runtime"
	"strings"
	"sync/atomic"
	"time"

	"verifharness/internal/adnlsrv"
	"verifharness/internal/core"
)

// baseT anchors the monotonic clock readings that callers hand to their scripted server.
var baseT = time.Now()

// ---------------------------------------------------------------------------------------------
// deadline edge

// edgeSlot is how a caller tells its scripted server (same process) when its current call started and
// where, relative to the call's deadline, the answer is to be written.
type edgeSlot struct {
	start atomic.Int64 // nanoseconds since baseT
	off   atomic.Int64 // microseconds after start + timeout
}

func (st *srvState) edgeTime(caller int) time.Time {
	sl := &st.edge[caller]
	return baseT.Add(time.Duration(sl.start.Load()) + st.sc.timeout + time.Duration(sl.off.Load())*time.Microsecond)
}

// edgeCaller is the caller-side state of the offsets. A scripted caller uses the offset of each call's
// script. An adaptive caller uses the scripted offset for its first call; afterwards the offset moves later
// when the call was answered and earlier when it timed out, in halving steps (1600, 800, ... 50 us, then 50
// for ever): the caller homes in on the offset at which the answer and the expiry of the deadline coincide
// inside the client, whatever the speed and the load of the machine are. With scenario.adaptive all callers
// are adaptive, otherwise every second one.
type edgeCaller struct {
	n, off, step int
}

func (e *edgeCaller) next(sc *scenario, caller int, q callScript) int {
	if !(sc.adaptive || caller%2 == 1) || e.n == 0 {
		e.off = q.edgeUS
	}
	e.n++
	return e.off
}

func (e *edgeCaller) done(answered bool) {
	if e.step == 0 {
		e.step = 1600
	}
	if answered {
		e.off += e.step
	} else {
		e.off -= e.step
	}
	if e.step > 50 {
		e.step /= 2
	}
	if e.off < -8000 {
		e.off = -8000
	}
	if e.off > 3000 {
		e.off = 3000
	}
}

func expandEdgeCaller(seed uint64, n int) []callScript {
	r := core.NewSplitMix(seed)
	out := make([]callScript, n)
	for i := range out {
		q := &out[i]
		if r.Intn(10) == 0 {
			q.kind = kNow
		} else {
			q.kind = kEdge
			q.edgeUS = -2500 + r.Intn(4001) // -2.5 ms .. +1.5 ms around the expiry of the deadline
		}
		if r.Intn(50) == 0 {
			q.size = 242 + r.Intn(2000)
		} else {
			q.size = r.Intn(40)
		}
		switch p := r.Intn(6); {
		case p >= 5:
			q.pre, q.preUS = 2, 10+r.Intn(500)
		case p >= 3:
			q.pre = 1
		}
	}
	return out
}

// drawEdge: one client, many callers whose calls (rounds of them, one after the other) are nearly all
// answered at the moment their deadline expires. big: the size used by c12/at-deadline.
func drawEdge(c *core.Ctx, id int, big bool) *scenario {
	sc := &scenario{id: id, keySeed: c.U64("keyseed"), edge: true, workers: c.Range("connections", 1, 2)}
	sc.timeout = time.Duration(c.OneOf("timeout.ms", 400, 300, 500)) * time.Millisecond
	callers, rounds := c.Range("callers", 32, 96), c.Range("rounds", 3, 5)
	if big {
		callers, rounds = c.Range("callers.big", 128, 256), c.Range("rounds.big", 8, 12)
	}
	sc.adaptive = c.Weighted("adaptive", 1, 3) == 1
	for i := 0; i < callers; i++ {
		sc.calls = append(sc.calls, expandEdgeCaller(c.U64("caller.seed"), rounds))
	}
	return sc
}

// probe: fresh calls, one after the other, on the idle client of a scenario in which the server never
// disturbed a connection; the server answers each at once. A failed call counts when the process was not
// stalled and the server had the answer on the wire with ample time left (the rule of judge) or never saw
// the query; two such failures are a violation (one blocked reader fails every workers-th call for ever).
// The probe ends after want successful calls, or after limit calls when calls fail without counting (a
// loaded machine: nothing is concluded then).
func (o *outcome) probe(c *core.Ctx, want, limit int) string {
	sc, st := o.sc, o.st
	hard, first, good, n := 0, "", 0, 0
	for i := 0; good < want && hard < 2 && i < limit; i++ {
		n++
		t0 := time.Now()
		q, resp, err := o.freshCall()
		t1 := time.Now()
		if err == nil {
			if !bytes.Equal(resp, F(q)) {
				return fmt.Sprintf("MISROUTED: fresh call %d after the callers had finished returned %d bytes that are not F(its query)", i, len(resp))
			}
			good++
			continue
		}
		c.Class("fresh call failed")
		if stalled(t0, t1) {
			c.Class("excused by a process stall")
			o.notef("fresh call %d failed with %q; not judged: the process was stalled (scheduling delay up to %v)", i, err, maxLag(t0, t1))
			continue
		}
		st.mu.Lock()
		rec := st.records[string(q[:headerSize])]
		var desc string
		counts := false
		switch {
		case rec == nil:
			desc, counts = "the server never received the query", true
		default:
			desc = fmt.Sprintf("server: arrival on connection %d at +%v", rec.conn.Dial, rec.recvAt.Sub(t0).Round(time.Microsecond))
			_, ended := st.ended[rec.conn]
			switch {
			case ended:
				desc += ", the connection has ended"
			case rec.sentAt.IsZero():
				desc += fmt.Sprintf(", answer not written (%v)", rec.writeErr)
			default:
				desc += fmt.Sprintf(", answer written at +%v", rec.sentAt.Sub(t0).Round(time.Microsecond))
				counts = sc.timeout-rec.sentAt.Sub(t0) >= 200*time.Millisecond+20*maxLag(t0, t1)
			}
		}
		st.mu.Unlock()
		o.notef("fresh call %d failed after %v with %q; %s; counts=%v", i, t1.Sub(t0).Round(time.Millisecond), err, desc, counts)
		if counts {
			hard++
			if first == "" {
				first = fmt.Sprintf("fresh call %d (started %v) failed after %v with %q; %s; scheduling delay during the call at most %v", i, t0.Format("15:04:05.000"),
					t1.Sub(t0).Round(time.Millisecond), err, desc, maxLag(t0, t1))
			}
		}
	}
	if good < want && hard < 2 {
		c.Class("fresh calls: no conclusion (failures during process stalls)")
	}
	if hard >= 2 {
		return fmt.Sprintf("LATER CALLS FAIL: %d of %d fresh calls on the idle client failed although the server never disturbed a connection and answered each of them at once; the first: %s; goroutines inside liteclient (whole process):\n%s",
			hard, n, first, liteclientStacks())
	}
	return ""
}

// failure renders a violation of a single-scenario check.
func failure(o *outcome, v, script string) error {
	var sb strings.Builder
	fmt.Fprintf(&sb, "%s\n  %s", v, script)
	for _, s := range o.notes {
		fmt.Fprintf(&sb, "\n  note: %s", s)
	}
	if o.st != nil {
		ev := o.st.srv.Events()
		if len(ev) > 40 {
			ev = ev[len(ev)-40:]
		}
		for _, e := range ev {
			fmt.Fprintf(&sb, "\n  server %s dial %d: %s", e.At.Format("15:04:05.000"), e.Dial, e.What)
		}
	}
	return fmt.Errorf("%s", sb.String())
}

// c12/at-deadline: one client (1..2 connections, deadline 0.3..0.5 s), 128..256 callers x 8..12 calls one
// after the other; nine calls in ten are answered at the moment their own deadline expires (scripted offset
// of -2.5..+1.5 ms, or adaptive: see edgeCaller), the others at once. The edge calls may return their answer
// or a timeout error; all other rules of judge apply. Afterwards fresh calls on the idle client must succeed.
var edgeCheck = &core.Check{Name: "c12/at-deadline", Quick: 1, Thorough: 24, Fn: func(c *core.Ctx) error {
	sc := drawEdge(c, 5000+c.Intn("id", 1000), true)
	procs := c.OneOf("gomaxprocs", 4, 1, 2, 16)
	script := fmt.Sprintf("%v; GOMAXPROCS %d", sc, procs)
	c.Note("scenario", script)
	c.NonTrivial(script)
	c.Class(fmt.Sprintf("GOMAXPROCS %d", procs))
	c.Class(fmt.Sprintf("adaptive=%v", sc.adaptive))
	c.Class(fmt.Sprintf("%d connection(s)", sc.workers))
	c.Checkpoint()
	racesBefore := len(raceReports())
	old := runtime.GOMAXPROCS(procs)
	defer runtime.GOMAXPROCS(old)
	var o *outcome
	if err := core.Protect(func() error { o = runScenario(sc); return nil }); err != nil {
		return err
	}
	totalScenarios.Add(1)
	totalCalls.Add(int64(len(o.calls)))
	if v := o.judge(c); v != "" {
		return failure(o, v, script)
	}
	answered, timedOut := 0, 0
	for i := range o.calls {
		r := &o.calls[i]
		if sc.calls[r.caller][r.call].kind != kEdge {
			continue
		}
		if r.err == nil {
			answered++
		} else {
			timedOut++
		}
	}
	o.notef("edge calls: %d answered, %d timed out", answered, timedOut)
	if answered > 0 && timedOut > 0 {
		c.Class("edge calls: both outcomes seen")
	} else {
		c.Class("edge calls: one outcome only")
	}
	if !o.healthy {
		return nil
	}
	var v string
	if err := core.Protect(func() error { v = o.probe(c, 6*sc.workers, 40); return nil }); err != nil {
		return err
	}
	if v != "" {
		return failure(o, v, script)
	}
	if r := raceReports(); len(r) > racesBefore {
		return failure(o, "DATA RACE reported by the race detector while this case ran:\n"+r[racesBefore:], script)
	}
	c.Note("log", strings.Join(o.notes, " | "))
	return nil
}}

// ---------------------------------------------------------------------------------------------
// authenticated connections

type authState struct {
	clientNonce, serverNonce []byte
	done                     bool
}

// authKey is the client's authentication key of a scenario with auth.
func (sc *scenario) authKey() ed25519.PrivateKey {
	b := make([]byte, ed25519.SeedSize)
	core.NewSplitMix(sc.keySeed ^ 0xa17e57a17e57a17e).Fill(b)
	return ed25519.NewKeyFromSeed(b)
}

// drawAuth gives one scenario in oneIn an authentication key. One word is drawn in either case.
func drawAuth(c *core.Ctx, sc *scenario, oneIn int) {
	r := core.NewSplitMix(c.U64("auth"))
	sc.auth = r.Intn(oneIn) == 0
	sc.nonceSize = []int{256, 32, 64}[r.Intn(3)]
	if sc.auth {
		for i := range sc.closes { // see noisePacket
			if sc.closes[i].burstKind == nAuthNonce {
				sc.closes[i].burstKind = nPong
			}
		}
	}
}

func (st *srvState) authenticated(cn *adnlsrv.Conn) bool {
	st.mu.Lock()
	defer st.mu.Unlock()
	a := st.auths[cn]
	return a != nil && a.done
}

// onAuthFrame is the server side of the authentication exchange; true: the frame belonged to it.
func (st *srvState) onAuthFrame(cn *adnlsrv.Conn, payload []byte) bool {
	if nonce, ok := adnlsrv.ParseAuthenticate(payload); ok {
		st.mu.Lock()
		prev := st.auths[cn]
		var sn []byte
		if prev == nil {
			sn = make([]byte, st.sc.nonceSize)
			core.NewSplitMix(st.sc.keySeed ^ uint64(cn.Dial)*0x9e3779b97f4a7c15).Fill(sn)
			st.auths[cn] = &authState{clientNonce: nonce, serverNonce: sn}
		}
		st.mu.Unlock()
		if prev != nil {
			cn.Note("a second tcp.authentificate on one connection: ignored")
			return true
		}
		st.holdNonceFor(cn) // held_test.go: the nonce may be withheld for a while
		cn.Note("tcp.authentificate (client nonce %d bytes): server nonce of %d bytes sent", len(nonce), len(sn))
		cn.WriteFrame(adnlsrv.AuthNonce(sn))
		return true
	}
	if ac, ok := adnlsrv.ParseAuthComplete(payload); ok {
		st.mu.Lock()
		a := st.auths[cn]
		var err error
		switch {
		case a == nil:
			err = fmt.Errorf("no tcp.authentificate came before it")
		case a.done:
			err = fmt.Errorf("the connection is authenticated already")
		default:
			if err = ac.Verify(st.authPub, a.clientNonce, a.serverNonce); err == nil {
				a.done = true
			}
		}
		st.mu.Unlock()
		if err != nil {
			cn.Note("tcp.authentificationComplete refused: %v", err)
		} else {
			cn.Note("authenticated")
		}
		return true
	}
	return false
}

// c12/auth-reconnect: one client with an authentication key (1..2 connections, deadline 0.5/1 s), 2..8
// callers x 2..4 calls with the scripts of c12/batch; the server may close the connection on which the n-th
// query arrives, then closes one or all connections while the client is idle (FIN/RST), 0..2 redials are
// refused; the self-recovery is verified as in c12/batch (the server counts a connection only when it has
// completed the authentication). Then a second idle close that includes the most recently re-established
// connection, with the same verification (third authentication on the same Connection).
var authCheck = &core.Check{Name: "c12/auth-reconnect", Quick: 1, Thorough: 24, Fn: func(c *core.Ctx) error {
	sc := &scenario{id: 6000 + c.Intn("id", 1000), keySeed: c.U64("keyseed"), workers: c.Range("connections", 1, 2), auth: true}
	sc.nonceSize = c.OneOf("nonce.size", 256, 32, 64)
	sc.timeout = time.Duration(c.OneOf("timeout.ms", 500, 1000)) * time.Millisecond
	callers, per := c.Range("callers", 2, 8), c.Range("calls", 2, 4)
	for i := 0; i < callers; i++ {
		sc.calls = append(sc.calls, expandCaller(c.U64("caller.seed"), per, sc.timeout, false))
	}
	if c.Bool("close.midrequest") {
		sc.closes = []closeFault{{atQuery: c.Range("close.at", 1, callers*per), rst: c.Bool("close.rst")}}
	}
	sc.idleClose = 1 + c.Intn("idle.close", 2)
	sc.idleRST = c.Bool("idle.rst")
	kinds := []adnlsrv.DialKind{adnlsrv.DialReset, adnlsrv.DialCloseNow, adnlsrv.DialCloseAfterHello}
	for i, n := 0, c.Range("redials", 0, 2); i < n; i++ {
		sc.redial = append(sc.redial, adnlsrv.DialPlan{Kind: kinds[c.Choose("redial.kind", len(kinds))]})
	}
	which := closeNewest + c.Intn("second.which", 2)
	rst := c.Bool("second.rst")
	var redial2 []adnlsrv.DialPlan
	if c.Intn("second.redial", 3) == 0 {
		redial2 = append(redial2, adnlsrv.DialPlan{Kind: kinds[c.Choose("second.redial.kind", len(kinds))]})
	}
	script := fmt.Sprintf("%v; then idle close of %s (rst=%v)", sc, closeNames[which], rst)
	for _, p := range redial2 {
		script += fmt.Sprintf(" redial->%v", p.Kind)
	}
	c.Note("scenario", script)
	c.NonTrivial(script)
	c.Class(fmt.Sprintf("%d connection(s)", sc.workers))
	c.Class(fmt.Sprintf("server nonce of %d bytes", sc.nonceSize))
	if len(sc.closes) > 0 {
		c.Class("close at n-th query")
	}
	c.Checkpoint()

	var o *outcome
	if err := core.Protect(func() error { o = runScenario(sc); return nil }); err != nil {
		return err
	}
	totalScenarios.Add(1)
	totalCalls.Add(int64(len(o.calls)))
	if v := o.judge(c); v != "" {
		return failure(o, v, script)
	}
	if !o.healthy {
		c.Class("first recovery not judged (process stalled)")
		return nil
	}
	var v string
	err := core.Protect(func() error {
		o.st.mu.Lock()
		o.st.redial = append(o.st.redial, redial2...)
		o.st.mu.Unlock()
		o.closeIdle(which, rst)
		if !o.awaitRecovery(len(redial2), heavyStall) {
			if v = o.violation; v == "" {
				v = "-"
			}
		}
		return nil
	})
	if err != nil {
		return err
	}
	if v == "-" {
		c.Class("second recovery not judged (process stalled)")
		return nil
	}
	if v != "" {
		return failure(o, "after the second idle close: "+v, script)
	}
	c.Note("log", strings.Join(o.notes, " | "))
	return nil
}}
