// C12 — concurrent lite-client requests each receive their own answer.
//
// A check case is a batch of scenarios that run in parallel. A scenario is one liteclient.Client (1..4
// connections) talking to its own scripted reference server (internal/adnlsrv, R6). The answer to a query
// with payload q is F(q); the verdict is computed from the recorded history of calls and server events.
package c12

import (
	"bytes"
	"context"
	"crypto/ed25519"
	"crypto/sha256"
	"encoding/binary"
	"fmt"
	"io"
	"log/slog"
	"os"
	"path/filepath"
	"runtime"
	"sort"
	"strings"
	"sync"
	"sync/atomic"
	"syscall"
	"testing"
	"time"

	"github.com/tonkeeper/tongo/liteclient"

	"verifharness/internal/adnlsrv"
	"verifharness/internal/core"
)

var raceLogPrefix string

func TestMain(m *testing.M) {
	// The library reports ignored packets through slog; a scripted server produces thousands of them.
	slog.SetDefault(slog.New(slog.NewTextHandler(io.Discard, nil)))
	if raceEnabled {
		// Race reports go to a file the checks can read, so that a data race becomes a violation of the
		// case that produced it (with a replay file) instead of an anonymous exit code.
		if p := os.Getenv("VERIF_RACELOG"); p != "" {
			raceLogPrefix = p
		} else if exe, err := os.Executable(); err == nil {
			dir, derr := os.MkdirTemp(os.Getenv("VERIF_SCRATCH"), "c12-race-") // the driver removes its scratch directory
			if derr == nil {
				prefix := filepath.Join(dir, "race")
				env := append(os.Environ(), "VERIF_RACELOG="+prefix, "GORACE=log_path="+prefix+" "+os.Getenv("GORACE"))
				if err := syscall.Exec(exe, os.Args, env); err != nil {
					fmt.Println("c12: cannot re-exec with a race log:", err)
				}
			}
		}
	}
	go heartbeat()
	core.Main(m, "C12")
}

// raceReports returns what the race detector has written so far.
func raceReports() string {
	if raceLogPrefix == "" {
		return ""
	}
	files, _ := filepath.Glob(raceLogPrefix + ".*")
	var sb strings.Builder
	for _, f := range files {
		b, _ := os.ReadFile(f)
		sb.Write(b)
	}
	return sb.String()
}

// ---------------------------------------------------------------------------------------------
// process stall monitor: real-time verdicts are suspended for intervals in which this process was not
// scheduled properly (a loaded machine must not turn into a violation)

type lagSample struct {
	at  time.Time
	lag time.Duration
}

var (
	stallMu sync.Mutex
	lags    []lagSample // heartbeat wake-ups that came more than 2 ms late
)

// heartbeat sleeps 5 ms at a time and records how late it is woken: a direct measurement of how long a
// runnable goroutine of this process currently waits for a processor (machine load, GOMAXPROCS 1 with
// dozens of busy goroutines, race-detector slowdown).
func heartbeat() {
	const period = 5 * time.Millisecond
	last := time.Now()
	for {
		time.Sleep(period)
		now := time.Now()
		if lag := now.Sub(last) - period; lag > 2*time.Millisecond {
			stallMu.Lock()
			lags = append(lags, lagSample{now, lag})
			if len(lags) > 1<<16 {
				lags = append(lags[:0], lags[1<<15:]...)
			}
			stallMu.Unlock()
		}
		last = now
	}
}

// maxLag returns the largest scheduling delay observed between from and to (window widened by 100 ms).
func maxLag(from, to time.Time) time.Duration {
	from, to = from.Add(-100*time.Millisecond), to.Add(100*time.Millisecond)
	stallMu.Lock()
	defer stallMu.Unlock()
	var m time.Duration
	for i := len(lags) - 1; i >= 0; i-- {
		s := lags[i]
		if s.at.Before(from) {
			break
		}
		if s.at.Add(-s.lag).Before(to) && s.lag > m {
			m = s.lag
		}
	}
	return m
}

// stalled: the process was visibly not keeping up in the interval; real-time verdicts are suspended.
func stalled(from, to time.Time) bool { return maxLag(from, to) > 50*time.Millisecond }

// heavyStall is the suspension rule of the verdicts of c12/drop-sequence, which all have several seconds of
// slack: a conforming client re-establishes an idle-closed connection within 6 s + 1 s per refused redial
// (bound: 20 s + 1.5 s per refused redial) and loses a healthy connection only after 10 s without a pong
// while it pings every 3 s. Fewer than 35 goroutine hand-overs and timers lie on either path, so scheduling
// delays of at most 200 ms each cannot use up the 7 s (14 s) of slack; anything slower is not judged.
func heavyStall(from, to time.Time) bool { return maxLag(from, to) > 200*time.Millisecond }

// ---------------------------------------------------------------------------------------------
// script

// F is the answer function of every scripted server.
func F(q []byte) []byte {
	h := sha256.Sum256(q)
	n := 8 + int(binary.LittleEndian.Uint16(h[:2]))%600
	out := make([]byte, 0, n+32)
	for ctr := byte(0); len(out) < n; ctr++ {
		b := sha256.Sum256(append(h[:], ctr))
		out = append(out, b[:]...)
	}
	return out[:n]
}

type qKind int

const (
	kNow         qKind = iota // answer at once
	kDelay                    // answer after delay (well inside the timeout)
	kReorder                  // answer after the next `after` queries on the same connection (or maxHold)
	kTwice                    // the same answer 2..6 times back to back, or twice `delay` apart
	kNever                    // no answer
	kUnknownOnly              // an answer carrying an id nobody asked with, no real answer
	kLate                     // answer after the deadline has passed
	kEdge                     // answer written at the call's own deadline + edgeUS microseconds (see edge_auth_test.go)
)

var kindNames = [...]string{"now", "delay", "reorder", "twice", "never", "unknown-id", "late", "deadline-edge"}

type noiseKind int

const (
	nPong noiseKind = iota
	nUnknownMagic
	nTiny          // payload shorter than a constructor id
	nShortAnswer   // answer constructor with less than id+length
	nUnknownAnswer // complete answer for an id nobody asked with
	nAuthNonce     // tcp.authentificationNonce sent to a client that did not ask for authentication
	nNoiseKinds
)

var noiseNames = [...]string{"pong", "unknown-constructor", "tiny", "short-answer", "unknown-id-answer", "auth-nonce"}

type callScript struct {
	kind  qKind
	delay time.Duration
	after int
	noise []noiseKind
	size  int // filler bytes after the 12-byte header
	pre   int // caller perturbation before the call: 0 none, 1 Gosched, 2 sleep preUS
	preUS int
	// kEdge: the answer is written edgeUS microseconds after the moment the call's deadline expires
	// (negative: before); with scenario.adaptive only the caller's first edge call uses the scripted value
	edgeUS int
}

type closeFault struct {
	atQuery   int // the n-th query the server receives (over all connections) closes the connection it came on
	rst       bool
	burst     int // unrelated packets written immediately before the close
	burstKind noiseKind
	all       bool // every established connection of the client is closed, not only the one the query came on
}

type scenario struct {
	id        int
	keySeed   uint64
	workers   int
	timeout   time.Duration
	calls     [][]callScript // per caller
	closes    []closeFault
	idleClose int // 0 none, 1 one connection, 2 all connections (after the callers have finished)
	idleRST   bool
	redial    []adnlsrv.DialPlan // fate of the first redials after the initial connections
	// redialHold (held_test.go): parallel to redial when set; a non-nil entry turns that redial into a
	// handshake the server accepts and then holds (late confirmation, or silence followed by a close)
	redialHold []*holdPlan
	storm      bool // many callers that keep sending (mostly unanswered) queries around a burst + RST
	// auth: the client is created with an authentication key and the server serves queries only on
	// connections that completed the tcp.authentificate exchange (server nonce of nonceSize bytes)
	auth      bool
	nonceSize int
	// edge: the callers' answers are written at about the moment their deadline expires (kEdge);
	// adaptive: all callers (otherwise every second one) move their offset towards the point where answer
	// and deadline coincide inside the client
	edge     bool
	adaptive bool
}

func (sc *scenario) hasFault() bool { return len(sc.closes) > 0 || sc.idleClose != 0 }

func (sc *scenario) totalCalls() int {
	n := 0
	for _, c := range sc.calls {
		n += len(c)
	}
	return n
}

func (sc *scenario) kindCounts() map[qKind]int {
	m := map[qKind]int{}
	for _, c := range sc.calls {
		for _, q := range c {
			m[q.kind]++
		}
	}
	return m
}

func (sc *scenario) String() string {
	var sb strings.Builder
	if sc.storm {
		sb.WriteString("storm ")
	}
	if sc.edge {
		fmt.Fprintf(&sb, "deadline-edge (all callers adaptive=%v) ", sc.adaptive)
	}
	if sc.auth {
		fmt.Fprintf(&sb, "authenticated (server nonce %d bytes) ", sc.nonceSize)
	}
	fmt.Fprintf(&sb, "scenario %d: key seed %#x, %d connection(s), timeout %v, %d callers x %d calls; answers:", sc.id, sc.keySeed, sc.workers, sc.timeout, len(sc.calls), len(sc.calls[0]))
	kc := sc.kindCounts()
	for k, name := range kindNames {
		if kc[qKind(k)] > 0 {
			fmt.Fprintf(&sb, " %s=%d", name, kc[qKind(k)])
		}
	}
	for _, f := range sc.closes {
		fmt.Fprintf(&sb, "; close(rst=%v) at query %d", f.rst, f.atQuery)
		if f.all {
			sb.WriteString(" of all connections")
		}
		if f.burst > 0 {
			fmt.Fprintf(&sb, " after a burst of %d %s packets", f.burst, noiseNames[f.burstKind])
		}
	}
	if sc.idleClose != 0 {
		fmt.Fprintf(&sb, "; idle close of %s (rst=%v)", [...]string{"", "one connection", "all connections"}[sc.idleClose], sc.idleRST)
	}
	for i, p := range sc.redial {
		if i < len(sc.redialHold) && sc.redialHold[i] != nil {
			fmt.Fprintf(&sb, "; redial->%v", sc.redialHold[i])
			continue
		}
		fmt.Fprintf(&sb, "; redial->%v", p.Kind)
	}
	return sb.String()
}

// expandCaller derives the script of one caller from one drawn word.
func expandCaller(seed uint64, n int, timeout time.Duration, storm bool) []callScript {
	r := core.NewSplitMix(seed)
	out := make([]callScript, n)
	blocking := 0
	for i := range out {
		q := &out[i]
		if storm {
			// senders that are spread over time and mostly wait out their timeout
			if r.Intn(10) < 7 {
				q.kind = kNever
			}
			q.pre, q.preUS = 2, r.Intn(3000)
			q.size = r.Intn(40)
			continue
		}
		switch w := r.Intn(22); {
		case w < 10:
			q.kind = kNow
		case w < 13:
			q.kind = kDelay
			q.delay = time.Duration(1+r.Intn(int(timeout/4/time.Millisecond))) * time.Millisecond
			if q.delay > 400*time.Millisecond {
				q.delay = 400 * time.Millisecond
			}
		case w < 16:
			q.kind = kReorder
			q.after = 1 + r.Intn(5)
		case w < 19:
			q.kind = kTwice
			if r.Intn(3) == 0 {
				q.delay = time.Duration(1+r.Intn(20)) * time.Millisecond
			} else {
				q.after = 2 + r.Intn(5) // copies
			}
		case w < 20:
			q.kind = kNever
		case w < 21:
			q.kind = kUnknownOnly
		default:
			q.kind = kLate
			q.delay = timeout + 300*time.Millisecond
		}
		if q.kind >= kNever {
			if blocking >= 2 { // every unanswered call costs a full timeout of wall time
				q.kind, q.delay = kNow, 0
			} else {
				blocking++
			}
		}
		if r.Intn(4) == 0 {
			for k := 1 + r.Intn(3); k > 0; k-- {
				nk := noiseKind(r.Intn(int(nNoiseKinds)))
				if nk == nAuthNonce && r.Intn(4) != 0 {
					nk = nPong
				}
				q.noise = append(q.noise, nk)
			}
		}
		switch s := r.Intn(50); {
		case s == 0:
			q.size = 70000
		case s < 6:
			q.size = 242 + r.Intn(2000) // around the 254-byte form switch of TL byte strings
		default:
			q.size = r.Intn(40)
		}
		switch p := r.Intn(6); {
		case p >= 5:
			q.pre, q.preUS = 2, 10+r.Intn(500)
		case p >= 3:
			q.pre = 1
		}
	}
	return out
}

const headerSize = 12

func queryPayload(scn, caller, call, size int) []byte {
	b := make([]byte, headerSize+size)
	copy(b, "C12q")
	binary.LittleEndian.PutUint16(b[4:], uint16(scn))
	binary.LittleEndian.PutUint16(b[6:], uint16(caller))
	binary.LittleEndian.PutUint32(b[8:], uint32(call))
	core.NewSplitMix(uint64(scn)<<40 | uint64(caller)<<24 | uint64(call)).Fill(b[headerSize:])
	return b
}

const (
	freshCaller = 0xffff // calls issued by the harness itself (recovery probes, growth phase)
	pollCaller  = 0xfffe // calls issued by the harness after phase A with a script of their own (srvState.extra)
)

func drawStorm(c *core.Ctx, id int) *scenario {
	sc := &scenario{id: id, keySeed: c.U64("keyseed"), storm: true, workers: c.Range("connections", 1, 2), timeout: 300 * time.Millisecond}
	callers := c.Range("callers", 32, 64)
	per := c.Range("calls", 8, 12)
	for i := 0; i < callers; i++ {
		sc.calls = append(sc.calls, expandCaller(c.U64("caller.seed"), per, sc.timeout, true))
	}
	f := closeFault{atQuery: c.Range("close.at", callers, callers*per/2), rst: true, burst: c.Range("burst", 300, 3000)}
	f.burstKind = noiseKind(c.Choose("burst.kind", int(nNoiseKinds)))
	if core.NewSplitMix(c.U64("burst.auth")).Intn(3) != 0 {
		f.burstKind = nAuthNonce
	}
	sc.closes = []closeFault{f}
	if c.Bool("redial") {
		sc.redial = []adnlsrv.DialPlan{{Kind: adnlsrv.DialReset}}
	}
	return sc
}

func drawScenario(c *core.Ctx, id int, withFault bool) *scenario {
	sc := &scenario{id: id, keySeed: c.U64("keyseed")}
	sc.workers = c.Range("connections", 1, 4)
	sc.timeout = time.Duration(c.OneOf("timeout.ms", 300, 500, 1000, 2000)) * time.Millisecond
	callers := c.Range("callers", 8, 64)
	if core.NewSplitMix(c.U64("callers.few")).Intn(4) == 0 {
		callers = c.Range("callers.small", 1, 7)
	}
	per := c.Range("calls", 1, 20)
	if callers*per > 600 {
		per = 600 / callers
	}
	for i := 0; i < callers; i++ {
		sc.calls = append(sc.calls, expandCaller(c.U64("caller.seed"), per, sc.timeout, false))
	}
	if withFault {
		total := callers * per
		for i, n := 0, c.Range("closes", 0, 2); i < n; i++ {
			f := closeFault{atQuery: c.Range("close.at", 1, total), rst: c.Bool("close.rst")}
			if core.NewSplitMix(c.U64("close.burst")).Intn(3) == 0 {
				f.burst = c.Range("burst", 1, 2000)
				f.burstKind = noiseKind(c.Choose("burst.kind", int(nNoiseKinds)))
			}
			sc.closes = append(sc.closes, f)
		}
		sc.idleClose = c.Intn("idleclose", 3)
		if len(sc.closes) == 0 && sc.idleClose == 0 {
			sc.idleClose = 1
		}
		sc.idleRST = c.Bool("idle.rst")
		for i, n := 0, c.Range("redials", 0, 3); i < n; i++ {
			p := adnlsrv.DialPlan{Kind: []adnlsrv.DialKind{adnlsrv.DialReset, adnlsrv.DialCloseNow, adnlsrv.DialCloseAfterHello, adnlsrv.DialPartialConfirm}[c.Choose("redial.kind", 4)]}
			if p.Kind == adnlsrv.DialPartialConfirm {
				p.Partial = c.Range("redial.partial", 0, 67)
			}
			sc.redial = append(sc.redial, p)
		}
	}
	drawAuth(c, sc, 4)
	return sc
}

// ---------------------------------------------------------------------------------------------
// scripted server

type qRecord struct {
	conn     *adnlsrv.Conn
	recvAt   time.Time
	sentAt   time.Time // first successful write of the real answer
	writeErr error
	seq      int // arrival number over the whole server
}

type heldAnswer struct {
	remaining int
	fired     bool
	fire      func()
}

type srvState struct {
	sc  *scenario
	srv *adnlsrv.Server

	mu       sync.Mutex
	records  map[string]*qRecord // by payload header
	arrivals int
	closes   []closeFault
	redial   []adnlsrv.DialPlan
	held     map[*adnlsrv.Conn][]*heldAnswer
	ended    map[*adnlsrv.Conn]time.Time // read loop of the connection ended (either side closed)
	scripted map[*adnlsrv.Conn]bool      // connections the script itself closed or reset
	extra    map[string]callScript       // scripts of calls the harness issues after phase A, by payload header
	faultAt  []time.Time                 // moments the script disturbed a connection or a dial
	unknown  int
	auths    map[*adnlsrv.Conn]*authState // sc.auth: state of the authentication exchange per connection
	authPub  ed25519.PublicKey            // sc.auth: the key the client must prove
	edge     []edgeSlot                   // per caller: start and offset of its current kEdge call
	pending  atomic.Int64                 // timers not yet fired
	answered atomic.Int64
	// held handshakes (held_test.go)
	redialHold  []*holdPlan      // parallel to redial while it has entries
	holds       map[int]*holdRun // by dial number
	nonceHolds  map[int]*holdRun // by dial number: second stage, the authentication nonce is withheld
	completed   atomic.Int64     // calls of phase A that have returned
	callersDone chan struct{}    // closed when all callers of phase A have returned
}

func (st *srvState) noteFault() {
	st.faultAt = append(st.faultAt, time.Now())
}

func (st *srvState) lastFault() (time.Time, int) {
	st.mu.Lock()
	defer st.mu.Unlock()
	if len(st.faultAt) == 0 {
		return time.Time{}, 0
	}
	return st.faultAt[len(st.faultAt)-1], len(st.faultAt)
}

func (st *srvState) later(d time.Duration, f func()) {
	st.pending.Add(1)
	time.AfterFunc(d, func() {
		defer st.pending.Add(-1)
		f()
	})
}

func (st *srvState) fabricatedID() [32]byte {
	st.mu.Lock()
	st.unknown++
	n := st.unknown
	st.mu.Unlock()
	return sha256.Sum256([]byte(fmt.Sprintf("nobody asked with this id %d/%d", st.sc.id, n)))
}

func (st *srvState) noisePacket(k noiseKind, body []byte, pending *[32]byte) []byte {
	if st.sc.auth && k == nAuthNonce {
		// an authenticating client is waiting for exactly one nonce per connection; a second, unsolicited
		// one is a different protocol conversation from the one this property is about
		k = nPong
	}
	switch k {
	case nPong:
		return adnlsrv.Pong(binary.LittleEndian.Uint64(st.fabricatedIDBytes()))
	case nUnknownMagic:
		p := make([]byte, 4+len(body)%90)
		binary.LittleEndian.PutUint32(p, 0xdeadbeef)
		return p
	case nTiny:
		return make([]byte, len(body)%4)
	case nShortAnswer:
		p := make([]byte, 4+len(body)%33) // 4..36 bytes: never a complete id + length
		binary.LittleEndian.PutUint32(p, adnlsrv.MagicAnswer)
		return p
	case nUnknownAnswer:
		wrong := F(body)
		wrong[0] ^= 0xff
		id := st.fabricatedID()
		if pending != nil && id[0]&1 == 0 {
			// an id nobody asked with that differs from the pending one in a single bit (position taken
			// from the fabricated id): still an unknown id
			near := *pending
			near[int(id[1])%32] ^= 1 << (id[2] % 8)
			id = near
		}
		return adnlsrv.Answer(id, wrong)
	default:
		p := make([]byte, 4)
		binary.LittleEndian.PutUint32(p, adnlsrv.MagicAuthNonce)
		return append(p, adnlsrv.TLBytes(st.fabricatedIDBytes())...)
	}
}

func (st *srvState) fabricatedIDBytes() []byte {
	id := st.fabricatedID()
	return id[:]
}

func (st *srvState) answer(cn *adnlsrv.Conn, rec *qRecord, id [32]byte, body []byte, copies int) {
	frames := make([][]byte, copies)
	for i := range frames {
		frames[i] = adnlsrv.Answer(id, F(body))
	}
	err := cn.WriteFrames(frames...)
	now := time.Now()
	st.mu.Lock()
	if err == nil && rec.sentAt.IsZero() {
		rec.sentAt = now
	} else if err != nil && rec.writeErr == nil {
		rec.writeErr = err
	}
	st.mu.Unlock()
	if err == nil {
		st.answered.Add(1)
	}
}

func (st *srvState) onQuery(cn *adnlsrv.Conn, id [32]byte, body []byte) {
	if len(body) < headerSize || string(body[:4]) != "C12q" {
		return
	}
	caller := int(binary.LittleEndian.Uint16(body[6:]))
	call := int(binary.LittleEndian.Uint32(body[8:]))
	rec := &qRecord{conn: cn, recvAt: time.Now()}
	st.mu.Lock()
	st.arrivals++
	rec.seq = st.arrivals
	st.records[string(body[:headerSize])] = rec
	extra, isExtra := st.extra[string(body[:headerSize])]
	var fault *closeFault
	if caller < pollCaller {
		for i := range st.closes {
			if st.closes[i].atQuery == rec.seq {
				fault = &st.closes[i]
			}
		}
	}
	if fault != nil {
		st.noteFault()
		st.scripted[cn] = true
	}
	// answers held back on this connection move one query closer to their release
	var release []*heldAnswer
	if fault == nil {
		for _, h := range st.held[cn] {
			if !h.fired {
				h.remaining--
				if h.remaining <= 0 {
					h.fired = true
					release = append(release, h)
				}
			}
		}
	}
	st.mu.Unlock()
	if fault != nil {
		end := func() {
			targets := []*adnlsrv.Conn{cn}
			if fault.all {
				targets = st.srv.Conns()
				st.mu.Lock()
				for _, t := range targets {
					st.scripted[t] = true
				}
				st.mu.Unlock()
			}
			for _, t := range targets {
				if fault.rst {
					t.Reset()
				} else {
					t.Close()
				}
			}
		}
		if fault.burst == 0 {
			end()
			return
		}
		// the burst is written while the connection keeps serving queries; the close follows it
		frames := make([][]byte, fault.burst)
		for i := range frames {
			frames[i] = st.noisePacket(fault.burstKind, body, &id)
		}
		st.pending.Add(1)
		go func() {
			defer st.pending.Add(-1)
			cn.WriteFrames(frames...)
			end()
		}()
		return
	}
	q := callScript{kind: kNow}
	if isExtra {
		q = extra
	} else if caller < len(st.sc.calls) && call < len(st.sc.calls[caller]) {
		q = st.sc.calls[caller][call]
	}
	for _, k := range q.noise {
		cn.WriteFrame(st.noisePacket(k, body, &id))
	}
	switch q.kind {
	case kNow:
		st.answer(cn, rec, id, body, 1)
	case kDelay, kLate:
		st.later(q.delay, func() { st.answer(cn, rec, id, body, 1) })
	case kEdge:
		st.later(time.Until(st.edgeTime(caller)), func() { st.answer(cn, rec, id, body, 1) })
	case kReorder:
		h := &heldAnswer{remaining: q.after, fire: func() { st.answer(cn, rec, id, body, 1) }}
		st.mu.Lock()
		st.held[cn] = append(st.held[cn], h)
		st.mu.Unlock()
		maxHold := st.sc.timeout / 3
		if maxHold > 300*time.Millisecond {
			maxHold = 300 * time.Millisecond
		}
		st.later(maxHold, func() {
			st.mu.Lock()
			fire := !h.fired
			h.fired = true
			st.mu.Unlock()
			if fire {
				h.fire()
			}
		})
	case kTwice:
		if q.delay == 0 {
			st.answer(cn, rec, id, body, q.after)
		} else {
			st.answer(cn, rec, id, body, 1)
			st.later(q.delay, func() { st.answer(cn, rec, id, body, 1) })
		}
	case kNever:
	case kUnknownOnly:
		cn.WriteFrame(st.noisePacket(nUnknownAnswer, body, &id))
	}
	for _, h := range release {
		h.fire()
	}
}

func startServer(sc *scenario) (*srvState, error) {
	st := &srvState{sc: sc, records: map[string]*qRecord{}, held: map[*adnlsrv.Conn][]*heldAnswer{}, ended: map[*adnlsrv.Conn]time.Time{},
		scripted: map[*adnlsrv.Conn]bool{}, extra: map[string]callScript{}, auths: map[*adnlsrv.Conn]*authState{},
		edge:   make([]edgeSlot, len(sc.calls)),
		closes: append([]closeFault{}, sc.closes...), redial: append([]adnlsrv.DialPlan{}, sc.redial...),
		redialHold: append([]*holdPlan{}, sc.redialHold...), holds: map[int]*holdRun{}, nonceHolds: map[int]*holdRun{}, callersDone: make(chan struct{})}
	if sc.auth {
		st.authPub = sc.authKey().Public().(ed25519.PublicKey)
	}
	b := make([]byte, ed25519.SeedSize)
	core.NewSplitMix(sc.keySeed).Fill(b)
	srv, err := adnlsrv.Listen(ed25519.NewKeyFromSeed(b), adnlsrv.Hooks{
		Dial: func(n int) adnlsrv.DialPlan {
			st.mu.Lock()
			defer st.mu.Unlock()
			if n > sc.workers && len(st.redial) > 0 {
				p := st.redial[0]
				st.redial = st.redial[1:]
				if len(st.redialHold) > 0 {
					if h := st.redialHold[0]; h != nil {
						st.holds[n] = &holdRun{plan: h}
						if h.then != nil {
							st.nonceHolds[n] = &holdRun{plan: h.then}
						}
						p = h.dialPlan()
					}
					st.redialHold = st.redialHold[1:]
				}
				st.noteFault()
				return p
			}
			return adnlsrv.DialPlan{Kind: adnlsrv.DialServe}
		},
		Handshake: func(cn *adnlsrv.Conn) { st.holdHandshake(cn) },
		Serve: func(cn *adnlsrv.Conn) {
			if st.holdThenClose(cn) {
				return
			}
			cn.Loop(func(f adnlsrv.Frame) bool {
				if sc.auth && st.onAuthFrame(cn, f.Payload) {
					return true
				}
				if id, body, ok := adnlsrv.ParseQuery(f.Payload); ok {
					if sc.auth && !st.authenticated(cn) {
						cn.Note("query on a connection that has not completed the authentication: ignored")
						return true
					}
					st.onQuery(cn, id, body)
				}
				return true
			})
			st.mu.Lock()
			st.ended[cn] = time.Now()
			st.mu.Unlock()
		},
	})
	st.srv = srv
	return st, err
}

// ---------------------------------------------------------------------------------------------
// scenario execution

type callRecord struct {
	caller, call int
	payload      []byte
	start, end   time.Time
	resp         []byte
	err          error
	edgeUS       int // kEdge: the offset that was used
}

type outcome struct {
	sc        *scenario
	st        *srvState
	cl        *liteclient.Client
	calls     []callRecord
	fresh     atomic.Int64
	violation string // set by the run itself (setup, deadlock, recovery)
	healthy   bool   // usable for the growth phase
	notes     []string
}

func (o *outcome) notef(format string, args ...any) {
	o.notes = append(o.notes, fmt.Sprintf(format, args...))
}

// liteclientStacks summarises the goroutines that are inside tongo/liteclient: identical stacks (after
// dropping arguments and pc offsets) are counted, blocked-looking ones come first.
func liteclientStacks() string {
	buf := make([]byte, 16<<20)
	buf = buf[:runtime.Stack(buf, true)]
	count := map[string]int{}
	var order []string
	for _, g := range strings.Split(string(buf), "\n\n") {
		if !strings.Contains(g, "tongo/liteclient") {
			continue
		}
		lines := strings.Split(g, "\n")
		state := lines[0]
		if i := strings.Index(state, "["); i >= 0 {
			state = strings.TrimSuffix(state[i:], ":")
			if j := strings.Index(state, ","); j >= 0 { // drop "N minutes"
				state = state[:j] + "]"
			}
		}
		var frames []string
		for i := 1; i+1 < len(lines) && len(frames) < 7; i += 2 {
			fn := lines[i]
			if strings.HasPrefix(fn, "created by ") {
				if j := strings.Index(fn, " in goroutine"); j >= 0 {
					fn = fn[:j]
				}
			} else if j := strings.LastIndex(fn, "("); j >= 0 {
				fn = fn[:j]
			}
			loc := strings.TrimSpace(lines[i+1])
			if j := strings.Index(loc, " +0x"); j >= 0 {
				loc = loc[:j]
			}
			if strings.HasPrefix(fn, "internal/poll.") || strings.HasPrefix(fn, "net.(") && !strings.Contains(fn, "conn).") {
				continue
			}
			frames = append(frames, "    "+fn+"  "+loc[strings.LastIndex(loc, "/")+1:])
		}
		key := state + "\n" + strings.Join(frames, "\n")
		if count[key] == 0 {
			order = append(order, key)
		}
		count[key]++
	}
	rank := func(k string) int {
		switch {
		case strings.HasPrefix(k, "[chan send"):
			return 0
		case strings.HasPrefix(k, "[sync.Mutex.Lock"), strings.HasPrefix(k, "[semacquire"):
			return 1
		case strings.HasPrefix(k, "[select"), strings.HasPrefix(k, "[chan receive"):
			return 3
		}
		return 2
	}
	sort.SliceStable(order, func(i, j int) bool { return rank(order[i]) < rank(order[j]) })
	var sb strings.Builder
	for _, k := range order {
		fmt.Fprintf(&sb, "  %d x %s\n", count[k], k)
	}
	return sb.String()
}

func (o *outcome) freshCall() ([]byte, []byte, error) {
	n := int(o.fresh.Add(1))
	q := queryPayload(o.sc.id, freshCaller, n, n%7)
	resp, err := o.cl.Request(context.Background(), q)
	return q, resp, err
}

// liveConns returns the established connections that the server side has not closed.
func (st *srvState) liveConns() []*adnlsrv.Conn {
	var out []*adnlsrv.Conn
	for _, cn := range st.srv.Conns() {
		if closed, _ := cn.Closed(); !closed && !st.heldSilent(cn) && (!st.sc.auth || st.authenticated(cn)) {
			out = append(out, cn)
		}
	}
	sort.Slice(out, func(i, j int) bool { return out[i].Dial < out[j].Dial })
	return out
}

const (
	closeOldest = iota // the connection with the lowest dial number
	closeNewest        // the most recently established connection
	closeAll
)

var closeNames = [...]string{"the oldest connection", "the newest connection", "all connections"}

// closeIdle lets the server close (FIN or RST) connections while no call is in progress.
func (o *outcome) closeIdle(which int, rst bool) {
	st := o.st
	conns := st.liveConns()
	if len(conns) > 1 {
		switch which {
		case closeOldest:
			conns = conns[:1]
		case closeNewest:
			conns = conns[len(conns)-1:]
		}
	}
	st.mu.Lock()
	st.noteFault()
	for _, cn := range conns {
		st.scripted[cn] = true
	}
	st.mu.Unlock()
	var dials []string
	for _, cn := range conns {
		if rst {
			cn.Reset()
		} else {
			cn.Close()
		}
		dials = append(dials, fmt.Sprint(cn.Dial))
	}
	o.notef("closed %d idle connection(s) (dial %s, rst=%v)", len(conns), strings.Join(dials, ","), rst)
}

// awaitRecovery: after the last scripted fault the client must come back by itself (no call is made while
// waiting), then calls must succeed again. false: a violation was recorded in o.violation, or the verdict
// is suspended because the process was stalled.
func (o *outcome) awaitRecovery(redialFaults int, suspended func(from, to time.Time) bool) bool {
	sc, st := o.sc, o.st
	lf, _ := st.lastFault()
	from := time.Now()
	if lf.After(from) {
		from = lf
	}
	// ping period 3 s: the second ping after a close fails and starts the redial; 1 s per refused redial
	bound := 20*time.Second + time.Duration(redialFaults)*1500*time.Millisecond
	var up time.Time
	for {
		if len(st.liveConns()) >= sc.workers {
			up = time.Now()
			break
		}
		if time.Since(from) > bound {
			break
		}
		time.Sleep(20 * time.Millisecond)
	}
	if up.IsZero() {
		if !suspended(from, time.Now()) {
			o.violation = fmt.Sprintf("NO RECONNECT: %v after the last connection fault the server still has %d of %d connections (IsOK=%v, scheduling delay in that time at most %v); goroutines inside liteclient (whole process):\n%s", bound, len(st.liveConns()), sc.workers, o.cl.IsOK(), maxLag(from, time.Now()), liteclientStacks())
		} else {
			o.notef("no reconnect within %v, not judged: the process was stalled (scheduling delay up to %v)", bound, maxLag(from, time.Now()))
		}
		return false
	}
	o.notef("all %d connections re-established %v after the last fault", sc.workers, up.Sub(from).Round(time.Millisecond))
	// later calls succeed: one success per connection in a row, shortly after the links are up again
	streak, attempts := 0, 0
	graceEnd := time.Now().Add(5*time.Second + 3*sc.timeout)
	var lastErr error
	for streak < sc.workers && time.Now().Before(graceEnd) {
		q, resp, err := o.freshCall()
		attempts++
		if err == nil && !bytes.Equal(resp, F(q)) {
			o.violation = fmt.Sprintf("MISROUTED: fresh call after the reconnect got %d bytes that are not F(its query)", len(resp))
			return false
		}
		if err != nil {
			streak, lastErr = 0, err
			time.Sleep(50 * time.Millisecond)
			continue
		}
		streak++
	}
	if streak < sc.workers {
		if !stalled(up, time.Now()) {
			o.violation = fmt.Sprintf("CALLS FAIL AFTER RECONNECT: all connections are up again since %v, but %d fresh calls did not produce %d successes in a row (last error: %v, IsOK=%v)", time.Since(up).Round(time.Millisecond), attempts, sc.workers, lastErr, o.cl.IsOK())
		}
		return false
	}
	if !o.cl.IsOK() {
		o.violation = "IsOK() is false although all connections are up and calls succeed"
		return false
	}
	o.notef("%d fresh calls until %d successes in a row", attempts, sc.workers)
	return true
}

// longPoll: on the idle client one call per drawn delay is issued (all at once: the round-robin choice then
// puts at least one on every connection when there are as many calls as connections); the server withholds
// each answer for its delay (longer than the client's 10 s silence limit, far shorter than the deadline),
// answers every ping and closes nothing meanwhile. Returns a violation or "".
func (o *outcome) longPoll(c *core.Ctx, step int, delays []time.Duration, sizes []int) string {
	sc, st := o.sc, o.st
	recs := make([]callRecord, len(delays))
	st.mu.Lock()
	for i := range recs {
		r := &recs[i]
		r.caller, r.call = pollCaller, step*64+i
		r.payload = queryPayload(sc.id, pollCaller, r.call, sizes[i])
		st.extra[string(r.payload[:headerSize])] = callScript{kind: kDelay, delay: delays[i]}
	}
	st.mu.Unlock()
	var wg sync.WaitGroup
	for i := range recs {
		wg.Add(1)
		go func(r *callRecord) {
			defer wg.Done()
			r.start = time.Now()
			r.resp, r.err = o.cl.Request(context.Background(), r.payload)
			r.end = time.Now()
		}(&recs[i])
	}
	done := make(chan struct{})
	go func() { wg.Wait(); close(done) }()
	limit := 2*sc.timeout + 15*time.Second
	select {
	case <-done:
	case <-time.After(limit):
		return fmt.Sprintf("DEADLOCK: the long-poll calls had not all returned %v after they were started (every call is bounded by the %v timeout); goroutines inside liteclient (whole process):\n%s", limit, sc.timeout, liteclientStacks())
	}
	totalCalls.Add(int64(len(recs)))
	st.mu.Lock()
	defer st.mu.Unlock()
	for i := range recs {
		r := &recs[i]
		rec := st.records[string(r.payload[:headerSize])]
		desc := fmt.Sprintf("long-poll call %d of step %d (answer withheld %v, deadline %v, started %v, returned after %v)", i, step, delays[i], sc.timeout,
			r.start.Format("15:04:05.000"), r.end.Sub(r.start).Round(time.Millisecond))
		var endedAt time.Time
		gaveUp := false // the connection ended before the call did and the script had not touched it
		if rec == nil {
			desc += "; the server never received this query"
		} else {
			desc += fmt.Sprintf("; server: arrival on connection %d at +%v", rec.conn.Dial, rec.recvAt.Sub(r.start).Round(time.Microsecond))
			if rec.sentAt.IsZero() {
				desc += ", answer not sent"
			} else {
				desc += fmt.Sprintf(", answer written at +%v", rec.sentAt.Sub(r.start).Round(time.Millisecond))
			}
			if rec.writeErr != nil {
				desc += fmt.Sprintf(", write error %v", rec.writeErr)
			}
			if t, ok := st.ended[rec.conn]; ok {
				endedAt = t
				desc += fmt.Sprintf(", connection ended at +%v", t.Sub(r.start).Round(time.Millisecond))
				gaveUp = !t.After(r.end) && !st.scripted[rec.conn]
			}
		}
		if r.err == nil {
			if !bytes.Equal(r.resp, F(r.payload)) {
				return fmt.Sprintf("MISROUTED: %s returned %d bytes that are not F(its query)", desc, len(r.resp))
			}
			o.notef("%s: own answer", desc)
			continue
		}
		c.Class("call returned an error")
		if heavyStall(r.start, r.end) {
			c.Class("excused by a process stall")
			o.notef("%s failed with %q; not judged: the process was stalled (scheduling delay up to %v)", desc, r.err, maxLag(r.start, r.end))
			continue
		}
		desc += fmt.Sprintf("; scheduling delay during the call at most %v", maxLag(r.start, r.end))
		if r.end.Sub(r.start) > sc.timeout+time.Second {
			if stalled(r.start, r.end) {
				c.Class("excused by a process stall")
				continue
			}
			return fmt.Sprintf("LATE RETURN: %s returned its error (%v) more than 1 s after the deadline", desc, r.err)
		}
		if !liteclient.IsClientError(r.err) {
			return fmt.Sprintf("%s failed with an error that is not a liteclient client error: %T %v", desc, r.err, r.err)
		}
		if rec == nil {
			return fmt.Sprintf("LOST QUERY: %s failed with %q; every connection was up (and had just carried a call) when the call was made and the server disturbed nothing since", desc, r.err)
		}
		if gaveUp {
			// since this connection was established the server closed nothing, refused nothing and answered every
			// ping on it: the client gave the connection up by itself and lost the answer that was owed on it
			return fmt.Sprintf("ANSWER LOST: %s failed with %q: the client dropped a connection that the server had not disturbed since it was established and on which every ping was answered", desc, r.err)
		}
		inTime := !rec.sentAt.IsZero() && sc.timeout-rec.sentAt.Sub(r.start) >= 200*time.Millisecond+20*maxLag(r.start, r.end)
		if inTime && endedAt.IsZero() {
			return fmt.Sprintf("ANSWER LOST: %s failed with %q although the server wrote the answer well before the deadline (scheduling delay during the call at most %v) on a connection that stayed up", desc, r.err, maxLag(r.start, r.end))
		}
		c.Class("long-poll failure not judged (answer not written in time by the harness)")
		o.notef("%s failed with %q; not judged", desc, r.err)
	}
	return ""
}

func runScenario(sc *scenario) *outcome {
	o := &outcome{sc: sc}
	st, err := startServer(sc)
	if err != nil {
		o.violation = "INFRA: " + err.Error()
		return o
	}
	o.st = st
	ctx, cancel := context.WithTimeout(context.Background(), 30*time.Second)
	var conn *liteclient.Connection
	if sc.auth {
		conn, err = liteclient.NewConnection(ctx, []byte(st.srv.PublicKey()), st.srv.Addr(), sc.authKey())
	} else {
		conn, err = liteclient.NewConnection(ctx, []byte(st.srv.PublicKey()), st.srv.Addr())
	}
	cancel()
	if err != nil {
		o.violation = fmt.Sprintf("NewConnection against a conforming server: %v", err)
		return o
	}
	o.cl = liteclient.NewClient(conn, liteclient.OptionTimeout(sc.timeout), liteclient.OptionWorkersPerConnection(sc.workers))
	if n := len(st.srv.Conns()); n != sc.workers {
		// the extra connections are dialled inside NewClient; give the server a moment to register them
		deadline := time.Now().Add(10 * time.Second)
		for n != sc.workers && time.Now().Before(deadline) {
			time.Sleep(time.Millisecond)
			n = len(st.srv.Conns())
		}
		if n != sc.workers {
			o.violation = fmt.Sprintf("NewClient with %d workers per connection established %d connections with a conforming server", sc.workers, n)
			return o
		}
	}

	// phase A: the callers
	total := sc.totalCalls()
	o.calls = make([]callRecord, total)
	var wg sync.WaitGroup
	start := make(chan struct{})
	idx := 0
	var budget time.Duration
	for ci, script := range sc.calls {
		var mine time.Duration
		for _, q := range script {
			switch {
			case q.kind >= kNever:
				mine += sc.timeout
			default:
				mine += q.delay + sc.timeout/3
			}
			if q.pre == 2 {
				mine += time.Duration(q.preUS) * time.Microsecond
			}
		}
		if mine > budget {
			budget = mine
		}
		wg.Add(1)
		go func(ci int, script []callScript, recs []callRecord) {
			defer wg.Done()
			<-start
			var ec edgeCaller
			for k, q := range script {
				switch q.pre {
				case 1:
					runtime.Gosched()
				case 2:
					time.Sleep(time.Duration(q.preUS) * time.Microsecond)
				}
				r := &recs[k]
				r.caller, r.call = ci, k
				r.payload = queryPayload(sc.id, ci, k, q.size)
				if q.kind == kEdge {
					r.edgeUS = ec.next(sc, ci, q)
					st.edge[ci].off.Store(int64(r.edgeUS))
				}
				r.start = time.Now()
				st.edge[ci].start.Store(int64(r.start.Sub(baseT)))
				// every second caller brings a context with a deadline of its own, far later than the client's
				// per-request timeout: the call is still bounded by the client timeout
				ctx, cancel := context.Background(), context.CancelFunc(func() {})
				if ci%2 == 1 {
					ctx, cancel = context.WithTimeout(context.Background(), sc.timeout+45*time.Second)
				}
				r.resp, r.err = o.cl.Request(ctx, r.payload)
				cancel()
				r.end = time.Now()
				st.completed.Add(1)
				if q.kind == kEdge {
					ec.done(r.err == nil)
				}
			}
		}(ci, script, o.calls[idx:idx+len(script)])
		idx += len(script)
	}
	t0 := time.Now()
	close(start)
	done := make(chan struct{})
	go func() { wg.Wait(); close(st.callersDone); close(done) }()
	limit := 2*budget + 2*sc.timeout + 15*time.Second
	select {
	case <-done:
	case <-time.After(limit):
		o.violation = fmt.Sprintf("DEADLOCK: the callers of the scenario had not all returned %v after they were started (every call is bounded by the %v timeout); goroutines inside liteclient (whole process):\n%s", limit, sc.timeout, liteclientStacks())
		return o
	}
	o.notef("callers finished after %v", time.Since(t0).Round(time.Millisecond))

	// connection faults while idle
	if sc.idleClose != 0 {
		which := closeAll
		if sc.idleClose == 1 {
			which = closeOldest
		}
		o.closeIdle(which, sc.idleRST)
	}

	// recovery: the client must come back by itself
	if _, nf := st.lastFault(); nf > 0 {
		if !o.awaitRecovery(len(sc.redial), stalled) {
			return o
		}
	}

	// let delayed answers drain so that the next phase sees a quiet process
	for deadline := time.Now().Add(sc.timeout + 3*time.Second); st.pending.Load() > 0 && time.Now().Before(deadline); {
		time.Sleep(5 * time.Millisecond)
	}
	o.healthy = true
	return o
}

// witnesses returns the largest number of calls that one caller other than except began at or after from
// and finished by to, counting a call only when it began at least 50 ms after the previously counted one
// (o.calls holds each caller's calls in a row, in the order they were made).
func (o *outcome) witnesses(except int, from, to time.Time) int {
	best, cur, n := 0, -1, 0
	var last time.Time
	for i := range o.calls {
		w := &o.calls[i]
		if w.caller != cur {
			cur, n, last = w.caller, 0, time.Time{}
		}
		if w.caller == except || w.end.IsZero() || w.start.Before(from) || w.end.After(to) {
			continue
		}
		if n > 0 && w.start.Sub(last) < 50*time.Millisecond {
			continue
		}
		last = w.start
		if n++; n > best {
			best = n
		}
	}
	return best
}

// judge applies the history invariants to the calls of phase A.
func (o *outcome) judge(c *core.Ctx) string {
	if o.violation != "" {
		return o.violation
	}
	sc, st := o.sc, o.st
	st.mu.Lock()
	defer st.mu.Unlock()
	byAnswer := map[string]string{}
	for i := range o.calls {
		r := &o.calls[i]
		byAnswer[string(F(r.payload))] = fmt.Sprintf("caller %d call %d", r.caller, r.call)
	}
	firstFault := time.Time{}
	if len(st.faultAt) > 0 {
		firstFault = st.faultAt[0]
	}
	for i := range o.calls {
		r := &o.calls[i]
		q := sc.calls[r.caller][r.call]
		rec := st.records[string(r.payload[:headerSize])]
		desc := func() string {
			s := fmt.Sprintf("caller %d call %d (script %s, %d payload bytes, started %v, returned after %v)", r.caller, r.call, kindNames[q.kind], len(r.payload),
				r.start.Format("15:04:05.000"), r.end.Sub(r.start).Round(time.Microsecond))
			if q.kind == kEdge {
				s += fmt.Sprintf("; answer scheduled %d us after the deadline", r.edgeUS)
			}
			if rec == nil {
				return s + "; the server never received this query"
			}
			s += fmt.Sprintf("; server: arrival #%d on connection %d at +%v", rec.seq, rec.conn.Dial, rec.recvAt.Sub(r.start).Round(time.Microsecond))
			if rec.sentAt.IsZero() {
				s += ", answer not sent"
			} else {
				s += fmt.Sprintf(", answer written at +%v", rec.sentAt.Sub(r.start).Round(time.Microsecond))
			}
			if rec.writeErr != nil {
				s += fmt.Sprintf(", write error %v", rec.writeErr)
			}
			if t, ok := st.ended[rec.conn]; ok {
				s += fmt.Sprintf(", connection ended at +%v", t.Sub(r.start).Round(time.Microsecond))
			}
			return s
		}
		// Every call comes back by its deadline, with its answer or with an error. A return crosses a
		// handful of goroutine hand-overs, hence the second of slack. A process that was visibly not keeping
		// up excuses a late return only as far as the observed scheduling delay can explain it (twenty times
		// the largest delay on top of the second of slack), and not at all when another caller of the same
		// client went through ten calls of its own, begun at least 50 ms apart, between this call's
		// deadline + 1 s and its return: the scheduler served that goroutine ten times over at least 450 ms
		// while this one was overdue. "" = in time; "-" = late, excused.
		dur := r.end.Sub(r.start)
		late := func(what string) string {
			if dur <= sc.timeout+time.Second {
				return ""
			}
			lag := maxLag(r.start, r.end)
			wit := o.witnesses(r.caller, r.start.Add(sc.timeout+time.Second), r.end)
			switch {
			case lag <= 50*time.Millisecond:
				return fmt.Sprintf("LATE RETURN: %s returned %s more than 1 s after the %v deadline", desc(), what, sc.timeout)
			case dur-sc.timeout > time.Second+20*lag:
				return fmt.Sprintf("LATE RETURN: %s returned %s %v after the %v deadline; the largest scheduling delay during the call was %v", desc(), what, (dur - sc.timeout).Round(time.Millisecond), sc.timeout, lag)
			case wit >= 10:
				return fmt.Sprintf("LATE RETURN: %s returned %s %v after the %v deadline, while another caller of the same client completed %d calls (begun at least 50 ms apart) between this call's deadline + 1 s and its return (largest scheduling delay during the call %v)", desc(), what, (dur - sc.timeout).Round(time.Millisecond), sc.timeout, wit, lag)
			}
			c.Class("excused by a process stall")
			return "-"
		}
		if r.err == nil {
			if !bytes.Equal(r.resp, F(r.payload)) {
				whose := byAnswer[string(r.resp)]
				if whose == "" {
					whose = "nobody's query"
				}
				return fmt.Sprintf("MISROUTED: %s returned %d bytes that are not F(its query) but the answer to %s", desc(), len(r.resp), whose)
			}
			if q.kind == kNever || q.kind == kUnknownOnly {
				return fmt.Sprintf("PHANTOM ANSWER: %s returned F(its query) although the server never sent it", desc())
			}
			if v := late("its answer"); v != "" && v != "-" {
				return v
			}
			continue
		}
		c.Class("call returned an error")
		if v := late(fmt.Sprintf("its error (%v)", r.err)); v == "-" {
			continue
		} else if v != "" {
			return v
		}
		if !liteclient.IsClientError(r.err) {
			return fmt.Sprintf("%s failed with an error that is not a liteclient client error: %T %v", desc(), r.err, r.err)
		}
		disturbed := !firstFault.IsZero() && !firstFault.After(r.end)
		if rec == nil {
			if disturbed {
				c.Class("error while a connection was down")
				continue
			}
			if stalled(r.start, r.end) {
				c.Class("excused by a process stall")
				continue
			}
			return fmt.Sprintf("LOST QUERY: %s failed with %q; no connection had been disturbed", desc(), r.err)
		}
		if t, ok := st.ended[rec.conn]; ok && !t.After(r.end) && !sc.hasFault() && !heavyStall(r.start, r.end) {
			// the server closed nothing, refused nothing and answered every ping; whatever it still owed on
			// this connection could not be delivered because the client gave the connection up by itself
			return fmt.Sprintf("ANSWER LOST: %s failed with %q: the client dropped a connection that the server never disturbed and on which every ping was answered", desc(), r.err)
		}
		// "in time" = the client had the answer on its socket with ample time left before the deadline:
		// 200 ms plus twenty times the scheduling delay the process showed during the call (an answer
		// crosses about eight goroutine hand-overs inside the client)
		inTime := !rec.sentAt.IsZero() && sc.timeout-rec.sentAt.Sub(r.start) >= 200*time.Millisecond+20*maxLag(r.start, r.end)
		if !inTime {
			if !strings.Contains(r.err.Error(), "timeout") && !disturbed {
				return fmt.Sprintf("%s: the answer was withheld, the call failed with %q instead of a timeout error", desc(), r.err)
			}
			c.Class("timeout of a withheld or late answer")
			continue
		}
		if t, ok := st.ended[rec.conn]; ok && !t.After(r.end) {
			if !sc.hasFault() && !heavyStall(r.start, r.end) {
				// the server closed nothing, refused nothing and kept answering pings: the client gave up a
				// healthy connection by itself and lost the answer that was owed on it
				return fmt.Sprintf("ANSWER LOST: %s failed with %q; the server wrote the answer well before the deadline, never closed a connection and answered every ping, yet the client had dropped the connection by itself", desc(), r.err)
			}
			c.Class("error while a connection was down")
			continue
		}
		if stalled(r.start, r.end) {
			c.Class("excused by a process stall")
			continue
		}
		return fmt.Sprintf("ANSWER LOST: %s failed with %q although the server wrote the answer well before the deadline (scheduling delay during the call at most %v) on a connection that stayed up", desc(), r.err, maxLag(r.start, r.end))
	}
	return ""
}

// knownAuthNonceDeadlock: Connection.handleAuthResponse sends on the unbuffered authCompleteChan while
// holding the connection mutex. On a connection without an authentication key nobody ever receives from
// that channel, so an unsolicited tcp.authentificationNonce packet that the old reader goroutine handles
// while a reconnect is in progress (status Connecting) blocks that goroutine for ever with the mutex held:
// Send, Status/IsOK and the reconnect itself then block for ever.
const knownAuthNonceDeadlock = "C12-authnonce-deadlock"

func isAuthNonceDeadlock(v string) bool {
	if !strings.HasPrefix(v, "DEADLOCK") && !strings.HasPrefix(v, "NO RECONNECT") {
		return false
	}
	// a goroutine blocked in a channel send directly inside handleAuthResponse
	for _, g := range strings.Split(v, " x [") {
		if strings.HasPrefix(g, "chan send") {
			lines := strings.Split(g, "\n")
			if len(lines) > 1 && strings.Contains(lines[1], "liteclient.(*Connection).handleAuthResponse") {
				return true
			}
		}
	}
	return false
}

func settledGoroutines() int {
	prev := runtime.NumGoroutine()
	for i := 0; i < 60; i++ {
		time.Sleep(25 * time.Millisecond)
		n := runtime.NumGoroutine()
		if n == prev && i >= 2 {
			return n
		}
		prev = n
	}
	return prev
}

var totalScenarios, totalCalls atomic.Int64

var batchCheck = &core.Check{Name: "c12/batch", Quick: 6, Thorough: 190, Fn: func(c *core.Ctx) error {
	n := c.Range("scenarios", 4, 8)
	procs := c.OneOf("gomaxprocs", 4, 1, 2, 16)
	faultBatch := core.NewSplitMix(c.U64("faultbatch")).Intn(3) == 0
	scs := make([]*scenario, n)
	var key []string
	nontrivial := false
	for i := range scs {
		withFault := faultBatch && (i == 0 || c.Bool("fault"))
		var sc *scenario
		switch core.NewSplitMix(c.U64("storm")).Intn(8) {
		case 0:
			sc = drawStorm(c, i)
			c.Class("storm scenario")
		case 1:
			sc = drawEdge(c, i, false)
			c.Class("deadline-edge scenario")
		default:
			sc = drawScenario(c, i, withFault)
		}
		if sc.auth {
			c.Class("client with an authentication key")
			if sc.hasFault() {
				c.Class("client with an authentication key, connection fault")
			}
		}
		scs[i] = sc
		key = append(key, sc.String())
		kc := sc.kindCounts()
		for k, name := range kindNames {
			if kc[qKind(k)] > 0 {
				c.Class("answer " + name)
			}
		}
		if sc.hasFault() {
			c.Class("connection fault")
			for _, f := range sc.closes {
				c.Class("fault: close at n-th query")
				if f.burst > 0 {
					c.Class("fault: burst of " + noiseNames[f.burstKind] + " before the close")
				}
			}
			if sc.idleClose != 0 {
				c.Class("fault: close while idle")
			}
			for _, p := range sc.redial {
				c.Class("fault: redial " + p.Kind.String())
			}
		}
		if len(sc.calls) >= 8 {
			c.Class(">= 8 callers")
		}
		c.Class(fmt.Sprintf("%d connection(s)", sc.workers))
		if len(sc.calls) >= 8 && kc[kReorder]+kc[kTwice]+kc[kNever]+kc[kUnknownOnly]+kc[kLate]+kc[kEdge] > 0 || sc.hasFault() {
			nontrivial = true
		}
		if i < 4 {
			c.Note(fmt.Sprintf("scenario %d", i), sc.String())
		}
	}
	c.Note("gomaxprocs", procs)
	c.Class(fmt.Sprintf("GOMAXPROCS %d", procs))
	if nontrivial {
		c.NonTrivial(procs, strings.Join(key, "|"))
	}
	c.Checkpoint()

	racesBefore := len(raceReports())
	old := runtime.GOMAXPROCS(procs)
	defer runtime.GOMAXPROCS(old)
	outs := make([]*outcome, n)
	var wg sync.WaitGroup
	for i := range scs {
		wg.Add(1)
		go func(i int) {
			defer wg.Done()
			var o *outcome
			if err := core.Protect(func() error { o = runScenario(scs[i]); return nil }); err != nil {
				o = &outcome{sc: scs[i], violation: err.Error()}
			}
			outs[i] = o
		}(i)
	}
	wg.Wait()

	report := func(o *outcome, what string) error {
		var sb strings.Builder
		fmt.Fprintf(&sb, "%s\n  %v\n  GOMAXPROCS %d, %d scenarios in the batch", what, o.sc, procs, n)
		for _, s := range o.notes {
			fmt.Fprintf(&sb, "\n  note: %s", s)
		}
		if o.st != nil {
			ev := o.st.srv.Events()
			if len(ev) > 40 {
				ev = ev[len(ev)-40:]
			}
			for _, e := range ev {
				fmt.Fprintf(&sb, "\n  server %s dial %d: %s", e.At.Format("15:04:05.000"), e.Dial, e.What)
			}
		}
		return fmt.Errorf("%s", sb.String())
	}
	for _, o := range outs {
		totalScenarios.Add(1)
		totalCalls.Add(int64(len(o.calls)))
		if v := o.judge(c); v != "" {
			if isAuthNonceDeadlock(v) && c.Known(knownAuthNonceDeadlock) {
				continue
			}
			return report(o, v)
		}
	}

	// growth: further completed calls must not leave goroutines behind
	before := settledGoroutines()
	const further = 200
	var failed atomic.Int64
	var firstBad atomic.Pointer[string]
	for _, o := range outs {
		if !o.healthy {
			continue
		}
		wg.Add(1)
		go func(o *outcome) {
			defer wg.Done()
			var inner sync.WaitGroup
			for g := 0; g < 4; g++ {
				inner.Add(1)
				go func() {
					defer inner.Done()
					for k := 0; k < further/4; k++ {
						q, resp, err := o.freshCall()
						if err != nil {
							failed.Add(1)
							if !o.sc.hasFault() {
								s := fmt.Sprintf("LATER CALL FAILS: a call on the idle, undisturbed client failed: %v", err)
								firstBad.CompareAndSwap(nil, &s)
							}
						} else if !bytes.Equal(resp, F(q)) {
							s := "MISROUTED: a later call returned bytes that are not F(its query)"
							firstBad.CompareAndSwap(nil, &s)
						}
					}
				}()
			}
			inner.Wait()
		}(o)
	}
	tg := time.Now()
	wg.Wait()
	after := settledGoroutines()
	if s := firstBad.Load(); s != nil && !stalled(tg, time.Now()) {
		return report(outs[0], *s)
	}
	if after > before+4 {
		return report(outs[0], fmt.Sprintf("GOROUTINE GROWTH: %d goroutines before and %d after %d further completed calls per client; goroutines inside liteclient:\n%s", before, after, further, liteclientStacks()))
	}
	totalCalls.Add(int64(further * n))
	if r := raceReports(); len(r) > racesBefore {
		return report(outs[0], "DATA RACE reported by the race detector while this batch ran:\n"+r[racesBefore:])
	}
	return nil
}}

// c12/long-outage: after a server-side close the server stays unreachable for 12..16 redials (each redial
// is reset at once; the client retries about once per second), then serves again. The client must come
// back by itself and later calls must succeed. One scenario per case; real time dominates (20-40 s).
var outageCheck = &core.Check{Name: "c12/long-outage", Quick: 1, Thorough: 24, Fn: func(c *core.Ctx) error {
	sc := &scenario{id: 9000 + c.Intn("id", 1000), keySeed: c.U64("keyseed"), workers: c.Range("connections", 1, 2)}
	sc.timeout = time.Duration(c.OneOf("timeout.ms", 500, 1000)) * time.Millisecond
	callers := c.Range("callers", 2, 8)
	for i := 0; i < callers; i++ {
		sc.calls = append(sc.calls, expandCaller(c.U64("caller.seed"), 3, sc.timeout, false))
	}
	sc.closes = []closeFault{{atQuery: c.Range("close.at", 1, callers*3), rst: c.Bool("close.rst")}}
	// the client retries every connection about once per second and the redial plans are shared by all
	// connections of the client: 12..16 refusals per connection keep each of them out for 12..16 s
	for i, n := 0, sc.workers*c.Range("outage.redials", 12, 16); i < n; i++ {
		sc.redial = append(sc.redial, adnlsrv.DialPlan{Kind: adnlsrv.DialReset})
	}
	if drawAuth(c, sc, 2); sc.auth {
		c.Class("client with an authentication key")
	}
	c.Note("scenario", sc.String())
	c.NonTrivial(sc.String())
	c.Class(fmt.Sprintf("outage of %d refused redials", len(sc.redial)))
	c.Checkpoint()
	var o *outcome
	if err := core.Protect(func() error { o = runScenario(sc); return nil }); err != nil {
		return err
	}
	totalScenarios.Add(1)
	totalCalls.Add(int64(len(o.calls)))
	if v := o.judge(c); v != "" {
		if isAuthNonceDeadlock(v) && c.Known(knownAuthNonceDeadlock) {
			return nil
		}
		var sb strings.Builder
		fmt.Fprintf(&sb, "%s\n  %v", v, sc)
		for _, s := range o.notes {
			fmt.Fprintf(&sb, "\n  note: %s", s)
		}
		if o.st != nil {
			ev := o.st.srv.Events()
			if len(ev) > 40 {
				ev = ev[len(ev)-40:]
			}
			for _, e := range ev {
				fmt.Fprintf(&sb, "\n  server %s dial %d: %s", e.At.Format("15:04:05.000"), e.Dial, e.What)
			}
		}
		return fmt.Errorf("%s", sb.String())
	}
	return nil
}}

// c12/long-poll: on an otherwise idle client one or a few calls wait 10.5..14 s for their answers (the server
// answers every ping meanwhile and closes nothing); the deadline of the calls is 18..20 s. Each call must
// return its own answer. One scenario per case; real time dominates (11-15 s).
var longPollCheck = &core.Check{Name: "c12/long-poll", Quick: 1, Thorough: 24, Fn: func(c *core.Ctx) error {
	sc := &scenario{id: 8000 + c.Intn("id", 1000), keySeed: c.U64("keyseed"), workers: c.Range("connections", 1, 2)}
	sc.timeout = time.Duration(c.Range("timeout.s", 18, 20)) * time.Second
	callers := c.Range("callers", 1, 3)
	for i := 0; i < callers; i++ {
		var script []callScript
		if c.Bool("warmup") {
			script = append(script, callScript{kind: kNow, size: c.Intn("warmup.size", 40)})
		}
		script = append(script, callScript{kind: kDelay, delay: time.Duration(c.Range("delay.ms", 10500, 14000)) * time.Millisecond, size: c.Intn("size", 40)})
		sc.calls = append(sc.calls, script)
	}
	// scenario.String and the server index callers' scripts by position: equal lengths
	for i := range sc.calls {
		for len(sc.calls[i]) < 2 {
			sc.calls[i] = append([]callScript{{kind: kNow}}, sc.calls[i]...)
		}
	}
	c.Note("scenario", sc.String())
	c.NonTrivial(sc.String())
	c.Class("answer withheld longer than the client's 10 s silence limit while pings are answered")
	c.Checkpoint()
	var o *outcome
	if err := core.Protect(func() error { o = runScenario(sc); return nil }); err != nil {
		return err
	}
	totalScenarios.Add(1)
	totalCalls.Add(int64(len(o.calls)))
	if v := o.judge(c); v != "" {
		var sb strings.Builder
		fmt.Fprintf(&sb, "%s\n  %v", v, sc)
		for _, s := range o.notes {
			fmt.Fprintf(&sb, "\n  note: %s", s)
		}
		if o.st != nil {
			ev := o.st.srv.Events()
			if len(ev) > 40 {
				ev = ev[len(ev)-40:]
			}
			for _, e := range ev {
				fmt.Fprintf(&sb, "\n  server %s dial %d: %s", e.At.Format("15:04:05.000"), e.Dial, e.What)
			}
		}
		return fmt.Errorf("%s", sb.String())
	}
	return nil
}}

// c12/drop-sequence: what holds for the first connection must hold for every later one. One client (1..2
// connections, deadline 18..20 s) makes a few quickly answered calls; the server then closes idle connections
// and the self-recovery is verified as in c12/batch (no call is made until the server sees all connections
// again, then one fresh call per connection succeeds in a row, IsOK). Then 2..4 further steps, each either
//   - long-poll on the recovered client: one call per connection (or one more), answers withheld 10.5..13 s while
//     the server answers every ping and closes nothing: every call must return its own answer; or
//   - another idle close (FIN/RST) that includes the most recently re-established connection, optionally with
//     1..2 refused redials, followed by the same verified self-recovery.
//
// One scenario per case; real time dominates (about 6 s per drop, 11-13 s per long-poll).
var dropSeqCheck = &core.Check{Name: "c12/drop-sequence", Quick: 1, Thorough: 16, Fn: func(c *core.Ctx) error {
	sc := &scenario{id: 7000 + c.Intn("id", 1000), keySeed: c.U64("keyseed"), workers: c.Range("connections", 1, 2)}
	sc.timeout = time.Duration(c.Range("timeout.s", 18, 20)) * time.Second
	callers := c.Range("callers", 1, 3)
	per := c.Range("calls", 1, 2)
	for i := 0; i < callers; i++ {
		script := make([]callScript, per)
		for k := range script {
			script[k] = callScript{kind: kNow, size: c.Intn("size", 40)}
		}
		sc.calls = append(sc.calls, script)
	}
	sc.idleClose = 1 + c.Intn("first.close", 2) // the oldest connection / all connections
	sc.idleRST = c.Bool("first.rst")
	type step struct {
		poll   bool
		delays []time.Duration
		sizes  []int
		which  int
		rst    bool
		redial []adnlsrv.DialPlan
	}
	nsteps := c.Range("steps", 2, core.Scale(2, 4)) // one draw on either tier
	steps := make([]step, nsteps)
	var text []string
	for i := range steps {
		s := &steps[i]
		// never two long-polls in a row: a case stays below about a minute
		s.poll = c.Bool("step.poll") && (i == 0 || !steps[i-1].poll)
		if s.poll {
			var ds []string
			for k, n := 0, sc.workers+c.Intn("poll.extra", 2); k < n; k++ {
				s.delays = append(s.delays, time.Duration(c.URange("poll.delay.ms", 10500, 13000))*time.Millisecond)
				s.sizes = append(s.sizes, c.Intn("poll.size", 40))
				ds = append(ds, s.delays[k].String())
			}
			text = append(text, "long-poll "+strings.Join(ds, ","))
			c.Class("step: long-poll after a recovery")
			continue
		}
		s.which = closeNewest + c.Intn("close.which", 2) // the newest connection / all
		s.rst = c.Bool("close.rst")
		t := fmt.Sprintf("idle close of %s (rst=%v)", closeNames[s.which], s.rst)
		if core.NewSplitMix(c.U64("close.redial")).Intn(3) == 0 {
			for k, n := 0, c.Range("redials", 1, 2); k < n; k++ {
				p := adnlsrv.DialPlan{Kind: []adnlsrv.DialKind{adnlsrv.DialReset, adnlsrv.DialCloseNow, adnlsrv.DialCloseAfterHello}[c.Choose("redial.kind", 3)]}
				s.redial = append(s.redial, p)
				t += fmt.Sprintf(" redial->%v", p.Kind)
			}
			c.Class("step: idle close after a recovery, refused redials")
		}
		text = append(text, t)
		c.Class("step: idle close after a recovery")
	}
	if drawAuth(c, sc, 2); sc.auth {
		c.Class("client with an authentication key")
	}
	script := sc.String() + "; then " + strings.Join(text, "; then ")
	c.Note("scenario", script)
	c.NonTrivial(script)
	c.Class(fmt.Sprintf("%d connection(s)", sc.workers))
	c.Checkpoint()

	var o *outcome
	fail := func(v string) error {
		var sb strings.Builder
		fmt.Fprintf(&sb, "%s\n  %s", v, script)
		for _, s := range o.notes {
			fmt.Fprintf(&sb, "\n  note: %s", s)
		}
		if o.st != nil {
			ev := o.st.srv.Events()
			if len(ev) > 40 {
				ev = ev[len(ev)-40:]
			}
			for _, e := range ev {
				fmt.Fprintf(&sb, "\n  server %s dial %d: %s", e.At.Format("15:04:05.000"), e.Dial, e.What)
			}
		}
		return fmt.Errorf("%s", sb.String())
	}
	if err := core.Protect(func() error { o = runScenario(sc); return nil }); err != nil {
		return err
	}
	totalScenarios.Add(1)
	totalCalls.Add(int64(len(o.calls)))
	if v := o.judge(c); v != "" {
		return fail(v)
	}
	if !o.healthy {
		c.Class("first recovery not judged (process stalled)")
		return nil
	}
	for i, s := range steps {
		var v string
		err := core.Protect(func() error {
			if s.poll {
				v = o.longPoll(c, i+1, s.delays, s.sizes)
				return nil
			}
			o.st.mu.Lock()
			o.st.redial = append(o.st.redial, s.redial...)
			o.st.mu.Unlock()
			o.closeIdle(s.which, s.rst)
			if !o.awaitRecovery(len(s.redial), heavyStall) {
				v = o.violation
				if v == "" {
					v = "-"
				}
			}
			return nil
		})
		if err != nil {
			return err
		}
		if v == "-" {
			c.Class("later recovery not judged (process stalled)")
			c.Note("log", strings.Join(o.notes, " | "))
			return nil
		}
		if v != "" {
			return fail(fmt.Sprintf("step %d after the first recovery: %s", i+1, v))
		}
	}
	c.Note("log", strings.Join(o.notes, " | "))
	return nil
}}

func TestProp(t *testing.T) {
	t.Run("long-outage", func(t *testing.T) { core.Run(t, outageCheck) })
	t.Run("long-poll", func(t *testing.T) { core.Run(t, longPollCheck) })
	t.Run("drop-sequence", func(t *testing.T) { core.Run(t, dropSeqCheck) })
	t.Run("at-deadline", func(t *testing.T) { core.Run(t, edgeCheck) })
	t.Run("auth-reconnect", func(t *testing.T) { core.Run(t, authCheck) })
	t.Run("outage-steady", func(t *testing.T) { core.Run(t, steadyCheck) })
	t.Run("handshake-hold", func(t *testing.T) { core.Run(t, heldCheck) })
	t.Run("drop-goroutines", func(t *testing.T) { core.Run(t, dropGoroutinesCheck) })
	t.Run("batch", func(t *testing.T) {
		core.Run(t, batchCheck)
		core.Extra(batchCheck.Name, "scenarios", totalScenarios.Load())
		core.Extra(batchCheck.Name, "calls", totalCalls.Load())
		core.Extra(batchCheck.Name, "race detector", raceEnabled)
	})
}

func TestReplay(t *testing.T) {
	core.Replay(t, batchCheck, outageCheck, longPollCheck, dropSeqCheck, edgeCheck, authCheck, steadyCheck, heldCheck, dropGoroutinesCheck)
}
