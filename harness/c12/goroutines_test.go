// C12, goroutines over a sequence of connection drops.
//
// "The number of goroutines does not grow with the number of completed calls", for "all sequences of connection
// drops": a long-lived client that loses its connections again and again, with calls in between, must not keep
// one more goroutine per drop. The growth rule of c12/batch looks at further calls on healthy connections only;
// here the goroutines INSIDE tongo/liteclient are counted after the first drop/reconnect round and again after
// every later round: whatever the client needs per connection (reader, keep-alive, packet pump) it needs once
// per connection, not once per generation of that connection.
package c12

import (
	"bytes"
	"fmt"
	"runtime"
	"strings"
	"sync"
	"sync/atomic"
	"time"

	"verifharness/internal/adnlsrv"
	"verifharness/internal/core"
)

// liteclientGoroutines counts the goroutines of the process whose stack has a frame inside tongo/liteclient.
func liteclientGoroutines() int {
	buf := make([]byte, 1<<20)
	for {
		n := runtime.Stack(buf, true)
		if n < len(buf) {
			buf = buf[:n]
			break
		}
		buf = make([]byte, 2*len(buf))
	}
	n := 0
	for _, g := range bytes.Split(buf, []byte("\n\n")) {
		if bytes.Contains(g, []byte("tongo/liteclient")) {
			n++
		}
	}
	return n
}

// settledLiteclient samples liteclientGoroutines every 40 ms until five samples in a row agree (at most 3 s)
// and returns the smallest of the last five samples: a goroutine that is about to exit may only make the
// number larger, a goroutine that stays for ever is in every sample.
func settledLiteclient() int {
	var last []int
	for i := 0; i < 75; i++ {
		last = append(last, liteclientGoroutines())
		if len(last) > 5 {
			last = last[1:]
		}
		if len(last) == 5 && last[0] == last[1] && last[1] == last[2] && last[2] == last[3] && last[3] == last[4] {
			break
		}
		time.Sleep(40 * time.Millisecond)
	}
	m := last[0]
	for _, v := range last {
		if v < m {
			m = v
		}
	}
	return m
}

// goroutineSlack: how many more goroutines inside liteclient than after the first round are tolerated after
// any number of further rounds (clients of earlier cases live on in the process; one of them may finish a
// redial meanwhile).
const goroutineSlack = 2

// c12/drop-goroutines: one client (1..2 connections, deadline 0.3..0.5 s, a third with an authentication key)
// goes through 4..6 rounds. A round: while the client is idle the server closes the oldest, the newest or all
// connections (FIN or RST; in a quarter of the rounds the next redial is refused once); 1..3 callers go on
// calling every 20..50 ms (own answer or error) until the server sees all connections again; the self-recovery
// is verified as everywhere (awaitRecovery); then 2..4 callers make 5..20 calls each (every answer must be the
// call's own); then the process is left alone until the number of goroutines inside tongo/liteclient is
// steady. That number after the last round may exceed the number after the FIRST round by at most
// goroutineSlack; every later round closes at least one connection, so one goroutine left behind per
// re-established connection shows after three further rounds. An excess is re-counted for 5 more seconds
// before it is reported and is not judged when the process was heavily stalled meanwhile.
// One scenario per case; real time dominates (1-3 s per round).
var dropGoroutinesCheck = &core.Check{Name: "c12/drop-goroutines", Quick: 1, Thorough: 12, Fn: func(c *core.Ctx) error {
	sc := &scenario{id: 3000 + c.Intn("id", 1000), keySeed: c.U64("keyseed"), workers: c.Range("connections", 1, 2)}
	sc.timeout = time.Duration(c.OneOf("timeout.ms", 300, 400, 500)) * time.Millisecond
	for i, n := 0, c.Range("callers", 1, 3); i < n; i++ {
		sc.calls = append(sc.calls, []callScript{{kind: kNow, size: c.Intn("size", 40)}, {kind: kNow, size: c.Intn("size", 40)}})
	}
	type round struct {
		which   int
		rst     bool
		redial  []adnlsrv.DialPlan
		probers int
		gap     time.Duration
		callers int
		calls   int
	}
	rounds := make([]round, c.Range("rounds", 4, 6))
	var text []string
	for i := range rounds {
		r := &rounds[i]
		r.which = c.Choose("close.which", 3)
		r.rst = c.Bool("close.rst")
		t := fmt.Sprintf("idle close of %s (rst=%v)", closeNames[r.which], r.rst)
		if core.NewSplitMix(c.U64("close.redial")).Intn(4) == 0 {
			p := adnlsrv.DialPlan{Kind: []adnlsrv.DialKind{adnlsrv.DialReset, adnlsrv.DialCloseNow, adnlsrv.DialCloseAfterHello}[c.Choose("redial.kind", 3)]}
			r.redial = append(r.redial, p)
			t += fmt.Sprintf(" redial->%v", p.Kind)
			c.Class("round with a refused redial")
		}
		r.probers = c.Range("probers", 1, 3)
		r.gap = time.Duration(c.URange("probe.gap.ms", 20, 50)) * time.Millisecond
		r.callers = c.Range("batch.callers", 2, 4)
		r.calls = c.Range("batch.calls", 5, 20)
		text = append(text, fmt.Sprintf("%s, %d caller(s) calling every %v meanwhile, then %d x %d calls", t, r.probers, r.gap, r.callers, r.calls))
	}
	if drawAuth(c, sc, 3); sc.auth {
		c.Class("client with an authentication key")
	}
	script := sc.String() + "; then rounds: " + strings.Join(text, "; ")
	c.Note("scenario", script)
	c.NonTrivial(script)
	c.Class(fmt.Sprintf("%d connection(s)", sc.workers))
	c.Class(fmt.Sprintf("%d drop/reconnect rounds", len(rounds)))
	c.Checkpoint()

	var o *outcome
	if err := core.Protect(func() error { o = runScenario(sc); return nil }); err != nil {
		return err
	}
	totalScenarios.Add(1)
	totalCalls.Add(int64(len(o.calls)))
	if v := o.judge(c); v != "" {
		if isAuthNonceDeadlock(v) && c.Known(knownAuthNonceDeadlock) {
			return nil
		}
		return failure(o, v, script)
	}
	if !o.healthy {
		c.Class("not judged (process stalled)")
		return nil
	}

	var counts []int
	var firstStacks string
	for i, r := range rounds {
		var v string
		err := core.Protect(func() error {
			o.st.mu.Lock()
			o.st.redial = append(o.st.redial, r.redial...)
			o.st.mu.Unlock()
			o.closeIdle(r.which, r.rst)
			// calls go on while the connection is away: own answer or error
			var up atomic.Bool
			var bad atomic.Pointer[string]
			var probes, probeErrs atomic.Int64
			var wg sync.WaitGroup
			stop := time.Now().Add(8 * time.Second)
			for g := 0; g < r.probers; g++ {
				wg.Add(1)
				go func() {
					defer wg.Done()
					for !up.Load() && time.Now().Before(stop) {
						q, resp, err := o.freshCall()
						probes.Add(1)
						if err != nil {
							probeErrs.Add(1)
						} else if !bytes.Equal(resp, F(q)) {
							s := fmt.Sprintf("MISROUTED: a call made while the client was reconnecting returned %d bytes that are not F(its query)", len(resp))
							bad.CompareAndSwap(nil, &s)
						}
						time.Sleep(r.gap)
					}
				}()
			}
			for time.Now().Before(stop) && len(o.st.liveConns()) < sc.workers {
				time.Sleep(10 * time.Millisecond)
			}
			up.Store(true)
			wg.Wait()
			totalCalls.Add(probes.Load())
			o.notef("round %d: %d calls while the connection was away, %d of them failed", i+1, probes.Load(), probeErrs.Load())
			if s := bad.Load(); s != nil {
				v = *s
				return nil
			}
			if !o.awaitRecovery(len(r.redial), heavyStall) {
				if v = o.violation; v == "" {
					v = "-"
				}
				return nil
			}
			// calls in between
			var failed atomic.Int64
			for g := 0; g < r.callers; g++ {
				wg.Add(1)
				go func() {
					defer wg.Done()
					for k := 0; k < r.calls; k++ {
						q, resp, err := o.freshCall()
						if err != nil {
							failed.Add(1)
						} else if !bytes.Equal(resp, F(q)) {
							s := fmt.Sprintf("MISROUTED: a call on the recovered client returned %d bytes that are not F(its query)", len(resp))
							bad.CompareAndSwap(nil, &s)
						}
					}
				}()
			}
			wg.Wait()
			totalCalls.Add(int64(r.callers * r.calls))
			if s := bad.Load(); s != nil {
				v = *s
				return nil
			}
			if n := failed.Load(); n > 0 {
				o.notef("round %d: %d of %d calls on the recovered client failed", i+1, n, r.callers*r.calls)
			}
			return nil
		})
		if err != nil {
			return err
		}
		if v == "-" {
			c.Class("recovery not judged (process stalled)")
			c.Note("log", strings.Join(o.notes, " | "))
			return nil
		}
		if v != "" {
			if isAuthNonceDeadlock(v) && c.Known(knownAuthNonceDeadlock) {
				return nil
			}
			return failure(o, fmt.Sprintf("round %d: %s", i+1, v), script)
		}
		counts = append(counts, settledLiteclient())
		if i == 0 {
			firstStacks = liteclientStacks()
		}
	}
	first, last := counts[0], counts[len(counts)-1]
	o.notef("goroutines inside liteclient (whole process) after each round: %v", counts)
	if last > first+goroutineSlack {
		// give goroutines that are on their way out five more seconds
		t0 := time.Now()
		for k := 0; k < 5 && last > first+goroutineSlack; k++ {
			time.Sleep(time.Second)
			last = settledLiteclient()
		}
		switch {
		case last <= first+goroutineSlack:
			c.Class("goroutine count settled late")
		case heavyStall(t0, time.Now()):
			c.Class("goroutine growth not judged (process stalled)")
			o.notef("goroutine growth %d -> %d not judged: scheduling delay up to %v", first, last, maxLag(t0, time.Now()))
		default:
			return failure(o, fmt.Sprintf("GOROUTINE GROWTH OVER DROPS: %d goroutines inside liteclient after the first drop/reconnect round, %d after round %d (settled counts after each round: %v, still %d after %v more; the client has %d connection(s) in every round and no call is in progress); goroutines inside liteclient after the first round:\n%snow:\n%s",
				first, counts[len(counts)-1], len(rounds), counts, last, time.Since(t0).Round(time.Second), sc.workers, firstStacks, liteclientStacks()), script)
		}
	}
	c.Note("log", strings.Join(o.notes, " | "))
	return nil
}}
