// C09 (TL half) — related names. Real schemas name their types in families: liteServer.masterchainInfo and
// liteServer.masterchainInfoExt, liteServer.blockLink..., t1 and t10. The schema decides which declaration a
// name refers to by the whole name; a compiler that resolves a name by anything weaker (a prefix, a table
// scan that stops at the first near hit) emits, for a function returning the shorter name, a method with
// another result type and another accepted constructor id, and which one it emits may depend on the run.
// With rel != 0 a schema is drawn with such families, and every schema that has a pair of declared types
// of which one name is a proper prefix of the other is generated many times: all runs must give the same
// output, and that output is the one that is compiled and driven with the reference answers.
package c09

import (
	"fmt"
	"strings"
)

var (
	relStems    = []string{"item", "t", "block", "info", "masterchainInfo", "st"}
	relSuffixes = []string{"Ext", "2", "0", "1", "s", "V2", "Info", "x", "Full", "10"}
)

// relNames hands out the base names (without name space) of the declared types of one schema. It has its own
// stream of choices, so that the structure of the schema stays what the seed gives without related names.
type relNames struct {
	state   uint64
	names   []string
	lower   map[string]bool // lower-cased names: tongo's generator finds result types case-insensitively
	goNames map[string]bool // Go identifiers the generator derives (camel case, singles with suffix C)
	camels  map[string]bool
}

func newRelNames(seed, rel uint64) *relNames {
	return &relNames{state: seed ^ rel*0x510e527fade682d1 ^ 0x9b05688c2b3e6c1f, lower: map[string]bool{}, goNames: map[string]bool{}, camels: map[string]bool{}}
}

func (n *relNames) intn(k int) int {
	n.state += 0x9e3779b97f4a7c15
	return int(splitmix(n.state) % uint64(k))
}

// take registers the name if no identifier derived from it collides with an earlier one.
func (n *relNames) take(base string, union bool) bool {
	lo, cm := strings.ToLower(base), camel(base)
	goName := cm
	if !union {
		goName += "C"
	}
	if n.lower[lo] || n.camels[cm] || n.goNames[goName] || n.goNames[cm] || n.camels[goName] {
		return false
	}
	n.lower[lo], n.camels[cm], n.goNames[goName] = true, true, true
	n.names = append(n.names, base)
	return true
}

// next gives the base name of the k-th declared type: two times in three an earlier name extended by a
// suffix (so that the earlier name is a proper prefix of it), otherwise a stem.
func (n *relNames) next(k int, union bool) string {
	for try := 0; try < 16; try++ {
		var base string
		if len(n.names) > 0 && n.intn(3) != 0 {
			base = n.names[n.intn(len(n.names))] + relSuffixes[n.intn(len(relSuffixes))]
		} else {
			base = relStems[n.intn(len(relStems))]
		}
		if len(base) <= 24 && n.take(base, union) {
			return base
		}
	}
	for j := 0; ; j++ {
		if base := fmt.Sprintf("%sz%dq%d", relStems[k%len(relStems)], k, j); n.take(base, union) {
			return base
		}
	}
}

// regKey is the name a declared type is looked up by when a function names it as its result, lower-cased:
// the constructor name of a single-constructor type, the type name of a union.
func regKey(t *gType) string {
	if len(t.ctors) == 1 {
		return strings.ToLower(t.ctors[0].name)
	}
	return strings.ToLower(t.name)
}

func isShortOfPair(t *gType, types []*gType) bool {
	k := regKey(t)
	for _, u := range types {
		if uk := regKey(u); u != t && len(uk) > len(k) && strings.HasPrefix(uk, k) {
			return true
		}
	}
	return false
}

// result: three functions in four return a type whose name is a proper prefix of another type's name.
func (n *relNames) result(types []*gType, drawn *gType) *gType {
	var shorts []*gType
	for _, t := range types {
		if isShortOfPair(t, types) {
			shorts = append(shorts, t)
		}
	}
	if len(shorts) == 0 || n.intn(4) == 0 {
		return drawn
	}
	return shorts[n.intn(len(shorts))]
}

// relatedCounts: pairs of declared types (short, long) with the short name a proper prefix of the long one,
// and functions returning the short type of such a pair. Counted for every schema, also the plain ones
// (ns.t1 / ns.t10 occur there from eleven types on).
func relatedCounts(sc *gSchema) (pairs, funcs int) {
	short := map[string]bool{}
	for _, t := range sc.types {
		k := regKey(t)
		for _, u := range sc.types {
			if uk := regKey(u); u != t && len(uk) > len(k) && strings.HasPrefix(uk, k) {
				pairs++
				short[t.name] = true
			}
		}
	}
	for _, f := range sc.funcs {
		if short[f.result] {
			funcs++
		}
	}
	return pairs, funcs
}

// relRepeats: further generator runs for a schema with related names. A compiler that picks among near hits
// by the iteration order of a Go map picks the wrong one in at least one run of eight for a table of up to
// eight types; 32 runs leave less than 2% for all of them to agree on the right one.
const relRepeats = 32

// regenerateRelated runs fresh generators on the schema; every output must be the first output.
func regenerateRelated(sc *gSchema, first string) (runs int, problem string) {
	for rep := 0; rep < relRepeats; rep++ {
		code, err := generate(sc.text)
		runs++
		if err != nil {
			return runs, fmt.Sprintf("generator run %d on the same schema fails: %v", rep+3, err)
		}
		if code != first {
			return runs, fmt.Sprintf("generating twice from the same schema gives different output (run %d of fresh generators differs from run 1; the schema declares types of which one name is a prefix of another)\n%s", rep+3, firstDifference(first, code))
		}
	}
	return runs, ""
}

// firstDifference shows the first differing line of two generator outputs with some lines around it.
func firstDifference(a, b string) string {
	la, lb := strings.Split(a, "\n"), strings.Split(b, "\n")
	i := 0
	for i < len(la) && i < len(lb) && la[i] == lb[i] {
		i++
	}
	show := func(l []string) string {
		lo, hi := i-12, i+8
		if lo < 0 {
			lo = 0
		}
		if hi > len(l) {
			hi = len(l)
		}
		return strings.Join(l[lo:hi], "\n")
	}
	return fmt.Sprintf("first difference at line %d\n--- run 1 ---\n%s\n--- other run ---\n%s", i+1, show(la), show(lb))
}
