package c09

import (
	"fmt"
	"strings"

	"verifharness/internal/tlref"
)

// ---------------------------------------------------------------------------------------------
// schema AST generator (TL subset supported by tongo's tl/parser generator and used by lite_api.tl)

type gField struct {
	name string
	cond int // -1: unconditional, else bit of `mode`
	typ  string
}

type gDecl struct {
	name   string
	id     uint32
	fields []gField
	result string
}

type gType struct {
	name  string
	ctors []*gDecl
	depth int
}

type gSchema struct {
	seed  uint64
	ns    string
	types []*gType // without liteServer.Error
	funcs []*gDecl
	text  string
	// features
	nDecl          int
	hasCond        bool
	hasVecDeclared bool
	hasUnion       bool
	condBits       uint32 // set of bit numbers used by conditional fields
	interleaved    bool   // a union constructor is separated from its siblings by another declaration
	rel            uint64 // != 0: drawn with related type names (relnames_test.go)
	relPairs       int    // pairs of declared types of which one registered name is a proper prefix of the other
	relFuncs       int    // functions whose result type's name is a proper prefix of another type's name
}

const errorLine = "liteServer.error#bba9e148 code:int message:string = liteServer.Error;"

var fieldWords = []string{"id", "data", "proof", "lt", "hash", "account", "shard_proof", "init_c7", "x", "value", "to_key_block", "state_proof", "count", "seqno", "workchain"}
var nsWords = []string{"ab", "tonNode", "liteServer", "q7", "x_y", "db.state", "liteServer.debug", "a.b.c"}
var builtins = []string{"int", "long", "int256", "bytes", "string", "Bool", "#"}

type schemaGen struct {
	r       tlref.Rand
	sc      *gSchema
	usedIDs map[uint32]bool
	singles []*gType
	unions  []*gType
	rel     *relNames // nil: the plain names ns.tK / ns.UK
}

func (g *schemaGen) id() uint32 {
	for {
		var v uint32
		switch g.r.Intn("id.kind", 4) {
		case 0:
			v = uint32(g.r.U64("id")) & 0x00ffffff // leading zero digits
		case 1:
			v = uint32(g.r.U64("id")) | 0x80000000
		default:
			v = uint32(g.r.U64("id") * 0x9e3779b97f4a7c15 >> 32)
		}
		if v == 0xbba9e148 || g.usedIDs[v] {
			continue
		}
		g.usedIDs[v] = true
		return v
	}
}

func (g *schemaGen) pick(list []*gType, maxDepth int) *gType {
	var ok []*gType
	for _, t := range list {
		if t.depth <= maxDepth {
			ok = append(ok, t)
		}
	}
	if len(ok) == 0 {
		return nil
	}
	return ok[g.r.Intn("ref", len(ok))]
}

// elemType draws the element type of a vector; returns the text and the depth it adds.
func (g *schemaGen) elemType() (string, int) {
	switch g.r.Intn("elem.kind", 6) {
	case 0, 1:
		if t := g.pick(g.singles, 2); t != nil {
			g.sc.hasVecDeclared = true
			return t.ctors[0].name, t.depth
		}
	case 2:
		if t := g.pick(g.unions, 2); t != nil {
			g.sc.hasVecDeclared = true
			return t.name, t.depth
		}
	}
	return builtins[g.r.Intn("elem.builtin", 6)], 0 // no vector of #
}

// fieldType draws a field type; conditional fields draw from {builtin, bare declared type, true, vector}.
func (g *schemaGen) fieldType(conditional, inUnion bool) (string, int) {
	if conditional {
		switch g.r.Intn("ctype.kind", 7) {
		case 0:
			return "true", 0
		case 6:
			e, d := g.elemType()
			return "(vector " + e + ")", d
		case 1, 2:
			if t := g.pick(g.singles, 2); t != nil {
				return t.ctors[0].name, t.depth
			}
		}
		return builtins[g.r.Intn("ctype.builtin", 6)], 0
	}
	switch g.r.Intn("type.kind", 11) {
	case 0, 1:
		e, d := g.elemType()
		return "(vector " + e + ")", d
	case 2, 3:
		if t := g.pick(g.singles, 2); t != nil {
			return t.ctors[0].name, t.depth
		}
	case 4:
		if t := g.pick(g.unions, 2); t != nil {
			return t.name, t.depth
		}
	}
	return builtins[g.r.Intn("type.builtin", len(builtins))], 0
}

func (g *schemaGen) fields(min, max int, allowCond bool) ([]gField, int) {
	n := min + g.r.Intn("nfields", max-min+1)
	var out []gField
	depth := 0
	modeAt := -1
	if allowCond && n > 0 && g.r.Intn("has.mode", 2) == 1 {
		modeAt = 0
		if g.r.Intn("mode.first", 3) == 0 {
			modeAt = g.r.Intn("mode.pos", n)
		}
	}
	for i := 0; i < n; i++ {
		if i == modeAt {
			out = append(out, gField{name: "mode", cond: -1, typ: "#"})
			continue
		}
		f := gField{name: fmt.Sprintf("%s_%d", fieldWords[g.r.Intn("fname", len(fieldWords))], i), cond: -1}
		conditional := modeAt >= 0 && i > modeAt && g.r.Intn("cond", 2) == 1
		if conditional {
			f.cond = g.r.Intn("bit", 32)
			if g.r.Intn("bit.edge", 4) == 0 {
				f.cond = []int{0, 1, 7, 15, 16, 30, 31}[g.r.Intn("bit.edge.v", 7)]
			}
			g.sc.hasCond = true
			g.sc.condBits |= 1 << uint(f.cond)
		}
		var d int
		f.typ, d = g.fieldType(conditional, !allowCond)
		if d > depth {
			depth = d
		}
		out = append(out, f)
	}
	return out, depth
}

func upperLast(name string) string {
	i := strings.LastIndexByte(name, '.') + 1
	return name[:i] + strings.ToUpper(name[i:i+1]) + name[i+1:]
}

// drawSchema draws a schema of 1..40 declarations (constructors and functions) plus the fixed
// liteServer.error line. Everything is a pure function of the choices of r.
func drawSchema(r tlref.Rand, seed uint64) *gSchema { return drawSchemaRel(r, seed, 0) }

// drawSchemaRel: rel == 0 draws exactly the schema drawSchema has always drawn for the seed. rel != 0 draws
// the same structure from the same choices, with related type names (relnames_test.go), at least three
// types and two functions, and functions that prefer result types whose name is a prefix of another name.
func drawSchemaRel(r tlref.Rand, seed uint64, rel uint64) *gSchema {
	sc := &gSchema{seed: seed, ns: nsWords[r.Intn("ns", len(nsWords))], rel: rel}
	g := &schemaGen{r: r, sc: sc, usedIDs: map[uint32]bool{}}
	total := 1 + r.Intn("ndecl", 40)
	if r.Intn("small", 3) == 0 {
		total = 1 + r.Intn("ndecl.small", 6)
	}
	nfuncs := r.Intn("nfuncs", 7)
	if rel != 0 {
		g.rel = newRelNames(seed, rel)
		if total < 6 {
			total = 6
		}
		if nfuncs < 2 {
			nfuncs = 2
		}
	}
	if nfuncs > total-1 {
		nfuncs = total - 1
	}
	remaining := total - nfuncs
	for k := 0; remaining > 0; k++ {
		if remaining >= 2 && r.Intn("union", 4) == 0 {
			nc := 2 + r.Intn("nctors", 4)
			if nc > remaining {
				nc = remaining
			}
			t := &gType{name: fmt.Sprintf("%s.U%d", sc.ns, k)}
			ctorStem := fmt.Sprintf("%s.u%d", sc.ns, k)
			if g.rel != nil {
				base := g.rel.next(k, true)
				ctorStem = sc.ns + "." + base
				t.name = upperLast(ctorStem)
			}
			for j := 0; j < nc; j++ {
				fs, d := g.fields(0, 5, false)
				if d+1 > t.depth {
					t.depth = d + 1
				}
				t.ctors = append(t.ctors, &gDecl{name: fmt.Sprintf("%s_%c", ctorStem, 'a'+j), id: g.id(), fields: fs, result: t.name})
			}
			sc.types = append(sc.types, t)
			g.unions = append(g.unions, t)
			sc.hasUnion = true
			remaining -= nc
			continue
		}
		// A single-constructor type without fields is outside the subset by the generator's own
		// construction: its MarshalTL declares `err` and `b` and never uses them (does not compile).
		fs, d := g.fields(1, 8, true)
		cn := fmt.Sprintf("%s.t%d", sc.ns, k)
		if g.rel != nil {
			cn = sc.ns + "." + g.rel.next(k, false)
		}
		t := &gType{name: upperLast(cn), depth: d + 1}
		t.ctors = []*gDecl{{name: cn, id: g.id(), fields: fs, result: t.name}}
		sc.types = append(sc.types, t)
		g.singles = append(g.singles, t)
		remaining--
	}
	for k := 0; k < nfuncs; k++ {
		fs, _ := g.fields(0, 6, true)
		res := sc.types[r.Intn("result", len(sc.types))]
		if g.rel != nil {
			res = g.rel.result(sc.types, res)
		}
		sc.funcs = append(sc.funcs, &gDecl{name: fmt.Sprintf("%s.get%d", sc.ns, k), id: g.id(), fields: fs, result: res.name})
	}
	sc.nDecl = total
	sc.relPairs, sc.relFuncs = relatedCounts(sc)
	var sb strings.Builder
	line := func(d *gDecl) {
		fmt.Fprintf(&sb, "%s#%08x", d.name, d.id)
		for _, f := range d.fields {
			if f.cond >= 0 {
				fmt.Fprintf(&sb, " %s:mode.%d?%s", f.name, f.cond, f.typ)
			} else {
				fmt.Fprintf(&sb, " %s:%s", f.name, f.typ)
			}
		}
		fmt.Fprintf(&sb, " = %s;\n", d.result)
	}
	sb.WriteString(errorLine + "\n")
	// the constructors of one type need not be adjacent in a schema file: sometimes the last constructor
	// of a union is written after the declarations of the following type
	interleave := r.Intn("interleave", 3) == 0
	var held *gDecl
	for _, t := range sc.types {
		ctors := t.ctors
		if interleave && len(ctors) >= 2 && held == nil {
			held = ctors[len(ctors)-1]
			ctors = ctors[:len(ctors)-1]
			for _, d := range ctors {
				line(d)
			}
			continue
		}
		for _, d := range ctors {
			line(d)
		}
		if held != nil {
			line(held)
			held = nil
			sc.interleaved = true
		}
	}
	if held != nil {
		line(held)
	}
	sb.WriteString("---functions---\n")
	for _, d := range sc.funcs {
		line(d)
	}
	sc.text = sb.String()
	return sc
}

func camel(s string) string {
	var sb strings.Builder
	up := true
	for i := 0; i < len(s); i++ {
		ch := s[i]
		switch {
		case ch >= 'a' && ch <= 'z':
			if up {
				ch -= 'a' - 'A'
			}
			sb.WriteByte(ch)
			up = false
		case ch >= 'A' && ch <= 'Z':
			sb.WriteByte(ch)
			up = false
		case ch >= '0' && ch <= '9':
			sb.WriteByte(ch)
			up = true
		default:
			up = true
		}
	}
	return sb.String()
}
