package c09

import (
	"fmt"
	"os"
	"strings"

	"verifharness/internal/tlbrun"
)

// ---------------------------------------------------------------------------------------------
// TL-B schema generator: the subset of TL-B that tongo's tlb/parser generator supports and that
// abi/schemas uses. Everything is a pure function of the seed.

type tbSchema struct {
	seed  uint64
	sch   *tlbrun.Schema
	text  string
	nDecl int
	feats map[string]int // constructs used (histogram keys)
	loose int            // declarations drawn without the cell capacity budget
	grid  bool           // the enumerated grid of widths (seed 0)
	// builtins: the sized built-in types of the compiled code (UintN, IntN, BitsN, VarUIntegerN) are not the
	// checked-in ones of package tlb but the output of tlb/parser's type generators for the widths of this
	// schema (builtins_test.go); widths are then drawn freely
	builtins bool
}

var tbPrefixes = []string{"Ab", "Pool", "Msg", "Xq", "Nft", "W5", "Dex", "Jetton", "Storm", "Z"}
var tbTypeWords = []string{"Data", "Params", "Info", "State", "Payload", "Config", "Action", "Order", "Body", "Item"}
var tbFieldWords = []string{"query_id", "amount", "owner", "dest", "payload", "seqno", "flags", "x", "is_a", "key_B", "lt", "hash", "fwd", "init", "Count"}

type tbGen struct {
	r     *tlbrun.Rand
	out   *tbSchema
	types []*tlbrun.TypeDef
	sch   *tlbrun.Schema // of the types declared so far
	depth map[string]int
	held  bool // also draw the constructs held back because of reported findings
	wide  bool // inside a declaration drawn without the capacity budget: favour wide fields
	loose map[string]bool
	any   bool // widths are not limited to the types package tlb ships (schemas compiled with generated built-ins)
}

// scope is the budget of the cell that is being filled.
type tbScope struct {
	bits, refs int // maximal size used so far
	loose      bool
	used       map[string]bool // Go field names taken in the struct being declared
}

func (sc *tbScope) room(sz tlbrun.Size) bool {
	if sc.loose {
		return sc.bits+sz.MaxBits <= 2600 && sc.refs+sz.MaxRefs <= 7
	}
	return sc.bits+sz.MaxBits <= 1023 && sc.refs+sz.MaxRefs <= 4
}

func (g *tbGen) feat(name string) { g.out.feats[name]++ }

var tbUintEdges = []int{1, 2, 7, 8, 9, 15, 16, 17, 31, 32, 33, 63, 64, 128, 256, 257}
var tbBitsSizes = []int{80, 96, 128, 256, 264, 320, 352, 512}
var tbDictSizes = []int{8, 16, 32, 64, 256, 8, 32, 256, 1, 7, 23, 128}

func (g *tbGen) width() int {
	if g.any && g.r.Intn(4) == 0 { // the big.Int form of the integer type generator
		if g.r.Intn(2) == 0 {
			return []int{65, 72, 100, 127, 128, 129, 255, 256, 257}[g.r.Intn(9)]
		}
		return 65 + g.r.Intn(193)
	}
	switch g.r.Intn(4) {
	case 0:
		return []int{8, 16, 32, 64}[g.r.Intn(4)]
	case 1:
		return tbUintEdges[g.r.Intn(len(tbUintEdges))]
	}
	return 1 + g.r.Intn(64)
}

// bitsWidth draws N of bitsN: the sizes package tlb ships, or (any) whole bytes (the generated type is a
// byte array) and other widths (the generated type is a bit string) alike.
func (g *tbGen) bitsWidth() int {
	if !g.any {
		return tbBitsSizes[g.r.Intn(len(tbBitsSizes))]
	}
	switch g.r.Intn(5) {
	case 0:
		return 8 * (1 + g.r.Intn(64))
	case 1:
		return []int{1, 7, 9, 63, 65, 71, 73, 255, 257, 263, 511}[g.r.Intn(11)]
	case 2:
		return tbBitsSizes[g.r.Intn(len(tbBitsSizes))]
	case 3:
		return 1 + g.r.Intn(80)
	}
	return 1 + g.r.Intn(520)
}

// dictWidth draws n of (HashmapE n T). The struct generator takes UintN as key type for n <= 64 and BitsN
// above; only the byte array form of BitsN has the methods of a key type, so above 64 n is a multiple of 8.
func (g *tbGen) dictWidth() int {
	if !g.any {
		return tbDictSizes[g.r.Intn(len(tbDictSizes))]
	}
	switch g.r.Intn(4) {
	case 0:
		return 1 + g.r.Intn(64)
	case 1:
		return 8 * (9 + g.r.Intn(56)) // 72..512
	case 2:
		return []int{72, 80, 88, 96, 104, 120, 128, 136, 248, 256, 264, 504, 512}[g.r.Intn(13)]
	}
	return tbDictSizes[g.r.Intn(len(tbDictSizes))]
}

// dict draws a dictionary type. An inline value must fit into a leaf next to the longest label tongo's
// writer may choose (hml_long: 2 + bitlen(n) + n bits); for the key sizes of package tlb (n <= 256) that is
// the bound of 700 bits dictValue keeps, for wider keys the value is redrawn until it fits.
func (g *tbGen) dict() *tlbrun.Type {
	n := g.dictWidth()
	v := g.dictValue()
	if g.any {
		room := 1023 - 2 - n - 10
		for i := 0; g.sch.SizeOf(v).MaxBits > room; i++ {
			v = g.dictValue()
			if i > 20 {
				v = &tlbrun.Type{Kind: tlbrun.KBool}
			}
		}
	}
	return &tlbrun.Type{Kind: tlbrun.KDict, N: n, Args: []*tlbrun.Type{v}}
}

// simple draws a type without references, parameters or tags on the Go side.
func (g *tbGen) simple() *tlbrun.Type {
	if g.wide && g.r.Intn(2) == 0 {
		switch g.r.Intn(4) {
		case 0:
			return &tlbrun.Type{Kind: tlbrun.KBits, N: []int{512, 352, 320, 264}[g.r.Intn(4)]}
		case 1:
			return &tlbrun.Type{Kind: tlbrun.KUint, N: []int{256, 257, 128}[g.r.Intn(3)]}
		case 2:
			return &tlbrun.Type{Kind: tlbrun.KInt, N: []int{257, 256}[g.r.Intn(2)]}
		default:
			return &tlbrun.Type{Kind: tlbrun.KAddr}
		}
	}
	switch g.r.Intn(12) {
	case 0, 1, 2:
		return &tlbrun.Type{Kind: tlbrun.KUint, N: g.width()}
	case 3, 4:
		return &tlbrun.Type{Kind: tlbrun.KInt, N: g.width()}
	case 5:
		return &tlbrun.Type{Kind: tlbrun.KBits, N: g.bitsWidth()}
	case 6:
		n := 1 + g.r.Intn(32)
		if g.r.Intn(3) == 0 {
			n = []int{1, 8, 16, 32, 5, 10}[g.r.Intn(6)]
		}
		return &tlbrun.Type{Kind: tlbrun.KNat, N: n}
	case 7:
		return &tlbrun.Type{Kind: tlbrun.KNat32}
	case 8:
		return &tlbrun.Type{Kind: tlbrun.KBool}
	case 9:
		return &tlbrun.Type{Kind: tlbrun.KCoins, Name: []string{"Coins", "Grams"}[g.r.Intn(2)]}
	case 10:
		return &tlbrun.Type{Kind: tlbrun.KAddr}
	default:
		n := 1 + g.r.Intn(32)
		if g.r.Intn(2) == 0 {
			n = []int{16, 32, 1, 2, 7}[g.r.Intn(5)]
		}
		if g.any && g.r.Intn(6) == 0 {
			n = 33 + g.r.Intn(8) // GenerateVarUintTypes takes any maximum
		}
		return &tlbrun.Type{Kind: tlbrun.KVarUint, N: n}
	}
}

func named(td *tlbrun.TypeDef) *tlbrun.Type { return &tlbrun.Type{Kind: tlbrun.KNamed, Name: td.Name} }
func refTo(t *tlbrun.Type) *tlbrun.Type {
	return &tlbrun.Type{Kind: tlbrun.KRef, Args: []*tlbrun.Type{t}}
}

// earlier picks a declared type of nesting depth <= maxDepth, or nil.
func (g *tbGen) earlier(maxDepth int, ok func(td *tlbrun.TypeDef) bool) *tlbrun.TypeDef {
	var cand []*tlbrun.TypeDef
	skipLoose := g.r.Intn(4) != 0 // types that often overflow a cell are used sparingly
	for _, td := range g.types {
		if g.loose[td.Name] && skipLoose {
			continue
		}
		if g.depth[td.Name] <= maxDepth && (ok == nil || ok(td)) {
			cand = append(cand, td)
		}
	}
	if len(cand) == 0 {
		return nil
	}
	return cand[g.r.Intn(len(cand))]
}

func (g *tbGen) depthOf(t *tlbrun.Type) int {
	d := 0
	if t.Kind == tlbrun.KNamed {
		d = g.depth[t.Name]
	}
	for _, a := range t.Args {
		if x := g.depthOf(a); x > d {
			d = x
		}
	}
	for _, f := range t.Fields {
		if x := g.depthOf(f.Type); x > d {
			d = x
		}
	}
	return d
}

const tbMaxDepth = 3

// payload draws what stands behind a `^`: a declared type, Cell, a simple type, or an applied type
// without a tag of its own.
func (g *tbGen) payload() *tlbrun.Type {
	switch g.r.Intn(8) {
	case 0, 1, 2, 3:
		if td := g.earlier(tbMaxDepth, nil); td != nil {
			return named(td)
		}
	case 4, 5:
		return &tlbrun.Type{Kind: tlbrun.KCell}
	case 6:
		if td := g.earlier(tbMaxDepth, g.fitsAlone); td != nil && g.r.Intn(2) == 0 {
			return &tlbrun.Type{Kind: tlbrun.KEither, Args: []*tlbrun.Type{named(td), refTo(named(td))}}
		}
	}
	return g.simple()
}

// fitsAlone: the type has room for one more bit in its own cell (used where a wrapper adds a bit).
func (g *tbGen) fitsAlone(td *tlbrun.TypeDef) bool {
	sz := g.sch.SizeOfDef(td)
	return sz.MaxBits <= 900 && sz.MaxRefs <= 3
}

// dictValue draws the value type of a dictionary: inline values are kept below 700 bits so that they fit
// into a leaf whatever label form the writer chooses.
func (g *tbGen) dictValue() *tlbrun.Type {
	small := func(td *tlbrun.TypeDef) bool {
		sz := g.sch.SizeOfDef(td)
		return sz.MaxBits <= 700 && sz.MaxRefs <= 4
	}
	switch g.r.Intn(8) {
	case 0, 1:
		if td := g.earlier(tbMaxDepth-1, small); td != nil {
			return named(td)
		}
	case 2, 3:
		if td := g.earlier(tbMaxDepth-1, nil); td != nil {
			return refTo(named(td))
		}
	case 4:
		if g.r.Intn(2) == 0 {
			return refTo(&tlbrun.Type{Kind: tlbrun.KCell})
		}
		return &tlbrun.Type{Kind: tlbrun.KCell}
	case 5:
		if td := g.earlier(tbMaxDepth-1, func(td *tlbrun.TypeDef) bool { return small(td) && !g.sch.Greedy(named(td)) }); td != nil {
			return &tlbrun.Type{Kind: tlbrun.KEither, Args: []*tlbrun.Type{named(td), refTo(named(td))}}
		}
	case 6:
		if g.held {
			if td := g.earlier(tbMaxDepth-1, small); td != nil {
				g.feat("HELD: HashmapE n (Maybe T)")
				return &tlbrun.Type{Kind: tlbrun.KMaybe, Args: []*tlbrun.Type{named(td)}}
			}
		}
	}
	return g.simple()
}

// fieldType draws the type of the next field of the current cell. last: nothing follows in this cell.
func (g *tbGen) fieldType(sc *tbScope, last bool, level int) *tlbrun.Type {
	for attempt := 0; attempt < 40; attempt++ {
		t := g.candidate(last, level)
		if t == nil {
			continue
		}
		if g.sch.Greedy(t) && !last {
			continue
		}
		if g.depthOf(t) > tbMaxDepth {
			continue
		}
		if !sc.room(g.sch.SizeOf(t)) {
			continue
		}
		return t
	}
	return &tlbrun.Type{Kind: tlbrun.KBool}
}

func (g *tbGen) candidate(last bool, level int) *tlbrun.Type {
	if g.wide && g.r.Intn(4) == 0 {
		return refTo(g.payload())
	}
	switch g.r.Intn(20) {
	case 0, 1, 2, 3, 4, 5:
		return g.simple()
	case 6, 7:
		if td := g.earlier(tbMaxDepth, nil); td != nil {
			return named(td)
		}
	case 8, 9:
		return refTo(g.payload())
	case 10:
		if level < 2 {
			return &tlbrun.Type{Kind: tlbrun.KAnonRef, Fields: g.fields(&tbScope{used: map[string]bool{}}, 1+g.r.Intn(4), level+1)}
		}
	case 11, 12: // Maybe
		switch g.r.Intn(6) {
		case 0, 1:
			inner := g.payload()
			if g.r.Intn(5) == 0 && level < 2 {
				return &tlbrun.Type{Kind: tlbrun.KMaybe, Args: []*tlbrun.Type{{Kind: tlbrun.KAnonRef, Fields: g.fields(&tbScope{used: map[string]bool{}}, 1+g.r.Intn(3), level+1)}}}
			}
			return &tlbrun.Type{Kind: tlbrun.KMaybe, Args: []*tlbrun.Type{refTo(inner)}}
		case 2:
			if td := g.earlier(tbMaxDepth, nil); td != nil {
				return &tlbrun.Type{Kind: tlbrun.KMaybe, Args: []*tlbrun.Type{named(td)}}
			}
		case 3:
			if td := g.earlier(tbMaxDepth, nil); td != nil {
				return &tlbrun.Type{Kind: tlbrun.KMaybe, Args: []*tlbrun.Type{{Kind: tlbrun.KEither, Args: []*tlbrun.Type{named(td), refTo(named(td))}}}}
			}
		case 4:
			if g.r.Intn(3) == 0 {
				return &tlbrun.Type{Kind: tlbrun.KMaybe, Args: []*tlbrun.Type{g.dict()}}
			}
		}
		return &tlbrun.Type{Kind: tlbrun.KMaybe, Args: []*tlbrun.Type{g.simple()}}
	case 13, 14: // Either
		switch g.r.Intn(4) {
		case 0, 1: // Either T ^T
			var t *tlbrun.Type
			switch g.r.Intn(4) {
			case 0:
				t = &tlbrun.Type{Kind: tlbrun.KCell}
			case 1:
				t = g.simple()
			default:
				if td := g.earlier(tbMaxDepth, nil); td != nil {
					t = named(td)
				} else {
					t = g.simple()
				}
			}
			return &tlbrun.Type{Kind: tlbrun.KEither, Args: []*tlbrun.Type{t, refTo(t)}}
		default: // Either A B, sides without tags
			side := func() *tlbrun.Type {
				if td := g.earlier(tbMaxDepth, nil); td != nil && g.r.Intn(2) == 0 {
					return named(td)
				}
				return g.simple()
			}
			a, b := side(), side()
			if g.held && g.r.Intn(2) == 0 {
				g.feat("HELD: Either with a reference or Maybe on one side")
				switch g.r.Intn(4) {
				case 0:
					b = refTo(b)
					if a.String() == b.Args[0].String() {
						a = &tlbrun.Type{Kind: tlbrun.KBool}
					}
				case 1:
					a = refTo(a)
				case 2:
					a, b = refTo(a), refTo(b)
				default:
					a = &tlbrun.Type{Kind: tlbrun.KMaybe, Args: []*tlbrun.Type{a}}
				}
				return &tlbrun.Type{Kind: tlbrun.KEither, Args: []*tlbrun.Type{a, b}}
			}
			return &tlbrun.Type{Kind: tlbrun.KEither, Args: []*tlbrun.Type{a, b}}
		}
	case 15, 16:
		return g.dict()
	case 17:
		if last {
			return &tlbrun.Type{Kind: tlbrun.KCell}
		}
		return refTo(&tlbrun.Type{Kind: tlbrun.KCell})
	case 18:
		if g.held {
			switch g.r.Intn(2) {
			case 0:
				g.feat("HELD: ^(Maybe T)")
				return refTo(&tlbrun.Type{Kind: tlbrun.KMaybe, Args: []*tlbrun.Type{g.simple()}})
			default:
				g.feat("HELD: ^^T")
				return refTo(refTo(g.simple()))
			}
		}
	}
	return g.simple()
}

// fields draws n fields of one cell scope.
func (g *tbGen) fields(sc *tbScope, n, level int) []*tlbrun.Field {
	var out []*tlbrun.Field
	for i := 0; i < n; i++ {
		t := g.fieldType(sc, i == n-1, level)
		sz := g.sch.SizeOf(t)
		sc.bits += sz.MaxBits
		sc.refs += sz.MaxRefs
		f := &tlbrun.Field{Type: t}
		// names: mostly `word_i`; sometimes `_`, sometimes no name at all where the generator derives one
		// (a declared type: the type name; ^T: FieldN; an applied type in parentheses: Value, once)
		switch g.r.Intn(12) {
		case 0:
			f.Name = "_"
		case 1:
			switch {
			case t.Kind == tlbrun.KNamed && !sc.used[t.Name]:
				sc.used[t.Name] = true
			case t.Kind == tlbrun.KRef && t.Args[0].Kind != tlbrun.KRef && t.Args[0].Kind != tlbrun.KMaybe:
			case (t.Kind == tlbrun.KEither || t.Kind == tlbrun.KDict || t.Kind == tlbrun.KVarUint || t.Kind == tlbrun.KNat || t.Kind == tlbrun.KMaybe && g.held) && !sc.used["Value"]:
				if t.Kind == tlbrun.KMaybe {
					g.feat("HELD: (Maybe T) without a field name")
				}
				sc.used["Value"] = true
			default:
				f.Name = fmt.Sprintf("%s_%d", tbFieldWords[g.r.Intn(len(tbFieldWords))], i)
			}
		default:
			f.Name = fmt.Sprintf("%s_%d", tbFieldWords[g.r.Intn(len(tbFieldWords))], i)
		}
		out = append(out, f)
	}
	return out
}

// tag draws a constructor tag for a single-constructor type.
func (g *tbGen) tag() string {
	switch g.r.Intn(6) {
	case 0:
		return "#_"
	case 1:
		return "$_"
	case 2:
		n := 1 + g.r.Intn(8)
		if g.r.Intn(4) == 0 {
			n = 1 + g.r.Intn(32)
		}
		return "$" + tbBin(g.r.Next(), n)
	default:
		n := 1 + g.r.Intn(8)
		if g.r.Intn(2) == 0 {
			n = 8
		}
		return "#" + tbHex(g.r.Next(), n)
	}
}

func tbBin(v uint64, n int) string {
	var sb strings.Builder
	for i := n - 1; i >= 0; i-- {
		sb.WriteByte('0' + byte(v>>uint(i)&1))
	}
	return sb.String()
}

func tbHex(v uint64, n int) string {
	return fmt.Sprintf("%0*x", n, v&(1<<uint(4*n)-1))
}

// unionTags draws n prefix-free tags: all `#` tags of 1..8 hex digits, all `$` tags of 1..8 bits, or a mix.
func (g *tbGen) unionTags(n int) []string {
	style := g.r.Intn(3) // 0 hex, 1 bin, 2 mixed
	type tg struct {
		text string
		bits string
	}
	var tags []tg
	for len(tags) < n {
		hexTag := style == 0 || style == 2 && g.r.Intn(2) == 0
		var t tg
		if hexTag {
			d := 1 + g.r.Intn(8)
			if g.r.Intn(3) == 0 {
				d = 8
			}
			if style == 0 && g.r.Intn(3) == 0 {
				d = 1 + g.r.Intn(2)
			}
			v := g.r.Next() & (1<<uint(4*d) - 1)
			t = tg{"#" + tbHex(v, d), tbBin(v, 4*d)}
		} else {
			d := 1 + g.r.Intn(8)
			if n > 2 && d < 3 {
				d = 3
			}
			v := g.r.Next() & (1<<uint(d) - 1)
			t = tg{"$" + tbBin(v, d), tbBin(v, d)}
		}
		clash := false
		for _, o := range tags {
			if strings.HasPrefix(o.bits, t.bits) || strings.HasPrefix(t.bits, o.bits) {
				clash = true
			}
		}
		if !clash {
			tags = append(tags, t)
		}
	}
	out := make([]string, n)
	for i, t := range tags {
		out[i] = t.text
	}
	return out
}

func (g *tbGen) rebuild() {
	s, err := tlbrun.NewSchema(g.types)
	if err != nil {
		panic("c09: schema generator: " + err.Error())
	}
	g.sch = s
}

func tbHeld() bool { return os.Getenv("VERIF_C09_TLB_HELD") != "" }

// gridTLBSchema is the one enumerated case (seed 0): every width of every sized built-in of the subset,
// packed into declarations that fit a cell.
func gridTLBSchema() *tbSchema {
	var list []*tlbrun.Type
	for n := 1; n <= 64; n++ {
		list = append(list, &tlbrun.Type{Kind: tlbrun.KUint, N: n}, &tlbrun.Type{Kind: tlbrun.KInt, N: n})
	}
	for _, n := range []int{128, 256, 257} {
		list = append(list, &tlbrun.Type{Kind: tlbrun.KUint, N: n}, &tlbrun.Type{Kind: tlbrun.KInt, N: n})
	}
	for n := 1; n <= 32; n++ {
		list = append(list, &tlbrun.Type{Kind: tlbrun.KNat, N: n}, &tlbrun.Type{Kind: tlbrun.KVarUint, N: n})
	}
	for _, n := range tbBitsSizes {
		list = append(list, &tlbrun.Type{Kind: tlbrun.KBits, N: n})
	}
	for _, n := range []int{1, 7, 8, 16, 23, 32, 64, 128, 256} {
		list = append(list, &tlbrun.Type{Kind: tlbrun.KDict, N: n, Args: []*tlbrun.Type{{Kind: tlbrun.KUint, N: 1 + n%64}}})
	}
	list = append(list, &tlbrun.Type{Kind: tlbrun.KNat32}, &tlbrun.Type{Kind: tlbrun.KBool}, &tlbrun.Type{Kind: tlbrun.KCoins, Name: "Coins"},
		&tlbrun.Type{Kind: tlbrun.KCoins, Name: "Grams"}, &tlbrun.Type{Kind: tlbrun.KAddr})
	return packGrid(list, false)
}

// gridBuiltinsSchema is the enumerated case (seed 0) of the schemas that are compiled with generated
// built-in types: every width the generators of tlb/parser/builtin_generator.go are asked for, as a plain
// field, as a dictionary value and, where the generated type has the methods of a key type, as a dictionary
// key: uint/int 1..64 and a ladder of wider ones (big.Int form), (## 1..32), (VarUInteger 1..40), bitsN for
// every whole number of bytes up to 512 bits (byte array form) and a ladder of other widths (bit string
// form), HashmapE with every key size 1..64 (key type UintN) and every multiple of 8 in 72..512 (key type
// BitsN), the value types cycling through all of these forms. Every distinct dictionary type costs compile
// time (an instantiation of tlb.HashmapE): seed 0 takes a ladder of 21 key sizes, the seed tlbFullGridSeed
// (thorough tier) all 120.
const tlbFullGridSeed = 2 // drawn seeds are odd

func gridBuiltinsSchema(seed uint64) *tbSchema {
	var list []*tlbrun.Type
	ty := func(k tlbrun.Kind, n int) *tlbrun.Type { return &tlbrun.Type{Kind: k, N: n} }
	for n := 1; n <= 64; n++ {
		list = append(list, ty(tlbrun.KUint, n), ty(tlbrun.KInt, n))
	}
	for _, n := range []int{65, 72, 100, 127, 128, 129, 200, 255, 256, 257} {
		list = append(list, ty(tlbrun.KUint, n), ty(tlbrun.KInt, n))
	}
	for n := 1; n <= 40; n++ {
		if n <= 32 {
			list = append(list, ty(tlbrun.KNat, n))
		}
		list = append(list, ty(tlbrun.KVarUint, n))
	}
	for n := 8; n <= 512; n += 8 {
		list = append(list, ty(tlbrun.KBits, n))
	}
	for _, n := range []int{1, 2, 3, 5, 7, 9, 15, 17, 31, 33, 63, 65, 71, 73, 100, 127, 129, 255, 257, 263, 500, 511} {
		list = append(list, ty(tlbrun.KBits, n))
	}
	odd := func(n int) int { // a width that is not a whole number of bytes
		if n%8 == 0 {
			return n + 1
		}
		return n
	}
	keys := []int{1, 2, 7, 8, 9, 15, 16, 17, 32, 33, 63, 64, 72, 80, 96, 104, 128, 256, 264, 504, 512}
	if seed == tlbFullGridSeed {
		keys = nil
		for n := 1; n <= 64; n++ {
			keys = append(keys, n)
		}
		for n := 72; n <= 512; n += 8 {
			keys = append(keys, n)
		}
	}
	for i, n := range keys {
		var v *tlbrun.Type
		switch i % 8 {
		case 0:
			v = ty(tlbrun.KUint, 1+n%64)
		case 1:
			v = ty(tlbrun.KInt, 1+(n*7)%64)
		case 2:
			v = ty(tlbrun.KBits, 8*(1+n%16))
		case 3:
			v = ty(tlbrun.KBits, odd(1+n%61))
		case 4:
			v = ty(tlbrun.KUint, 65+n%190)
		case 5:
			v = ty(tlbrun.KInt, 65+(n*3)%193)
		case 6:
			v = ty(tlbrun.KVarUint, 1+n%32)
		default:
			v = ty(tlbrun.KNat, 1+n%32)
		}
		list = append(list, &tlbrun.Type{Kind: tlbrun.KDict, N: n, Args: []*tlbrun.Type{v}})
	}
	out := packGrid(list, true)
	out.seed = seed
	return out
}

// packGrid packs the fields into declarations that fit a cell.
func packGrid(list []*tlbrun.Type, builtins bool) *tbSchema {
	empty, _ := tlbrun.NewSchema(nil)
	var types []*tlbrun.TypeDef
	var cur *tlbrun.Ctor
	bits, refs := 0, 0
	for i, t := range list {
		sz := empty.SizeOf(t)
		if cur == nil || bits+sz.MaxBits > 1023 || refs+sz.MaxRefs > 4 {
			name := fmt.Sprintf("Grid%d", len(types))
			cur = &tlbrun.Ctor{Name: fmt.Sprintf("grid%d", len(types)), Tag: "#_", Result: name}
			types = append(types, &tlbrun.TypeDef{Name: name, Ctors: []*tlbrun.Ctor{cur}})
			bits, refs = 0, 0
		}
		cur.Fields = append(cur.Fields, &tlbrun.Field{Name: fmt.Sprintf("f_%d", i), Type: t})
		bits += sz.MaxBits
		refs += sz.MaxRefs
	}
	sch, err := tlbrun.NewSchema(types)
	if err != nil {
		panic("c09: grid schema: " + err.Error())
	}
	out := &tbSchema{seed: 0, sch: sch, text: sch.String(), nDecl: len(types), feats: map[string]int{}, grid: true, builtins: builtins}
	classifyTLB(sch, out.feats)
	return out
}

// drawTLBSchema draws a schema of 1..25 declarations. Seed 0 is the enumerated grid of widths.
func drawTLBSchema(seed uint64) *tbSchema { return drawTLBSchemaMode(seed, false) }

// drawTLBSchemaMode: with builtins set, the schema is one of those that are compiled with generated
// built-in types; its widths are drawn freely and seed 0 is the larger grid gridBuiltinsSchema.
func drawTLBSchemaMode(seed uint64, builtins bool) *tbSchema {
	if builtins && (seed == 0 || seed == tlbFullGridSeed) {
		return gridBuiltinsSchema(seed)
	}
	if seed == 0 {
		return gridTLBSchema()
	}
	out := &tbSchema{seed: seed, feats: map[string]int{}, builtins: builtins}
	g := &tbGen{r: tlbrun.NewRand(seed), out: out, depth: map[string]int{}, held: tbHeld(), loose: map[string]bool{}, any: builtins}
	g.rebuild()
	prefix := tbPrefixes[g.r.Intn(len(tbPrefixes))]
	total := 1 + g.r.Intn(25)
	if g.r.Intn(3) == 0 {
		total = 1 + g.r.Intn(5)
	}
	remaining := total
	for k := 0; remaining > 0; k++ {
		name := fmt.Sprintf("%s%s%d", prefix, tbTypeWords[g.r.Intn(len(tbTypeWords))], k)
		td := &tlbrun.TypeDef{Name: name}
		loose := g.r.Intn(10) == 0
		if loose {
			out.loose++
			g.loose[name] = true
		}
		g.wide = loose
		nc := 1
		if remaining >= 2 && g.r.Intn(4) == 0 {
			nc = 2 + g.r.Intn(4)
			if nc > remaining {
				nc = remaining
			}
		}
		if nc > 1 {
			tags := g.unionTags(nc)
			for j := 0; j < nc; j++ {
				c := &tlbrun.Ctor{Name: fmt.Sprintf("%s_alt%d_%c", strings.ToLower(prefix), k, 'a'+j), Tag: tags[j], Result: name}
				sc := &tbScope{bits: 4 * (len(tags[j]) - 1), loose: loose, used: map[string]bool{}}
				if tags[j][0] == '$' {
					sc.bits = len(tags[j]) - 1
				}
				c.Fields = g.fields(sc, g.r.Intn(5), 0)
				td.Ctors = append(td.Ctors, c)
			}
		} else {
			c := &tlbrun.Ctor{Name: fmt.Sprintf("%s_%s%d", strings.ToLower(prefix), strings.ToLower(tbTypeWords[g.r.Intn(len(tbTypeWords))]), k), Result: name}
			if g.r.Intn(6) == 0 {
				c.Name = "_" // the anonymous constructor: no tag unless one is written
				if g.r.Intn(2) == 0 {
					c.Tag = g.tag()
				}
			} else {
				c.Tag = g.tag()
			}
			sc := &tbScope{bits: 32, loose: loose, used: map[string]bool{}}
			nf := 1 + g.r.Intn(7)
			if g.r.Intn(12) == 0 {
				nf = 0
			}
			c.Fields = g.fields(sc, nf, 0)
			td.Ctors = []*tlbrun.Ctor{c}
		}
		d := 0
		for _, c := range td.Ctors {
			for _, f := range c.Fields {
				if x := g.depthOf(f.Type); x > d {
					d = x
				}
			}
		}
		g.wide = false
		g.depth[name] = d + 1
		g.types = append(g.types, td)
		g.rebuild()
		remaining -= nc
	}
	out.sch = g.sch
	out.nDecl = total
	out.text = g.sch.String()
	classifyTLB(g.sch, out.feats)
	return out
}

// classifyTLB counts the constructs that occur in the schema (the histogram of the evidence).
func classifyTLB(sch *tlbrun.Schema, feats map[string]int) {
	var walk func(t *tlbrun.Type, inline bool)
	walkFields := func(fs []*tlbrun.Field) {
		for _, f := range fs {
			switch f.Name {
			case "":
				feats["field without a name"]++
			case "_":
				feats["field named _"]++
			}
			walk(f.Type, true)
		}
	}
	isTRefT := func(t *tlbrun.Type) bool {
		return t.Args[1].Kind == tlbrun.KRef && t.Args[0].Kind != tlbrun.KRef && t.Args[0].Kind != tlbrun.KMaybe && t.Args[0].String() == t.Args[1].Args[0].String()
	}
	walk = func(t *tlbrun.Type, inline bool) {
		switch t.Kind {
		case tlbrun.KUint:
			feats["uintN"]++
		case tlbrun.KInt:
			feats["intN"]++
		case tlbrun.KBits:
			feats["bitsN"]++
		case tlbrun.KNat:
			feats["## n"]++
		case tlbrun.KNat32:
			feats["#"]++
		case tlbrun.KBool:
			feats["Bool"]++
		case tlbrun.KCoins:
			feats["Coins, Grams"]++
		case tlbrun.KVarUint:
			feats["VarUInteger n"]++
		case tlbrun.KAddr:
			feats["MsgAddress"]++
		case tlbrun.KCell:
			if inline {
				feats["Cell (inline, at the end of a cell)"]++
			}
		case tlbrun.KNamed:
			if inline {
				feats["declared type inline"]++
			}
		case tlbrun.KRef:
			switch t.Args[0].Kind {
			case tlbrun.KCell:
				feats["^Cell"]++
			case tlbrun.KRef, tlbrun.KMaybe:
				// held back constructs, counted by the generator
			default:
				feats["^T"]++
			}
			walk(t.Args[0], false)
		case tlbrun.KAnonRef:
			feats["^[ fields ]"]++
			walkFields(t.Fields)
		case tlbrun.KMaybe:
			switch a := t.Args[0]; {
			case a.Kind == tlbrun.KAnonRef:
				feats["Maybe ^[ fields ]"]++
				walkFields(a.Fields)
				return
			case a.Kind == tlbrun.KRef:
				feats["Maybe ^T"]++
				walk(a.Args[0], false)
				return
			case a.Kind == tlbrun.KEither:
				feats["Maybe (Either ...)"]++
			case a.Kind == tlbrun.KDict:
				feats["Maybe (HashmapE n T)"]++
			default:
				feats["Maybe T"]++
			}
			walk(t.Args[0], true)
		case tlbrun.KEither:
			if isTRefT(t) {
				feats["Either T ^T"]++
				walk(t.Args[0], true)
				return
			}
			if t.Args[0].Kind != tlbrun.KRef && t.Args[0].Kind != tlbrun.KMaybe && t.Args[1].Kind != tlbrun.KRef {
				feats["Either A B"]++
			}
			walk(t.Args[0], true)
			walk(t.Args[1], true)
		case tlbrun.KDict:
			feats["HashmapE"]++
			feats[fmt.Sprintf("HashmapE with %d-bit keys", t.N)]++
			switch a := t.Args[0]; {
			case a.Kind == tlbrun.KRef:
				feats["HashmapE n ^T"]++
			case a.Kind == tlbrun.KNamed:
				feats["HashmapE n T (declared T inline)"]++
			case a.Kind == tlbrun.KCell:
				feats["HashmapE n Cell"]++
			case a.Kind == tlbrun.KEither:
				feats["HashmapE n (Either T ^T)"]++
			case a.Kind == tlbrun.KMaybe:
			default:
				feats["HashmapE n T (simple T)"]++
			}
			walk(t.Args[0], true)
		}
	}
	for _, td := range sch.Types {
		if len(td.Ctors) > 1 {
			feats["union"]++
		}
		for _, c := range td.Ctors {
			switch {
			case c.TagBits == 0:
				feats["constructor without tag bits (#_, $_, _)"]++
			case c.Tag[0] == '#':
				feats["# tag"]++
			default:
				feats["$ tag"]++
			}
			if c.Name == "_" {
				feats["anonymous constructor _"]++
			}
			if len(c.Fields) == 0 {
				feats["constructor without fields"]++
			}
			walkFields(c.Fields)
		}
	}
}
