// C09 — a generator object that has been used before. Both schema compilers are objects with state
// (tlb/parser.Generator keeps the table behind GetTlbTypes, tl/parser.Generator the tables of declared types
// and of request types). A tool that processes several schema files hands several schemas to one object;
// what it gets for the later schema has to implement THAT schema. The code that is compiled and driven with
// values is therefore, for three schemas in four, the output of a generator that has first processed other
// schemas declaring the same type names with other tags, fields and field order.
package c09

import (
	"fmt"
	"regexp"
	"strconv"
	"strings"

	"github.com/tonkeeper/tongo/tl/parser"
	tlbparser "github.com/tonkeeper/tongo/tlb/parser"

	"verifharness/internal/tlbrun"
)

// ---------------------------------------------------------------------------------------------
// TL-B half

func tlbRenameType(t *tlbrun.Type, m map[string]string) *tlbrun.Type {
	c := &tlbrun.Type{Kind: t.Kind, N: t.N, Name: t.Name}
	if t.Kind == tlbrun.KNamed {
		c.Name = m[t.Name]
	}
	for _, a := range t.Args {
		c.Args = append(c.Args, tlbRenameType(a, m))
	}
	c.Fields = tlbRenameFields(t.Fields, m)
	return c
}

func tlbRenameFields(fs []*tlbrun.Field, m map[string]string) []*tlbrun.Field {
	var out []*tlbrun.Field
	for _, f := range fs {
		out = append(out, &tlbrun.Field{Name: f.Name, Type: tlbRenameType(f.Type, m)})
	}
	return out
}

// tlbHistory draws the schemas that one generator processes before the schema under test. Each of them is a
// schema of the same subset (drawn by drawTLBSchema from a seed derived from the seed of the schema under
// test) whose i-th type carries the name of a type of the schema under test; types for which no name is left
// are dropped (declarations only refer to earlier ones, so a prefix of a schema is a schema). Schemas are
// drawn until every type name of the schema under test has occurred (at most 8). In one case out of three
// the schema under test itself comes first (A, B.., A). covered is the number of type names that occurred.
func tlbHistory(sc *tbSchema) (hist []string, covered int, err error) {
	r := tlbrun.NewRand(sc.seed ^ 0x6a09e667f3bcc909)
	names := make([]string, len(sc.sch.Types))
	for i, t := range sc.sch.Types {
		names[i] = t.Name
	}
	if r.Intn(3) == 0 {
		hist = append(hist, sc.text)
	}
	for round := 0; round < 8 && covered < len(names); round++ {
		other := drawTLBSchema(r.Next() | 1)
		n := len(other.sch.Types)
		if n > len(names)-covered {
			n = len(names) - covered
		}
		m := map[string]string{}
		for i := 0; i < n; i++ {
			m[other.sch.Types[i].Name] = names[covered+i]
		}
		var types []*tlbrun.TypeDef
		for i := 0; i < n; i++ {
			src := other.sch.Types[i]
			td := &tlbrun.TypeDef{Name: m[src.Name]}
			for _, c := range src.Ctors {
				td.Ctors = append(td.Ctors, &tlbrun.Ctor{Name: c.Name, Tag: c.Tag, Fields: tlbRenameFields(c.Fields, m), Result: td.Name})
			}
			types = append(types, td)
		}
		s, e := tlbrun.NewSchema(types)
		if e != nil {
			return nil, 0, fmt.Errorf("harness error: renamed schema is not a schema: %v", e)
		}
		hist = append(hist, s.String())
		covered += n
	}
	return hist, covered, nil
}

type tlbReuse struct {
	hist     []string // what the generator processed before
	covered  int
	code     string            // output for the schema under test
	tlbTypes map[string]string // GetTlbTypes after the last call, by name
}

func tlbTypesOf(g *tlbparser.Generator) map[string]string {
	m := map[string]string{}
	for _, t := range g.GetTlbTypes() {
		m[t.Name] = t.Definition
	}
	return m
}

// generateTLBReused runs the history and then the schema under test through ONE generator.
func generateTLBReused(sc *tbSchema) (res *tlbReuse, err error) {
	hist, covered, err := tlbHistory(sc)
	if err != nil {
		return nil, err
	}
	res = &tlbReuse{hist: hist, covered: covered}
	step := 0
	defer func() {
		if p := recover(); p != nil {
			err = fmt.Errorf("generator panics in call %d on one generator: %v", step+1, p)
		}
	}()
	g := tlbparser.NewGenerator()
	for i, text := range append(append([]string{}, hist...), sc.text) {
		step = i
		parsed, e := tlbparser.Parse(text)
		if e != nil {
			return res, fmt.Errorf("parser.Parse (call %d): %v\n%s", i+1, e, text)
		}
		code, e := g.GenerateGolangTypes(parsed.Declarations, "", false)
		if e != nil {
			return res, fmt.Errorf("GenerateGolangTypes, call %d on one generator: %v\nschema of that call:\n%s", i+1, e, text)
		}
		res.code = code
	}
	res.tlbTypes = tlbTypesOf(g)
	return res, nil
}

func (r *tlbReuse) describe() string {
	var sb strings.Builder
	fmt.Fprintf(&sb, "the generator had processed %d schema(s) before, one GenerateGolangTypes call each:\n", len(r.hist))
	for i, h := range r.hist {
		fmt.Fprintf(&sb, "--- call %d ---\n%s", i+1, h)
	}
	fmt.Fprintf(&sb, "--- call %d: the schema under test ---", len(r.hist)+1)
	return sb.String()
}

// freshTLBTypes is GetTlbTypes of a fresh generator after the schema under test.
func freshTLBTypes(text string) (m map[string]string) {
	defer func() {
		if recover() != nil {
			m = nil
		}
	}()
	parsed, err := tlbparser.Parse(text)
	if err != nil {
		return nil
	}
	g := tlbparser.NewGenerator()
	if _, err := g.GenerateGolangTypes(parsed.Declarations, "", false); err != nil {
		return nil
	}
	return tlbTypesOf(g)
}

// freshTLBOrder is the sequence of type names GetTlbTypes of a fresh generator returns for the schema.
func freshTLBOrder(text string) (names []string) {
	defer func() {
		if recover() != nil {
			names = nil
		}
	}()
	parsed, err := tlbparser.Parse(text)
	if err != nil {
		return nil
	}
	g := tlbparser.NewGenerator()
	if _, err := g.GenerateGolangTypes(parsed.Declarations, "", false); err != nil {
		return nil
	}
	for _, t := range g.GetTlbTypes() {
		names = append(names, t.Name)
	}
	return names
}

// tlbReuseDiff compares what a used generator gives for the schema under test with what a fresh one gives:
// "generating twice from the same schema gives identical output".
func tlbReuseDiff(sc *tbSchema, fresh string, r *tlbReuse) string {
	if r.code != fresh {
		return fmt.Sprintf("generating twice from the same schema gives different output: a fresh generator and a generator that has been used before disagree\n--- fresh generator ---%s\n--- used generator ---%s", clipStr(fresh, 4000), clipStr(r.code, 4000))
	}
	want := freshTLBTypes(sc.text)
	if want == nil {
		return ""
	}
	// the list of generated types (what abi/parser concatenates into the generated file) comes in the same
	// order from every fresh generator
	var first []string
	for rep := 0; rep < 6; rep++ {
		order := freshTLBOrder(sc.text)
		if order == nil {
			break
		}
		if rep == 0 {
			first = order
		} else if strings.Join(order, " ") != strings.Join(first, " ") {
			return fmt.Sprintf("generating twice from the same schema gives different output: GetTlbTypes lists the generated types as\n  %v\nfrom one fresh generator and as\n  %v\nfrom another", first, order)
		}
	}
	for _, t := range sc.sch.Types {
		if r.tlbTypes[t.Name] != want[t.Name] {
			return fmt.Sprintf("GetTlbTypes of a used generator does not describe the declaration of %s that was generated last\n--- fresh generator ---\n%s\n--- used generator ---\n%s", t.Name, want[t.Name], r.tlbTypes[t.Name])
		}
	}
	return ""
}

// ---------------------------------------------------------------------------------------------
// TL half

var (
	tlIDInLine   = regexp.MustCompile(`#([0-9a-f]{8})\b`)
	tlSwapWord   = regexp.MustCompile(`\b(int|long|bytes|string)\b`)
	tlSwapTarget = map[string]string{"int": "long", "long": "int", "bytes": "string", "string": "bytes"}
)

// tlShadow is the schema under test with the same constructor, type and function names and other layouts:
// every constructor id is changed (xor with a drawn non-zero mask), int and long, bytes and string change
// places. The liteServer.error line stays. The result is a schema of the same subset.
func tlShadow(sc *gSchema) string {
	mask := uint32(splitmix(sc.seed^0x3c6ef372fe94f82b)) | 1
	lines := strings.Split(sc.text, "\n")
	for i, line := range lines {
		if line == errorLine || !strings.Contains(line, "=") {
			continue
		}
		line = tlIDInLine.ReplaceAllStringFunc(line, func(m string) string {
			v, _ := strconv.ParseUint(m[1:], 16, 32)
			w := uint32(v) ^ mask
			if w == 0xbba9e148 {
				w ^= 2
			}
			return fmt.Sprintf("#%08x", w)
		})
		lines[i] = tlSwapWord.ReplaceAllStringFunc(line, func(m string) string { return tlSwapTarget[m] })
	}
	return strings.Join(lines, "\n")
}

func splitmix(x uint64) uint64 {
	x += 0x9e3779b97f4a7c15
	x = (x ^ x>>30) * 0xbf58476d1ce4e5b9
	x = (x ^ x>>27) * 0x94d049bb133111eb
	return x ^ x>>31
}

// generateReused runs the shadow schema (in one case out of three: the schema under test, then the shadow)
// and then the schema under test through ONE tl/parser generator. The tables of the generator are keyed by
// the names, which all occur again in the last call, so nothing of the earlier calls is left by the
// generator's own construction.
func generateReused(sc *gSchema) (code string, hist []string, err error) {
	shadow := tlShadow(sc)
	if splitmix(sc.seed^0xbb67ae8584caa73b)%3 == 0 {
		hist = append(hist, sc.text)
	}
	hist = append(hist, shadow)
	g := parser.NewGenerator(nil, "*Client")
	for i, text := range hist {
		if _, err := generateOn(g, text); err != nil {
			return "", hist, fmt.Errorf("call %d on one generator: %v\nschema of that call:\n%s", i+1, err, text)
		}
	}
	code, err = generateOn(g, sc.text)
	if err != nil {
		return "", hist, fmt.Errorf("call %d on one generator: %v", len(hist)+1, err)
	}
	return code, hist, nil
}

func describeTLHistory(hist []string) string {
	var sb strings.Builder
	fmt.Fprintf(&sb, "the generator had processed %d schema(s) before (LoadTypes + LoadFunctions each):\n", len(hist))
	for i, h := range hist {
		fmt.Fprintf(&sb, "--- call %d ---\n%s", i+1, h)
	}
	fmt.Fprintf(&sb, "--- call %d: the schema under test ---", len(hist)+1)
	return sb.String()
}

// codeUnderTestIsReused: three schemas in four are compiled from the output of the used generator.
func codeUnderTestIsReused(seed uint64) bool { return splitmix(seed^0xa54ff53a5f1d36f1)%4 != 0 }
