package c17

import (
	"encoding/json"
	"fmt"
	"runtime"
	"sync"
	"testing"

	"github.com/tonkeeper/tongo/ton"

	"verifharness/internal/addrref"
	"verifharness/internal/core"
)

// c17/concurrent: the conversions are plain functions of their arguments; many goroutines converting their own
// addresses at the same time must each get their own results (valid forms parse back to the account they were
// made from, a form with a wrong check sum is refused).
var concurrentCheck = &core.Check{Name: "c17/concurrent", Quick: 1, Thorough: 100, Fn: func(c *core.Ctx) error {
	workers := c.OneOf("goroutines", 2, 4, 16, 32)
	rounds := c.Range("rounds", 200, 1500)
	procs := c.OneOf("gomaxprocs", 2, 4, 16)
	seed := c.U64("seed")
	c.Note("goroutines", workers)
	c.Note("rounds", rounds)
	c.NonTrivial(workers, rounds, procs, seed)
	prev := runtime.GOMAXPROCS(procs)
	defer runtime.GOMAXPROCS(prev)
	errs := make([]error, workers)
	var wg sync.WaitGroup
	start := make(chan struct{})
	for w := 0; w < workers; w++ {
		wg.Add(1)
		go func(w int) {
			defer wg.Done()
			sm := core.NewSplitMix(seed + uint64(w)*7919)
			<-start
			for r := 0; r < rounds; r++ {
				var id ton.AccountID
				id.Workchain = int32(int8(sm.Next()))
				sm.Fill(id.Address[:])
				bounce, testnet := sm.Intn(2) == 0, sm.Intn(2) == 0
				human := id.ToHuman(bounce, testnet)
				if want := addrref.Base64(addrref.Friendly(bounce, testnet, int8(id.Workchain), id.Address), true); human != want {
					errs[w] = fmt.Errorf("goroutine %d round %d: ToHuman(%s) = %q, want %q", w, r, id.ToRaw(), human, want)
					return
				}
				switch r % 3 {
				case 0:
					got, err := ton.ParseAccountID(human)
					if err != nil || got != id {
						errs[w] = fmt.Errorf("goroutine %d round %d (%d goroutines at once): ParseAccountID(%q) = %s, %v; want %s", w, r, workers, human, got.ToRaw(), err, id.ToRaw())
						return
					}
				case 1:
					got, err := ton.AccountIDFromBase64Url(human)
					if err != nil || got != id {
						errs[w] = fmt.Errorf("goroutine %d round %d (%d goroutines at once): AccountIDFromBase64Url(%q) = %s, %v; want %s", w, r, workers, human, got.ToRaw(), err, id.ToRaw())
						return
					}
				default:
					var got ton.AccountID
					err := json.Unmarshal([]byte(`"`+human+`"`), &got)
					if err != nil || got != id {
						errs[w] = fmt.Errorf("goroutine %d round %d (%d goroutines at once): JSON %q parses to %s, %v; want %s", w, r, workers, human, got.ToRaw(), err, id.ToRaw())
						return
					}
				}
				if r%5 == 0 {
					// another account's check sum behind this account's bytes
					other := id
					other.Address[sm.Intn(28)] ^= 1 << uint(sm.Intn(8))
					oh := other.ToHuman(bounce, testnet)
					forged := human[:44] + oh[44:]
					if forged != human && forged != oh {
						if got, err := ton.ParseAccountID(forged); err == nil {
							errs[w] = fmt.Errorf("goroutine %d round %d (%d goroutines at once): ParseAccountID(%q) = %s although the check sum belongs to %s", w, r, workers, forged, got.ToRaw(), other.ToRaw())
							return
						}
					}
				}
			}
		}(w)
	}
	close(start)
	wg.Wait()
	for _, e := range errs {
		if e != nil {
			return e
		}
	}
	return nil
}}

func TestConcurrent(t *testing.T) { core.Run(t, concurrentCheck) }
