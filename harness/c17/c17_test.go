// C17 — account addresses, shard ids and ADNL addresses keep their meaning across all forms.
package c17

import (
	"bytes"
	"encoding/json"
	"fmt"
	"io"
	"strings"
	"testing"
	"testing/iotest"

	"github.com/tonkeeper/tongo/boc"
	"github.com/tonkeeper/tongo/liteclient"
	"github.com/tonkeeper/tongo/tlb"
	"github.com/tonkeeper/tongo/ton"

	"verifharness/internal/addrref"
	"verifharness/internal/core"
	"verifharness/internal/gen"
	"verifharness/internal/ref"
)

func TestMain(m *testing.M) { core.Main(m, "C17") }

// ---------------------------------------------------------------------------------------------
// generators

// drawHash draws a 256-bit address: zero, all ones, leading zero bytes, a single bit, or pseudo-random.
func drawHash(c *core.Ctx, label string) [32]byte {
	var h [32]byte
	switch c.Weighted(label+".shape", 1, 1, 3, 1, 6) {
	case 0:
	case 1:
		for i := range h {
			h[i] = 0xff
		}
	case 2: // leading zero bytes / nibbles
		core.NewSplitMix(c.U64(label + ".seed")).Fill(h[:])
		k := c.Range(label+".zeros", 1, 31)
		for i := 0; i < k; i++ {
			h[i] = 0
		}
		if c.Bool(label + ".nibble") {
			h[k] &= 0x0f
		}
	case 3:
		bit := c.Choose(label+".bit", 256)
		h[bit/8] = 0x80 >> uint(bit%8)
	default:
		core.NewSplitMix(c.U64(label + ".seed")).Fill(h[:])
	}
	return h
}

func drawWorkchain8(c *core.Ctx) int32 {
	if c.Weighted("wc.kind", 3, 2) == 0 {
		return int32(c.OneOf("wc", 0, -1, 1, 127, -128, -2))
	}
	return int32(c.URange("wc.any", -128, 127))
}

func drawWorkchain32(c *core.Ctx) int32 {
	switch c.Weighted("wc32.kind", 2, 2, 3) {
	case 0:
		return drawWorkchain8(c)
	case 1:
		return int32(c.OneOf("wc32", 128, -129, 255, 256, -256, 1<<31-1, -1<<31, 65535, -65536))
	default:
		return int32(uint32(c.U64("wc32.any")))
	}
}

func leadingZeroNibbles(h [32]byte) int {
	n := 0
	for _, b := range h {
		if b == 0 {
			n += 2
			continue
		}
		if b>>4 == 0 {
			n++
		}
		break
	}
	return n
}

// ---------------------------------------------------------------------------------------------
// account ids: every form and back

func parseBoth(what, text string, want ton.AccountID, alsoBase64 bool) error {
	got, err := ton.ParseAccountID(text)
	if err != nil {
		return fmt.Errorf("%s: ParseAccountID(%q): %v", what, text, err)
	}
	if got != want {
		return fmt.Errorf("%s: ParseAccountID(%q) = %s, want %s", what, text, got.ToRaw(), want.ToRaw())
	}
	if alsoBase64 {
		got, err = ton.AccountIDFromBase64Url(text)
		if err != nil {
			return fmt.Errorf("%s: AccountIDFromBase64Url(%q): %v", what, text, err)
		}
		if got != want {
			return fmt.Errorf("%s: AccountIDFromBase64Url(%q) = %s, want %s", what, text, got.ToRaw(), want.ToRaw())
		}
	}
	return nil
}

func toStdAlphabet(s string) string {
	b := []byte(s)
	for i, ch := range b {
		switch ch {
		case '-':
			b[i] = '+'
		case '_':
			b[i] = '/'
		}
	}
	return string(b)
}

var account = &core.Check{Name: "c17/account", Quick: 20000, Thorough: 2000000, Fn: func(c *core.Ctx) error {
	wide := c.Weighted("wide", 3, 2) == 1
	var wc int32
	if wide {
		wc = drawWorkchain32(c)
	} else {
		wc = drawWorkchain8(c)
	}
	hash := drawHash(c, "hash")
	id := ton.AccountID{Workchain: wc, Address: hash}
	c.Note("account", addrref.Raw(wc, hash))
	fits8 := wc >= -128 && wc <= 127
	if wc < 0 {
		c.Class("negative workchain")
	}
	if !fits8 {
		c.Class("workchain outside int8 (raw, JSON, TL only)")
	}
	lz := leadingZeroNibbles(hash)
	if lz > 0 {
		c.Class("address with leading zero digits")
	}
	if wc < 0 || lz > 0 {
		c.NonTrivial(wc, hash[:])
	}

	// raw text
	raw := id.ToRaw()
	if want := addrref.Raw(wc, hash); raw != want {
		return fmt.Errorf("ToRaw() = %q, want %q", raw, want)
	}
	if s := id.String(); s != raw {
		return fmt.Errorf("String() = %q differs from ToRaw() = %q", s, raw)
	}
	got, err := ton.AccountIDFromRaw(raw)
	if err != nil || got != id {
		return fmt.Errorf("AccountIDFromRaw(%q) = %s, %v", raw, got.ToRaw(), err)
	}
	if err := parseBoth("raw form", raw, id, false); err != nil {
		return err
	}
	if lz > 0 { // short hex: leading zero digits may be omitted (documented by the library's own tests)
		k := c.Range("strip", 1, lz)
		colon := len(raw) - 64
		short := raw[:colon] + raw[colon+k:]
		got, err := ton.AccountIDFromRaw(short)
		if err != nil || got != id {
			return fmt.Errorf("AccountIDFromRaw(%q) (raw form without %d leading zero digits) = %s, %v; want %s", short, k, got.ToRaw(), err, raw)
		}
		if err := parseBoth("short raw form", short, id, false); err != nil {
			return err
		}
	}

	// JSON
	js, err := json.Marshal(id)
	if err != nil {
		return fmt.Errorf("json.Marshal: %v", err)
	}
	var viaJSON ton.AccountID
	if err := json.Unmarshal(js, &viaJSON); err != nil || viaJSON != id {
		return fmt.Errorf("JSON %s parses to %s, %v; want %s", js, viaJSON.ToRaw(), err, raw)
	}
	var wrapped struct{ A, B ton.AccountID }
	wrapped.A, wrapped.B = id, id
	js, err = json.Marshal(wrapped)
	if err != nil {
		return fmt.Errorf("json.Marshal of a struct with account ids: %v", err)
	}
	var back struct{ A, B ton.AccountID }
	if err := json.Unmarshal(js, &back); err != nil || back.A != id || back.B != id {
		return fmt.Errorf("JSON %s parses to %s / %s, %v; want %s", js, back.A.ToRaw(), back.B.ToRaw(), err, raw)
	}

	// TL bytes: int32 little endian, 32 bytes
	tl, err := id.MarshalTL()
	if err != nil {
		return fmt.Errorf("MarshalTL: %v", err)
	}
	wantTL := append([]byte{byte(uint32(wc)), byte(uint32(wc) >> 8), byte(uint32(wc) >> 16), byte(uint32(wc) >> 24)}, hash[:]...)
	if !bytes.Equal(tl, wantTL) {
		return fmt.Errorf("MarshalTL = %x, want %x", tl, wantTL)
	}
	// the returned bytes belong to the caller: marshalling other accounts afterwards does not change them
	for k := 0; k < 3; k++ {
		other := id
		other.Workchain ^= int32(1 + k)
		other.Address[k] ^= 0xff
		other.Address[31-k] ^= 0x55
		if _, err := other.MarshalTL(); err != nil {
			return fmt.Errorf("MarshalTL: %v", err)
		}
	}
	if !bytes.Equal(tl, wantTL) {
		return fmt.Errorf("the bytes returned by MarshalTL changed to %x after other accounts were marshalled, want %x", tl, wantTL)
	}
	var viaTL ton.AccountID
	tail := c.Content("tl.tail", c.Range("tl.tailLen", 0, 8)) // bytes that follow in a TL stream are not consumed
	rd := bytes.NewReader(append(append([]byte{}, tl...), tail...))
	if err := viaTL.UnmarshalTL(rd); err != nil || viaTL != id {
		return fmt.Errorf("UnmarshalTL(%x) = %s, %v; want %s", tl, viaTL.ToRaw(), err, raw)
	}
	if rd.Len() != len(tail) {
		return fmt.Errorf("UnmarshalTL consumed %d bytes, want 36", len(tl)+len(tail)-rd.Len())
	}
	// the same bytes handed over in pieces, as a network reader does
	for _, how := range []string{"one byte per Read", "half of the request per Read", "workchain and id in separate Reads"} {
		var chunked io.Reader
		switch how[0] {
		case 'o':
			chunked = iotest.OneByteReader(bytes.NewReader(tl))
		case 'h':
			chunked = iotest.HalfReader(bytes.NewReader(tl))
		default:
			chunked = io.MultiReader(bytes.NewReader(tl[:4]), bytes.NewReader(tl[4:]))
		}
		var v ton.AccountID
		if err := v.UnmarshalTL(chunked); err != nil || v != id {
			return fmt.Errorf("UnmarshalTL(%x) through a reader that delivers %s = %s, %v; want %s", tl, how, v.ToRaw(), err, raw)
		}
	}
	// a truncated account id is an error
	if cut := c.Intn("tl.cut", 36); true {
		var v ton.AccountID
		if err := v.UnmarshalTL(bytes.NewReader(tl[:cut])); err == nil {
			return fmt.Errorf("UnmarshalTL of the first %d of 36 bytes (%x) returned no error", cut, tl[:cut])
		}
	}

	if !fits8 {
		return nil
	}

	// user-friendly form: four flag combinations x both alphabets
	for _, bounce := range []bool{true, false} {
		for _, testnet := range []bool{false, true} {
			human := id.ToHuman(bounce, testnet)
			wantBytes := addrref.Friendly(bounce, testnet, int8(wc), hash)
			if want := addrref.Base64(wantBytes, true); human != want {
				return fmt.Errorf("ToHuman(bounce=%v, testnet=%v) = %q, want %q (bytes %x)", bounce, testnet, human, want, wantBytes)
			}
			what := fmt.Sprintf("user-friendly form bounce=%v testnet=%v", bounce, testnet)
			if err := parseBoth(what+" (base64url)", human, id, true); err != nil {
				return err
			}
			if err := parseBoth(what+" (base64)", addrref.Base64(wantBytes, false), id, true); err != nil {
				return err
			}
			var viaJSON ton.AccountID
			if err := json.Unmarshal([]byte(`"`+human+`"`), &viaJSON); err != nil || viaJSON != id {
				return fmt.Errorf("%s as a JSON string parses to %s, %v; want %s", what, viaJSON.ToRaw(), err, raw)
			}
			// a JSON string is its text, however the producer spelled it: escaped solidus (the default of
			// several encoders, and '/' is a letter of the standard alphabet), \u escapes, blanks around
			for _, text := range []string{human, addrref.Base64(wantBytes, false), raw} {
				for k, doc := range jsonSpellings(text) {
					var got ton.AccountID
					if err := json.Unmarshal([]byte(doc), &got); err != nil || got != id {
						return fmt.Errorf("%s: the JSON document %s (spelling %d of the string %q) parses to %s, %v; want %s", what, doc, k, text, got.ToRaw(), err, raw)
					}
				}
			}
		}
	}

	// TL-B address, as a value and through a cell
	msgAddr := id.ToMsgAddress()
	viaTlb, err := ton.AccountIDFromTlb(msgAddr)
	if err != nil || viaTlb == nil || *viaTlb != id {
		return fmt.Errorf("AccountIDFromTlb(ToMsgAddress()) = %v, %v; want %s", viaTlb, err, raw)
	}
	wantBits := ref.Bits{true, false, false}.AppendInt(int64(wc), 8).AppendBytes(hash[:])
	if err := throughCell(msgAddr, wantBits, id); err != nil {
		return err
	}
	return nil
}}

// throughCell serialises the address, compares the bits with the TL-B layout and reads it back.
func throughCell(msgAddr tlb.MsgAddress, wantBits ref.Bits, want ton.AccountID) error {
	cell := boc.NewCell()
	if err := tlb.Marshal(cell, msgAddr); err != nil {
		return fmt.Errorf("tlb.Marshal(MsgAddress): %v", err)
	}
	if got := gen.BitsOf(cell.RawBitString()); !got.Equal(wantBits) || cell.RefsSize() != 0 {
		return fmt.Errorf("MsgAddress serialises to %s (%d refs), want %s", got, cell.RefsSize(), wantBits)
	}
	cell.ResetCounters()
	var back tlb.MsgAddress
	if err := tlb.Unmarshal(cell, &back); err != nil {
		return fmt.Errorf("tlb.Unmarshal(MsgAddress %s): %v", wantBits, err)
	}
	got, err := ton.AccountIDFromTlb(back)
	if err != nil || got == nil || *got != want {
		return fmt.Errorf("address cell %s reads back as %v, %v; want %s", wantBits, got, err, want.ToRaw())
	}
	return nil
}

// ---------------------------------------------------------------------------------------------
// every single-character substitution of the 48-character form is rejected

var substitute = &core.Check{Name: "c17/substitute", Quick: 20, Thorough: 2000, Fn: func(c *core.Ctx) error {
	wc := drawWorkchain8(c)
	hash := drawHash(c, "hash")
	bounce, testnet, url := c.Bool("bounce"), c.Bool("testnet"), c.Bool("url")
	id := ton.AccountID{Workchain: wc, Address: hash}
	text := id.ToHuman(bounce, testnet)
	alphabet := addrref.URLAlphabet
	if !url {
		text = toStdAlphabet(text)
		alphabet = addrref.StdAlphabet
	}
	c.Note("address", text)
	c.NonTrivial(text)
	if len(text) != 48 {
		return fmt.Errorf("user-friendly form %q has %d characters", text, len(text))
	}
	if got, err := ton.AccountIDFromBase64Url(text); err != nil || got != id {
		return fmt.Errorf("AccountIDFromBase64Url(%q) = %s, %v", text, got.ToRaw(), err)
	}
	n := 0
	for pos := 0; pos < 48; pos++ {
		orig := addrref.Digit64(text[pos])
		for v := 0; v < 64; v++ {
			if v == orig {
				continue
			}
			mut := text[:pos] + string(alphabet[v]) + text[pos+1:]
			if got, err := ton.AccountIDFromBase64Url(mut); err == nil {
				return fmt.Errorf("AccountIDFromBase64Url accepted %q (= %q with character %d changed from %q to %q) as %s", mut, text, pos, text[pos], alphabet[v], got.ToRaw())
			}
			if got, err := ton.ParseAccountID(mut); err == nil {
				return fmt.Errorf("ParseAccountID accepted %q (= %q with character %d changed from %q to %q) as %s", mut, text, pos, text[pos], alphabet[v], got.ToRaw())
			}
			n++
		}
	}
	substitutions += int64(n)
	return nil
}}

var substitutions, adnlSubstitutions int64

// ---------------------------------------------------------------------------------------------
// anycast: the top depth bits of the address are replaced by the rewrite prefix

// tape: depth-1, prefix kind, prefix seed, then workchain and address draws
var anycast = &core.Check{Name: "c17/anycast", Quick: 6000, Thorough: 600000, Fn: func(c *core.Ctx) error {
	depth := 1 + c.Choose("depth-1", 30)
	var pfx uint32
	switch c.Choose("pfx.kind", 3) {
	case 0:
	case 1:
		pfx = 1<<uint(depth) - 1
	default:
		pfx = uint32(c.U64("pfx.seed") % (1 << uint(depth)))
	}
	wc := drawWorkchain8(c)
	hash := drawHash(c, "hash")
	c.Note("anycast", fmt.Sprintf("depth %d rewrite_pfx %0*b workchain %d address %x", depth, depth, pfx, wc, hash))
	c.Class(fmt.Sprintf("depth %02d", depth))
	c.NonTrivial(depth, pfx, wc, hash[:])

	bits := addrref.HashBits(hash)
	copy(bits, addrref.UintBits(uint64(pfx), depth))
	want := ton.AccountID{Workchain: wc, Address: addrref.HashFromBits(bits)}

	var a tlb.MsgAddress
	a.SumType = "AddrStd"
	a.AddrStd.Anycast.Exists = true
	a.AddrStd.Anycast.Value = tlb.Anycast{Depth: uint32(depth), RewritePfx: pfx}
	a.AddrStd.WorkchainId = int8(wc)
	a.AddrStd.Address = hash
	got, err := ton.AccountIDFromTlb(a)
	if err != nil || got == nil {
		return fmt.Errorf("AccountIDFromTlb: %v, %v", got, err)
	}
	if *got != want {
		return fmt.Errorf("AccountIDFromTlb(anycast depth %d prefix %0*b, address %x) = %s, want %s", depth, depth, pfx, hash, got.ToRaw(), want.ToRaw())
	}
	if a.AddrStd.Address != tlb.Bits256(hash) {
		return fmt.Errorf("AccountIDFromTlb modified the MsgAddress it was given")
	}
	// addr_std$10 anycast:(Maybe Anycast) = 1, depth:(#<= 30) = 5 bits, rewrite_pfx:(bits depth)
	wantBits := ref.Bits{true, false, true}.AppendUint(uint64(depth), 5).AppendUint(uint64(pfx), depth).AppendInt(int64(wc), 8).AppendBytes(hash[:])
	return throughCell(a, wantBits, want)
}}

// ---------------------------------------------------------------------------------------------
// shards

func shardIdent(prefix []bool, wc int32) tlb.ShardIdent {
	return tlb.ShardIdent{ShardPfxBits: tlb.Uint6(len(prefix)), WorkchainID: wc, ShardPrefix: addrref.TopAligned(prefix)}
}

func extRef(seq uint32) tlb.ExtBlkRef {
	var r tlb.ExtBlkRef
	r.SeqNo = seq
	r.RootHash[0], r.FileHash[0] = byte(seq), byte(seq+1)
	return r
}

func parentsOf(prefix []bool, wc int32, afterSplit, afterMerge bool) ([]ton.BlockIDExt, error) {
	var info tlb.BlockInfo
	info.Shard = shardIdent(prefix, wc)
	info.AfterSplit, info.AfterMerge = afterSplit, afterMerge
	info.SeqNo = 100
	if afterMerge {
		info.PrevRef.SumType = "PrevBlksInfo"
		info.PrevRef.PrevBlksInfo = &struct {
			Prev1 tlb.ExtBlkRef
			Prev2 tlb.ExtBlkRef
		}{extRef(98), extRef(99)}
	} else {
		info.PrevRef.SumType = "PrevBlkInfo"
		info.PrevRef.PrevBlkInfo = &struct{ Prev tlb.ExtBlkRef }{extRef(99)}
	}
	return ton.GetParents(info)
}

func bitsText(b []bool) string {
	if len(b) == 0 {
		return "(empty)"
	}
	s := make([]byte, len(b))
	for i, v := range b {
		s[i] = '0'
		if v {
			s[i] = '1'
		}
	}
	return string(s)
}

func accountWithPrefix(c *core.Ctx, label string, prefix []bool) ton.AccountID {
	h := drawHash(c, label)
	bits := addrref.HashBits(h)
	copy(bits, prefix)
	return ton.AccountID{Workchain: drawWorkchain8(c), Address: addrref.HashFromBits(bits)}
}

// tape: prefix length, prefix seed, ...
var shard = &core.Check{Name: "c17/shard", Quick: 10000, Thorough: 1000000, Fn: func(c *core.Ctx) error {
	n := c.Choose("len", 64)
	seed := c.U64("prefix.seed")
	var prefix []bool
	switch seed % 8 {
	case 0:
		prefix = make([]bool, n)
	case 1:
		prefix = make([]bool, n)
		for i := range prefix {
			prefix[i] = true
		}
	default:
		prefix = addrref.UintBits(core.NewSplitMix(seed).Next(), 64)[:n]
	}
	x := addrref.ShardID(prefix)
	c.Note("shard", fmt.Sprintf("prefix %s (%d bits) = %016x", bitsText(prefix), n, x))
	c.Class(fmt.Sprintf("prefix length %02d", n))
	if n >= 1 {
		c.NonTrivial(n, x)
	}
	s, err := ton.ParseShardID(int64(x))
	if err != nil {
		return fmt.Errorf("ParseShardID(%016x): %v", x, err)
	}
	if got := uint64(s.Encode()); got != x {
		return fmt.Errorf("ParseShardID(%016x).Encode() = %016x", x, got)
	}

	// accounts
	matchAccount := func(what string, a ton.AccountID) error {
		want := addrref.IsPrefix(prefix, addrref.HashBits(a.Address))
		if got := s.MatchAccountID(a); got != want {
			return fmt.Errorf("shard %016x (prefix %s).MatchAccountID(%s) = %v, want %v (%s)", x, bitsText(prefix), a.ToRaw(), got, want, what)
		}
		return nil
	}
	inside := accountWithPrefix(c, "inside", prefix)
	if err := matchAccount("account that starts with the prefix", inside); err != nil {
		return err
	}
	if n >= 1 {
		a := inside
		a.Address[(n-1)/8] ^= 0x80 >> uint((n-1)%8)
		if err := matchAccount("account that differs in the last prefix bit", a); err != nil {
			return err
		}
		k := c.Choose("flip", n)
		a = inside
		a.Address[k/8] ^= 0x80 >> uint(k%8)
		if err := matchAccount(fmt.Sprintf("account that differs in prefix bit %d", k), a); err != nil {
			return err
		}
	}
	{
		a := inside
		a.Address[n/8] ^= 0x80 >> uint(n%8)
		if err := matchAccount("account that differs in the first bit after the prefix", a); err != nil {
			return err
		}
		k := c.URange("flipAfter", n, 255)
		a = inside
		a.Address[k/8] ^= 0x80 >> uint(k%8)
		if err := matchAccount(fmt.Sprintf("account that differs in bit %d, after the prefix", k), a); err != nil {
			return err
		}
	}
	if err := matchAccount("unrelated account", ton.AccountID{Workchain: drawWorkchain8(c), Address: drawHash(c, "other")}); err != nil {
		return err
	}

	// blocks: a block id matches when one of the two shards contains the other
	matchBlock := func(what string, other []bool) error {
		want := addrref.IsPrefix(prefix, other) || addrref.IsPrefix(other, prefix)
		blk := ton.BlockID{Workchain: 0, Shard: addrref.ShardID(other), Seqno: 1}
		if got := s.MatchBlockID(blk); got != want {
			return fmt.Errorf("shard %016x (prefix %s).MatchBlockID(shard %016x, prefix %s) = %v, want %v (%s)", x, bitsText(prefix), blk.Shard, bitsText(other), got, want, what)
		}
		return nil
	}
	if err := matchBlock("the shard itself", prefix); err != nil {
		return err
	}
	for l := 0; l < n; l++ {
		if err := matchBlock("ancestor", prefix[:l]); err != nil {
			return err
		}
		sib := append(append([]bool{}, prefix[:l]...), !prefix[l])
		if err := matchBlock("sibling of an ancestor (or of the shard)", sib); err != nil {
			return err
		}
	}
	if n < 63 {
		ext := c.URange("ext", 1, 63-n)
		tailBits := addrref.UintBits(c.U64("ext.bits"), 64)[:ext]
		if err := matchBlock("descendant", append(append([]bool{}, prefix...), tailBits...)); err != nil {
			return err
		}
		if n >= 1 {
			sib := append(append([]bool{}, prefix[:n-1]...), !prefix[n-1])
			if err := matchBlock("descendant of the sibling", append(sib, tailBits...)); err != nil {
				return err
			}
		}
	}

	// parent / child arithmetic through GetParents
	wc := drawWorkchain8(c)
	if n <= 62 {
		ps, err := parentsOf(prefix, wc, false, true)
		if err != nil || len(ps) != 2 {
			return fmt.Errorf("GetParents(after merge, shard %016x): %v, %v", x, ps, err)
		}
		for i, p := range ps {
			child := append(append([]bool{}, prefix...), i == 1)
			if want := addrref.ShardID(child); p.Shard != want {
				return fmt.Errorf("GetParents(after merge, shard %016x): parent %d has shard %016x, want %016x (prefix %s)", x, i+1, p.Shard, want, bitsText(child))
			}
			if p.Workchain != wc {
				return fmt.Errorf("GetParents(after merge, workchain %d): parent %d has workchain %d", wc, i+1, p.Workchain)
			}
			// the child, produced by a split, has this shard as its parent
			up, err := parentsOf(child, wc, true, false)
			if err != nil || len(up) != 1 {
				return fmt.Errorf("GetParents(after split, shard %016x): %v, %v", p.Shard, up, err)
			}
			if up[0].Shard != x {
				return fmt.Errorf("parent of child %016x of shard %016x is %016x", p.Shard, x, up[0].Shard)
			}
		}
	}
	if n >= 1 {
		up, err := parentsOf(prefix, wc, true, false)
		if err != nil || len(up) != 1 {
			return fmt.Errorf("GetParents(after split, shard %016x): %v, %v", x, up, err)
		}
		if want := addrref.ShardID(prefix[:n-1]); up[0].Shard != want {
			return fmt.Errorf("GetParents(after split, shard %016x): parent shard %016x, want %016x", x, up[0].Shard, want)
		}
		down, err := parentsOf(prefix[:n-1], wc, false, true)
		if err != nil || len(down) != 2 {
			return fmt.Errorf("GetParents(after merge, shard %016x): %v, %v", up[0].Shard, down, err)
		}
		k := 0
		if prefix[n-1] {
			k = 1
		}
		if down[k].Shard != x || down[1-k].Shard == x {
			return fmt.Errorf("children of the parent %016x of shard %016x are %016x and %016x", up[0].Shard, x, down[0].Shard, down[1].Shard)
		}
	}
	// neither split nor merge: the previous block is in the same shard
	same, err := parentsOf(prefix, wc, false, false)
	if err != nil || len(same) != 1 || same[0].Shard != x {
		return fmt.Errorf("GetParents(no split, no merge, shard %016x): %v, %v", x, same, err)
	}
	return nil
}}

// ---------------------------------------------------------------------------------------------
// ADNL addresses

var adnl = &core.Check{Name: "c17/adnl", Quick: 500, Thorough: 50000, Fn: func(c *core.Ctx) error {
	addr := drawHash(c, "adnl")
	text := liteclient.ADNLAddressToBase32(ton.Bits256(addr))
	c.Note("adnl", fmt.Sprintf("%x = %s", addr, text))
	c.NonTrivial(addr[:])
	if want := addrref.ADNLText(addr); text != want {
		return fmt.Errorf("ADNLAddressToBase32(%x) = %q, want %q", addr, text, want)
	}
	for _, form := range []string{text, text + ".adnl"} {
		got, err := liteclient.ParseADNLAddress(form)
		if err != nil || got != ton.Bits256(addr) {
			return fmt.Errorf("ParseADNLAddress(%q) = %x, %v; want %x", form, got, err, addr)
		}
	}
	// the two check bytes cover every 5-bit digit: a different digit at one place is always detected
	suffix := ""
	if c.Bool("suffix") {
		suffix = ".adnl"
	}
	n := 0
	for pos := 0; pos < len(text); pos++ {
		for v := 0; v < 32; v++ {
			if addrref.B32Alphabet[v] == text[pos] {
				continue
			}
			mut := text[:pos] + string(addrref.B32Alphabet[v]) + text[pos+1:] + suffix
			if got, err := liteclient.ParseADNLAddress(mut); err == nil {
				return fmt.Errorf("ParseADNLAddress accepted %q (= %q with character %d changed from %q to %q) as %x", mut, text, pos, text[pos], addrref.B32Alphabet[v], got)
			}
			n++
		}
	}
	adnlSubstitutions += int64(n)
	return nil
}}

// ---------------------------------------------------------------------------------------------

// anchors ties the reference encoder to two addresses whose forms are public knowledge (TON docs and
// explorers), so that the library and the reference cannot be wrong in the same way unnoticed.
func TestAnchors(t *testing.T) {
	var h [32]byte
	raw := "83dfd552e63729b472fcbcc8c45ebcc6691702558b68ec7527e1ba403a0f31a8"
	for i := range h {
		fmt.Sscanf(raw[2*i:2*i+2], "%02x", &h[i])
	}
	if got := addrref.Base64(addrref.Friendly(true, false, 0, h), true); got != "EQCD39VS5jcptHL8vMjEXrzGaRcCVYto7HUn4bpAOg8xqB2N" {
		t.Fatalf("reference encoder is wrong: %s", got)
	}
	if got := addrref.Base64(addrref.Friendly(false, false, 0, h), true); got != "UQCD39VS5jcptHL8vMjEXrzGaRcCVYto7HUn4bpAOg8xqEBI" {
		t.Fatalf("reference encoder is wrong: %s", got)
	}
	if got := addrref.Crc16([]byte("123456789")); got != 0x31c3 {
		t.Fatalf("reference CRC16 is wrong: %04x", got)
	}
	if addrref.ShardID(nil) != 0x8000000000000000 || addrref.ShardID([]bool{true, false}) != 0xa000000000000000 {
		t.Fatalf("reference shard encoding is wrong")
	}
}

func TestProp(t *testing.T) {
	t.Run("account", func(t *testing.T) { core.Run(t, account) })
	t.Run("substitute", func(t *testing.T) { core.Run(t, substitute) })
	t.Run("anycast", func(t *testing.T) { core.Run(t, anycast) })
	t.Run("shard", func(t *testing.T) { core.Run(t, shard) })
	t.Run("adnl", func(t *testing.T) { core.Run(t, adnl) })
	core.Extra(substitute.Name, "substitutions_rejected", substitutions)
	core.Extra(adnl.Name, "substitutions_rejected", adnlSubstitutions)
}

func TestEnum(t *testing.T) {
	TestAnchors(t)
	seeds := core.Scale(4, 100)
	core.RunEnum(t, anycast, fmt.Sprintf("anycast: every depth 1..30 x rewrite prefix {all zero, all one, %d pseudo-random} x 2 address shapes", seeds), func(yield func(...uint64) bool) {
		for depth := 1; depth <= 30; depth++ {
			for kind := 0; kind < 2+seeds; kind++ {
				for shape := 0; shape < 2; shape++ {
					k := kind
					if k > 2 {
						k = 2
					}
					// depth-1, prefix kind, [prefix seed], workchain kind/value, hash shape (1 = all ones, 11 = pseudo-random), seed
					tape := []uint64{uint64(depth - 1), uint64(k)}
					if k == 2 {
						tape = append(tape, uint64(kind)*0x9e3779b97f4a7c15+uint64(depth))
					}
					tape = append(tape, 0, uint64(kind%6), uint64(1+10*shape), uint64(depth*1000+kind))
					if !yield(tape...) {
						return
					}
				}
			}
		}
	})
	per := core.Scale(200, 20000)
	core.RunEnum(t, shard, fmt.Sprintf("shards: every prefix length 0..63 x {all zero, all one, %d pseudo-random prefixes}", per-2), func(yield func(...uint64) bool) {
		for n := 0; n < 64; n++ {
			for i := 0; i < per; i++ {
				seed := uint64(i)
				if i >= 2 {
					seed = (uint64(n)<<32|uint64(i))*8 + 2 + uint64(i%6)
				}
				// the remaining draws (accounts, flips, extensions) are filled from a pseudo-random tape
				tape := []uint64{uint64(n), seed}
				sm := core.NewSplitMix(seed ^ 0xc17)
				for k := 0; k < 48; k++ {
					tape = append(tape, sm.Next())
				}
				if !yield(tape...) {
					return
				}
			}
		}
	})
}

func TestReplay(t *testing.T) {
	core.Replay(t, account, substitute, anycast, shard, adnl, concurrentCheck)
}

// jsonSpellings returns JSON documents that all denote the string text.
func jsonSpellings(text string) []string {
	var all strings.Builder
	for _, r := range text {
		fmt.Fprintf(&all, "\\u%04x", r)
	}
	return []string{
		`"` + strings.ReplaceAll(text, "/", `\/`) + `"`,
		`"` + all.String() + `"`,
		" \n\t\"" + text + "\" \n",
		`"` + strings.ReplaceAll(strings.ReplaceAll(text, "-", `\u002d`), "+", `\u002B`) + `"`,
	}
}
