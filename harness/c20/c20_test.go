// C20 — JSON forms of chain values parse back to the same value.
package c20

import (
	"encoding/json"
	"fmt"
	"math/big"
	"reflect"
	"sort"
	"strings"
	"testing"

	"github.com/tonkeeper/tongo/boc"
	"github.com/tonkeeper/tongo/tl"
	"github.com/tonkeeper/tongo/tlb"
	"github.com/tonkeeper/tongo/ton"

	"verifharness/internal/core"
	"verifharness/internal/gen"
	"verifharness/internal/ref"
	"verifharness/internal/tlbgen"
	"verifharness/internal/typereg"
)

func TestMain(m *testing.M) { core.Main(m, "C20") }

var (
	jsonMarshalerT   = reflect.TypeOf((*json.Marshaler)(nil)).Elem()
	jsonUnmarshalerT = reflect.TypeOf((*json.Unmarshaler)(nil)).Elem()
)

func both(t reflect.Type) bool {
	pt := reflect.PointerTo(t)
	return (t.Implements(jsonMarshalerT) || pt.Implements(jsonMarshalerT)) && (t.Implements(jsonUnmarshalerT) || pt.Implements(jsonUnmarshalerT))
}

// the set of types is computed: every registry type (plus a few from other packages) that offers both a
// JSON encoder and a JSON decoder
var types = func() []reflect.Type {
	var out []reflect.Type
	cands := append(typereg.All(),
		reflect.TypeOf(boc.Cell{}), reflect.TypeOf(boc.BitString{}), reflect.TypeOf(ton.Bits256{}), reflect.TypeOf(ton.AccountID{}), reflect.TypeOf(tl.Int256{}),
		reflect.TypeOf(tlb.Maybe[tlb.Int257]{}), reflect.TypeOf(tlb.Maybe[tlb.Bits256]{}), reflect.TypeOf(tlb.Maybe[boc.Cell]{}))
	seen := map[reflect.Type]bool{}
	for _, t := range cands {
		if both(t) && !seen[t] {
			seen[t] = true
			out = append(out, t)
		}
	}
	return out
}()

func typeName(t reflect.Type) string {
	return strings.ReplaceAll(t.String(), "github.com/tonkeeper/tongo/", "")
}

var (
	accountT   = reflect.TypeOf(ton.AccountID{})
	int256T    = reflect.TypeOf(tl.Int256{})
	msgAddrT   = reflect.TypeOf(tlb.MsgAddress{})
	magicT     = reflect.TypeOf(tlb.Magic(0))
	bigIntT    = reflect.TypeOf(big.Int{})
	bitStringT = reflect.TypeOf(boc.BitString{})
)

func genValue(c *core.Ctx, t reflect.Type) (reflect.Value, error) {
	g := &tlbgen.G{C: c}
	switch t {
	case accountT:
		a := ton.AccountID{Workchain: int32(int64(c.U64("wc")))}
		if c.Bool("wc.small") {
			a.Workchain = int32(c.Range("wc.s", -128, 127))
		}
		copy(a.Address[:], c.Content("addr", 32))
		return reflect.ValueOf(a), nil
	case bitStringT:
		n := c.OneOf("bs.len", 0, 1, 3, 4, 7, 8, 1021, 1022, 1023)
		if c.Bool("bs.rnd") {
			n = c.Range("bs.n", 0, 1023)
		}
		return reflect.ValueOf(gen.BitString(ref.Bits(c.Bits("bs.bits", n)))), nil
	case magicT:
		// as a stand-alone JSON value a Magic is just a number; zero and the extremes included
		return reflect.ValueOf(tlb.Magic(uint32([]uint64{0, 1, 0x10, 0xff, 0xffffffff, c.U64("magic")}[c.Choose("magic.k", 6)]))), nil
	case int256T:
		var x tl.Int256
		copy(x[:], c.Content("int256", 32))
		return reflect.ValueOf(x), nil
	}
	return g.Value(t, 3)
}

// excluded reports values the property text excludes, and the listed known finding.
func classify(v reflect.Value) string {
	if v.Type() != msgAddrT {
		if v.Kind() == reflect.Struct {
			// Maybe[MsgAddress] and friends
			if f := v.FieldByName("Value"); f.IsValid() && f.Type() == msgAddrT && v.FieldByName("Exists").IsValid() && v.FieldByName("Exists").Bool() {
				return classify(f)
			}
		}
		return ""
	}
	a := v.Interface().(tlb.MsgAddress)
	switch a.SumType {
	case "AddrVar":
		if a.AddrVar.AddrLen == 256 && a.AddrVar.WorkchainId >= -128 && a.AddrVar.WorkchainId <= 127 {
			return "excluded: variable address with the text of a standard one"
		}
	case "AddrExtern":
		if a.AddrExtern.BitsAvailableForRead() == 0 {
			return "extern-0-bits"
		}
	}
	return ""
}

func roundTrip(c *core.Ctx, t reflect.Type, v reflect.Value) error {
	name := typeName(t)
	cl := classify(v)
	if strings.HasPrefix(cl, "excluded") {
		c.Class(cl)
		return nil
	}
	data, err := json.Marshal(v.Interface())
	if err != nil {
		return fmt.Errorf("%s: json.Marshal: %v", name, err)
	}
	if !json.Valid(data) {
		return fmt.Errorf("%s: MarshalJSON produced invalid JSON: %s", name, trunc(string(data)))
	}
	c.Note("json", trunc(string(data)))
	out := reflect.New(t)
	if err := json.Unmarshal(data, out.Interface()); err != nil {
		return fmt.Errorf("%s: own JSON %s does not parse: %v", name, trunc(string(data)), err)
	}
	if err := tlbgen.Equal(v, out.Elem()); err != nil {
		if cl == "extern-0-bits" && c.Known("C20-msgaddress-extern-empty") {
			return nil
		}
		return fmt.Errorf("%s: JSON %s parses to a different value: %v", name, trunc(string(data)), err)
	}
	// the bytes a MarshalJSON method hands out belong to the caller: converting other values afterwards does not
	// change them
	if m, ok := v.Interface().(json.Marshaler); ok {
		first, err1 := m.MarshalJSON()
		kept := string(first)
		if other, gerr := genValue(c, t); gerr == nil && err1 == nil {
			if om, ok := other.Interface().(json.Marshaler); ok {
				for i := 0; i < 3; i++ {
					om.MarshalJSON()
				}
			}
			if string(first) != kept {
				return fmt.Errorf("%s: the bytes returned by MarshalJSON changed from %s to %s after other values of the type were converted", name, trunc(kept), trunc(string(first)))
			}
		}
	}
	// the same document parsed into a destination that held another value of the type before (a reused
	// variable, or an element of a reused slice: encoding/json hands such elements to UnmarshalJSON as they are)
	if prev, gerr := genValue(c, t); gerr == nil {
		dst := reflect.New(t)
		dst.Elem().Set(prev)
		if err := json.Unmarshal(data, dst.Interface()); err != nil {
			return fmt.Errorf("%s: own JSON %s does not parse into a used destination: %v", name, trunc(string(data)), err)
		}
		if err := tlbgen.Equal(v, dst.Elem()); err != nil {
			if cl == "extern-0-bits" && c.Known("C20-msgaddress-extern-empty") {
				return nil
			}
			pj, _ := json.Marshal(prev.Interface())
			return fmt.Errorf("%s: JSON %s parsed into a destination that held %s gives a different value: %v", name, trunc(string(data)), trunc(string(pj)), err)
		}
		c.Class("parsed into a used destination")
	}
	// big integers are structs that the library (and its users) copy by value; a copy taken after one decode must
	// not change when the variable it was copied from is the destination of the next decode
	if t.Kind() == reflect.Struct && t.ConvertibleTo(bigIntT) {
		if prev, gerr := genValue(c, t); gerr == nil {
			if pj, err := json.Marshal(prev.Interface()); err == nil {
				dst := reflect.New(t)
				if err := json.Unmarshal(data, dst.Interface()); err == nil {
					kept := reflect.New(t).Elem()
					kept.Set(dst.Elem())
					if json.Unmarshal(pj, dst.Interface()) == nil {
						if err := tlbgen.Equal(v, kept); err != nil {
							return fmt.Errorf("%s: a by-value copy of the number parsed from %s changed when %s was parsed into the variable it was copied from: %v", name, trunc(string(data)), trunc(string(pj)), err)
						}
						c.Class("by-value copy of a big integer kept across the next decode")
					}
				}
			}
		}
	}
	// the same value embedded in containers: value/pointer receiver mistakes surface here
	type wrap struct {
		X any
		L []any
		M map[string]any
	}
	st := reflect.New(reflect.StructOf([]reflect.StructField{
		{Name: "X", Type: t}, {Name: "P", Type: reflect.PointerTo(t)}, {Name: "L", Type: reflect.SliceOf(t)}, {Name: "M", Type: reflect.MapOf(reflect.TypeOf(""), t)},
	})).Elem()
	st.Field(0).Set(v)
	if string(data) != "null" { // a pointer to a value that renders as null cannot be told from a nil pointer in JSON
		p := reflect.New(t)
		p.Elem().Set(v)
		st.Field(1).Set(p)
	}
	st.Field(2).Set(reflect.Append(reflect.MakeSlice(reflect.SliceOf(t), 0, 2), v, v))
	m := reflect.MakeMap(reflect.MapOf(reflect.TypeOf(""), t))
	m.SetMapIndex(reflect.ValueOf("k"), v)
	st.Field(3).Set(m)
	data2, err := json.Marshal(st.Interface())
	if err != nil {
		return fmt.Errorf("%s inside struct/slice/pointer/map: json.Marshal: %v", name, err)
	}
	out2 := reflect.New(st.Type())
	if err := json.Unmarshal(data2, out2.Interface()); err != nil {
		return fmt.Errorf("%s inside containers: %s does not parse: %v", name, trunc(string(data2)), err)
	}
	if err := tlbgen.Equal(st, out2.Elem()); err != nil {
		if cl == "extern-0-bits" && c.Known("C20-msgaddress-extern-empty") {
			return nil
		}
		return fmt.Errorf("%s inside containers: %s parses to a different value: %v", name, trunc(string(data2)), err)
	}
	if !tlbgen.IsZero(v) {
		c.NonTrivial(name, string(data))
	}
	// malformed documents derived from the valid one: error or value, never a panic
	for i := 0; i < 6; i++ {
		mut := mutate(c, data)
		fresh := reflect.New(t)
		if perr := core.Protect(func() error { json.Unmarshal(mut, fresh.Interface()); return nil }); perr != nil {
			return fmt.Errorf("%s: UnmarshalJSON panicked on %q: %v", name, trunc(string(mut)), perr)
		}
		// direct call of the method as well: encoding/json filters syntactically invalid input before it
		if u, ok := fresh.Interface().(json.Unmarshaler); ok {
			if perr := core.Protect(func() error { u.UnmarshalJSON(mut); return nil }); perr != nil {
				return fmt.Errorf("%s: UnmarshalJSON (direct) panicked on %q: %v", name, trunc(string(mut)), perr)
			}
		}
	}
	return nil
}

func mutate(c *core.Ctx, data []byte) []byte {
	d := append([]byte{}, data...)
	switch c.Choose("jmut", 10) {
	case 0:
		return d[:c.Choose("cut", len(d)+1)]
	case 1:
		return []byte(strings.ReplaceAll(string(d), `"`, ""))
	case 2:
		return []byte(`"` + string(d) + `"`)
	case 3:
		return []byte(`1e999`)
	case 4:
		return []byte(`{"a":[[[[[[[[]]]]]]]]}`)
	case 5:
		if len(d) > 0 {
			d[c.Choose("pos", len(d))] = byte(c.Intn("val", 256))
		}
		return d
	case 6:
		return []byte(`"` + strings.Repeat("f", c.OneOf("nf", 1, 63, 64, 65, 127, 1000)) + `"`)
	case 7:
		return []byte(`"-` + strings.Trim(string(d), `"`) + `"`)
	case 8:
		return []byte(`"` + strings.Trim(string(d), `"`) + `:Anycast(99,1):x"`)
	default:
		return []byte(`null`)
	}
}

func trunc(s string) string {
	if len(s) > 300 {
		return s[:300] + "…"
	}
	return s
}

var perType = map[string]int{}

var jsonCheck = &core.Check{Name: "c20/roundtrip", Quick: 8000, Thorough: 600000, Hang: caseHang, Fn: func(c *core.Ctx) error {
	t := types[c.Choose("type", len(types))]
	c.Note("type", typeName(t))
	var v reflect.Value
	var gerr error
	if perr := core.Protect(func() error { v, gerr = genValue(c, t); return nil }); perr != nil {
		return fmt.Errorf("HARNESS: generator panicked for %s: %v", typeName(t), perr)
	}
	if gerr != nil {
		c.Class("not generated")
		return nil
	}
	perType[typeName(t)]++
	return roundTrip(c, t, v)
}}

// focused on message addresses, the one hand-written text format with several forms
var addrCheck = &core.Check{Name: "c20/msgaddress", Quick: 6000, Thorough: 400000, Hang: caseHang, Fn: func(c *core.Ctx) error {
	g := &tlbgen.G{C: c}
	v, err := g.Value(msgAddrT, 3)
	if err != nil {
		return err
	}
	for _, e := range g.Events {
		c.Class(e)
	}
	if err := roundTrip(c, msgAddrT, v); err != nil {
		return err
	}
	// a text whose workchain part is not a number in range is malformed, whatever follows the colon
	if doc, err := json.Marshal(v.Interface()); err == nil && len(doc) > 2 && doc[0] == '"' {
		text := string(doc[1 : len(doc)-1])
		if i := strings.IndexByte(text, ':'); i > 0 {
			for _, wc := range []string{"abc", "", "1O0", "2147483648", "-2147483649", text[:i] + "x", "0x10", "1e3", "+-1", " "} {
				bad := `"` + wc + text[i:] + `"`
				var dst tlb.MsgAddress
				var uerr error
				if perr := core.Protect(func() error { uerr = json.Unmarshal([]byte(bad), &dst); return nil }); perr != nil {
					return fmt.Errorf("tlb.MsgAddress: parsing the malformed document %s panicked: %v", trunc(bad), perr)
				}
				if uerr == nil {
					return fmt.Errorf("tlb.MsgAddress: the malformed document %s (workchain %q is not a number in range) was accepted as %+v", trunc(bad), wc, dst)
				}
			}
			c.Class("address text with a damaged workchain refused")
		}
	}
	return nil
}}

func pseudoTape(seed uint64, first ...uint64) []uint64 {
	sm := core.NewSplitMix(seed)
	tape := append([]uint64{}, first...)
	for i := 0; i < 300; i++ {
		tape = append(tape, sm.Next())
	}
	return tape
}

func TestProp(t *testing.T) {
	t.Run("roundtrip", func(t *testing.T) { core.Run(t, jsonCheck) })
	t.Run("msgaddress", func(t *testing.T) { core.Run(t, addrCheck) })
}

func TestEnum(t *testing.T) {
	per := core.Scale(12, 400)
	core.RunEnum(t, jsonCheck, fmt.Sprintf("every type with both JSON directions (%d types) x %d pseudo-random values each", len(types), per), func(yield func(...uint64) bool) {
		for ti := range types {
			for k := 0; k < per; k++ {
				if !yield(pseudoTape(core.Seed()*7919+uint64(ti)*977+uint64(k), uint64(ti))...) {
					return
				}
			}
		}
	})
	var names []string
	for _, t := range types {
		names = append(names, typeName(t))
	}
	sort.Strings(names)
	core.Extra("c20/roundtrip", "types_with_both_json_directions", len(types))
	core.Extra("c20/roundtrip", "types_that_received_values", len(perType))
	var other []string
	for _, n := range names {
		if !strings.HasPrefix(n, "tlb.Uint") && !strings.HasPrefix(n, "tlb.Int") && !strings.HasPrefix(n, "tlb.VarUInteger") && !strings.HasPrefix(n, "tlb.Bits") {
			other = append(other, n)
		}
	}
	core.Extra("c20/roundtrip", "non_integer_types", other)
}

func TestReplay(t *testing.T) {
	core.Replay(t, jsonCheck, addrCheck, envelopeCheck, concurrentCheck, cellHistory, bitStringCapacity)
}
