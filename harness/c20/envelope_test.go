package c20

import (
	"encoding/json"
	"fmt"
	"reflect"
	"sort"
	"testing"

	"github.com/tonkeeper/tongo/abi"
	"github.com/tonkeeper/tongo/boc"

	"verifharness/internal/core"
	"verifharness/internal/tlbgen"
)

// c20/envelope: the JSON envelope of message bodies (abi.InMsgBody / abi.ExtOutMsgBody: operation name, optional
// operation code, value). The envelope must hand back the operation name, the operation code exactly as it was
// (absent stays absent, 0 stays 0) and the value. Values of the registered body types are ordinary structs with
// the default JSON mapping; whether such a struct survives JSON on its own is not the envelope's business, so
// the value is compared only when it survives a JSON round trip outside the envelope.

type envKind struct {
	name string
	typ  reflect.Type
}

func sortedKinds(m map[string]any) []envKind {
	var out []envKind
	for n, v := range m {
		out = append(out, envKind{n, reflect.TypeOf(v)})
	}
	sort.Slice(out, func(i, j int) bool { return out[i].name < out[j].name })
	return out
}

var (
	inKinds  = sortedKinds(abi.KnownMsgInTypes)
	outKinds = sortedKinds(abi.KnownMsgExtOutTypes)
)

func drawOpCode(c *core.Ctx, label string) *uint32 {
	switch c.Weighted(label+".k", 2, 3, 2, 3) {
	case 0:
		return nil
	case 1:
		v := uint32(0)
		return &v
	case 2:
		v := uint32(c.OneOf(label+".b", 1, 0x7fffffff, 0x80000000, 0xffffffff))
		return &v
	}
	v := uint32(c.U64(label + ".v"))
	return &v
}

func sameOp(a, b *uint32) bool {
	if a == nil || b == nil {
		return a == nil && b == nil
	}
	return *a == *b
}

func showOp(p *uint32) string {
	if p == nil {
		return "absent"
	}
	return fmt.Sprint(*p)
}

var envelopeCheck = &core.Check{Name: "c20/envelope", Quick: 1500, Thorough: 150000, Hang: caseHang, Fn: func(c *core.Ctx) error {
	out := c.Bool("ext-out")
	kinds := inKinds
	if out {
		kinds = outKinds
	}
	what := "abi.InMsgBody"
	if out {
		what = "abi.ExtOutMsgBody"
	}
	var sumType string
	var value any
	var valueType reflect.Type
	op := drawOpCode(c, "opcode")
	switch k := c.Weighted("kind", 1, 3, 8); k {
	case 0:
		sumType, op = abi.EmptyMsgOp, nil
		c.Class("empty body")
	case 1:
		sumType = abi.UnknownMsgOp
		g := &tlbgen.G{C: c}
		cv, err := g.Value(reflect.TypeOf(boc.Cell{}), 2)
		if err != nil {
			return fmt.Errorf("HARNESS: %v", err)
		}
		cell := cv.Interface().(boc.Cell)
		value = &cell
		c.Class("unknown operation (cell)")
		if c.Intn("looked", 3) == 0 {
			// the caller looked into the body before (at its operation code, at all bits, at a reference): the
			// JSON form is that of the body, not of what the caller has not read yet
			switch c.Choose("looked.how", 3) {
			case 0:
				_, _ = cell.ReadUint(min(32, cell.BitsAvailableForRead()))
			case 1:
				_, _ = cell.ReadBits(cell.BitsAvailableForRead())
			case 2:
				_, _ = cell.ReadBit()
				_, _ = cell.NextRef()
			}
			c.Class("unknown operation (cell) that the caller read from before")
		}
	default:
		if len(kinds) == 0 {
			return nil
		}
		kd := kinds[c.Choose("type", len(kinds))]
		g := &tlbgen.G{C: c}
		var v reflect.Value
		var gerr error
		if perr := core.Protect(func() error { v, gerr = g.Value(kd.typ, 3); return nil }); perr != nil || gerr != nil {
			c.Class("value not generated")
			return nil
		}
		sumType, value, valueType = kd.name, v.Interface(), kd.typ
		c.Class("registered operation")
	}
	c.Note("envelope", what)
	c.Note("operation", sumType)
	c.Note("opcode", showOp(op))

	// does the value survive JSON on its own?
	valueComparable := false
	if valueType != nil {
		if raw, err := json.Marshal(value); err == nil {
			alone := reflect.New(valueType)
			if json.Unmarshal(raw, alone.Interface()) == nil && tlbgen.Equal(reflect.ValueOf(value), alone.Elem()) == nil {
				valueComparable = true
			}
		}
		if !valueComparable {
			c.Class("value does not survive JSON on its own (not compared)")
		}
	}

	var data []byte
	var err error
	if out {
		data, err = json.Marshal(abi.ExtOutMsgBody{SumType: sumType, OpCode: op, Value: value})
	} else {
		data, err = json.Marshal(abi.InMsgBody{SumType: sumType, OpCode: op, Value: value})
	}
	if err != nil {
		if valueType != nil && !valueComparable {
			return nil // the value itself has no JSON form
		}
		return fmt.Errorf("%s{%s, opcode %s}: json.Marshal: %v", what, sumType, showOp(op), err)
	}
	if !json.Valid(data) {
		return fmt.Errorf("%s{%s, opcode %s}: MarshalJSON produced invalid JSON: %s", what, sumType, showOp(op), trunc(string(data)))
	}
	c.Note("json", trunc(string(data)))
	// the bytes MarshalJSON hands out belong to the caller: converting other bodies afterwards does not change them
	{
		var direct []byte
		var derr error
		if out {
			direct, derr = abi.ExtOutMsgBody{SumType: sumType, OpCode: op, Value: value}.MarshalJSON()
		} else {
			direct, derr = abi.InMsgBody{SumType: sumType, OpCode: op, Value: value}.MarshalJSON()
		}
		if derr == nil {
			kept := string(direct)
			other := boc.NewCell()
			_ = other.WriteUint(0x0123456789abcdef, 64)
			nine := uint32(9)
			for i := 0; i < 3; i++ {
				_, _ = abi.InMsgBody{SumType: abi.UnknownMsgOp, OpCode: &nine, Value: other}.MarshalJSON()
				_, _ = abi.ExtOutMsgBody{SumType: abi.UnknownMsgOp, OpCode: &nine, Value: other}.MarshalJSON()
			}
			if string(direct) != kept {
				return fmt.Errorf("%s: the bytes returned by MarshalJSON changed from %s to %s after other bodies were converted", what, trunc(kept), trunc(string(direct)))
			}
		}
	}
	if op != nil && *op == 0 {
		c.Class("operation code 0")
	}
	c.NonTrivial(what, string(data))

	for _, used := range []bool{false, true} {
		var gotSum string
		var gotOp *uint32
		var gotValue any
		if out {
			var back abi.ExtOutMsgBody
			if used {
				seven := uint32(7)
				back = abi.ExtOutMsgBody{SumType: "Stale", OpCode: &seven, Value: 1}
			}
			err = json.Unmarshal(data, &back)
			gotSum, gotOp, gotValue = back.SumType, back.OpCode, back.Value
		} else {
			var back abi.InMsgBody
			if used {
				seven := uint32(7)
				back = abi.InMsgBody{SumType: "Stale", OpCode: &seven, Value: 1}
			}
			err = json.Unmarshal(data, &back)
			gotSum, gotOp, gotValue = back.SumType, back.OpCode, back.Value
		}
		into := ""
		if used {
			into = " into a used variable"
		}
		if err != nil {
			if valueType != nil && !valueComparable {
				continue
			}
			return fmt.Errorf("%s: own JSON %s does not parse%s: %v", what, trunc(string(data)), into, err)
		}
		if gotSum != sumType {
			return fmt.Errorf("%s: JSON %s parses%s to operation %q, want %q", what, trunc(string(data)), into, gotSum, sumType)
		}
		if !sameOp(gotOp, op) {
			return fmt.Errorf("%s: JSON %s parses%s to operation code %s, the value had %s", what, trunc(string(data)), into, showOp(gotOp), showOp(op))
		}
		switch {
		case sumType == abi.EmptyMsgOp:
		case sumType == abi.UnknownMsgOp:
			gc, ok := gotValue.(*boc.Cell)
			if !ok {
				return fmt.Errorf("%s: JSON %s parses%s to a %T value, want *boc.Cell", what, trunc(string(data)), into, gotValue)
			}
			if a, b := tlbgen.CellKey(gc), tlbgen.CellKey(value.(*boc.Cell)); a != b {
				return fmt.Errorf("%s: JSON %s parses%s to cell %s, the value had cell %s", what, trunc(string(data)), into, a, b)
			}
		case valueComparable:
			gv := reflect.ValueOf(gotValue)
			if !gv.IsValid() || gv.Type() != valueType {
				return fmt.Errorf("%s: JSON %s parses%s to a %T value, want %v", what, trunc(string(data)), into, gotValue, valueType)
			}
			if err := tlbgen.Equal(reflect.ValueOf(value), gv); err != nil {
				return fmt.Errorf("%s: JSON %s parses%s to a different value: %v", what, trunc(string(data)), into, err)
			}
			c.Class("value compared")
		}
	}

	// malformed documents: error or value, never a panic
	for i := 0; i < 4; i++ {
		mut := mutate(c, data)
		perr := core.Protect(func() error {
			if out {
				var b abi.ExtOutMsgBody
				json.Unmarshal(mut, &b)
				b.UnmarshalJSON(mut)
			} else {
				var b abi.InMsgBody
				json.Unmarshal(mut, &b)
				b.UnmarshalJSON(mut)
			}
			return nil
		})
		if perr != nil {
			return fmt.Errorf("%s: UnmarshalJSON panicked on %q: %v", what, trunc(string(mut)), perr)
		}
	}
	return nil
}}

func TestEnvelope(t *testing.T) {
	core.Run(t, envelopeCheck)
	core.Extra(envelopeCheck.Name, "registered_internal_operations", len(inKinds))
	core.Extra(envelopeCheck.Name, "registered_external_out_operations", len(outKinds))
}
