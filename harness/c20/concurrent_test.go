package c20

import (
	"encoding/json"
	"fmt"
	"reflect"
	"testing"

	"verifharness/internal/core"
	"verifharness/internal/tlbgen"
)

// c20/concurrent: 2..16 goroutines, each with values of its own, convert them to JSON and back at the same
// time and must get the documents and values a single goroutine got beforehand.
var concurrentCheck = &core.Check{Name: "c20/concurrent", Quick: 2, Thorough: 200, Fn: func(c *core.Ctx) error {
	workers := c.OneOf("goroutines", 2, 4, 8, 16)
	rounds := c.Range("rounds", 50, 300)
	procs := c.OneOf("gomaxprocs", 2, 4, 16)
	const per = 8
	type item struct {
		t    reflect.Type
		v    reflect.Value
		json string
	}
	sets := make([][]item, workers)
	tries := 0
	for w := range sets {
		for len(sets[w]) < per {
			tries++
			if tries > 100*workers*per {
				return fmt.Errorf("HARNESS: too few values with a JSON form")
			}
			t := types[c.Choose("type", len(types))]
			v, err := genValue(c, t)
			if err != nil || classify(v) == "extern-0-bits" {
				continue
			}
			data, err := json.Marshal(v.Interface())
			if err != nil {
				continue
			}
			back := reflect.New(t)
			if json.Unmarshal(data, back.Interface()) != nil || tlbgen.Equal(v, back.Elem()) != nil {
				continue // judged by c20/roundtrip
			}
			sets[w] = append(sets[w], item{t: t, v: v, json: string(data)})
		}
	}
	c.Note("goroutines", workers)
	c.Note("rounds", rounds)
	c.NonTrivial(workers, rounds, procs, sets[0][0].json)
	return core.Parallel(workers, rounds, procs, func(w, r int) error {
		it := sets[w][r%per]
		data, err := json.Marshal(it.v.Interface())
		if err != nil || string(data) != it.json {
			return fmt.Errorf("%s: json.Marshal gives %s (%v), on one goroutine it gave %s", typeName(it.t), trunc(string(data)), err, trunc(it.json))
		}
		back := reflect.New(it.t)
		if err := json.Unmarshal([]byte(it.json), back.Interface()); err != nil {
			return fmt.Errorf("%s: JSON %s does not parse (%v); on one goroutine it did", typeName(it.t), trunc(it.json), err)
		}
		if err := tlbgen.Equal(it.v, back.Elem()); err != nil {
			return fmt.Errorf("%s: JSON %s parses to another value: %v", typeName(it.t), trunc(it.json), err)
		}
		return nil
	})
}}

func TestConcurrent(t *testing.T) { core.Run(t, concurrentCheck) }
