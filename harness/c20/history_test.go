package c20

import (
	"bytes"
	"encoding/json"
	"fmt"
	"testing"
	"time"

	"github.com/tonkeeper/tongo/boc"
	"github.com/tonkeeper/tongo/tlb"

	"verifharness/internal/core"
	"verifharness/internal/gen"
	"verifharness/internal/ref"
)

// c20/cell-history: the JSON form of a cell is that of the tree as it is when MarshalJSON is called. A tree
// built in memory is converted, then one of its cells gets more bits or another child, and it is converted
// again (other trees are converted in between): every document parses back to the tree of its moment - also
// when the tree holds another cell that still looks like the changed cell looked before.
var cellHistory = &core.Check{Name: "c20/cell-history", Quick: 600, Thorough: 60000, Hang: caseHang, Fn: func(c *core.Ctx) error {
	mk := func(bits ref.Bits) *boc.Cell {
		x := boc.NewCell()
		_ = x.WriteBitString(gen.BitString(bits))
		return x
	}
	nkids := c.Range("kids", 2, 4)
	base := ref.Bits(c.Bits("base", c.Range("base.n", 0, 200)))
	rootBits := ref.Bits(c.Bits("root", c.Range("root.n", 0, 100)))
	root := mk(rootBits)
	kidBits := make([]ref.Bits, nkids)
	kids := make([]*boc.Cell, nkids)
	for i := range kids {
		kidBits[i] = base.Clone() // twins at first: distinct objects with the same content
		if c.Intn("distinct", 4) == 0 {
			kidBits[i] = append(kidBits[i], c.Bool("distinct.bit"))
		}
		kids[i] = mk(kidBits[i])
		if err := root.AddRef(kids[i]); err != nil {
			return fmt.Errorf("HARNESS: %v", err)
		}
	}
	image := func() *ref.RCell {
		var rk []*ref.RCell
		for _, b := range kidBits {
			rk = append(rk, ref.NewRCell(b, false))
		}
		return ref.NewRCell(rootBits, false, rk...)
	}
	convert := func(when string) error {
		var doc []byte
		var err error
		switch c.Choose("how", 3) {
		case 0:
			doc, err = root.MarshalJSON()
		case 1:
			doc, err = json.Marshal(root)
		default:
			doc, err = json.Marshal(struct{ A, B *boc.Cell }{root, kids[0]})
			if err == nil {
				var back struct{ A, B boc.Cell }
				if err := json.Unmarshal(doc, &back); err != nil {
					return fmt.Errorf("%s: own JSON %s does not parse: %v", when, trunc(string(doc)), err)
				}
				ha, _ := back.A.Hash()
				if w := image().ReprHash(); !bytes.Equal(ha, w) {
					return fmt.Errorf("%s: the JSON of the tree (inside a struct) parses back to a cell with hash %x, the tree hashes to %x", when, ha, w)
				}
				return nil
			}
		}
		if err != nil {
			return fmt.Errorf("%s: MarshalJSON: %v", when, err)
		}
		var back boc.Cell
		if err := json.Unmarshal(doc, &back); err != nil {
			return fmt.Errorf("%s: own JSON %s does not parse: %v", when, trunc(string(doc)), err)
		}
		h, _ := back.Hash()
		if w := image().ReprHash(); !bytes.Equal(h, w) {
			return fmt.Errorf("%s: the JSON %s parses back to a cell with hash %x, the tree hashes to %x", when, trunc(string(doc)), h, w)
		}
		return nil
	}
	if err := convert("fresh tree"); err != nil {
		return err
	}
	// the same tree held as a tlb.Any that the caller has looked into (its operation code, all bits, a
	// reference): the JSON form is that of the value, not of what has not been read yet
	{
		a := tlb.Any(*root)
		ac := (*boc.Cell)(&a)
		switch c.Choose("any.read", 4) {
		case 1:
			_, _ = ac.ReadUint(min(32, ac.BitsAvailableForRead()))
		case 2:
			_, _ = ac.ReadBits(ac.BitsAvailableForRead())
		case 3:
			_, _ = ac.ReadBit()
			_, _ = ac.NextRef()
		}
		doc, err := json.Marshal(a)
		if err != nil {
			return fmt.Errorf("json.Marshal of a tlb.Any: %v", err)
		}
		var back tlb.Any
		if err := json.Unmarshal(doc, &back); err != nil {
			return fmt.Errorf("tlb.Any: own JSON %s does not parse: %v", trunc(string(doc)), err)
		}
		bc := boc.Cell(back)
		bc.ResetCounters()
		h, _ := bc.Hash()
		if w := image().ReprHash(); !bytes.Equal(h, w) {
			return fmt.Errorf("a tlb.Any that was partly read before (mode %d): its JSON %s parses back to a cell with hash %x, the value hashes to %x", c.Choose("any.read.again", 1), trunc(string(doc)), h, w)
		}
	}
	steps := c.Range("steps", 1, 4)
	for s := 1; s <= steps; s++ {
		i := c.Choose("which", nkids)
		add := ref.Bits(c.Bits("add", c.Range("add.n", 1, 64)))
		if err := kids[i].WriteBitString(gen.BitString(add)); err != nil {
			return fmt.Errorf("HARNESS: %v", err)
		}
		kidBits[i] = append(kidBits[i], add...)
		if c.Bool("between") { // another tree goes through the encoder in between
			if _, err := json.Marshal(mk(ref.Bits(c.Bits("other", 40)))); err != nil {
				return fmt.Errorf("HARNESS: %v", err)
			}
		}
		if err := convert(fmt.Sprintf("after change %d (child %d got %d more bits)", s, i, len(add))); err != nil {
			return err
		}
	}
	c.NonTrivial(image().ReprHash())
	return nil
}}

func TestCellHistory(t *testing.T) { core.Run(t, cellHistory) }

// caseHang: a conversion to or from JSON is microseconds of computation; one that is still running after a
// minute does not come to an end.
const caseHang = 60 * time.Second

// c20/bitstring-capacity: a bit string is more than its bits - it has a capacity, and the writers leave spare
// room in it (a builder of 10 bits that holds 9, a cell of 1023 bits that holds 1021). Its JSON form is a
// function of the bits written: every (capacity, length) pair converts, and converts back to the same bits.
// tape: capacity 0..1030 region, spare bits 0..9, content seed.
var bitStringCapacity = &core.Check{Name: "c20/bitstring-capacity", Hang: caseHang, Fn: func(c *core.Ctx) error {
	length := c.Intn("len", 1100)
	spare := c.Intn("spare", 10)
	sm := core.NewSplitMix(c.U64("seed"))
	bs := boc.NewBitString(length + spare)
	want := make(ref.Bits, length)
	for i := range want {
		want[i] = sm.Next()&1 == 1
		_ = bs.WriteBit(want[i])
	}
	c.NonTrivial(length, spare)
	doc, err := json.Marshal(bs)
	if err != nil {
		return fmt.Errorf("json.Marshal of a bit string with %d bits written and %d spare: %v", length, spare, err)
	}
	if wantDoc := `"` + want.FiftHex() + `"`; string(doc) != wantDoc {
		return fmt.Errorf("a bit string with %d bits written and %d spare converts to %s, the bits are %s", length, spare, trunc(string(doc)), trunc(wantDoc))
	}
	var back boc.BitString
	if err := json.Unmarshal(doc, &back); err != nil {
		return fmt.Errorf("own JSON %s does not parse: %v", trunc(string(doc)), err)
	}
	if back.BitsAvailableForRead() != length || back.ToFiftHex() != want.FiftHex() {
		return fmt.Errorf("JSON %s of a bit string with %d bits parses back to %d bits %s", trunc(string(doc)), length, back.BitsAvailableForRead(), trunc(back.ToFiftHex()))
	}
	return nil
}}

func TestBitStringCapacity(t *testing.T) {
	core.RunEnum(t, bitStringCapacity, "bit strings of 0..40 and 1000..1030 bits x 0..9 spare bits of capacity", func(yield func(...uint64) bool) {
		for _, r := range [][2]int{{0, 40}, {1000, 1030}} {
			for n := r[0]; n <= r[1]; n++ {
				for spare := 0; spare < 10; spare++ {
					if !yield(uint64(n), uint64(spare), uint64(n*31+spare)) {
						return
					}
				}
			}
		}
	})
}
