package c20

import (
	"bytes"
	"encoding/json"
	"fmt"
	"testing"

	"github.com/tonkeeper/tongo/boc"

	"verifharness/internal/core"
	"verifharness/internal/gen"
	"verifharness/internal/ref"
)

// c20/cell-history: the JSON form of a cell is that of the tree as it is when MarshalJSON is called. A tree
// built in memory is converted, then one of its cells gets more bits or another child, and it is converted
// again (other trees are converted in between): every document parses back to the tree of its moment - also
// when the tree holds another cell that still looks like the changed cell looked before.
var cellHistory = &core.Check{Name: "c20/cell-history", Quick: 600, Thorough: 60000, Fn: func(c *core.Ctx) error {
	mk := func(bits ref.Bits) *boc.Cell {
		x := boc.NewCell()
		_ = x.WriteBitString(gen.BitString(bits))
		return x
	}
	nkids := c.Range("kids", 2, 4)
	base := ref.Bits(c.Bits("base", c.Range("base.n", 0, 200)))
	rootBits := ref.Bits(c.Bits("root", c.Range("root.n", 0, 100)))
	root := mk(rootBits)
	kidBits := make([]ref.Bits, nkids)
	kids := make([]*boc.Cell, nkids)
	for i := range kids {
		kidBits[i] = base.Clone() // twins at first: distinct objects with the same content
		if c.Intn("distinct", 4) == 0 {
			kidBits[i] = append(kidBits[i], c.Bool("distinct.bit"))
		}
		kids[i] = mk(kidBits[i])
		if err := root.AddRef(kids[i]); err != nil {
			return fmt.Errorf("HARNESS: %v", err)
		}
	}
	image := func() *ref.RCell {
		var rk []*ref.RCell
		for _, b := range kidBits {
			rk = append(rk, ref.NewRCell(b, false))
		}
		return ref.NewRCell(rootBits, false, rk...)
	}
	convert := func(when string) error {
		var doc []byte
		var err error
		switch c.Choose("how", 3) {
		case 0:
			doc, err = root.MarshalJSON()
		case 1:
			doc, err = json.Marshal(root)
		default:
			doc, err = json.Marshal(struct{ A, B *boc.Cell }{root, kids[0]})
			if err == nil {
				var back struct{ A, B boc.Cell }
				if err := json.Unmarshal(doc, &back); err != nil {
					return fmt.Errorf("%s: own JSON %s does not parse: %v", when, trunc(string(doc)), err)
				}
				ha, _ := back.A.Hash()
				if w := image().ReprHash(); !bytes.Equal(ha, w) {
					return fmt.Errorf("%s: the JSON of the tree (inside a struct) parses back to a cell with hash %x, the tree hashes to %x", when, ha, w)
				}
				return nil
			}
		}
		if err != nil {
			return fmt.Errorf("%s: MarshalJSON: %v", when, err)
		}
		var back boc.Cell
		if err := json.Unmarshal(doc, &back); err != nil {
			return fmt.Errorf("%s: own JSON %s does not parse: %v", when, trunc(string(doc)), err)
		}
		h, _ := back.Hash()
		if w := image().ReprHash(); !bytes.Equal(h, w) {
			return fmt.Errorf("%s: the JSON %s parses back to a cell with hash %x, the tree hashes to %x", when, trunc(string(doc)), h, w)
		}
		return nil
	}
	if err := convert("fresh tree"); err != nil {
		return err
	}
	steps := c.Range("steps", 1, 4)
	for s := 1; s <= steps; s++ {
		i := c.Choose("which", nkids)
		add := ref.Bits(c.Bits("add", c.Range("add.n", 1, 64)))
		if err := kids[i].WriteBitString(gen.BitString(add)); err != nil {
			return fmt.Errorf("HARNESS: %v", err)
		}
		kidBits[i] = append(kidBits[i], add...)
		if c.Bool("between") { // another tree goes through the encoder in between
			if _, err := json.Marshal(mk(ref.Bits(c.Bits("other", 40)))); err != nil {
				return fmt.Errorf("HARNESS: %v", err)
			}
		}
		if err := convert(fmt.Sprintf("after change %d (child %d got %d more bits)", s, i, len(add))); err != nil {
			return err
		}
	}
	c.NonTrivial(image().ReprHash())
	return nil
}}

func TestCellHistory(t *testing.T) { core.Run(t, cellHistory) }
