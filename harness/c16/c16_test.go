// C16 — message and transaction identity hashes match their source cells.
package c16

import (
	"bytes"
	"fmt"
	"math/big"
	"os"
	"path/filepath"
	"reflect"
	"testing"

	"github.com/tonkeeper/tongo/boc"
	"github.com/tonkeeper/tongo/tlb"

	"verifharness/internal/core"
	"verifharness/internal/gen"
	"verifharness/internal/realdata"
	"verifharness/internal/ref"
	"verifharness/internal/tlbgen"
	"verifharness/internal/tlbref"
)

func TestMain(m *testing.M) { core.Main(m, "C16") }

func drawAddr(c *core.Ctx, label string, kinds ...int) tlbref.Addr {
	k := kinds[c.Choose(label+".kind", len(kinds))]
	a := tlbref.Addr{Kind: k}
	switch k {
	case 1:
		a.Ext = ref.Bits(c.Bits(label+".ext", c.OneOf(label+".elen", 0, 1, 8, 64, 255, 511)))
	case 2:
		if c.Intn(label+".any", 4) == 0 {
			d := c.Range(label+".depth", 1, 30)
			a.Anycast = &tlbref.Anycast{Depth: d, Prefix: c.U64(label+".pfx") & (1<<uint(d) - 1)}
		}
		a.WC = int32(int8(c.U64(label + ".wc")))
		copy(a.Hash[:], c.Content(label+".hash", 32))
	case 3:
		if c.Intn(label+".vany", 4) == 0 {
			d := c.Range(label+".vdepth", 1, 30)
			a.Anycast = &tlbref.Anycast{Depth: d, Prefix: c.U64(label+".vpfx") & (1<<uint(d) - 1)}
		}
		a.Ext = ref.Bits(c.Bits(label+".var", c.OneOf(label+".vlen", 1, 64, 256, 300)))
		a.WC = int32(c.U64(label + ".wc32"))
	}
	return a
}

func drawGrams(c *core.Ctx, label string) *big.Int {
	if c.Bool(label + ".zero") {
		return new(big.Int)
	}
	return new(big.Int).SetUint64(c.U64(label + ".v"))
}

func smallCell(c *core.Ctx, label string, depth int) *ref.RCell {
	n := c.OneOf(label+".bits", 0, 1, 7, 8, 32, 33, 100)
	var refs []*ref.RCell
	if depth > 0 {
		for i := c.Weighted(label+".refs", 5, 2, 1); i > 0; i-- {
			refs = append(refs, smallCell(c, label+".r", depth-1))
		}
		if c.Intn(label+".pruned", 8) == 0 {
			// a record taken out of a Merkle proof: a pruned branch below it, so the cell has level 1 and its
			// representation hash is not its level-0 hash
			pb := ref.Bits{}.AppendUint(1, 8).AppendUint(1, 8).AppendBytes(c.Content(label+".pruned.hash", 32)).AppendUint(uint64(c.Intn(label+".pruned.depth", 100)), 16)
			refs = append(refs, ref.NewRCell(pb, true))
			c.Class("record with a pruned branch below it (level 1)")
		}
	}
	return ref.NewRCell(ref.Bits(c.Bits(label+".data", n)), false, refs...)
}

func drawInit(c *core.Ctx, label string) *tlbref.StateInit {
	var si tlbref.StateInit
	if c.Bool(label + ".split") {
		d := uint8(c.Intn(label+".splitv", 32))
		si.SplitDepth = &d
	}
	if c.Bool(label + ".code") {
		si.Code = smallCell(c, label+".codec", 1)
	}
	if c.Bool(label + ".data") {
		si.Data = smallCell(c, label+".datac", 1)
	}
	return &si
}

// decodeAllWays decodes the reference cell as a Message three ways and returns the reported hashes.
func decodeAllWays(cell *ref.RCell, shared *tlb.Decoder) (plain, cached, reused tlb.Message, err error) {
	data := ref.SerializeBOC([]*ref.RCell{cell}, ref.BocVariant{})
	for i, dst := range []*tlb.Message{&plain, &cached, &reused} {
		cells, e := boc.DeserializeBoc(data)
		if e != nil {
			return plain, cached, reused, fmt.Errorf("HARNESS: %v", e)
		}
		switch i {
		case 0:
			e = tlb.Unmarshal(cells[0], dst)
		case 1:
			e = tlb.NewDecoder().Unmarshal(cells[0], dst)
		default:
			e = shared.Unmarshal(cells[0], dst)
		}
		if e != nil {
			return plain, cached, reused, fmt.Errorf("decoding a schema-conforming message failed (way %d): %v", i, e)
		}
		if i == 2 {
			// the same cell object met a second time by the same decoder (its hasher has seen every cell of it)
			resetTree(cells[0])
			var again tlb.Message
			if e := shared.Unmarshal(cells[0], &again); e != nil {
				return plain, cached, reused, fmt.Errorf("decoding the same message cell a second time with the same decoder failed: %v", e)
			}
			if a, b := again.Hash(false), reused.Hash(false); a != b {
				return plain, cached, reused, fmt.Errorf("the same message cell decoded twice by one decoder: Hash(false) %x the first time, %x the second time (cell hash %x)", b, a, cell.ReprHash())
			}
		}
	}
	return
}

func resetTree(c *boc.Cell) {
	c.ResetCounters()
	for _, r := range c.Refs() {
		resetTree(r)
	}
}

var sharedDecoder = tlb.NewDecoder()

func msgCell(m tlbref.Message) (*ref.RCell, bool) {
	var b tlbref.B
	b.Message(m)
	return b.Cell(), b.Fits()
}

var messageCheck = &core.Check{Name: "c16/message", Quick: 3000, Thorough: 250000, Fn: func(c *core.Ctx) error {
	var m tlbref.Message
	kind := c.Choose("kind", 3)
	m.Info.Kind = kind
	switch kind {
	case 0:
		m.Info.Src, m.Info.Dest = drawAddr(c, "src", 0, 2, 3), drawAddr(c, "dst", 2, 3)
		m.Info.IhrDisabled, m.Info.Bounce, m.Info.Bounced = c.Bool("ihr"), c.Bool("bounce"), c.Bool("bounced")
		m.Info.Value, m.Info.IhrFee, m.Info.FwdFee = drawGrams(c, "value"), drawGrams(c, "ihrfee"), drawGrams(c, "fwdfee")
		m.Info.CreatedLt, m.Info.CreatedAt = c.U64("lt"), uint32(c.U64("at"))
	case 1:
		m.Info.Src, m.Info.Dest = drawAddr(c, "src", 0, 1), drawAddr(c, "dst", 2, 2, 2, 3)
		m.Info.ImportFee = drawGrams(c, "importfee")
	case 2:
		m.Info.Src, m.Info.Dest = drawAddr(c, "src", 2, 3), drawAddr(c, "dst", 0, 1)
		m.Info.CreatedLt, m.Info.CreatedAt = c.U64("lt"), uint32(c.U64("at"))
	}
	if c.Bool("init") {
		m.Init, m.InitInRef = drawInit(c, "init"), c.Bool("initref")
	}
	m.Body, m.BodyInRef = smallCell(c, "body", 1), c.Bool("bodyref")
	cell, fits := msgCell(m)
	if !fits {
		// move the big parts into references and try again
		m.InitInRef, m.BodyInRef = true, true
		if cell, fits = msgCell(m); !fits {
			c.Class("does not fit")
			return nil
		}
	}
	want := cell.ReprHash()
	c.Note("kind", []string{"internal", "external-in", "external-out"}[kind])
	c.Note("cell_hash", fmt.Sprintf("%x", want))
	plain, cached, reused, err := decodeAllWays(cell, sharedDecoder)
	if err != nil {
		return err
	}
	for i, dm := range []*tlb.Message{&plain, &cached, &reused} {
		h := dm.Hash(false)
		if !bytes.Equal(h[:], want) {
			return fmt.Errorf("Message.Hash(false) = %x, the cell it was decoded from hashes to %x (decoder variant %d)", h, want, i)
		}
	}
	if m.Init != nil || !m.BodyInRef {
		c.NonTrivial(want)
	}
	c.Class([]string{"internal", "external-in", "external-out"}[kind])
	if err := reuseVariable(c, m, cell, &plain); err != nil {
		return err
	}
	if kind != 1 {
		hn := plain.Hash(true)
		if !bytes.Equal(hn[:], want) {
			return fmt.Errorf("Hash(true) of a message that is not external-in = %x, Hash(false) = %x", hn, want)
		}
		return nil
	}
	// normalised hash of an external-in message
	norm := plain.Hash(true)
	canonical := tlbref.Message{Info: tlbref.MsgInfo{Kind: 1, Src: tlbref.Addr{Kind: 0}, Dest: m.Info.Dest, ImportFee: new(big.Int)}, Body: m.Body, BodyInRef: true}
	// standard destinations without anycast and variable-length destinations are kept as they are by the
	// canonical form (anycast of a standard destination is dropped by the library: compared by class only)
	exact := (m.Info.Dest.Kind == 2 && m.Info.Dest.Anycast == nil) || m.Info.Dest.Kind == 3
	if exact && m.Body.Level() > 0 {
		// a body with a pruned branch below it: the library hashes the re-encoding it builds in memory at level 0
		// (the hash the unpruned message would have); which of the two hashes "the" normalised hash of a partly
		// pruned message is, the property does not say - not judged, only the class rules below
		exact = false
		c.Class("canonical form of a partly pruned message not compared")
	}
	if exact {
		cc, _ := msgCell(canonical)
		if !bytes.Equal(norm[:], cc.ReprHash()) {
			return fmt.Errorf("normalised hash %x differs from the hash %x of the canonical re-encoding (src none, same dest, fee 0, no init, body in a ref)", norm, cc.ReprHash())
		}
		c.Class("canonical form compared")
	}
	// a caller that looks at the variable-length destination of the decoded message (reading moves the read
	// position of that bit string, nothing else) has not changed the message: same normalised hash afterwards
	if info := plain.Info.ExtInMsgInfo; info != nil && info.Dest.AddrVar != nil {
		a := &info.Dest.AddrVar.Address
		switch c.Choose("look", 3) {
		case 0:
			_, _ = a.ReadBit()
		case 1:
			_, _ = a.ReadUint(min(64, a.BitsAvailableForRead()))
		case 2:
			_, _ = a.ReadBits(a.BitsAvailableForRead())
		}
		if h := plain.Hash(true); h != norm {
			return fmt.Errorf("normalised hash changed (%x -> %x) after the caller read bits of the decoded addr_var destination", norm, h)
		}
		c.Class("variable-length destination read before the normalised hash was asked again")
	}
	// equivalence class: the ignored parts vary, the normalised hash must not
	members := 0
	for i := 0; i < 4; i++ {
		v := m
		v.Info.Src = drawAddr(c, "v.src", 0, 1)
		v.Info.ImportFee = drawGrams(c, "v.fee")
		v.Init, v.InitInRef = nil, false
		if c.Bool("v.init") {
			v.Init, v.InitInRef = drawInit(c, "v.initv"), c.Bool("v.initref")
		}
		v.BodyInRef = c.Bool("v.bodyref")
		vc, fits := msgCell(v)
		if !fits {
			continue
		}
		vp, _, _, err := decodeAllWays(vc, sharedDecoder)
		if err != nil {
			return err
		}
		vh := vp.Hash(true)
		if vh != norm {
			return fmt.Errorf("normalised hash changed (%x -> %x) although only source address, import fee, state-init and body placement differ", norm, vh)
		}
		members++
	}
	if members >= 2 {
		c.NonTrivial(want, "class")
	}
	// a different destination or body must change it
	d := m
	d.Info.Dest.Hash[c.Choose("flipbyte", 32)] ^= 1 << uint(c.Intn("flipbit", 8))
	if m.Info.Dest.Kind == 3 && len(m.Info.Dest.Ext) > 0 {
		d.Info.Dest.Ext = m.Info.Dest.Ext.Clone()
		i := c.Choose("flipvar", len(d.Info.Dest.Ext))
		d.Info.Dest.Ext[i] = !d.Info.Dest.Ext[i]
	}
	if m.Info.Dest.Kind == 2 || (m.Info.Dest.Kind == 3 && len(m.Info.Dest.Ext) > 0) {
		if dc, fits := msgCell(d); fits {
			dp, _, _, err := decodeAllWays(dc, sharedDecoder)
			if err != nil {
				return err
			}
			if dp.Hash(true) == norm {
				return fmt.Errorf("normalised hash %x unchanged although the destination address differs", norm)
			}
			// the normalised hash is a function of destination and body as they are now: a decoded message whose
			// destination is replaced afterwards hashes like a message with that destination
			if plain.Info.ExtInMsgInfo != nil && dp.Info.ExtInMsgInfo != nil {
				edited := plain
				info := *plain.Info.ExtInMsgInfo
				info.Dest = dp.Info.ExtInMsgInfo.Dest
				edited.Info.ExtInMsgInfo = &info
				if h := edited.Hash(true); h != dp.Hash(true) {
					return fmt.Errorf("a decoded message whose destination was replaced after Hash(true) had been asked reports normalised hash %x; a message with that destination and the same body has %x (before the edit: %x)", h, dp.Hash(true), norm)
				}
				c.Class("destination edited after the normalised hash was asked")
			}
		}
	}
	b2 := m
	b2.Body = ref.NewRCell(append(m.Body.Bits().Clone(), true), false, m.Body.Refs...)
	if bc, fits := msgCell(b2); fits {
		bp, _, _, err := decodeAllWays(bc, sharedDecoder)
		if err != nil {
			return err
		}
		if bp.Hash(true) == norm {
			return fmt.Errorf("normalised hash %x unchanged although the body differs", norm)
		}
	}
	return nil
}}

func mustImage(c *boc.Cell) *ref.RCell {
	cp := *c
	cp.ResetCounters()
	r, err := gen.FromTongo(&cp, 1000)
	if err != nil {
		panic("HARNESS: " + err.Error())
	}
	return r
}

// reuseVariable: one Message variable is used for two decodes and a copy of the first result is kept. The copy
// must go on describing the first message (both hashes as a fresh decode of the first cell reports them), the
// variable must describe the second one.
func reuseVariable(c *core.Ctx, m tlbref.Message, cell *ref.RCell, fresh *tlb.Message) error {
	o := m
	o.Info.Dest.Hash[c.Choose("o.flipbyte", 32)] ^= 1 << uint(c.Intn("o.flipbit", 8))
	o.Info.Src.Hash[c.Choose("o.srcbyte", 32)] ^= 0x80
	o.Body = ref.NewRCell(append(m.Body.Bits().Clone(), false), false, m.Body.Refs...)
	oc, fits := msgCell(o)
	if !fits {
		return nil
	}
	op, _, _, err := decodeAllWays(oc, sharedDecoder)
	if err != nil {
		return err
	}
	decodeInto := func(dst *tlb.Message, rc *ref.RCell) error {
		cells, e := boc.DeserializeBoc(ref.SerializeBOC([]*ref.RCell{rc}, ref.BocVariant{}))
		if e != nil {
			return fmt.Errorf("HARNESS: %v", e)
		}
		return tlb.Unmarshal(cells[0], dst)
	}
	var slot tlb.Message
	if err := decodeInto(&slot, cell); err != nil {
		return fmt.Errorf("decoding a schema-conforming message failed: %v", err)
	}
	first := slot // value copy kept by the caller
	if err := decodeInto(&slot, oc); err != nil {
		return fmt.Errorf("decoding a schema-conforming message into a used variable failed: %v", err)
	}
	// the same for the source: one boc.Cell variable is overwritten with another message cell between two plain
	// decodes (same address, other content), and a body cell shared by two message cells grows in between
	{
		parse := func(rc *ref.RCell) (*boc.Cell, error) {
			cells, e := boc.DeserializeBoc(ref.SerializeBOC([]*ref.RCell{rc}, ref.BocVariant{}))
			if e != nil {
				return nil, fmt.Errorf("HARNESS: %v", e)
			}
			return cells[0], nil
		}
		ca, err := parse(cell)
		if err != nil {
			return err
		}
		cb, err := parse(oc)
		if err != nil {
			return err
		}
		// one cell object decoded twice (the first decode leaves its read position somewhere inside), and a
		// cell a caller has peeked into
		for round := 0; round < 3; round++ {
			var mr tlb.Message
			if round == 2 {
				ca.ResetCounters()
				ca.ReadUint(ca.BitsAvailableForRead() / 2)
			}
			if err := tlb.Unmarshal(ca, &mr); err != nil {
				return fmt.Errorf("decode %d of one and the same message cell object failed: %v", round+1, err)
			}
			if mr.Hash(false) != fresh.Hash(false) || mr.Hash(true) != fresh.Hash(true) {
				return fmt.Errorf("decode %d of one and the same message cell object reports hashes %x / %x (normalised), the first decode reported %x / %x",
					round+1, mr.Hash(false), mr.Hash(true), fresh.Hash(false), fresh.Hash(true))
			}
		}
		ca.ResetCounters()
		var src boc.Cell
		var m1, m2 tlb.Message
		src = *ca
		if err := tlb.Unmarshal(&src, &m1); err != nil {
			return fmt.Errorf("decoding a schema-conforming message failed: %v", err)
		}
		src = *cb
		if err := tlb.Unmarshal(&src, &m2); err != nil {
			return fmt.Errorf("decoding a schema-conforming message from a reused cell variable failed: %v", err)
		}
		if m1.Hash(false) != fresh.Hash(false) || m2.Hash(false) != op.Hash(false) {
			return fmt.Errorf("two messages decoded one after the other from one boc.Cell variable report hashes %x and %x; the cells hash to %x and %x",
				m1.Hash(false), m2.Hash(false), fresh.Hash(false), op.Hash(false))
		}
		c.Class("cell variable reused as the source of two decodes")
	}
	if !m.Body.Special && m.BodyInRef && len(m.Body.Refs) == 0 && m.Body.BitLen < 1000 {
		// in-memory cells: message A refers to body cell B; B grows by one bit; message A' (same header) refers to B
		hdr := m
		hdr.Body = ref.NewRCell(nil, false)
		hdr.BodyInRef = false
		if hc, fits := msgCell(hdr); fits && hc.BitLen >= 1 && len(hc.Refs) <= 3 && hc.Level() == 0 {
			body, err := gen.ToTongo(m.Body, true, 10)
			if err != nil {
				return fmt.Errorf("HARNESS: %v", err)
			}
			build := func() (*boc.Cell, []byte, error) {
				// the header bits of the inline form end with the Either bit 0 of the body; flip it to 1 and add the reference
				hb := hc.Bits().Clone()
				hb[len(hb)-1] = true
				rc := ref.NewRCell(hb, false, append(append([]*ref.RCell{}, hc.Refs...), mustImage(body))...)
				mc := boc.NewCell()
				if err := mc.WriteBitString(gen.BitString(hb)); err != nil {
					return nil, nil, err
				}
				for _, r := range hc.Refs {
					tr, err := gen.ToTongo(r, true, 1000)
					if err != nil {
						return nil, nil, err
					}
					if err := mc.AddRef(tr); err != nil {
						return nil, nil, err
					}
				}
				if err := mc.AddRef(body); err != nil {
					return nil, nil, err
				}
				return mc, rc.ReprHash(), nil
			}
			for round := 0; round < 2; round++ {
				mc, want, err := build()
				if err != nil {
					return fmt.Errorf("HARNESS: %v", err)
				}
				var mm tlb.Message
				if err := tlb.Unmarshal(mc, &mm); err != nil {
					// the inline-empty-body trick only yields a valid message when the body Either bit is the last header bit
					c.Class("shared growing body: header form not usable")
					break
				}
				if h := mm.Hash(false); !bytes.Equal(h[:], want) {
					return fmt.Errorf("round %d: a message whose body cell is shared with an earlier message and has grown since reports hash %x, its cell hashes to %x", round, h, want)
				}
				if err := body.WriteBit(round == 0); err != nil {
					break
				}
				c.Class("body cell shared by two messages grew between the decodes")
			}
		}
	}
	c.Class("message variable reused, copy of the first result kept")
	if slot.Hash(false) != op.Hash(false) || slot.Hash(true) != op.Hash(true) {
		return fmt.Errorf("a Message variable used for a second decode reports hashes %x / %x (normalised); a fresh decode of the same cell reports %x / %x",
			slot.Hash(false), slot.Hash(true), op.Hash(false), op.Hash(true))
	}
	if first.Hash(false) != fresh.Hash(false) || first.Hash(true) != fresh.Hash(true) {
		return fmt.Errorf("the copy of a decoded Message reports hashes %x / %x (normalised) after its variable was used for another decode; a fresh decode of its cell reports %x / %x",
			first.Hash(false), first.Hash(true), fresh.Hash(false), fresh.Hash(true))
	}
	return nil
}

// synthetic transactions: values from the reflective generator, encoded by the library, decoded again:
// the reported hash must be the hash of exactly that cell, and SourceBoc must parse back to it
var txCheck = &core.Check{Name: "c16/transaction", Quick: 1500, Thorough: 100000, Fn: func(c *core.Ctx) error {
	g := &tlbgen.G{C: c}
	v, err := g.Value(reflect.TypeOf(tlb.Transaction{}), 4)
	if err != nil {
		return fmt.Errorf("HARNESS: %v", err)
	}
	cell := boc.NewCell()
	if err := tlb.Marshal(cell, v.Interface()); err != nil {
		c.Class("not encodable")
		return nil
	}
	img, err := gen.FromTongo(cell, 100000)
	if err != nil {
		return err
	}
	want := img.ReprHash()
	c.NonTrivial(want)
	for i := 0; i < 2; i++ {
		cells, err := boc.DeserializeBoc(ref.SerializeBOC([]*ref.RCell{img}, ref.BocVariant{}))
		if err != nil {
			return err
		}
		var tx tlb.Transaction
		if i == 0 {
			err = tlb.Unmarshal(cells[0], &tx)
		} else {
			err = tlb.NewDecoder().Unmarshal(cells[0], &tx)
		}
		if err != nil {
			return fmt.Errorf("generated transaction does not decode: %v", err)
		}
		h := tx.Hash()
		if !bytes.Equal(h[:], want) {
			return fmt.Errorf("Transaction.Hash() = %x, the cell it was decoded from hashes to %x (decoder variant %d)", h, want, i)
		}
		src, err := tx.SourceBoc()
		if err != nil {
			return fmt.Errorf("SourceBoc: %v", err)
		}
		rr, err := ref.ParseBOC(src)
		if err != nil || len(rr) != 1 || !bytes.Equal(rr[0].ReprHash(), want) {
			return fmt.Errorf("SourceBoc does not parse back to a cell with the reported hash %x (%v)", want, err)
		}
	}
	return nil
}}

var realCounts = map[string]int{}

var realCheck = &core.Check{Name: "c16/real", Fn: func(c *core.Ctx) error {
	files, _ := filepath.Glob(filepath.Join(realdata.Repo(), "tlb/testdata/block-*/block.bin"))
	if len(files) == 0 {
		return fmt.Errorf("HARNESS: no real blocks")
	}
	f := files[c.Intn("file", len(files))]
	c.Note("file", f)
	data, err := os.ReadFile(f)
	if err != nil {
		return err
	}
	image, err := ref.ParseBOC(data)
	if err != nil {
		return fmt.Errorf("HARNESS: %v", err)
	}
	inBlock := map[string]bool{}
	ref.Walk(image, func(x *ref.RCell) {
		if x.WellFormed() == nil {
			inBlock[string(x.ReprHash())] = true
		}
	})
	var hashesByWay [2][]tlb.Bits256
	for way := 0; way < 2; way++ {
		// the bytes are the caller's: it reads the next block into the same buffer once this one is decoded
		buf := append([]byte(nil), data...)
		cells, err := boc.DeserializeBoc(buf)
		if err != nil {
			return err
		}
		var block tlb.Block
		if way == 0 {
			err = tlb.Unmarshal(cells[0], &block)
		} else {
			err = tlb.NewDecoder().Unmarshal(cells[0], &block)
		}
		if err != nil {
			return fmt.Errorf("real block does not decode: %v", err)
		}
		for i := range buf {
			buf[i] = 0xA5
		}
		seen := map[tlb.Bits256]bool{}
		for _, tx := range block.AllTransactions() {
			h := tx.Hash()
			hashesByWay[way] = append(hashesByWay[way], h)
			if !inBlock[string(h[:])] {
				return fmt.Errorf("transaction (lt %d) reports hash %x, which is not the hash of any cell of the block", tx.Lt, h)
			}
			if seen[h] {
				return fmt.Errorf("two transactions of one block report the same hash %x", h)
			}
			seen[h] = true
			src, err := tx.SourceBoc()
			if err != nil {
				return fmt.Errorf("SourceBoc: %v", err)
			}
			rr, err := ref.ParseBOC(src)
			if err != nil || len(rr) != 1 || !bytes.Equal(rr[0].ReprHash(), h[:]) {
				return fmt.Errorf("transaction %x: SourceBoc does not parse to a cell with the reported hash (%v)", h, err)
			}
			realCounts["transactions"]++
			msgs := []tlb.Message{}
			if tx.Msgs.InMsg.Exists {
				msgs = append(msgs, tx.Msgs.InMsg.Value.Value)
			}
			for _, m := range tx.Msgs.OutMsgs.Values() {
				msgs = append(msgs, m.Value)
			}
			for i := range msgs {
				mh := msgs[i].Hash(false)
				if !inBlock[string(mh[:])] {
					return fmt.Errorf("a message of transaction %x reports hash %x, which is not the hash of any cell of the block", h, mh)
				}
				realCounts["messages"]++
				if msgs[i].Info.SumType != "ExtInMsgInfo" {
					if msgs[i].Hash(true) != mh {
						return fmt.Errorf("message %x: Hash(true) differs from Hash(false) for a message that is not external-in", mh)
					}
				} else {
					realCounts["external-in messages"]++
				}
			}
		}
	}
	// one Transaction variable reused for several decodes must always describe the last decode
	{
		cells, err := boc.DeserializeBoc(data)
		if err != nil {
			return err
		}
		var block tlb.Block
		if err := tlb.NewDecoder().Unmarshal(cells[0], &block); err != nil {
			return err
		}
		txs := block.AllTransactions()
		var reused tlb.Transaction
		for i := 0; i < len(txs) && i < 12; i++ {
			src, err := txs[i].SourceBoc()
			if err != nil {
				return err
			}
			cc, err := boc.DeserializeBoc(src)
			if err != nil {
				return err
			}
			if err := tlb.Unmarshal(cc[0], &reused); err != nil {
				return fmt.Errorf("re-decoding a transaction from its SourceBoc: %v", err)
			}
			if i%2 == 1 {
				// the same cell object decoded once more (its read cursors are wherever the first decode left
				// them): hash and source BOC must describe that cell all the same
				var second tlb.Transaction
				if err := tlb.NewDecoder().Unmarshal(cc[0], &second); err != nil {
					return fmt.Errorf("decoding the same transaction cell a second time: %v", err)
				}
				sb, err := second.SourceBoc()
				if err != nil {
					return err
				}
				rr2, err := ref.ParseBOC(sb)
				wantH := txs[i].Hash()
				if err != nil || len(rr2) != 1 || !bytes.Equal(rr2[0].ReprHash(), wantH[:]) || second.Hash() != wantH {
					return fmt.Errorf("a transaction cell decoded a second time: Hash %x, SourceBoc parses to %v (%v), the cell hashes to %x", second.Hash(), rr2, err, wantH)
				}
			}
			want := txs[i].Hash()
			if reused.Hash() != want {
				return fmt.Errorf("Transaction variable reused for decode #%d reports hash %x, the decoded cell hashes to %x", i+1, reused.Hash(), want)
			}
			again, err := reused.SourceBoc()
			if err != nil {
				return err
			}
			rr, err := ref.ParseBOC(again)
			if err != nil || len(rr) != 1 || !bytes.Equal(rr[0].ReprHash(), want[:]) {
				return fmt.Errorf("Transaction variable reused for decode #%d: SourceBoc parses to another cell than the one just decoded (%x)", i+1, want)
			}
			if i%3 == 0 { // ask twice: a cached answer must still be the right one
				reused.SourceBoc()
			}
		}
	}
	if len(hashesByWay[0]) != len(hashesByWay[1]) {
		return fmt.Errorf("decoding with and without a caching hasher finds %d vs %d transactions", len(hashesByWay[0]), len(hashesByWay[1]))
	}
	for i := range hashesByWay[0] {
		if hashesByWay[0][i] != hashesByWay[1][i] {
			return fmt.Errorf("transaction %d: hash %x without a hasher, %x with one", i, hashesByWay[0][i], hashesByWay[1][i])
		}
	}
	c.NonTrivial(f)
	return nil
}}

func TestProp(t *testing.T) {
	t.Run("message", func(t *testing.T) { core.Run(t, messageCheck) })
	t.Run("transaction", func(t *testing.T) { core.Run(t, txCheck) })
}

func TestReal(t *testing.T) {
	files, _ := filepath.Glob(filepath.Join(realdata.Repo(), "tlb/testdata/block-*/block.bin"))
	core.RunEnum(t, realCheck, fmt.Sprintf("every transaction and message of the %d real blocks", len(files)), func(yield func(...uint64) bool) {
		for i := range files {
			if !yield(uint64(i)) {
				return
			}
		}
	})
	for k, v := range realCounts {
		core.Extra("c16/real", k+" (both decoder variants)", v)
	}
}

func TestReplay(t *testing.T) { core.Replay(t, messageCheck, txCheck, realCheck, concurrentCheck) }
