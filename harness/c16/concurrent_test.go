package c16

import (
	"fmt"
	"math/big"
	"testing"

	"github.com/tonkeeper/tongo/tlb"

	"verifharness/internal/core"
	"verifharness/internal/ref"
	"verifharness/internal/tlbref"
)

// c16/concurrent: the hashes of a decoded message are functions of the message. 2..16 goroutines ask copies of
// one decoded external-in message (destination with anycast, which the canonical form drops) and messages of
// their own for both hashes at the same time; every answer must be what one goroutine got.
var concurrentCheck = &core.Check{Name: "c16/concurrent", Quick: 1, Thorough: 100, Fn: func(c *core.Ctx) error {
	workers := c.OneOf("goroutines", 2, 4, 8, 16)
	rounds := c.Range("rounds", 200, 1500)
	procs := c.OneOf("gomaxprocs", 2, 4, 16)
	build := func(label string, anycast bool) (*ref.RCell, error) {
		var m tlbref.Message
		m.Info.Kind = 1
		m.Info.Src = drawAddr(c, label+".src", 0, 1)
		m.Info.Dest = drawAddr(c, label+".dst", 2)
		if anycast && m.Info.Dest.Anycast == nil {
			d := c.Range(label+".depth", 1, 30)
			m.Info.Dest.Anycast = &tlbref.Anycast{Depth: d, Prefix: c.U64(label+".pfx") & (1<<uint(d) - 1)}
		}
		m.Info.ImportFee = new(big.Int)
		m.Body, m.BodyInRef = smallCell(c, label+".body", 1), c.Bool(label+".bodyref")
		cell, fits := msgCell(m)
		if !fits {
			m.BodyInRef = true
			if cell, fits = msgCell(m); !fits {
				return nil, fmt.Errorf("HARNESS: message does not fit")
			}
		}
		return cell, nil
	}
	sharedCell, err := build("shared", true)
	if err != nil {
		return err
	}
	shared, _, _, err := decodeAllWays(sharedCell, sharedDecoder)
	if err != nil {
		return err
	}
	wantRaw, wantNorm := shared.Hash(false), shared.Hash(true)
	type own struct {
		m         tlb.Message
		raw, norm tlb.Bits256
	}
	owns := make([]own, workers)
	for w := range owns {
		cell, err := build(fmt.Sprintf("own%d", w), c.Bool("own.anycast"))
		if err != nil {
			return err
		}
		m, _, _, err := decodeAllWays(cell, sharedDecoder)
		if err != nil {
			return err
		}
		owns[w] = own{m: m, raw: m.Hash(false), norm: m.Hash(true)}
	}
	c.Note("goroutines", workers)
	c.Note("rounds", rounds)
	c.NonTrivial(workers, rounds, procs, wantNorm)
	copies := make([]tlb.Message, workers)
	for w := range copies {
		copies[w] = shared // value copies: they share what the message holds behind pointers
	}
	one := &shared // and the very same decoded message, asked by every goroutine (a worker pool over one decoded block)
	return core.Parallel(workers, rounds, procs, func(w, r int) error {
		if r%3 == 2 {
			if got := one.Hash(true); got != wantNorm {
				return fmt.Errorf("Hash(true) of one decoded external-in message asked by %d goroutines at once = %x; one goroutine got %x", workers, got, wantNorm)
			}
			if got := one.Hash(false); got != wantRaw {
				return fmt.Errorf("Hash(false) of one decoded message asked by %d goroutines at once = %x, one goroutine got %x", workers, got, wantRaw)
			}
			return nil
		}
		if r%2 == 0 {
			if got := copies[w].Hash(true); got != wantNorm {
				return fmt.Errorf("Hash(true) of a copy of a decoded external-in message with an anycast destination = %x while other goroutines ask their copies; one goroutine got %x", got, wantNorm)
			}
			if got := copies[w].Hash(false); got != wantRaw {
				return fmt.Errorf("Hash(false) of a copy of a decoded message = %x, one goroutine got %x", got, wantRaw)
			}
			return nil
		}
		if got := owns[w].m.Hash(true); got != owns[w].norm {
			return fmt.Errorf("Hash(true) of the goroutine's own message = %x, alone it was %x", got, owns[w].norm)
		}
		if got := owns[w].m.Hash(false); got != owns[w].raw {
			return fmt.Errorf("Hash(false) of the goroutine's own message = %x, alone it was %x", got, owns[w].raw)
		}
		return nil
	})
}}

func TestConcurrent(t *testing.T) { core.Run(t, concurrentCheck) }
