#!/bin/bash
# usage: runpkg.sh cXX [repo-dir] [extra go test args...]
# Runs one property package against a given tongo tree (default /repo); used for sensitivity runs on mutants.
export GOFLAGS=-mod=mod GOPROXY=off GOSUMDB=off GOTOOLCHAIN=local
PKG=$1; REPO=${2:-/repo}; shift; shift
cd /verif/harness || exit 2
MODARG=""
if [ "$REPO" != "/repo" ]; then
  TAG=$(echo -n "$REPO" | sha1sum | cut -c1-10)
  sed "s#=> /repo#=> $REPO#" go.mod > .alt-$TAG.mod; cp go.sum .alt-$TAG.sum
  MODARG="-modfile=.alt-$TAG.mod"
fi
mkdir -p /verif/.build/dev-$PKG
VERIF_REPO=$REPO VERIF_REPLAY_DIR=/verif/.build/dev-$PKG VERIF_STATS=/verif/.build/dev-$PKG/stats.json \
  go test -tags verif $MODARG ./$PKG -count=1 -timeout 600s "$@" 2>&1 | grep -v "\[rapid\] draw" | cut -c1-2000
rc=${PIPESTATUS[0]}
python3 - <<PY
import json
try:
    d=json.load(open('/verif/.build/dev-$PKG/stats.json'))
    for k,v in d['checks'].items():
        print('STATS', k, 'evals', v['evaluations'], 'nontrivial', v['nontrivial'], 'classes', v['classes'], 'known', v['known'])
except Exception as e:
    print('no stats', e)
PY
exit $rc
