// C07 — parsing untrusted bag-of-cells bytes never crashes and yields sound cells.
package c07

import (
	"bytes"
	"encoding/base64"
	"encoding/hex"
	"encoding/json"
	"fmt"
	"math/bits"
	"os"
	"testing"
	"time"

	"github.com/tonkeeper/tongo/boc"

	"verifharness/internal/core"
	"verifharness/internal/gen"
	"verifharness/internal/realdata"
	"verifharness/internal/ref"
)

func TestMain(m *testing.M) { core.Main(m, "C07") }

const hang = 20 * time.Second

// sound verifies the well-formedness of every returned cell with an iterative walker (no recursion, so
// a cyclic or very deep graph cannot take the harness down).
func sound(roots []*boc.Cell) (cells int, err error) {
	const (
		white = 0
		grey  = 1
		black = 2
	)
	colour := map[*boc.Cell]int{}
	type frame struct {
		c    *boc.Cell
		next int
	}
	for ri, root := range roots {
		if root == nil {
			return cells, fmt.Errorf("root %d is nil", ri)
		}
		if colour[root] == black {
			continue
		}
		stack := []frame{{root, 0}}
		colour[root] = grey
		for len(stack) > 0 {
			f := &stack[len(stack)-1]
			if f.next == 0 {
				cells++
				if n := f.c.BitSize(); n > 1023 || n < 0 {
					return cells, fmt.Errorf("cell with %d data bits", n)
				}
			}
			refs := f.c.Refs()
			if len(refs) > 4 {
				return cells, fmt.Errorf("cell with %d refs", len(refs))
			}
			if f.next < len(refs) {
				ch := refs[f.next]
				f.next++
				if ch == nil {
					return cells, fmt.Errorf("nil reference")
				}
				switch colour[ch] {
				case grey:
					return cells, fmt.Errorf("cycle: a cell is reachable from itself")
				case white:
					colour[ch] = grey
					stack = append(stack, frame{ch, 0})
				}
				continue
			}
			colour[f.c] = black
			stack = stack[:len(stack)-1]
		}
	}
	return cells, nil
}

// checkBytes is the oracle of C07 for one input.
func checkBytes(c *core.Ctx, data []byte) error {
	c.Checkpoint()
	var roots []*boc.Cell
	var perr error
	alloc := core.AllocDelta(func() { roots, perr = boc.DeserializeBoc(data) })
	bound := uint64(4<<20) + 1024*uint64(len(data))
	if alloc > bound {
		return fmt.Errorf("DeserializeBoc allocated %d bytes for %d input bytes (bound %d)", alloc, len(data), bound)
	}
	refRoots, refErr := ref.ParseBOC(data)
	if perr != nil {
		c.Class("rejected")
		if refErr == nil {
			c.Class("rejected although the reference parser accepts")
			if os.Getenv("VERIF_DEBUG") != "" {
				fmt.Printf("DEBUG tongo rejects (%v) ref accepts: %x\n", perr, data)
			}
		}
		return textForms(c, data)
	}
	c.Class("accepted")
	n, err := sound(roots)
	if err != nil {
		return fmt.Errorf("DeserializeBoc returned an unsound cell graph: %v", err)
	}
	if len(roots) == 0 {
		// an empty root list is a value the callers index into; the statement promises "a list of root cells"
		c.Class("accepted with zero roots")
	}
	for i, r := range roots {
		if i >= 8 {
			break // many roots of one bag share their cells; eight are enough
		}
		var h []byte
		var herr error
		if a := core.AllocDelta(func() { h, herr = r.Hash() }); a > uint64(16<<20)+4096*uint64(n) {
			return fmt.Errorf("root %d: Hash() allocated %d bytes for a graph of %d cells", i, a, n)
		}
		_ = r.Level()
		// the same question twice through one caching hasher: a refusal is a refusal the second time too
		{
			hs := boc.NewHasher()
			h1, e1 := hs.Hash(r)
			h2, e2 := hs.Hash(r)
			if (e1 == nil) != (e2 == nil) || !bytes.Equal(h1, h2) || (herr == nil) != (e1 == nil) {
				return fmt.Errorf("root %d: one Hasher asked twice answers %x,%v and then %x,%v; Cell.Hash() answered %x,%v", i, h1, e1, h2, e2, h, herr)
			}
		}
		if n <= 5000 {
			var text string
			if a := core.AllocDelta(func() { text = r.ToString() }); a > uint64(16<<20)+16*uint64(len(text)) {
				return fmt.Errorf("root %d: ToString() allocated %d bytes to print %d cells into %d bytes of text", i, a, n, len(text))
			}
		}
		var out []byte
		var serr error
		if a := core.AllocDelta(func() { out, serr = r.ToBoc() }); a > uint64(16<<20)+16384*uint64(n) {
			return fmt.Errorf("root %d: ToBoc() allocated %d bytes for a graph of %d cells", i, a, n)
		}
		if serr == nil {
			back, err := boc.DeserializeBoc(out)
			if err != nil || len(back) != 1 {
				return fmt.Errorf("root %d: ToBoc output does not parse back: %v", i, err)
			}
			if herr == nil {
				h2, err := back[0].Hash()
				if err != nil || !bytes.Equal(h, h2) {
					return fmt.Errorf("root %d: hash %x, after ToBoc+parse %x (%v)", i, h, h2, err)
				}
			}
		}
		if refErr == nil && i < len(refRoots) && herr == nil {
			ok := true
			ref.Walk(refRoots[i:i+1], func(x *ref.RCell) { ok = ok && x.WellFormed() == nil && x.DeclMask == x.Mask() })
			if ok && !bytes.Equal(h, refRoots[i].ReprHash()) {
				return fmt.Errorf("root %d: hash %x, reference parser+hasher says %x", i, h, refRoots[i].ReprHash())
			}
		}
	}
	c.Note("cells", n)
	return textForms(c, data)
}

func textForms(c *core.Ctx, data []byte) error {
	if len(data) > 4096 {
		return nil
	}
	hx := hex.EncodeToString(data)
	boc.DeserializeBocHex(hx)
	boc.DeserializeBocBase64(base64.StdEncoding.EncodeToString(data))
	var cell boc.Cell
	json.Unmarshal([]byte(`"`+hx+`"`), &cell)
	return nil
}

func isMagic(b []byte) bool {
	return len(b) >= 4 && (bytes.Equal(b[:4], []byte{0xb5, 0xee, 0x9c, 0x72}) || bytes.Equal(b[:4], []byte{0x68, 0xff, 0x65, 0xf3}) || bytes.Equal(b[:4], []byte{0xac, 0xc3, 0xa7, 0x28}))
}

// ---------------------------------------------------------------------------------------------
// seeds

func drawSeedDag(c *core.Ctx) []*ref.RCell {
	n := 1 + c.Intn("nodes", 8)
	nodes := gen.Dag(c, gen.DagOpts{MaxNodes: n, Exotic: c.Bool("exotic"), SmallBit: c.Bool("small")})
	return nodes[len(nodes)-1:]
}

func drawVariant(c *core.Ctx) ref.BocVariant {
	v := ref.BocVariant{Magic: c.Weighted("magic", 4, 1, 1)}
	if v.Magic == 0 {
		v.Index, v.CRC = c.Bool("idx"), c.Bool("crc")
		v.CacheBits = v.Index && c.Bool("cache")
	}
	v.WithHashes = c.Intn("withHashes", 4) == 0
	return v
}

func drawSeed(c *core.Ctx) []byte {
	switch c.Weighted("seedkind", 5, 2, 2) {
	case 1: // tongo's own output
		roots := drawSeedDag(c)
		if got, err := boc.DeserializeBoc(ref.SerializeBOC(roots, ref.BocVariant{})); err == nil {
			o := c.Intn("opt", 8)
			if out, err := got[0].ToBocCustom(o&1 != 0, o&2 != 0, o&4 != 0, 0); err == nil {
				return out
			}
		}
		return ref.SerializeBOC(roots, ref.BocVariant{})
	case 2: // a real input (small ones whole, big ones by their first 64 KiB)
		items := realdata.All()
		b := items[c.Choose("real", len(items))].Bytes
		if len(b) > 65536 {
			b = b[:65536]
		}
		return append([]byte{}, b...)
	}
	return ref.SerializeBOC(drawSeedDag(c), drawVariant(c))
}

var hostile = []uint64{0, 1, 2, 3, 4, 5, 7, 8, 0x7f, 0x80, 0xff, 0x100, 0xffff, 0x10000, 0xffffff, 0x7fffffff, 0x80000000, 0xffffffff, 1 << 32, 1<<63 - 1, 1 << 63, 1<<64 - 1}

func drawHostile(c *core.Ctx, label string) uint64 {
	if c.Intn(label+".k", 4) == 0 {
		return c.U64(label + ".v")
	}
	return hostile[c.Choose(label, len(hostile))]
}

var mutate = &core.Check{Name: "c07/mutate", Quick: 25000, Thorough: 2000000, Hang: hang, Fn: func(c *core.Ctx) error {
	data := drawSeed(c)
	orig := append([]byte{}, data...)
	nm := 1 + c.Intn("nmut", 3)
	for i := 0; i < nm && len(data) > 0; i++ {
		switch c.Choose("mut", 7) {
		case 0:
			p := c.Choose("pos", len(data))
			data[p] = byte(c.Intn("val", 256))
		case 1:
			p := c.Choose("pos", len(data))
			data[p] ^= 1 << uint(c.Intn("bit", 8))
		case 2:
			data = data[:c.Choose("cut", len(data))]
		case 3:
			p := c.Choose("pos", len(data)+1)
			ins := c.Content("ins", 1+c.Intn("nins", 8))
			data = append(data[:p:p], append(ins, data[p:]...)...)
		case 4:
			p := c.Choose("pos", len(data))
			q := p + 1 + c.Intn("ndel", 8)
			if q > len(data) {
				q = len(data)
			}
			data = append(data[:p:p], data[q:]...)
		case 5: // splice with another seed
			other := drawSeed(c)
			p, q := c.Choose("pos", len(data)+1), c.Choose("opos", len(other)+1)
			data = append(data[:p:p], other[q:]...)
		case 6: // overwrite a header byte (first 16 bytes hold all counts and widths)
			p := 4 + c.Intn("hpos", 14)
			if p < len(data) {
				data[p] = byte(hostile[c.Choose("hval", 11)])
			}
		}
	}
	c.Note("input", trunc(hex.EncodeToString(data)))
	if !bytes.Equal(data, orig) && isMagic(data) {
		c.NonTrivial(data)
	}
	return checkBytes(c, data)
}}

func trunc(s string) string {
	if len(s) > 600 {
		return s[:600] + "…"
	}
	return s
}

var liar = &core.Check{Name: "c07/liar", Quick: 15000, Thorough: 1500000, Hang: hang, Fn: func(c *core.Ctx) error {
	roots := drawSeedDag(c)
	r := ref.RawFromDag(roots, drawVariant(c))
	lie := c.Choose("lie", 22)
	if c.Intn("shape", 40) == 0 {
		lie = 22 + c.Intn("shape.k", 2)
	} else if c.Intn("pair", 25) == 0 {
		lie = 24
	} else if c.Intn("wide", 25) == 0 {
		lie = 25
	} else if c.Intn("shortpruned", 20) == 0 {
		lie = 26
	}
	c.Note("lie", lie)
	cellIdx := func() int { return c.Choose("cell", len(r.CellList)) }
	switch lie {
	case 0:
		r.Cells = drawHostile(c, "cells")
	case 1:
		r.Roots = drawHostile(c, "roots")
	case 2:
		r.Absent = drawHostile(c, "absent")
	case 3:
		r.TotSize = drawHostile(c, "tot")
	case 4:
		r.OffBytes = byte(c.OneOf("off", 0, 9, 16, 17, 64, 127, 128, 255))
	case 5: // size 0, 5..7 (generic) or any byte (legacy magics)
		if r.Magic[0] == 0xb5 {
			r.SizeByte = r.SizeByte&^7 | byte(c.OneOf("size", 0, 5, 6, 7))
		} else {
			r.SizeByte = byte(c.OneOf("size", 0, 5, 8, 9, 16, 64, 255))
		}
	case 6:
		if len(r.RootList) > 0 {
			r.RootList[c.Choose("ri", len(r.RootList))] = drawHostile(c, "rootidx")
		}
	case 7: // zero roots
		r.Roots, r.RootList = 0, nil
	case 8: // self reference / backward / out of range reference
		i := cellIdx()
		if len(r.CellList[i].Refs) == 0 {
			r.CellList[i].Refs = []uint64{0}
			r.CellList[i].D1++
		}
		k := c.Choose("refk", len(r.CellList[i].Refs))
		switch c.Choose("refkind", 4) {
		case 0:
			r.CellList[i].Refs[k] = uint64(i)
		case 1:
			r.CellList[i].Refs[k] = uint64(c.Intn("back", i+1))
		case 2:
			r.CellList[i].Refs[k] = r.Cells
		default:
			r.CellList[i].Refs[k] = drawHostile(c, "refv")
		}
	case 9: // with-hashes bit without the hash bytes
		r.CellList[cellIdx()].D1 |= 16
	case 10: // exotic flag on a cell, possibly without data
		i := cellIdx()
		r.CellList[i].D1 |= 8
		if c.Bool("nodata") {
			r.CellList[i].D2, r.CellList[i].Data = 0, nil
		}
	case 11: // pruned branch (or other special type) shorter than required
		i := cellIdx()
		t := byte(c.OneOf("type", 1, 1, 2, 3, 4, 0, 5, 255))
		n := c.Intn("plen", 40)
		d := append([]byte{t, byte(c.Intn("pmask", 8))}, c.Content("pdata", n)...)
		r.CellList[i].D1 = r.CellList[i].D1&7 | 8 | byte(c.Intn("lvl", 8))<<5
		r.CellList[i].Data = d
		r.CellList[i].D2 = byte(2 * len(d))
	case 12: // more than four refs
		i := cellIdx()
		n := c.OneOf("nrefs", 5, 6, 7)
		if c.Bool("nrefs.notlast") && len(r.CellList) > 1 {
			i = c.Choose("nrefs.cell", len(r.CellList)-1) // every added reference is a valid forward one then
		}
		r.CellList[i].D1 = r.CellList[i].D1&^7 | byte(n)
		for len(r.CellList[i].Refs) < n {
			r.CellList[i].Refs = append(r.CellList[i].Refs, uint64(len(r.CellList)-1))
		}
		if c.Bool("nrefs.hashes") && r.CellList[i].D1&16 == 0 {
			// 7 references together with the stored-hashes bit is how an absent cell is marked
			r.CellList[i].D1 |= 16
			r.CellList[i].Hashes = c.Content("nrefs.hashdata", (bits.OnesCount8(r.CellList[i].D1>>5)+1)*34)
		}
	case 13: // d2 says more data than present / 128 bytes of data
		i := cellIdx()
		r.CellList[i].D2 = byte(c.OneOf("d2", 255, 254, 253, 129, 1))
		if c.Bool("fill") {
			r.CellList[i].Data = c.Content("fill", 128)
		}
	case 14:
		r.CRCXor = uint32(1 + c.Intn("crcxor", 1<<30))
	case 15:
		r.Trailing = c.Content("trailing", 1+c.Intn("ntrail", 8))
	case 16: // index lying about offsets
		for i := range r.Index {
			r.Index[i] = drawHostile(c, "index")
		}
	case 17: // completion tag missing: last data byte zero with odd d2
		i := cellIdx()
		r.CellList[i].D2 |= 1
		if len(r.CellList[i].Data) == 0 {
			r.CellList[i].Data = []byte{0}
			r.CellList[i].D2 = 1
		} else {
			r.CellList[i].Data[len(r.CellList[i].Data)-1] = 0
		}
	case 18: // level mask bits that do not follow from the children
		i := cellIdx()
		r.CellList[i].D1 = r.CellList[i].D1&31 | byte(c.Intn("mask", 8))<<5
	case 19: // counts that agree with each other but not with the data
		r.Cells += uint64(1 + c.Intn("extra", 3))
	case 20: // forward reference to the last cell from every cell (deep sharing)
		for i := range r.CellList {
			if len(r.CellList[i].Refs) > 0 {
				r.CellList[i].Refs[0] = uint64(len(r.CellList) - 1)
			}
		}
	case 21: // two lies at once: huge count and huge width
		r.Cells, r.OffBytes = drawHostile(c, "cells"), byte(c.OneOf("off", 8, 9, 255))
	case 24: // a pair of lies that agree with each other: huge cell count and a total size of twice that
		cells := uint64(c.OneOf("cells24", 0xffff, 0xffffff, 0x7fffffff, 0xffffffff))
		width := 4
		if cells <= 0xffffff {
			width = 3
		}
		r = &ref.RawBoc{Magic: []byte{0xb5, 0xee, 0x9c, 0x72}, SizeByte: byte(width), OffBytes: byte(c.OneOf("off24", 5, 8)), Cells: cells, Roots: 1,
			RootList: []uint64{0}, TotSize: 2*cells + uint64(c.Intn("slack24", 4)), CellList: []ref.RawCell{{D1: 0, D2: 0}}}
	case 25: // a width byte beyond 4 (either magic family) together with counters that use the whole width
		magic := [][]byte{{0x68, 0xff, 0x65, 0xf3}, {0xac, 0xc3, 0xa7, 0x28}, {0xb5, 0xee, 0x9c, 0x72}}[c.Choose("magic25", 3)]
		size := byte(c.OneOf("size25", 5, 6, 7, 8, 8, 8, 9, 16))
		if magic[0] == 0xb5 {
			size = byte(c.OneOf("size25g", 5, 6, 7)) | byte(c.Intn("flags25", 32))<<3
		}
		wideVals := []uint64{0xffffffffffffffff, 1 << 63, 1 << 61, 1<<60 + 1, 1 << 32, 0xffffffff, 1, 2}
		r = &ref.RawBoc{Magic: magic, SizeByte: size, OffBytes: byte(c.OneOf("off25", 1, 2, 4, 8)),
			Cells: wideVals[c.Choose("cells25", len(wideVals))], Roots: wideVals[c.Choose("roots25", len(wideVals))], RootList: []uint64{0},
			CellList: []ref.RawCell{{D1: 0, D2: 2, Data: []byte{0xaa}}}, HasCRC: magic[1] == 0xc3}
		if magic[0] != 0xb5 && c.Bool("nolist25") {
			r.RootList = nil // the legacy containers have no root list
		}
		if c.Bool("smallcells25") {
			r.Cells = uint64(1 + c.Intn("ncells25", 3))
		}
		r.TotSize = uint64(len(r.Body()))
		r.Trailing = c.Content("trail25", c.Intn("ntrail25", 64))
	case 26: // a pruned branch of 1..3 levels that is 0..8 bytes short of what its mask requires, under a parent
		// that stands at the same level (ordinary) or one below (Merkle proof), so that the parent asks for the
		// stored depths and hashes of every level
		mask := byte(c.OneOf("mask26", 1, 2, 3, 4, 5, 6, 7))
		nlev := 0
		for m := mask; m != 0; m >>= 1 {
			nlev += int(m & 1)
		}
		need := 2 + nlev*(32+2)
		short := c.Intn("short26", 9)
		if c.Intn("veryshort26", 6) == 0 {
			short = c.Intn("short26b", need+1)
		}
		pd := append([]byte{1, mask}, c.Content("pruned26", need-2)...)
		if short > len(pd) {
			short = len(pd)
		}
		pd = pd[:len(pd)-short]
		pruned := ref.RawCell{D1: 8 | mask<<5, D2: byte(2 * len(pd)), Data: pd}
		var parent ref.RawCell
		if c.Bool("merkle26") {
			md := append([]byte{3}, c.Content("merkle26d", 34)...)
			parent = ref.RawCell{D1: 1 | 8 | (mask>>1)<<5, D2: byte(2 * len(md)), Data: md, Refs: []uint64{1}}
		} else {
			parent = ref.RawCell{D1: 1 | mask<<5, D2: 2, Data: []byte{0x5a}, Refs: []uint64{1}}
		}
		r = &ref.RawBoc{Magic: []byte{0xb5, 0xee, 0x9c, 0x72}, SizeByte: 1, OffBytes: 2, Cells: 2, Roots: 1, RootList: []uint64{0},
			CellList: []ref.RawCell{parent, pruned}}
		r.TotSize = uint64(len(r.Body()))
	case 22, 23: // not a lie but a hostile shape: a long chain (deeper than the 1024 limit) or a wide sharing ladder
		n := c.OneOf("chain", 300, 1023, 1024, 1025, 1026, 2500, 4000)
		ladder, ladderKind := lie == 23, 0
		if ladder { // every level doubles the number of paths: 40 levels unfold to 2^40 occurrences
			n = c.OneOf("ladder", 12, 17, 40, 200)
			ladderKind = c.Weighted("ladder.kind", 3, 1, 1, 1, 1)
			c.Class(fmt.Sprintf("ladder of kind %d", ladderKind))
		}
		r = &ref.RawBoc{Magic: []byte{0xb5, 0xee, 0x9c, 0x72}, SizeByte: 2, OffBytes: 3, Cells: uint64(n), Roots: 1, RootList: []uint64{0}}
		for i := 0; i < n; i++ {
			cell := ref.RawCell{D1: 1, D2: 2, Data: []byte{byte(i)}, Refs: []uint64{uint64(i + 1)}}
			if ladder && i+2 < n {
				cell.D1, cell.Refs = 4, []uint64{uint64(i + 1), uint64(i + 1), uint64(i + 2), uint64(i + 2)}
				// the rungs may claim to be exotic cells: leaves by their type, but carrying references here
				switch ladderKind {
				case 1:
					cell.D1, cell.D2, cell.Data = 4|8, 4, []byte{1, 0}
				case 2:
					cell.D1, cell.D2, cell.Data = 4|8, 66, append([]byte{2}, bytes.Repeat([]byte{byte(i)}, 32)...)
				case 3:
					cell.D1, cell.D2, cell.Data = 4|8, 4, []byte{byte(c.OneOf("ladder.type", 0, 5, 9, 255)), byte(i)}
				case 4:
					if i%2 == 1 {
						cell.D1, cell.D2, cell.Data = 4|8, 4, []byte{1, 0}
					}
				}
			}
			if i == n-1 {
				cell.D1, cell.Refs = 0, nil
			}
			r.CellList = append(r.CellList, cell)
		}
		r.TotSize = uint64(len(r.Body()))
	}
	if cellLie := lie >= 8 && lie <= 13 || lie == 17 || lie == 18 || lie == 20; cellLie && c.Intn("consistent", 4) != 0 {
		// a lie inside one cell usually changes the size of the cell data; with a stale total the parser would
		// stop at the header for the boring reason, so the header is brought in line with the body again
		r.Resize()
		c.Class("cell lie under a consistent header")
	}
	data := r.Bytes()
	c.Note("input", trunc(hex.EncodeToString(data)))
	c.NonTrivial(data)
	c.Class(fmt.Sprintf("lie %02d", lie))
	return checkBytes(c, data)
}}

var random = &core.Check{Name: "c07/random", Quick: 6000, Thorough: 600000, Hang: hang, Fn: func(c *core.Ctx) error {
	var data []byte
	switch c.Weighted("kind", 3, 1, 4) {
	case 2: // a self-consistent header in front of random cell data: gets past header validation
		body := c.Blob("body", 120)
		k := 1 + c.Intn("cells", 6)
		data = append(data, 0xb5, 0xee, 0x9c, 0x72, 0x01, 0x01, byte(k), 0x01, 0x00, byte(len(body)), byte(c.Intn("root", k)))
		data = append(data, body...)
		c.Class("consistent header + random cells")
	case 0:
		magics := [][]byte{{0xb5, 0xee, 0x9c, 0x72}, {0x68, 0xff, 0x65, 0xf3}, {0xac, 0xc3, 0xa7, 0x28}}
		data = append(data, magics[c.Choose("magic", 3)]...)
		// plausible small header fields, then random bytes
		if c.Bool("plausible") {
			data = append(data, byte(c.OneOf("size", 1, 2, 0x41, 0x81, 0xc1, 0xe1)), byte(c.OneOf("off", 1, 2)), byte(c.Intn("cells", 6)), byte(c.Intn("roots", 3)), 0)
		}
		data = append(data, c.Blob("tail", 200)...)
	default:
		data = c.Blob("bytes", 300)
	}
	c.Note("input", trunc(hex.EncodeToString(data)))
	if isMagic(data) && len(data) > 6 {
		c.NonTrivial(data)
	}
	return checkBytes(c, data)
}}

// raw: one blob, fed unchanged (fuzz target, corpus files, enumerated mutations)
var raw = &core.Check{Name: "c07/raw", Hang: hang, Fn: func(c *core.Ctx) error {
	data := c.Blob("input", 1<<22)
	c.Note("input", trunc(hex.EncodeToString(data)))
	if isMagic(data) && len(data) > 6 {
		c.NonTrivial(data)
	}
	return checkBytes(c, data)
}}

// fixed small seeds for the exhaustive single-fault enumeration
func smallSeeds() [][]byte {
	var out [][]byte
	leaf := ref.NewRCell(ref.Bits{}.AppendUint(0xabc, 12), false)
	mid := ref.NewRCell(ref.Bits{}.AppendUint(0x1234567, 32), false, leaf, leaf)
	root := ref.NewRCell(ref.Bits{}.AppendUint(5, 3), false, mid, leaf)
	pr := ref.PrunedFor(mid, 1)
	mp := ref.MerkleProofOf(ref.NewRCell(ref.Bits{true}, false, pr))
	lib := ref.NewRCell(ref.Bits{}.AppendUint(2, 8).AppendBytes(bytes.Repeat([]byte{7}, 32)), true)
	out = append(out,
		ref.SerializeBOC([]*ref.RCell{root}, ref.BocVariant{}),
		ref.SerializeBOC([]*ref.RCell{root}, ref.BocVariant{Index: true, CRC: true, CacheBits: true}),
		ref.SerializeBOC([]*ref.RCell{root}, ref.BocVariant{Magic: 2}),
		ref.SerializeBOC([]*ref.RCell{mp}, ref.BocVariant{}),
		ref.SerializeBOC([]*ref.RCell{ref.NewRCell(nil, false, lib)}, ref.BocVariant{Magic: 1, WithHashes: true}),
	)
	if got, err := boc.DeserializeBoc(out[0]); err == nil {
		for _, o := range []int{0, 7} {
			if b, err := got[0].ToBocCustom(o&1 != 0, o&2 != 0, o&4 != 0, 0); err == nil {
				out = append(out, b)
			}
		}
	}
	for _, it := range realdata.All() {
		if len(it.Bytes) < 120 && len(out) < 12 {
			out = append(out, it.Bytes)
		}
	}
	return out
}

func TestProp(t *testing.T) {
	t.Run("mutate", func(t *testing.T) { core.Run(t, mutate) })
	t.Run("liar", func(t *testing.T) { core.Run(t, liar) })
	t.Run("random", func(t *testing.T) { core.Run(t, random) })
}

func TestEnum(t *testing.T) {
	core.Register(raw)
	seeds := smallSeeds()
	n, total := 0, 0
	sh, nsh := core.Shard()
	fail := func(err error) {
		t.Fatalf("enumerated single-fault input: %v", err)
	}
	for _, s := range seeds {
		// every truncation
		for cut := 0; cut <= len(s); cut++ {
			total++
			if total%nsh != sh {
				continue
			}
			n++
			if err := core.RunBlob(raw, nil, s[:cut]); err != nil {
				fail(err)
			}
		}
		// every single-byte substitution by {0x00, 0xff, b^1, b^0x80, b+1}
		for p := 0; p < len(s); p++ {
			for _, f := range []func(byte) byte{func(byte) byte { return 0 }, func(byte) byte { return 0xff }, func(b byte) byte { return b ^ 1 }, func(b byte) byte { return b ^ 0x80 }, func(b byte) byte { return b + 1 }} {
				total++
				if total%nsh != sh {
					continue
				}
				m := append([]byte{}, s...)
				m[p] = f(s[p])
				n++
				if err := core.RunBlob(raw, nil, m); err != nil {
					fail(err)
				}
			}
		}
	}
	core.MarkExhaustive("c07/raw", fmt.Sprintf("every truncation and every single-byte substitution {00, ff, b^1, b^80, b+1} of %d small valid bags (%d inputs over all shards)", len(seeds), total))
}

func TestReplay(t *testing.T) { core.Replay(t, mutate, liar, random, raw, deepChain) }

func FuzzBoc(f *testing.F) {
	var seeds [][]byte
	seeds = append(seeds, smallSeeds()...)
	// hostile constants for the header fields
	for _, s := range smallSeeds()[:2] {
		for _, v := range []byte{0, 5, 8, 9, 0x7f, 0x80, 0xff} {
			for p := 4; p < 12 && p < len(s); p++ {
				m := append([]byte{}, s...)
				m[p] = v
				seeds = append(seeds, m)
			}
		}
	}
	core.Fuzz(f, raw, seeds...)
}
