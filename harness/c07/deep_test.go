package c07

import (
	"fmt"
	"testing"

	"github.com/tonkeeper/tongo/boc"

	"verifharness/internal/core"
)

// c07/deep-chain: a bag that is nothing but a chain of n cells, each referring to the next (6 bytes per cell).
// Whatever n is - far beyond the depth limit of 1024 too, where an input of 24 MB describes a chain of four
// million cells - the parser returns an error or cells that can be hashed, printed and serialised without
// the process dying: routines that walk a tree recursively must not be handed a tree of unbounded depth.
// tape: number of cells.
var deepChain = &core.Check{Name: "c07/deep-chain", Hang: hang, Fn: func(c *core.Ctx) error {
	n := 1 + c.Intn("cells", 9_000_000)
	c.Note("chain of cells", n)
	c.NonTrivial(n)
	size := 3
	body := make([]byte, 0, n*6)
	for i := 0; i < n; i++ {
		if i == n-1 {
			body = append(body, 0, 2, byte(i))
		} else {
			j := i + 1
			body = append(body, 1, 2, byte(i), byte(j>>16), byte(j>>8), byte(j))
		}
	}
	data := []byte{0xb5, 0xee, 0x9c, 0x72, byte(size), 4}
	put := func(v, k int) {
		for i := k - 1; i >= 0; i-- {
			data = append(data, byte(v>>(8*i)))
		}
	}
	put(n, size)
	put(1, size)
	put(0, size)
	put(len(body), 4)
	put(0, size)
	data = append(data, body...)
	c.Checkpoint() // a stack overflow kills the process: the driver turns this journal entry into the verdict
	var roots []*boc.Cell
	var perr error
	if p := core.Protect(func() error { roots, perr = boc.DeserializeBoc(data); return nil }); p != nil {
		return fmt.Errorf("DeserializeBoc of a chain of %d cells (%d bytes) panicked: %v", n, len(data), p)
	}
	if perr != nil {
		c.Class("refused by the parser")
		if n <= 1025 {
			return fmt.Errorf("a well-formed chain of %d cells (depth %d, within the limit of 1024) is refused: %v", n, n-1, perr)
		}
		return nil
	}
	c.Class("accepted by the parser")
	if len(roots) != 1 {
		return fmt.Errorf("%d roots", len(roots))
	}
	var herr error
	if p := core.Protect(func() error { _, herr = roots[0].Hash(); return nil }); p != nil {
		return fmt.Errorf("Hash() of the parsed chain of %d cells panicked: %v", n, p)
	}
	if n <= 1025 && herr != nil {
		return fmt.Errorf("Hash() of a chain of %d cells (depth %d): %v", n, n-1, herr)
	}
	if n > 1025 && herr == nil {
		return fmt.Errorf("Hash() of a chain of %d cells (depth %d > 1024) returned no error", n, n-1)
	}
	if p := core.Protect(func() error { _, _ = roots[0].ToBoc(); return nil }); p != nil {
		return fmt.Errorf("ToBoc() of the parsed chain of %d cells panicked: %v", n, p)
	}
	return nil
}}

func TestDeepChain(t *testing.T) {
	core.RunEnum(t, deepChain, "chains of 1, 2, 1024, 1025, 1026, 1027, 5000, 65537, 66561, 70000, 1000000, 4200000 and 8388609 cells (the last is a 48 MB input)", func(yield func(...uint64) bool) {
		// 65537..66561 and 128*65536+1: lengths at which a 16-bit depth counter would have wrapped to a small value
		for _, n := range []uint64{1, 2, 1024, 1025, 1026, 1027, 5000, 65537, 66561, 70000, 1000000, 4200000, 128*65536 + 1} {
			if !yield(n - 1) {
				return
			}
		}
	})
}
